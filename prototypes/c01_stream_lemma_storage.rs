// DESIGN-PHASE PROTOTYPE (round 0). Not part of the checking machinery; kept as evidence for DESIGN.md.
// Function bodies were pasted by hand from /repo for feasibility only; the real pipeline extracts them mechanically.
// Run: verus c01_stream_lemma_storage.rs
use vstd::prelude::*;
verus! {
pub struct SMsg { pub index: u32, pub bytes: Seq<u8> }
pub enum SParse { Msg(int, SMsg), Invalid, NotEnough }

pub open spec fn sh_pat(s: Seq<u8>, i: int) -> bool { 0 <= i && i + 4 <= s.len() && s[i] == 0x44 && s[i+1] == 0x4c && s[i+2] == 0x54 && s[i+3] == 0x01 }
pub open spec fn ser_pat(s: Seq<u8>, i: int) -> bool { 0 <= i && i + 4 <= s.len() && s[i] == 0x44 && s[i+1] == 0x4c && s[i+2] == 0x53 && s[i+3] == 0x01 }
pub open spec fn be16(a: u8, b: u8) -> int { a as int * 256 + b as int }
pub open spec fn hdr_size(htyp: u8) -> int {
    4 + (if htyp & 4 != 0 { 4int } else { 0 }) + (if htyp & 8 != 0 { 4int } else { 0 }) + (if htyp & 16 != 0 { 4int } else { 0 }) + (if htyp & 1 != 0 { 10int } else { 0 })
}
pub open spec fn inner_marker(d: Seq<u8>, n: int) -> bool { exists|i: int| 5 <= i < n && #[trigger] sh_pat(d, i) }

pub open spec fn spec_parse_storage(d: Seq<u8>, index: u32) -> SParse {
    if d.len() < 20 { SParse::NotEnough }
    else if !sh_pat(d, 0) { SParse::Invalid }
    else {
        let l = be16(d[18], d[19]); let h = hdr_size(d[16]);
        if l < h { SParse::Invalid }
        else if d.len() - 16 < l { SParse::NotEnough }
        else {
            let n = 16 + l;
            if d.len() - n >= 4 && !sh_pat(d, n) && inner_marker(d, n) { SParse::Invalid }
            else { SParse::Msg(n, SMsg { index, bytes: d.subrange(0, n) }) }
        }
    }
}
pub open spec fn spec_parse_serial(d: Seq<u8>, index: u32) -> SParse {
    if d.len() < 8 { SParse::NotEnough }
    else if !ser_pat(d, 0) { SParse::Invalid }
    else { SParse::Invalid } // (frame handling omitted in this prototype)
}

pub struct SNext { pub msg: Option<SMsg>, pub consumed: int, pub skipped: int, pub det_sto: bool, pub det_ser: bool }
pub open spec fn spec_next(u: Seq<u8>, det_sto: bool, det_ser: bool, index: u32) -> SNext
    decreases u.len()
{
    let sto = spec_parse_storage(u, index);
    let ser = spec_parse_serial(u, index);
    if !det_ser && sto is Msg {
        SNext { msg: Some(sto->Msg_1), consumed: sto->Msg_0, skipped: 0, det_sto: true, det_ser }
    } else if !det_ser && sto is NotEnough {
        SNext { msg: None, consumed: 0, skipped: 0, det_sto, det_ser }
    } else if !det_ser && det_sto {
        if u.len() == 0 { SNext { msg: None, consumed: 0, skipped: 0, det_sto, det_ser } } else {
        let r = spec_next(u.skip(1), det_sto, det_ser, index);
        SNext { msg: r.msg, consumed: r.consumed + 1, skipped: r.skipped + 1, det_sto: r.det_sto, det_ser: r.det_ser } }
    } else {
        if ser is Msg {
            SNext { msg: Some(ser->Msg_1), consumed: ser->Msg_0, skipped: 0, det_sto, det_ser: true }
        } else if ser is NotEnough {
            SNext { msg: None, consumed: 0, skipped: 0, det_sto, det_ser }
        } else if u.len() == 0 { SNext { msg: None, consumed: 0, skipped: 0, det_sto, det_ser } } else {
            let r = spec_next(u.skip(1), det_sto, det_ser, index);
            SNext { msg: r.msg, consumed: r.consumed + 1, skipped: r.skipped + 1, det_sto: r.det_sto, det_ser: r.det_ser }
        }
    }
}

// a well-formed storage frame of length n starts at offset g of u, and no marker of either kind
// starts anywhere in [0, g+n) except at g
pub open spec fn frame_at(u: Seq<u8>, g: int, n: int) -> bool {
    &&& 0 <= g && 20 <= n && g + n <= u.len()
    &&& sh_pat(u, g)
    &&& n == 16 + be16(u[g + 18], u[g + 19])
    &&& be16(u[g + 18], u[g + 19]) >= hdr_size(u[g + 16])
    &&& forall|i: int| 0 <= i < g + n && i != g ==> !sh_pat(u, i) && !ser_pat(u, i)
}

pub proof fn lemma_skip_pat(u: Seq<u8>, i: int)
    requires u.len() >= 1, i >= 0
    ensures sh_pat(u.skip(1), i) == sh_pat(u, i + 1), ser_pat(u.skip(1), i) == ser_pat(u, i + 1)
{}

pub proof fn lemma_next_storage(u: Seq<u8>, g: int, n: int, det_sto: bool, index: u32)
    requires frame_at(u, g, n)
    ensures ({
        let s = spec_next(u, det_sto, false, index);
        &&& s.msg == Some(SMsg { index, bytes: u.subrange(g, g + n) })
        &&& s.consumed == g + n && s.skipped == g && s.det_sto && !s.det_ser
    })
    decreases g
{
    if g == 0 {
        assert(!inner_marker(u, n)) by {
            assert forall|i: int| 5 <= i < n implies !sh_pat(u, i) by {}
        }
        assert(spec_parse_storage(u, index) is Msg);
    } else {
        assert(!sh_pat(u, 0) && !ser_pat(u, 0));
        assert(u.len() >= 21);
        let v = u.skip(1);
        assert(frame_at(v, g - 1, n)) by {
            assert forall|i: int| 0 <= i < g - 1 + n && i != g - 1 implies !sh_pat(v, i) && !ser_pat(v, i) by {
                lemma_skip_pat(u, i);
            }
            lemma_skip_pat(u, g - 1);
            assert(v[g - 1 + 18] == u[g + 18] && v[g - 1 + 19] == u[g + 19] && v[g - 1 + 16] == u[g + 16]);
        }
        lemma_next_storage(v, g - 1, n, det_sto, index);
        assert(v.subrange(g - 1, g - 1 + n) =~= u.subrange(g, g + n));
    }
}
fn main() {}
}
