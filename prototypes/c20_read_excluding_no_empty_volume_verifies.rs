// DESIGN-PHASE PROTOTYPE (round 0). Not part of the checking machinery; kept as evidence for DESIGN.md.
// SeekableChain::read body pasted verbatim from /repo/src/utils/seekablechain.rs (std::cmp::min -> vx_min_usize, R: Read+Seek -> VReadSeek).
// Run: verus c20_read_excluding_no_empty_volume_verifies.rs
use vstd::prelude::*;
use std::io::SeekFrom;
verus! {
global size_of usize == 8;

#[verifier::external_type_specification]
#[verifier::external_body]
pub struct ExIoError(std::io::Error);
#[verifier::external_type_specification]
pub struct ExSeekFrom(std::io::SeekFrom);
#[verifier::external_body]
pub fn vx_min_usize(a: usize, b: usize) -> (r: usize) ensures r == if a <= b { a } else { b } { std::cmp::min(a,b) }

pub trait VReadSeek {
    spec fn data(&self) -> Seq<u8>;
    spec fn pos(&self) -> int;
    fn read(&mut self, buf: &mut [u8]) -> (r: std::io::Result<usize>)
        ensures
            final(self).data() == old(self).data(),
            final(buf)@.len() == old(buf)@.len(),
            r is Ok ==> {
                let n = r->Ok_0 as int;
                let p = old(self).pos();
                let d = old(self).data();
                &&& n <= old(buf)@.len()
                &&& final(self).pos() == p + n
                &&& (p <= d.len() ==> p + n <= d.len() && final(buf)@.subrange(0, n) == d.subrange(p, p + n))
                &&& (p > d.len() ==> n == 0)
                &&& (n == 0 ==> old(buf)@.len() == 0 || p >= d.len())
            },
            r is Err ==> final(self).pos() == old(self).pos();
    fn seek(&mut self, pos: SeekFrom) -> (r: std::io::Result<u64>)
        ensures
            final(self).data() == old(self).data(),
            r is Ok ==> (pos matches SeekFrom::Start(p) ==> final(self).pos() == p && r->Ok_0 == p),
            r is Err ==> final(self).pos() == old(self).pos();
}

pub struct SeekableChain<RS: VReadSeek> {
    pub chain: Vec<(u64, RS)>,
    pub max_pos: u64,
    pub abs_pos: u64,
    pub cur_idx: usize,
    pub rel_pos: u64, // pos within the current reader
}

pub open spec fn sum_sizes<RS: VReadSeek>(c: Seq<(u64, RS)>, n: int) -> int
    decreases n
{
    if n <= 0 { 0 } else { sum_sizes(c, n - 1) + c[n - 1].0 as int }
}
pub open spec fn cat<RS: VReadSeek>(c: Seq<(u64, RS)>, n: int) -> Seq<u8>
    decreases n
{
    if n <= 0 { Seq::empty() } else { cat(c, n - 1) + c[n - 1].1.data() }
}
pub open spec fn sizes_match<RS: VReadSeek>(c: Seq<(u64, RS)>) -> bool {
    forall|i: int| 0 <= i < c.len() ==> (#[trigger] c[i]).0 == c[i].1.data().len()
}
pub proof fn lemma_sum_mono<RS: VReadSeek>(c: Seq<(u64, RS)>, a: int, b: int)
    requires 0 <= a <= b <= c.len()
    ensures sum_sizes(c, a) <= sum_sizes(c, b)
    decreases b - a
{
    if a < b { lemma_sum_mono(c, a, b - 1); }
}
pub proof fn lemma_sum_same<RS: VReadSeek>(c: Seq<(u64, RS)>, d: Seq<(u64, RS)>, n: int)
    requires 0 <= n <= c.len(), c.len() == d.len(), forall|i:int| 0 <= i < c.len() ==> (#[trigger] c[i]).0 == d[i].0
    ensures sum_sizes(c, n) == sum_sizes(d, n)
    decreases n
{
    if n > 0 { lemma_sum_same(c, d, n - 1); }
}
pub proof fn lemma_cat_same<RS: VReadSeek>(c: Seq<(u64, RS)>, d: Seq<(u64, RS)>, n: int)
    requires 0 <= n <= c.len(), c.len() == d.len(), forall|i:int| 0 <= i < c.len() ==> (#[trigger] c[i]).1.data() == d[i].1.data()
    ensures cat(c, n) == cat(d, n)
    decreases n
{
    if n > 0 { lemma_cat_same(c, d, n - 1); }
}
pub proof fn lemma_cat_len<RS: VReadSeek>(c: Seq<(u64, RS)>, n: int)
    requires 0 <= n <= c.len(), sizes_match(c)
    ensures cat(c, n).len() == sum_sizes(c, n)
    decreases n
{
    if n > 0 { lemma_cat_len(c, n - 1); }
}
// the bytes of volume i sit at offset sum_sizes(c,i) of the concatenation
pub proof fn lemma_cat_at<RS: VReadSeek>(c: Seq<(u64, RS)>, i: int, n: int, a: int, b: int)
    requires 0 <= i < n <= c.len(), sizes_match(c), 0 <= a <= b <= c[i].1.data().len()
    ensures cat(c, n).subrange(sum_sizes(c, i) + a, sum_sizes(c, i) + b) == c[i].1.data().subrange(a, b),
        sum_sizes(c, i) + b <= cat(c, n).len(),
    decreases n
{
    lemma_cat_len(c, n - 1);
    lemma_cat_len(c, n);
    lemma_cat_len(c, i);
    if i == n - 1 {
        assert(cat(c, n).subrange(sum_sizes(c, i) + a, sum_sizes(c, i) + b) =~= c[i].1.data().subrange(a, b));
    } else {
        lemma_cat_at(c, i, n - 1, a, b);
        lemma_sum_mono(c, i + 1, n - 1);
        assert(cat(c, n).subrange(sum_sizes(c, i) + a, sum_sizes(c, i) + b) =~= cat(c, n - 1).subrange(sum_sizes(c, i) + a, sum_sizes(c, i) + b));
    }
}

impl<RS: VReadSeek> SeekableChain<RS> {
    pub open spec fn all(&self) -> Seq<u8> { cat(self.chain@, self.chain@.len() as int) }
    pub open spec fn sizes_ok(&self) -> bool {
        &&& sizes_match(self.chain@)
        &&& self.max_pos == sum_sizes(self.chain@, self.chain@.len() as int)
        &&& self.chain@.len() < usize::MAX
    }
    pub open spec fn wf(&self) -> bool {
        &&& self.sizes_ok()
        &&& self.abs_pos <= self.max_pos
        &&& (self.cur_idx < self.chain@.len() ==> {
                &&& self.abs_pos == sum_sizes(self.chain@, self.cur_idx as int) + self.rel_pos
                &&& (self.rel_pos < self.chain@[self.cur_idx as int].0 || (self.rel_pos == 0 && self.chain@[self.cur_idx as int].0 == 0))
                &&& (self.rel_pos > 0 ==> self.chain@[self.cur_idx as int].1.pos() == self.rel_pos)
            })
        &&& (self.cur_idx >= self.chain@.len() ==> self.abs_pos == self.max_pos && self.rel_pos == 0)
    }
    pub open spec fn no_empty_volume(&self) -> bool {
        forall|i: int| 0 <= i < self.chain@.len() ==> (#[trigger] self.chain@[i]).0 > 0
    }

    fn read(&mut self, buf: &mut [u8]) -> (r: std::io::Result<usize>)
        requires old(self).wf(), old(self).no_empty_volume(),
        ensures
            final(buf)@.len() == old(buf)@.len(),
            r is Ok ==> final(self).wf(),
            r is Ok ==> final(self).all() == old(self).all(),
            r is Ok ==> final(self).abs_pos == old(self).abs_pos + r->Ok_0,
            r is Ok ==> old(self).abs_pos + r->Ok_0 <= old(self).all().len(),
            r is Ok ==> final(buf)@.subrange(0, r->Ok_0 as int) == old(self).all().subrange(old(self).abs_pos as int, old(self).abs_pos + r->Ok_0),
            // STRICT (property): end-of-file only at the end
            r is Ok ==> (r->Ok_0 == 0 ==> old(buf)@.len() == 0 || old(self).abs_pos >= old(self).all().len()),
    {
        if self.cur_idx >= self.chain.len() {
            proof { lemma_cat_len(self.chain@, self.chain@.len() as int); }
            assert(buf@.subrange(0, 0) =~= self.all().subrange(self.abs_pos as int, self.abs_pos as int));
            Ok(0)
        } else {
            // cur_idx is valid
            // read from current reader:
            let ghost pre = self.chain@;
            let ghost ci = self.cur_idx as int;
            let (max_pos, reader) = &mut self.chain[self.cur_idx];
            assert(*max_pos == pre[ci].0 && reader.data() == pre[ci].1.data() && reader.pos() == pre[ci].1.pos());
            if self.rel_pos == 0 {
                reader.seek(SeekFrom::Start(0))?; // todo optimize (only seek if needed)
            }
            assert(reader.pos() == self.rel_pos);
            assert(reader.data().len() == *max_pos);
            assert(self.rel_pos <= *max_pos);
            let max_read = vx_min_usize(max_pos.saturating_sub(self.rel_pos) as usize, buf.len());
            let read = reader.read(&mut buf[..max_read])?;
            assert(read as int + old(self).rel_pos <= *max_pos);
            self.rel_pos += read as u64;
            proof { lemma_sum_mono(pre, ci + 1, pre.len() as int); }
            self.abs_pos += read as u64;
            // check if we need to switch to the next reader
            if self.rel_pos >= *max_pos {
                self.cur_idx += 1;
                self.rel_pos = 0;
                // seek new reader to 0? reader.seek(SeekFrom::Start(pos))?; for now do it at the beginning of read
            }
            // todo check whether optimizing to fill full buffer is faster
            proof {
                let c = self.chain@;
                assert(c.len() == pre.len());
                assert(forall|j: int| 0 <= j < pre.len() ==> (#[trigger] c[j]).0 == pre[j].0);
                assert(forall|j: int| 0 <= j < pre.len() ==> (#[trigger] c[j]).1.data() == pre[j].1.data());
                lemma_sum_same(c, pre, pre.len() as int);
                lemma_sum_same(c, pre, ci);
                lemma_sum_same(c, pre, ci + 1);
                lemma_cat_same(c, pre, pre.len() as int);
                lemma_sum_mono(pre, ci + 1, pre.len() as int);
                lemma_cat_at(pre, ci, pre.len() as int, old(self).rel_pos as int, old(self).rel_pos as int + read as int);
            }
            Ok(read)
        }
    }
}
fn main() {}
}
