// DESIGN-PHASE PROTOTYPE (round 0). Not part of the checking machinery; kept as evidence for DESIGN.md.
// Function bodies were pasted by hand from /repo for feasibility only; the real pipeline extracts them mechanically.
// Run: verus c01_next_equals_spec_next.rs
use vstd::prelude::*;
verus! {
#[verifier::external_type_specification]
#[verifier::external_body]
pub struct ExIoError(std::io::Error);

// ---------- abstract parse results (oracle side) ----------
pub struct SMsg { pub index: u32, pub bytes: Seq<u8> }   // placeholder for the abstract message
pub enum SParse { Msg(int, SMsg), Invalid, NotEnough }

pub uninterp spec fn spec_parse_storage(d: Seq<u8>, index: u32) -> SParse;
pub uninterp spec fn spec_parse_serial(d: Seq<u8>, index: u32) -> SParse;
// facts proved in unit dltcore (here axioms for the prototype)
pub broadcast proof fn ax_parse_bounds(d: Seq<u8>, index: u32)
    ensures
        (#[trigger] spec_parse_storage(d, index) matches SParse::Msg(n, _) ==> 20 <= n <= d.len()),
        (spec_parse_storage(d, index) is Invalid ==> d.len() >= 20),
{ admit(); }
pub broadcast proof fn ax_parse_bounds_ser(d: Seq<u8>, index: u32)
    ensures
        (#[trigger] spec_parse_serial(d, index) matches SParse::Msg(n, _) ==> 8 <= n <= d.len()),
        (spec_parse_serial(d, index) is Invalid ==> d.len() >= 8),
{ admit(); }

// visibility: a prefix that is long enough decides the parse
pub open spec fn visible_ok(p: Seq<u8>, u: Seq<u8>, index: u32) -> bool {
    p.is_prefix_of(u) && spec_parse_storage(p, index) == spec_parse_storage(u, index)
        && spec_parse_serial(p, index) == spec_parse_serial(u, index)
}

pub trait VBufRead {
    spec fn unread(&self) -> Seq<u8>;
    fn fill_buf(&mut self) -> (r: std::io::Result<&[u8]>)
        ensures
            final(self).unread() == old(self).unread(),
            r is Ok,
            r->Ok_0@.is_prefix_of(old(self).unread()),
            forall|index: u32| #[trigger] spec_parse_storage(r->Ok_0@, index) == spec_parse_storage(old(self).unread(), index),
            forall|index: u32| #[trigger] spec_parse_serial(r->Ok_0@, index) == spec_parse_serial(old(self).unread(), index);
    fn consume(&mut self, amt: usize)
        requires amt <= old(self).unread().len(),
        ensures final(self).unread() == old(self).unread().skip(amt as int);
}
pub struct Error { pub kind: ErrorKind }
impl Error {
    pub fn kind(&self) -> (r: &ErrorKind) ensures *r == self.kind { &self.kind }
}
pub enum ErrorKind { InvalidData(String), NotEnoughData(usize), OtherFatal(String) }
pub struct DltMessage { pub index: u32, pub g: Ghost<SMsg> }
pub type DltMessageIndexType = u32;

pub open spec fn res_matches(r: Result<(usize, DltMessage), Error>, s: SParse) -> bool {
    match s {
        SParse::Msg(n, m) => r is Ok && r->Ok_0.0 == n && r->Ok_0.1.g@ == m,
        SParse::Invalid => r is Err && r->Err_0.kind is InvalidData,
        SParse::NotEnough => r is Err && r->Err_0.kind is NotEnoughData,
    }
}

#[verifier::external_body]
pub fn parse_dlt_with_storage_header(index: u32, data: &[u8]) -> (r: Result<(usize, DltMessage), Error>)
    ensures res_matches(r, spec_parse_storage(data@, index)),
        r is Ok ==> 20 <= r->Ok_0.0 <= data@.len(),
        (r is Err && r->Err_0.kind is InvalidData) ==> data@.len() >= 20,
{ unimplemented!() }
#[verifier::external_body]
pub fn parse_dlt_with_serial_header(index: u32, data: &[u8]) -> (r: Result<(usize, DltMessage), Error>)
    ensures res_matches(r, spec_parse_serial(data@, index)),
        r is Ok ==> 8 <= r->Ok_0.0 <= data@.len(),
        (r is Err && r->Err_0.kind is InvalidData) ==> data@.len() >= 8,
{ unimplemented!() }

pub struct DltMessageIterator<R> {
    pub reader: R,
    pub index: DltMessageIndexType,
    pub bytes_processed: usize,
    pub bytes_skipped: usize,
    pub detected_storage_header: bool,
    pub detected_serial_header: bool,
    pub log_skipped: Option<(DltMessageIndexType, usize, String)>,
}

// ---------- the spec of one call of next(), as a function of the unread stream only ----------
pub struct SNext { pub msg: Option<SMsg>, pub consumed: int, pub skipped: int, pub det_sto: bool, pub det_ser: bool }

pub open spec fn spec_next(u: Seq<u8>, det_sto: bool, det_ser: bool, index: u32) -> SNext
    decreases u.len()
{
    let sto = spec_parse_storage(u, index);
    let ser = spec_parse_serial(u, index);
    if !det_ser && sto is Msg {
        SNext { msg: Some(sto->Msg_1), consumed: sto->Msg_0, skipped: 0, det_sto: true, det_ser }
    } else if !det_ser && sto is NotEnough {
        SNext { msg: None, consumed: 0, skipped: 0, det_sto, det_ser }
    } else if !det_ser && det_sto {
        // invalid, storage latched: skip one byte
        if u.len() == 0 { SNext { msg: None, consumed: 0, skipped: 0, det_sto, det_ser } } else {
        let r = spec_next(u.skip(1), det_sto, det_ser, index);
        SNext { msg: r.msg, consumed: r.consumed + 1, skipped: r.skipped + 1, det_sto: r.det_sto, det_ser: r.det_ser } }
    } else {
        // serial attempt (either serial latched, or nothing latched and storage said Invalid)
        if ser is Msg {
            SNext { msg: Some(ser->Msg_1), consumed: ser->Msg_0, skipped: 0, det_sto, det_ser: true }
        } else if ser is NotEnough {
            SNext { msg: None, consumed: 0, skipped: 0, det_sto, det_ser }
        } else if u.len() == 0 { SNext { msg: None, consumed: 0, skipped: 0, det_sto, det_ser } } else {
            let r = spec_next(u.skip(1), det_sto, det_ser, index);
            SNext { msg: r.msg, consumed: r.consumed + 1, skipped: r.skipped + 1, det_sto: r.det_sto, det_ser: r.det_ser }
        }
    }
}

impl<R> DltMessageIterator<R>
where
    R: VBufRead,
{
    pub open spec fn wf(&self) -> bool {
        &&& !(self.detected_storage_header && self.detected_serial_header)
        &&& self.bytes_skipped <= self.bytes_processed
        &&& self.bytes_processed + self.reader.unread().len() <= usize::MAX
    }

    fn next(&mut self) -> (ret: Option<DltMessage>)
        requires old(self).wf(), old(self).index < u32::MAX,
        ensures
            final(self).wf(),
            ({
                let s = spec_next(old(self).reader.unread(), old(self).detected_storage_header, old(self).detected_serial_header, old(self).index);
                &&& (ret is Some <==> s.msg is Some)
                &&& (ret is Some ==> ret->Some_0.g@ == s.msg->Some_0 && final(self).index == old(self).index + 1)
                &&& (ret is None ==> final(self).index == old(self).index)
                &&& final(self).reader.unread() == old(self).reader.unread().skip(s.consumed)
                &&& final(self).bytes_processed == old(self).bytes_processed + s.consumed
                &&& final(self).bytes_skipped == old(self).bytes_skipped + s.skipped
                &&& final(self).detected_storage_header == s.det_sto
                &&& final(self).detected_serial_header == s.det_ser
            }),
    {
        let ghost u0 = self.reader.unread();
        let ghost k: int = 0;   // bytes skipped so far in this call
        loop
            invariant
                self.wf(),
                self.index == old(self).index,
                self.detected_storage_header == old(self).detected_storage_header,
                self.detected_serial_header == old(self).detected_serial_header,
                0 <= k <= u0.len(),
                self.reader.unread() == u0.skip(k),
                self.bytes_processed == old(self).bytes_processed + k,
                self.bytes_skipped == old(self).bytes_skipped + k,
                u0 == old(self).reader.unread(),
                self.index < u32::MAX,
                ({
                    let s0 = spec_next(u0, self.detected_storage_header, self.detected_serial_header, self.index);
                    let s = spec_next(u0.skip(k), self.detected_storage_header, self.detected_serial_header, self.index);
                    s0.msg == s.msg && s0.consumed == s.consumed + k && s0.skipped == s.skipped + k && s0.det_sto == s.det_sto && s0.det_ser == s.det_ser
                }),
            ensures
                // reached by `break` only: spec says Stop here
                self.wf(),
                self.index == old(self).index,
                self.detected_storage_header == old(self).detected_storage_header,
                self.detected_serial_header == old(self).detected_serial_header,
                0 <= k <= u0.len(),
                self.reader.unread() == u0.skip(k),
                self.bytes_processed == old(self).bytes_processed + k,
                self.bytes_skipped == old(self).bytes_skipped + k,
                ({
                    let s0 = spec_next(u0, self.detected_storage_header, self.detected_serial_header, self.index);
                    s0.msg is None && s0.consumed == k && s0.skipped == k && s0.det_sto == self.detected_storage_header && s0.det_ser == self.detected_serial_header
                }),
            decreases u0.len() - k,
        {
            let ghost u = self.reader.unread();
            // default search with storage header
            if !self.detected_serial_header {
                match parse_dlt_with_storage_header(self.index, self.reader.fill_buf().unwrap()) {
                    Ok((res, msg)) => {
                        self.reader.consume(res);
                        self.bytes_processed += res;
                        self.index += 1;
                        self.detected_storage_header = true;
                        proof { assert(u0.skip(k).skip(res as int) =~= u0.skip(k + res)); }
                        return Some(msg);
                    }
                    Err(error) => match error.kind() {
                        ErrorKind::InvalidData(_str) => {
                            if self.detected_storage_header {
                                self.bytes_processed += 1;
                                self.bytes_skipped += 1;
                                self.reader.consume(1);
                                proof { assert(u0.skip(k).skip(1) =~= u0.skip(k + 1)); k = k + 1; }
                            } // else we'll try serial first
                              // we loop here again
                        }
                        _ => {
                            break;
                        }
                    },
                }
            }
            if !self.detected_storage_header {
                match parse_dlt_with_serial_header(self.index, self.reader.fill_buf().unwrap()) {
                    Ok((res, msg)) => {
                        if let Some((l_index, l_bytes_processed, reason)) = &self.log_skipped {
                            self.log_skipped = None;
                        }
                        self.reader.consume(res);
                        self.bytes_processed += res;
                        self.index += 1;
                        self.detected_serial_header = true;
                        proof { assert(u0.skip(k).skip(res as int) =~= u0.skip(k + res)); }
                        return Some(msg);
                    }
                    Err(error) => match error.kind() {
                        ErrorKind::InvalidData(reason) => {
                            self.bytes_processed += 1;
                            self.bytes_skipped += 1;
                            self.reader.consume(1);
                            proof { assert(u0.skip(k).skip(1) =~= u0.skip(k + 1)); k = k + 1; }
                            // we loop here again
                        }
                        _ => {
                            break;
                        }
                    },
                }
            }
        }
        None
    }
}
fn main() {}
}
