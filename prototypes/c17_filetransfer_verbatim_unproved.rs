// DESIGN-PHASE PROTOTYPE (round 0). Not part of the checking machinery; kept as evidence for DESIGN.md.
// Function bodies were pasted by hand from /repo for feasibility only; the real pipeline extracts them mechanically.
// Run: verus c17_filetransfer_verbatim_unproved.rs
#![feature(allocator_api)]
use vstd::prelude::*;
verus! {
#[derive(PartialEq)]
pub enum FileTransferState { MissingStart, Started, Complete, Incomplete }
pub struct DltArg<'a> { pub type_info: u32, pub is_big_endian: bool, pub payload_raw: &'a [u8] }
pub struct FileTransfer {
    pub state: FileTransferState,
    pub file_size: u64,
    pub nr_packages: u64,
    pub buffer_size: u64,
    pub next_package: u64,
    pub recvd_packages: u64,
    pub recvd_payload: usize,
    pub file_data: Vec<u8>,
}
pub assume_specification<T, A: std::alloc::Allocator> [Vec::<T, A>::capacity] (v: &Vec<T, A>) -> (r: usize)
    ensures r >= v@.len();

impl FileTransfer {
    fn add_flda(&mut self, package_nr: u64, arg: &DltArg) -> bool {
        // auto-learn package size?
        if package_nr == 1 && self.buffer_size == 0 {
            self.buffer_size = arg.payload_raw.len() as u64;
        }

        if self.state == FileTransferState::Started || self.state == FileTransferState::MissingStart
        {
            self.recvd_packages += 1;
            if package_nr == self.next_package {
                // package contains data?
                if arg.payload_raw.len() as u64 == self.buffer_size
                    || (self.next_package == self.nr_packages
                        && (arg.payload_raw.len() as u64) < self.buffer_size)
                // last package may be smaller
                {
                    self.next_package += 1;
                    self.recvd_payload += arg.payload_raw.len();
                    if self.file_data.capacity() > 0 {
                        self.file_data.extend_from_slice(arg.payload_raw);
                    }
                }
            }
            self.check_finished(false)
        } else {
            false
        }
    }
    fn check_finished(&mut self, from_flfi: bool) -> bool {
        if from_flfi {
            if self.recvd_packages == self.next_package - 1 {
                if self.state == FileTransferState::MissingStart {
                    // we missed the start but got all others
                    self.state = FileTransferState::Complete;
                    if self.file_size == 0 {
                        self.file_size = self.recvd_payload as u64;
                    }
                    true
                } else {
                    false
                }
            } else {
                self.state = FileTransferState::Incomplete;
                true
            }
        } else if self.next_package > self.nr_packages
            && (self.file_size == 0 || self.file_size as usize == self.recvd_payload)
        {
            self.file_size = self.recvd_payload as u64;
            self.state = FileTransferState::Complete;
            true
        } else if self.recvd_packages >= self.nr_packages {
            self.state = FileTransferState::Incomplete;
            true
        } else {
            false
        }
    }
}
fn main() {}
}
