// DESIGN-PHASE PROTOTYPE (round 0). Not part of the checking machinery; kept as evidence for DESIGN.md.
// Function bodies were pasted by hand from /repo for feasibility only; the real pipeline extracts them mechanically.
// Run: verus c18_subslice_lifetime.rs
use vstd::prelude::*;
verus! {
pub struct M { pub payload: Vec<u8> }
pub struct A<'a> { pub raw: &'a [u8] }
pub struct It<'a> { pub msg: &'a M, pub index: usize }
impl<'a> It<'a> {
    fn nx(&mut self, len: usize) -> (r: Option<A<'a>>)
        requires old(self).index + len <= usize::MAX
        ensures r is Some ==> r->Some_0.raw@ == old(self).msg.payload@.subrange(old(self).index as int, old(self).index + len),
    {
        let to_ret = if self.msg.payload.len() >= self.index + len {
            Some(A { raw: &self.msg.payload[self.index..self.index + len] })
        } else { None };
        self.index += len;
        to_ret
    }
}
fn main() {}
}
