// DESIGN-PHASE PROTOTYPE (round 0). Not part of the checking machinery; kept as evidence for DESIGN.md.
// parse_dlt_with_storage_header and helpers pasted verbatim from /repo/src/dlt/mod.rs (from_*_bytes, Vec::from -> vx_* wrappers; DltMessage reduced to 4 fields).
// Result: the real parser equals the total oracle spec_parse_storage (Msg/Invalid/NotEnough, length, payload bytes). Run: verus c01_parse_storage_equals_oracle.rs
// DESIGN-PHASE PROTOTYPE (round 0). Not part of the checking machinery; kept as evidence for DESIGN.md.
// Function bodies were pasted by hand from /repo for feasibility only; the real pipeline extracts them mechanically.
// Run: verus c01_parse_storage_verbatim_partial.rs
use vstd::prelude::*;
verus! {

pub open spec fn le32b(b0: u8, b1: u8, b2: u8, b3: u8) -> u32 {
    ((b0 as u32) | ((b1 as u32) << 8) | ((b2 as u32) << 16) | ((b3 as u32) << 24)) as u32
}
pub open spec fn le32(b: [u8;4]) -> u32 { le32b(b[0], b[1], b[2], b[3]) }
pub proof fn lemma_le32_pat(b0: u8, b1: u8, b2: u8, b3: u8)
    ensures le32b(b0,b1,b2,b3) == 0x01544c44u32 <==> (b0 == 0x44 && b1 == 0x4c && b2 == 0x54 && b3 == 0x01)
{
    assert(((b0 as u32) | ((b1 as u32) << 8) | ((b2 as u32) << 16) | ((b3 as u32) << 24)) == 0x01544c44u32 <==> (b0 == 0x44 && b1 == 0x4c && b2 == 0x54 && b3 == 0x01)) by(bit_vector);
}

#[verifier::external_body]
pub fn vx_u32_from_le_bytes(b: [u8;4]) -> (r: u32) ensures r == le32(b) { u32::from_le_bytes(b) }
#[verifier::external_body]
pub fn vx_u16_from_be_bytes(b: [u8;2]) -> (r: u16) ensures r == ((b[0] as u16) << 8 | (b[1] as u16)) { u16::from_be_bytes(b) }

#[verifier::external_body]
pub fn vx_vec_from_slice(s: &[u8]) -> (r: Vec<u8>) ensures r@ == s@ { Vec::from(s) }
pub const US_PER_SEC: u64 = 1_000_000;

#[derive(Clone, Copy)]
pub struct DltChar4 {
    pub char4: [u8; 4],
}
impl DltChar4 {
    pub fn from_buf(buf: &[u8]) -> (r: DltChar4)
        requires buf.len() == 4,
        ensures r.char4@ == buf@,
    {
        assert(4 == buf.len());
        DltChar4 {
            char4: [buf[0], buf[1], buf[2], buf[3]],
        }
    }
}

pub struct DltStorageHeader {
    pub secs: u32,
    pub micros: u32,
    pub ecu: DltChar4,
}

pub const DLT_STORAGE_HEADER_PATTERN: u32 = 0x01544c44; // DLT\01
pub const DLT_STORAGE_HEADER_SIZE: usize = 16; // DLT\0x1 + secs, micros, ecu

impl DltStorageHeader {
    fn from_buf(buf: &[u8]) -> (r: Option<DltStorageHeader>)
        ensures r is Some <==> (buf@.len() >= 16 && spec_is_sh_pat(buf@, 0)),
    {
        if buf.len() < 16 {
            return None;
        }
        let pat = vx_u32_from_le_bytes([buf[0], buf[1], buf[2], buf[3]]);
        proof { lemma_le32_pat(buf[0], buf[1], buf[2], buf[3]); }
        if pat != DLT_STORAGE_HEADER_PATTERN {
            return None;
        }
        let sh = DltStorageHeader {
            // pattern: pat,
            secs: vx_u32_from_le_bytes([buf[4], buf[5], buf[6], buf[7]]),
            micros: vx_u32_from_le_bytes([buf[8], buf[9], buf[10], buf[11]]),
            ecu: DltChar4::from_buf(&buf[12..16]),
        };
        Some(sh)
    }
    fn reception_time_us(&self) -> u64 {
        (self.secs as u64 * US_PER_SEC) + self.micros as u64
    }
}


pub const DLT_MIN_STD_HEADER_SIZE: usize = 4;
pub const MIN_DLT_MSG_SIZE: usize = DLT_STORAGE_HEADER_SIZE + DLT_MIN_STD_HEADER_SIZE;
pub const DLT_EXT_HEADER_SIZE: usize = 10;
pub const DLT_STD_HDR_HAS_EXT_HDR: u8 = 1;
pub const DLT_STD_HDR_BIG_ENDIAN: u8 = 1 << 1;
pub const DLT_STD_HDR_HAS_ECU_ID: u8 = 1 << 2;
pub const DLT_STD_HDR_HAS_SESSION_ID: u8 = 1 << 3;
pub const DLT_STD_HDR_HAS_TIMESTAMP: u8 = 1 << 4;

pub open spec fn spec_hdr_size(htyp: u8) -> u16 {
    (4 + (if htyp & 4 > 0 { 4int } else { 0 }) + (if htyp & 8 > 0 { 4int } else { 0 }) + (if htyp & 16 > 0 { 4int } else { 0 }) + (if htyp & 1 > 0 { 10int } else { 0 })) as u16
}
pub struct DltStandardHeader {
    pub htyp: u8,
    pub mcnt: u8,
    pub len: u16,
}

impl DltStandardHeader {
    pub fn from_buf(buf: &[u8]) -> (r: Option<DltStandardHeader>)
        ensures buf.len() >= 4 ==> r.is_some() && r.unwrap().htyp == buf@[0] && r.unwrap().mcnt == buf@[1]
           && r.unwrap().len == ((buf@[2] as u16) << 8 | (buf@[3] as u16)),
           buf.len() < 4 ==> r.is_none(),
    {
        if buf.len() < 4 {
            return None;
        }
        let htyp = buf[0];
        let sh = DltStandardHeader {
            htyp,
            mcnt: buf[1],
            len: vx_u16_from_be_bytes([buf[2], buf[3]]), // all big endian includes std.header, ext header and the payload
        };
        Some(sh)
    }
    pub fn std_ext_header_size(&self) -> (r: u16)
        ensures r == spec_hdr_size(self.htyp), 4 <= r <= 26,
    {
        let mut length = DLT_MIN_STD_HEADER_SIZE as u16;
        if self.has_ecu_id() {
            length += 4;
        }
        if self.has_session_id() {
            length += 4;
        }
        if self.has_timestamp() {
            length += 4;
        }

        if self.has_ext_hdr() {
            length += DLT_EXT_HEADER_SIZE as u16;
        }
        length
    }
    #[inline(always)]
    pub fn has_ext_hdr(&self) -> (r: bool)
        ensures r == (self.htyp & 1 != 0)
    {
        proof { assert((1u8 << 1) == 2u8 && (1u8 << 2) == 4u8 && (1u8 << 3) == 8u8 && (1u8 << 4) == 16u8) by(bit_vector); let h = self.htyp; assert(((h & 1) > 0) == (h & 1 != 0)) by(bit_vector); }
        (self.htyp & DLT_STD_HDR_HAS_EXT_HDR) > 0
    }

    #[inline(always)]
    pub fn is_big_endian(&self) -> (r: bool)
        ensures r == (self.htyp & 2 != 0)
    {
        proof { assert((1u8 << 1) == 2u8 && (1u8 << 2) == 4u8 && (1u8 << 3) == 8u8 && (1u8 << 4) == 16u8) by(bit_vector); let h = self.htyp; assert(((h & 2) > 0) == (h & 2 != 0)) by(bit_vector); }
        (self.htyp & DLT_STD_HDR_BIG_ENDIAN) > 0
    }

    #[inline(always)]
    pub fn has_ecu_id(&self) -> (r: bool)
        ensures r == (self.htyp & 4 != 0)
    {
        proof { assert((1u8 << 1) == 2u8 && (1u8 << 2) == 4u8 && (1u8 << 3) == 8u8 && (1u8 << 4) == 16u8) by(bit_vector); let h = self.htyp; assert(((h & 4) > 0) == (h & 4 != 0)) by(bit_vector); }
        (self.htyp & DLT_STD_HDR_HAS_ECU_ID) > 0
    }

    #[inline(always)]
    pub fn has_session_id(&self) -> (r: bool)
        ensures r == (self.htyp & 8 != 0)
    {
        proof { assert((1u8 << 1) == 2u8 && (1u8 << 2) == 4u8 && (1u8 << 3) == 8u8 && (1u8 << 4) == 16u8) by(bit_vector); let h = self.htyp; assert(((h & 8) > 0) == (h & 8 != 0)) by(bit_vector); }
        (self.htyp & DLT_STD_HDR_HAS_SESSION_ID) > 0
    }

    #[inline(always)]
    pub fn has_timestamp(&self) -> (r: bool)
        ensures r == (self.htyp & 16 != 0)
    {
        proof { assert((1u8 << 1) == 2u8 && (1u8 << 2) == 4u8 && (1u8 << 3) == 8u8 && (1u8 << 4) == 16u8) by(bit_vector); let h = self.htyp; assert(((h & 16) > 0) == (h & 16 != 0)) by(bit_vector); }
        (self.htyp & DLT_STD_HDR_HAS_TIMESTAMP) > 0
    }
}

#[inline]
pub fn is_storage_header_pattern(buf: &[u8]) -> (r: bool)
    ensures r == spec_is_sh_pat(buf@, 0),
{
    if buf.len() < 4 {
        return false;
    }

    let pat = vx_u32_from_le_bytes([buf[0], buf[1], buf[2], buf[3]]);
    proof { lemma_le32_pat(buf[0], buf[1], buf[2], buf[3]); }
    pat == DLT_STORAGE_HEADER_PATTERN
    // that's significantly slower: buf[0] == b'D' && buf[1] == b'L' && buf[2] == b'T' && buf[3] == 0x1u8
}

#[derive(Debug)]
pub struct Error {
    pub kind: ErrorKind,
}

impl Error {
    pub fn new(kind: ErrorKind) -> (r: Error)
        ensures r.kind == kind
    {
        Error { kind }
    }

    pub fn kind(&self) -> &ErrorKind {
        &self.kind
    }
}
#[derive(Debug)]
pub enum ErrorKind {
    InvalidData(String),
    NotEnoughData(usize),
    OtherFatal(String),
}

pub type DltMessageIndexType = u32;
pub proof fn lemma_pat_suffix(d: Seq<u8>, i: int)
    requires 0 <= i <= d.len()
    ensures spec_is_sh_pat(d.subrange(i, d.len() as int), 0) == spec_is_sh_pat(d, i)
{}
pub enum SParse { Msg(int, int), Invalid, NotEnough }
pub open spec fn be16(a: u8, b: u8) -> int { ((a as u16) << 8 | (b as u16)) as int }
pub open spec fn inner_marker(d: Seq<u8>, n: int) -> bool { exists|i: int| 5 <= i < n && #[trigger] spec_is_sh_pat(d, i) }
pub open spec fn spec_parse_storage(d: Seq<u8>) -> SParse {
    if d.len() < 20 { SParse::NotEnough }
    else if !spec_is_sh_pat(d, 0) { SParse::Invalid }
    else {
        let l = be16(d[18], d[19]); let h = spec_hdr_size(d[16]) as int;
        if l < h { SParse::Invalid }
        else if d.len() - 16 < l { SParse::NotEnough }
        else {
            let n = 16 + l;
            if d.len() - n >= 4 && !spec_is_sh_pat(d, n) && inner_marker(d, n) { SParse::Invalid }
            else { SParse::Msg(n, 16 + h) }
        }
    }
}

pub open spec fn spec_is_sh_pat(s: Seq<u8>, i: int) -> bool {
    i + 4 <= s.len() && s[i] == 0x44 && s[i+1] == 0x4c && s[i+2] == 0x54 && s[i+3] == 0x01
}

pub struct DltMessage {
    pub index: DltMessageIndexType,
    pub reception_time_us: u64, // from storage header, ms would be sufficent but needs same 64 bit
    pub ecu: DltChar4,
    pub payload: Vec<u8>,
}

pub fn parse_dlt_with_storage_header(
    index: DltMessageIndexType,
    data: &[u8],
) -> (res: Result<(usize, DltMessage), Error>)
    ensures
        match spec_parse_storage(data@) {
            SParse::Msg(n, pay_off) => res is Ok && res->Ok_0.0 == n && res->Ok_0.1.index == index
                && res->Ok_0.1.payload@ == data@.subrange(pay_off, n),
            SParse::Invalid => res is Err && res->Err_0.kind is InvalidData,
            SParse::NotEnough => res is Err && res->Err_0.kind is NotEnoughData,
        }
{
    let mut remaining = data.len();

    if remaining >= MIN_DLT_MSG_SIZE {
        match DltStorageHeader::from_buf(data) {
            Some(sh) => {
                remaining -= DLT_STORAGE_HEADER_SIZE;
                let stdh = DltStandardHeader::from_buf(&data[DLT_STORAGE_HEADER_SIZE..])
                    .expect("no valid stdheader!");
                let std_ext_header_size = stdh.std_ext_header_size();
                if stdh.len >= std_ext_header_size {
                    // do we have the remaining data?
                    if remaining >= stdh.len as usize {
                        remaining -= std_ext_header_size as usize;
                        let payload_offset = DLT_STORAGE_HEADER_SIZE + std_ext_header_size as usize;
                        let payload_size = stdh.len - std_ext_header_size;
                        remaining -= payload_size as usize;
                        let to_consume = data.len() - remaining;

                        proof { lemma_pat_suffix(data@, to_consume as int); }
                        if remaining >= 4 && !is_storage_header_pattern(&data[to_consume..]) {
                            // the new msg would be from [0..to_consume]
                            // is a 2nd storage header within data[5]..data[to_consume+3]?
                            for i in 5..to_consume
                                invariant to_consume <= data.len(),
                                    forall|j: int| 5 <= j < i ==> !spec_is_sh_pat(data@, j),
                                    spec_parse_storage(data@) == (if inner_marker(data@, to_consume as int) { SParse::Invalid } else { SParse::Msg(to_consume as int, payload_offset as int) }),
                                    payload_offset + payload_size == to_consume, payload_offset <= to_consume,
                            {
                                proof { lemma_pat_suffix(data@, i as int); }
                                if is_storage_header_pattern(&data[i..]) {
                                    // yes, lets use that.
                                    // we simply return an error here and let the usual skip logic apply
                                    return Err(Error::new(ErrorKind::InvalidData(
                                                String::from("skipped probably corrupt msg due to storage header pattern heuristic"),
                                            )));
                                }
                            }
                        }

                        let payload = vx_vec_from_slice(
                            &data[payload_offset..payload_offset + payload_size as usize],
                        );
                        let msg = DltMessage{index, reception_time_us: sh.reception_time_us(), ecu: sh.ecu, payload};
                        proof {
                            assert(stdh.len as int == be16(data@[18], data@[19]));
                            assert(std_ext_header_size as int == spec_hdr_size(data@[16]) as int);
                            assert(!(data@.len() - to_consume >= 4 && !spec_is_sh_pat(data@, to_consume as int) && inner_marker(data@, to_consume as int)));
                        }
                        Ok((to_consume, msg))
                    } else {
                        Err(Error::new(ErrorKind::NotEnoughData(
                            stdh.len as usize - remaining,
                        )))
                    }
                } else {
                    Err(Error::new(ErrorKind::InvalidData(String::from(
                        "stdh.len too small",
                    ))))
                }
            }
            None => Err(Error::new(ErrorKind::InvalidData(String::from(
                "no storageheader",
            )))),
        }
    } else {
        Err(Error::new(ErrorKind::NotEnoughData(
            MIN_DLT_MSG_SIZE - remaining,
        )))
    }
}

fn main() {}
}
