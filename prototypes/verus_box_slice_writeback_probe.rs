// DESIGN-PHASE PROTOTYPE (round 0). Not part of the checking machinery; kept as evidence for DESIGN.md.
// Function bodies were pasted by hand from /repo for feasibility only; the real pipeline extracts them mechanically.
// Run: verus verus_box_slice_writeback_probe.rs
use vstd::prelude::*;
verus! {
fn set0(s: &mut [u8]) requires old(s)@.len() > 0 ensures final(s)@.len() == old(s)@.len(), final(s)@[0] == 7, { s[0] = 7; }
pub struct S { pub buf: Box<[u8]>, pub cap: usize }
impl S {
fn g(&mut self)
    requires old(self).buf@.len() >= 4, old(self).cap == 2,
    ensures final(self).buf@.len() == old(self).buf@.len(), final(self).buf@[2] == 7, final(self).buf@[0] == old(self).buf@[0],
{
    set0(&mut (*self.buf)[self.cap..]);
}
fn g2(&mut self)
    requires old(self).buf@.len() >= 4, old(self).cap == 2,
    ensures final(self).buf@.len() == old(self).buf@.len(), final(self).buf@[2] == 7, final(self).buf@[0] == old(self).buf@[0],
{
    let s: &mut [u8] = &mut *self.buf;
    set0(&mut s[self.cap..]);
}
}
fn main() {}
}
