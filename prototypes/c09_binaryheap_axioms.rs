// DESIGN-PHASE PROTOTYPE (round 0). Not part of the checking machinery; kept as evidence for DESIGN.md.
// Function bodies were pasted by hand from /repo for feasibility only; the real pipeline extracts them mechanically.
// Run: verus c09_binaryheap_axioms.rs
#![feature(allocator_api)]
use vstd::prelude::*;
use std::collections::BinaryHeap;
use std::cmp::Ordering;
use std::alloc::Allocator;
use vstd::multiset::Multiset;
verus! {
pub struct M { pub t: u64, pub index: u32 }
pub struct E { pub m: M, pub src: usize }
impl Ord for E {
    fn cmp(&self, other: &Self) -> Ordering {
        other.m.t.cmp(&self.m.t) // reversed
    }
}
impl PartialOrd for E {
    fn partial_cmp(&self, other: &Self) -> Option<Ordering> {
        Some(self.cmp(other))
    }
}
impl PartialEq for E {
    fn eq(&self, other: &Self) -> bool {
        self.m.t == other.m.t
    }
}
impl Eq for E {}

#[verifier::external_type_specification]
#[verifier::external_body]
#[verifier::accept_recursive_types(T)]
#[verifier::reject_recursive_types(A)]
pub struct ExBinaryHeap<T, A: Allocator>(BinaryHeap<T, A>);

pub uninterp spec fn heap_view<T, A: Allocator>(h: &BinaryHeap<T, A>) -> Multiset<T>;

pub assume_specification<T: Ord, A: Allocator> [BinaryHeap::<T, A>::pop] (h: &mut BinaryHeap<T, A>) -> (r: Option<T>)
    ensures
        r is None ==> heap_view(old(h)).len() == 0 && heap_view(final(h)) == heap_view(old(h)),
        r is Some ==> heap_view(old(h)).count(r->Some_0) > 0 && heap_view(final(h)) == heap_view(old(h)).remove(r->Some_0),
;
pub assume_specification<T: Ord, A: Allocator> [BinaryHeap::<T, A>::push] (h: &mut BinaryHeap<T, A>, item: T)
    ensures heap_view(final(h)) == heap_view(old(h)).insert(item);

pub struct S { pub index: u32, pub min_heap: BinaryHeap<E> }
impl S {
    fn next(&mut self) -> Option<M> {
        let heap_entry = self.min_heap.pop();
        if let Some(heap_entry) = heap_entry {
            let mut m = heap_entry.m;
            m.index = self.index;
            self.index += 1;
            Some(m)
        } else {
            None
        }
    }
}
fn main() {}
}
