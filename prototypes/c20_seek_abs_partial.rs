// DESIGN-PHASE PROTOTYPE (round 0). Not part of the checking machinery; kept as evidence for DESIGN.md.
// Function bodies were pasted by hand from /repo for feasibility only; the real pipeline extracts them mechanically.
// Run: verus c20_seek_abs_partial.rs
use vstd::prelude::*;
use std::io::SeekFrom;
verus! {

#[verifier::external_type_specification]
#[verifier::external_body]
pub struct ExIoError(std::io::Error);

#[verifier::external_type_specification]
pub struct ExSeekFrom(std::io::SeekFrom);

#[verifier::external_body]
pub fn vx_min_usize(a: usize, b: usize) -> (r: usize) ensures r == if a <= b { a } else { b } { std::cmp::min(a,b) }

pub trait VReadSeek {
    spec fn data(&self) -> Seq<u8>;
    spec fn pos(&self) -> int;
    fn read(&mut self, buf: &mut [u8]) -> (r: std::io::Result<usize>)
        ensures
            final(self).data() == old(self).data(),
            final(buf)@.len() == old(buf)@.len(),
            r is Ok ==> {
                let n = r->Ok_0 as int;
                let p = old(self).pos();
                let d = old(self).data();
                &&& n <= old(buf)@.len()
                &&& final(self).pos() == p + n
                &&& (p <= d.len() ==> p + n <= d.len() && final(buf)@.subrange(0, n) == d.subrange(p, p + n))
                &&& (p > d.len() ==> n == 0)
                &&& (n == 0 ==> old(buf)@.len() == 0 || p >= d.len())
            },
            r is Err ==> final(self).pos() == old(self).pos();
    fn seek(&mut self, pos: SeekFrom) -> (r: std::io::Result<u64>)
        ensures
            final(self).data() == old(self).data(),
            r is Ok ==> (pos matches SeekFrom::Start(p) ==> final(self).pos() == p && r->Ok_0 == p),
            r is Err ==> final(self).pos() == old(self).pos();
}

pub struct SeekableChain<RS: VReadSeek> {
    pub chain: Vec<(u64, RS)>,
    pub max_pos: u64,
    pub abs_pos: u64,
    pub cur_idx: usize,
    pub rel_pos: u64, // pos within the current reader
}

pub open spec fn sum_sizes<RS: VReadSeek>(c: Seq<(u64, RS)>, n: int) -> int
    decreases n
{
    if n <= 0 { 0 } else { sum_sizes(c, n - 1) + c[n - 1].0 as int }
}

pub proof fn lemma_sum_same<RS: VReadSeek>(c: Seq<(u64, RS)>, d: Seq<(u64, RS)>, n: int)
    requires 0 <= n <= c.len(), c.len() == d.len(), forall|i:int| 0 <= i < c.len() ==> c[i].0 == d[i].0
    ensures sum_sizes(c, n) == sum_sizes(d, n)
    decreases n
{
    if n > 0 { lemma_sum_same(c, d, n - 1); }
}
pub proof fn lemma_sum_mono<RS: VReadSeek>(c: Seq<(u64, RS)>, a: int, b: int)
    requires 0 <= a <= b <= c.len()
    ensures sum_sizes(c, a) <= sum_sizes(c, b)
    decreases b - a
{
    if a < b { lemma_sum_mono(c, a, b - 1); }
}

impl<RS: VReadSeek> SeekableChain<RS> {
    pub open spec fn sizes_ok(&self) -> bool {
        &&& forall|i: int| 0 <= i < self.chain@.len() ==> (#[trigger] self.chain@[i]).0 == self.chain@[i].1.data().len()
        &&& self.max_pos == sum_sizes(self.chain@, self.chain@.len() as int)
        &&& self.chain@.len() < usize::MAX
    }
    pub open spec fn wf(&self) -> bool {
        &&& self.sizes_ok()
        &&& self.abs_pos <= self.max_pos
        &&& (self.cur_idx < self.chain@.len() ==> {
                &&& self.abs_pos == sum_sizes(self.chain@, self.cur_idx as int) + self.rel_pos
                &&& self.rel_pos <= self.chain@[self.cur_idx as int].0
                &&& (self.rel_pos > 0 ==> self.chain@[self.cur_idx as int].1.pos() == self.rel_pos)
            })
        &&& (self.cur_idx >= self.chain@.len() ==> self.abs_pos == self.max_pos && self.rel_pos == 0)
    }

    fn seek_abs(&mut self, pos: u64) -> (r: std::io::Result<u64>)
        requires old(self).wf(),
        ensures final(self).wf(),
            r is Ok ==> r->Ok_0 == final(self).abs_pos && final(self).abs_pos == (if pos <= old(self).max_pos { pos } else { old(self).max_pos }),
            final(self).sizes_ok(),
    {
        if self.abs_pos == pos {
            return Ok(pos);
        }
        if pos >= self.max_pos {
            self.abs_pos = self.max_pos;
            self.cur_idx = self.chain.len() + 1;
            self.rel_pos = 0;
            return Ok(self.max_pos);
        }
        // todo optimize for relative... seek within rel_pos...
        self.abs_pos = 0;
        self.cur_idx = 0;
        self.rel_pos = 0;
        let mut pos = pos;
        let ghost pos0 = pos;
        let mut vx_i: usize = 0;
        while vx_i < self.chain.len()
            invariant
                self.sizes_ok(),
                self.chain@.len() == old(self).chain@.len(),
                self.max_pos == old(self).max_pos,
                vx_i <= self.chain@.len(),
                self.cur_idx == vx_i,
                self.rel_pos == 0,
                self.abs_pos == sum_sizes(self.chain@, vx_i as int),
                self.abs_pos + pos == pos0,
                pos0 < self.max_pos,
            decreases self.chain@.len() - vx_i,
        {
            let ghost pre_chain = self.chain@;
            let (size, reader) = &mut self.chain[vx_i];
            if pos < *size {
                let vx_r = reader.seek(SeekFrom::Start(pos));
                proof {
                    assert(self.chain@.len() == pre_chain.len());
                    assert(forall|j:int| 0 <= j < pre_chain.len() ==> (#[trigger] self.chain@[j]).0 == pre_chain[j].0);
                    assert(forall|j:int| 0 <= j < pre_chain.len() ==> (#[trigger] self.chain@[j]).1.data() == pre_chain[j].1.data());
                    lemma_sum_same(self.chain@, pre_chain, pre_chain.len() as int);
                    lemma_sum_same(self.chain@, pre_chain, vx_i as int);
                    lemma_sum_mono(pre_chain, vx_i as int + 1, pre_chain.len() as int);
                }
                vx_r?;
                self.rel_pos = pos;
                self.abs_pos += pos;
                break;
            } else {
                proof { lemma_sum_mono(pre_chain, vx_i as int + 1, pre_chain.len() as int); }
                self.abs_pos += *size;
                pos -= *size;
                self.cur_idx += 1;
            }
            vx_i += 1;
        }
        Ok(self.abs_pos)
    }
}
fn main() {}
}
