// DESIGN-PHASE PROTOTYPE (round 0). Not part of the checking machinery; kept as evidence for DESIGN.md.
// Function bodies were pasted by hand from /repo for feasibility only; the real pipeline extracts them mechanically.
// Run: verus c04_refill_compact_partial.rs
use vstd::prelude::*;
verus! {
#[verifier::external_type_specification]
#[verifier::external_body]
pub struct ExIoError(std::io::Error);

pub trait VRead {
    spec fn rest(&self) -> Seq<u8>;
    fn read(&mut self, buf: &mut [u8]) -> (r: std::io::Result<usize>)
        ensures
            final(buf)@.len() == old(buf)@.len(),
            r is Ok ==> {
                let n = r->Ok_0 as int;
                &&& n <= old(buf)@.len()
                &&& n <= old(self).rest().len()
                &&& final(buf)@.subrange(0, n) == old(self).rest().subrange(0, n)
                &&& final(buf)@.subrange(n, old(buf)@.len() as int) == old(buf)@.subrange(n, old(buf)@.len() as int)
                &&& final(self).rest() == old(self).rest().skip(n)
                &&& (n == 0 ==> old(buf)@.len() == 0 || old(self).rest().len() == 0)
            },
            r is Err ==> final(self).rest() == old(self).rest();
}
pub struct B<R> { pub inner: R, pub buf: Box<[u8]>, pub pos: usize, pub cap: usize }
impl<R: VRead> B<R> {
    pub open spec fn unread(&self) -> Seq<u8> { self.buf@.subrange(self.pos as int, self.cap as int) + self.inner.rest() }
    fn more(&mut self) -> (r: std::io::Result<usize>)
        requires old(self).pos <= old(self).cap <= old(self).buf@.len(),
        ensures final(self).unread() == old(self).unread(),
            final(self).pos <= final(self).cap <= final(self).buf@.len(),
            final(self).buf@.len() == old(self).buf@.len(),
    {
        let vx_s: &mut [u8] = &mut *self.buf;
        let read = self.inner.read(&mut vx_s[self.cap..])?;
        self.cap += read;
        Ok(read)
    }
    fn view_buf(&self) -> (r: &[u8])
        requires self.pos <= self.cap <= self.buf@.len(),
        ensures r@ == self.buf@.subrange(self.pos as int, self.cap as int),
    {
        &self.buf[self.pos..self.cap]
    }
    fn compact(&mut self, offset: usize)
        requires old(self).pos <= old(self).cap <= old(self).buf@.len(), offset <= old(self).pos,
        ensures final(self).unread() == old(self).unread(),
            final(self).pos <= final(self).cap <= final(self).buf@.len(),
    {
        let new_cap = self.cap - self.pos + offset;
        self.buf.copy_within(self.pos..self.cap, offset);
        self.cap = new_cap;
        self.pos = offset;
    }
}
fn main() {}
}
