#!/bin/bash
# confirm_seed.sh <prop> <k> : in the scratch worktree /tmp/wt_<prop>, confirm that the seeded change compiles, that the
# demonstration fails with it and passes without it, and that the existing tests (lib + bin; integration optional) pass with it.
set -u
P=$1; K=$2; WT=/tmp/wt_$P; D=/tmp/seed_out/$P/$K
export CARGO_TARGET_DIR=$WT/target CARGO_NET_OFFLINE=true
cd $WT || exit 2
git checkout -q -- . ; rm -f tests/demo_seed.rs
cp $D/demo.rs tests/demo_seed.rs
echo "== without patch"; cargo test --offline --test demo_seed 2>&1 | grep -E "^test result|^error" | head -3
git apply $D/patch.diff || { echo "PATCH DOES NOT APPLY"; exit 2; }
echo "== with patch"; cargo test --offline --test demo_seed 2>&1 | grep -E "^test result|^error" | head -3
rm -f tests/demo_seed.rs
if [ "${3:-}" != "nosuite" ]; then
echo "== existing tests with patch"; cargo test --offline --workspace --no-fail-fast -- --skip bin_remote_invalidport 2>&1 | grep -E "^test result|^error|FAILED" | head
fi
git checkout -q -- . ; rm -f tests/test_ascii_utf8_strings.dlt
