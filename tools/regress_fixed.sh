#!/bin/bash
# regress_fixed.sh: for every `fixed:` line of known_findings.txt, undo that fix commit in a scratch worktree of /repo (never in
# /repo itself) and run the property's check against the scratch tree (ADLT_REPO): the violation has to be reported again.
# Prints one line per fix; removes the worktree when done. A maintenance aid, not a registered check.
cd "$(dirname "$0")/.."
WT=$(mktemp -d /tmp/adlt_regress_XXXX)
git -C /repo worktree add --detach "$WT" HEAD -q || exit 2
grep "^fixed:" known_findings.txt | awk '{print $2, $3}' | sed 's/property=//' | while read prop c; do
  git -C "$WT" checkout -q -- .
  if git -C /repo show "$c" | git -C "$WT" apply -R 2>/dev/null; then
    out=$(ADLT_REPO="$WT" VERIF_KANI_FALLBACK=0 VERIF_NO_EVIDENCE=1 ./check "$prop" 2>&1)
    echo "$prop $c -> $(echo "$out" | grep -E '^C[0-9]+:' | cut -d' ' -f2) ($(echo "$out" | grep -c '^VIOLATION') violation lines: $(echo "$out" | grep '^VIOLATION' | sed 's/.*obligation=\([^ ]*\).*/\1/' | tr '\n' ' '))"
  else
    echo "$prop $c -> the reverse patch no longer applies to HEAD (later fixes touch the same lines)"
  fi
done
git -C /repo worktree remove --force "$WT"; rm -rf "$WT"; git -C /repo worktree prune
git checkout -- evidence 2>/dev/null   # evidence files describe /repo itself, not the scratch tree
