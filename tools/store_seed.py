#!/usr/bin/env python3
"""store_seed.py <prop> <k> <caught_by> <needs...>: copy a confirmed seeded change from /tmp/seed_out into /verif/seeded/<prop>-<k>/"""
import json, os, shutil, sys
prop, k, caught = sys.argv[1], sys.argv[2], sys.argv[3]
needs = " ".join(sys.argv[4:])
src = "/tmp/seed_out/%s/%s" % (prop, k)
dst = "/verif/seeded/%s-%s" % (prop, k)
os.makedirs(dst, exist_ok=True)
for f in ("patch.diff", "demo.rs", "notes.md"):
    shutil.copy(os.path.join(src, f), os.path.join(dst, f))
meta = {
    "id": "%s-%s" % (prop, k),
    "property": prop,
    "needs_to_manifest": needs,
    "source": "written by an independent sub-agent that saw only the property text and a scratch worktree of /repo",
    "confirmed_by": "tools/confirm_seed.sh %s %s (scratch worktree /tmp/wt_%s): demo passes without the patch, fails with it; cargo test --workspace --no-fail-fast --offline -- --skip bin_remote_invalidport passes with it" % (prop, k, prop),
    "ran": "tools/run_seed.sh seeded/%s-%s/patch.diff <checks> (git -C /repo apply; ./check ...; git -C /repo checkout -- .)" % (prop, k),
    "caught_by": caught,
}
json.dump(meta, open(os.path.join(dst, "meta.json"), "w"), indent=1)
print("stored", dst)
