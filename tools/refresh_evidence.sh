#!/bin/bash
# run every claimed check on the current (unchanged) tree and validate the evidence files; use before committing evidence
cd /verif
git -C /repo status --short | grep -v '^??' && { echo "/repo has uncommitted changes"; exit 2; }
rc=0
for p in $(python3 -c "import json;print(' '.join(c['property_id'] for c in json.load(open('MANIFEST.json'))['checks']))"); do
  ./check $p --tier ${1:-quick} | tail -1 || rc=1
  /opt/veriftools/pyvenv/bin/python -c "
import json,jsonschema,sys
e=json.load(open('/verif/evidence/$p.json'))
jsonschema.validate(e,json.load(open('/root/.vp/EVIDENCE.schema.json')))
c=e['coverage']
assert c['obligations']==c['discharged'] and c['obligations']>0, ('$p', c['obligations'], c['discharged'])
" || { echo "evidence $p invalid"; rc=1; }
done
exit $rc
