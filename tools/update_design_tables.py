#!/usr/bin/env python3
"""Regenerate the seeded-change tables of DESIGN.md section 12.3 / 12.4 from seeded/*/meta.json."""
import glob, json, re
p = '/verif/DESIGN.md'
s = open(p).read()
rows, rf = [], []
for d in sorted(glob.glob('/verif/seeded/*/meta.json')):
    m = json.load(open(d))
    if m['id'].startswith('RF-'):
        continue
    rows.append("| %s | %s | %s |" % (m['id'], m.get('needs_to_manifest', '').replace('|', '/')[:110], m.get('caught_by', '').replace('|', '/')))
for d in sorted(glob.glob('/verif/seeded/RF-*/meta.json'), key=lambda x: int(x.split('RF-')[1].split('/')[0])):
    m = json.load(open(d))
    rf.append("| %s | %s |" % (m['id'], m['result']))
n = len(rows)
viol = sum(1 for r in rows if 'VIOLATION' in r.split('|')[3] and not r.split('|')[3].strip().startswith('MISSED'))
held = sum(1 for r in rows if r.split('|')[3].strip().startswith('MISSED (HELD)'))
und = n - viol - held
a = s.index("| seed | needs | result |")
b = s.index("Summary:", a)
s = s[:a] + "| seed | needs | result |\n|------|-------|--------|\n" + "\n".join(rows) + "\n\n" + s[b:]
s = re.sub(r"Summary: \d+ property-breaking changes; \d+ raise `VIOLATION` \(exit 1\)", "Summary: %d property-breaking changes; %d raise `VIOLATION` (exit 1)" % (n, viol), s)
s = re.sub(r"concrete replayed input \(C18-2\); \d+ are in clauses", "concrete replayed input (C18-2); %d are in clauses" % held, s)
s = re.sub(r"forwarding order\); \d+ remain UNDECIDED \(exit 2\)", "forwarding order, convert's stream filter); %d remain UNDECIDED (exit 2)" % und, s)
a = s.index("| refactoring | result |")
b = s.index("No check exits 1", a)
s = s[:a] + "| refactoring | result |\n|-------------|--------|\n" + "\n".join(rf) + "\n\n" + s[b:]
open(p, 'w').write(s)
print(n, viol, held, und)
