#!/usr/bin/env python3
"""mk_weak_baseline.py: profile the extracted text of every unit on the CURRENT /repo tree (run it on the unchanged tree, after every
fix: commit) and write vx/weak_baseline.json: per unit and extracted function the number of calls of under-specified std methods
(iterator adapters, closure-taking combinators). driver.weak_tainted compares the working tree against it."""
import json, os, sys
V = os.path.dirname(os.path.dirname(os.path.abspath(__file__)))
sys.path.insert(0, os.path.join(V, "vx"))
import build as B, driver as D
out = {}
for u in sorted(os.listdir(os.path.join(V, "units"))):
    tmpl = os.path.join(V, "units", u, "unit.rs")
    if not os.path.exists(tmpl):
        continue
    prof = {}
    variants = ["strict", "excl"] if D.unit_variants(u) else ["strict"]
    for v in variants:
        b = B.build(tmpl, D.REPO, v, None)
        for fn, cnt in D.weak_profile(b).items():
            p = prof.setdefault(fn, {})
            for k, n in cnt.items():
                p[k] = max(p.get(k, 0), n)
    out[u] = prof
json.dump(out, open(os.path.join(V, "vx", "weak_baseline.json"), "w"), indent=1, sort_keys=True)
print("units:", len(out), "functions with such calls:", sum(1 for u in out.values() for f in u.values() if f))
