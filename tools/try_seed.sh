#!/bin/bash
# try_seed.sh <seed id | absolute patch path> <check ids...>: apply a stored change to a scratch worktree of /repo (never /repo
# itself), run the named checks against it (ADLT_REPO), print their verdict lines, remove the worktree. A development aid.
cd "$(dirname "$0")/.."
S=$1; shift
[ -f "$S" ] && PATCH=$S || PATCH=/verif/seeded/$S/patch.diff
WT=$(mktemp -d /tmp/adlt_try_XXXX)
git -C /repo worktree add --detach "$WT" HEAD -q || exit 2
if git -C "$WT" apply "$PATCH" 2>/dev/null; then
  for c in "$@"; do
    out=$(ADLT_REPO="$WT" VERIF_KANI_FALLBACK=0 VERIF_NO_EVIDENCE=1 ./check $c 2>&1); rc=$?
    echo "--- $S check $c exit=$rc"; echo "$out" | grep -E "^(VIOLATION|UNDECIDED|KNOWN-FINDING|C[0-9]+:)" | cut -c1-300
  done
else echo "$S: patch does not apply"; fi
git -C /repo worktree remove --force "$WT"; rm -rf "$WT"; git -C /repo worktree prune
git checkout -- evidence 2>/dev/null
