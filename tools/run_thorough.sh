#!/bin/bash
# run every claimed check in the thorough tier (Verus with a second seed + bounded Kani cross-checks); slow: minutes per property
cd "$(dirname "$0")/.."
export VERIF_SEED=${VERIF_SEED:-7}
for p in $(python3 -c "import json;print(' '.join(c['property_id'] for c in json.load(open('MANIFEST.json'))['checks']))"); do
  /usr/bin/time -f "$p wall %es" ./check $p --tier thorough 2>&1 | tail -3
  python3 -c "
import json
e=json.load(open('evidence/$p.json'))
print('  bounded:', [(b['harness'], b['result'], b['time_s']) for b in e['coverage'].get('bounded', [])], 'stability:', e['coverage'].get('stability'))"
done
