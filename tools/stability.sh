#!/bin/bash
# stability.sh [seeds...]: re-verify every unit's deciding variant with several Z3 seeds; print functions whose resource use is
# high (fragile proofs) and any seed that does not verify. Not a verdict, a maintenance aid.
cd /verif
SEEDS=${@:-1 2 3}
for u in $(ls units); do
  v=strict; python3 -c "
import sys; sys.path.insert(0,'vx'); import driver
print('excl' if driver.unit_variants('$u') else 'strict')" > /tmp/_v; v=$(cat /tmp/_v)
  python3 - <<PY
import sys; sys.path.insert(0,'/verif/vx')
import build, os
b = build.build('/verif/units/$u/unit.rs', '/repo', '$v')
open('/verif/build/${u}_stab.rs','w').write(b.text)
PY
  RL=$(grep -oE "^//@ *rlimit +[0-9]+" units/$u/unit.rs | grep -oE "[0-9]+$"); RL=${RL:-100}
  SO=$(grep -oE "^//@ *smtopt +[a-z_.]+=[a-z0-9_.]+" units/$u/unit.rs | awk '{print "--smt-option " $3}' | tr '\n' ' ')
  for s in $SEEDS; do
    (cd build && verus ${u}_stab.rs --rlimit $RL $SO --smt-option smt.random_seed=$s --output-json --time 2>/dev/null) | python3 -c "
import json,sys
try:
    d=json.load(sys.stdin)
except Exception as e:
    print('$u seed $s: no result'); sys.exit()
vr=d['verification-results']
fb=[f for m in d['times-ms']['smt']['smt-run-module-times'] for f in m['function-breakdown']]
big=[(f['function'].split('::',1)[-1], f['rlimit']) for f in fb if f['rlimit']>15000000]
print('$u seed $s: verified=%d errors=%d%s'%(vr['verified'],vr['errors'],' HEAVY '+str(big) if big else ''))
"
  done
done
