#!/bin/bash
# selftest_seeds.sh: re-run every stored seed against a scratch worktree of /repo (never /repo itself): a seed recorded as
# VIOLATION must still exit 1 for its property, a refactoring (RF-*) and a seed recorded as MISSED must not exit 1 resp. may exit
# 0/2. Prints one line per seed and a summary of deviations. A maintenance aid, not a registered check.
cd "$(dirname "$0")/.."
WT=$(mktemp -d /tmp/adlt_selftest_XXXX)
git -C /repo worktree add --detach "$WT" HEAD -q || exit 2
bad=0
for d in seeded/*/; do
  id=$(basename $d)
  git -C "$WT" checkout -q -- .
  git -C "$WT" apply /verif/$d/patch.diff 2>/dev/null || { echo "$id: patch does not apply"; bad=$((bad+1)); continue; }
  if [[ $id == RF-* ]]; then
    props=$(python3 -c "
import json,re
m=json.load(open('$d/meta.json'))
print(' '.join(sorted(set(re.findall(r'C\d\d', m['result'])))))")
    for p in $props; do
      ADLT_REPO="$WT" VERIF_KANI_FALLBACK=0 ./check $p >/dev/null 2>&1; rc=$?
      [ $rc -eq 1 ] && { echo "$id: ALARM on $p (exit 1)"; bad=$((bad+1)); } || echo "$id $p exit $rc"
    done
  else
    read p want <<< $(python3 -c "
import json,re
m=json.load(open('$d/meta.json'))
c=m['caught_by']
mm=re.match(r'(C\d\d): VIOLATION', c)
print((mm.group(1) if mm else m['property']), ('1' if mm else 'x'))")
    ADLT_REPO="$WT" VERIF_KANI_FALLBACK=0 ./check $p >/dev/null 2>&1; rc=$?
    if [ "$want" = "1" ] && [ $rc -ne 1 ]; then echo "$id: recorded as VIOLATION of $p, now exit $rc"; bad=$((bad+1)); else echo "$id $p exit $rc"; fi
  fi
done
git -C /repo worktree remove --force "$WT"; rm -rf "$WT"; git -C /repo worktree prune
git checkout -- evidence 2>/dev/null
echo "deviations: $bad"
