#!/bin/bash
# selftest_seeds_par.sh [N]: like selftest_seeds.sh, N shards in parallel (default 4), each shard with its own scratch worktree of /repo
# (never /repo itself). Output: one line per seed, deviations at the end. A maintenance aid, not a registered check.
cd "$(dirname "$0")/.."
N=${1:-4}
OUT=$(mktemp -d /tmp/adlt_selftest_out_XXXX)
ls -d seeded/*/ | sort > $OUT/all
split -n l/$N -d $OUT/all $OUT/shard_
one_shard() {
  sh=$1; WT=$(mktemp -d /tmp/adlt_selftest_XXXX)
  git -C /repo worktree add --detach "$WT" HEAD -q || exit 2
  for d in $(cat $sh); do
    id=$(basename $d)
    git -C "$WT" checkout -q -- .
    git -C "$WT" apply /verif/$d/patch.diff 2>/dev/null || { echo "$id: patch does not apply"; echo DEV >> $sh.dev; continue; }
    if [[ $id == RF-* ]]; then
      props=$(python3 -c "
import json,re
m=json.load(open('$d/meta.json'))
print(' '.join(sorted(set(re.findall(r'C\d\d', m['result'])))))")
      for p in $props; do
        ADLT_REPO="$WT" VERIF_KANI_FALLBACK=0 VERIF_NO_EVIDENCE=1 ./check $p >/dev/null 2>&1; rc=$?
        [ $rc -eq 1 ] && { echo "$id: ALARM on $p (exit 1)"; echo DEV >> $sh.dev; } || echo "$id $p exit $rc"
      done
    else
      read p want <<< $(python3 -c "
import json,re
m=json.load(open('$d/meta.json'))
c=m['caught_by']
mm=re.match(r'(C\d\d): VIOLATION', c)
print((mm.group(1) if mm else m['property']), ('1' if mm else 'x'))")
      ADLT_REPO="$WT" VERIF_KANI_FALLBACK=0 VERIF_NO_EVIDENCE=1 ./check $p >/dev/null 2>&1; rc=$?
      if [ "$want" = "1" ] && [ $rc -ne 1 ]; then echo "$id: recorded as VIOLATION of $p, now exit $rc"; echo DEV >> $sh.dev; else echo "$id $p exit $rc"; fi
    fi
  done
  git -C /repo worktree remove --force "$WT"; rm -rf "$WT"
}
for sh in $OUT/shard_*; do one_shard $sh > $sh.log 2>&1 & done
wait
git -C /repo worktree prune
cat $OUT/shard_*.log
echo "deviations: $(cat $OUT/shard_*.dev 2>/dev/null | wc -l)"
rm -rf $OUT
