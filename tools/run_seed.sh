#!/bin/bash
# run_seed.sh <patch.diff> <check ids...> : apply a seeded change to /repo, run the named checks, undo it straight afterwards
PATCH=$1; shift
cd /verif
git -C /repo apply "$PATCH" || { echo "patch does not apply to /repo"; exit 2; }
for c in "$@"; do
  ./check $c > /tmp/seed_run_$c.log 2>&1; rc=$?
  echo "--- check $c exit=$rc"; grep -E "^(VIOLATION|UNDECIDED|KNOWN-FINDING|C[0-9]+:)" /tmp/seed_run_$c.log | cut -c1-260
done
git -C /repo checkout -- .
# evidence files were rewritten by runs on a modified tree: restore the committed ones (evidence must describe the unchanged tree)
git -C /verif checkout -- evidence/ 2>/dev/null
git -C /repo status --short | grep -v "^??" | head -3
