#!/bin/sh
# Offline setup after a fresh restore: warm up Verus and pre-build the replay crate (path dependency on /repo).
set -e
cd "$(dirname "$0")"
export CARGO_NET_OFFLINE=true
mkdir -p build evidence
cat > build/_warmup.rs <<'EOT'
use vstd::prelude::*;
verus! { proof fn warm() ensures 1 + 1 == 2int {} fn main() {} }
EOT
(cd build && verus _warmup.rs >/dev/null 2>&1) || { echo "verus warm-up failed"; exit 1; }
cp /repo/Cargo.lock replay/Cargo.lock 2>/dev/null || true
(cd replay && cargo build --offline --tests >/dev/null 2>&1) || echo "note: replay crate did not build (checks do not depend on it)"
echo "setup done"
