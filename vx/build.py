"""Assemble a Verus input file from a unit template + items extracted from the repository.

Template directives (all start with `//@`):
  //@ include <path relative to /verif>
  //@ rules R1 R2 R3 R4 R5            default automatic rules for following extracts
  //@ extract <repo-relative file> <selector>
  //@   rename <newname>
  //@   ret <name>                      name the return value (default r)
  //@   rules <list>                    override rule list for this item
  //@   sub <TAG> `pat` => `repl` [xN|*|?]
  //@   spec                            followed by //@| lines: requires/ensures/decreases text
  //@   loop <k>                        followed by //@| lines: invariant/decreases for loop ordinal k (1-based)
  //@   hint before|after [n] `anchor`  followed by //@| lines: text inserted before/after the n-th line containing anchor
  //@   bodyless                        emit only the signature+spec (external_body style use is up to the template)
  //@   nocanary
  //@ end
Lines ending in `//@only:<v1>[,<v2>]` are kept only when building variant v1 or v2.
Obligation tags are comments `// O:<name>` inside spec/loop/hint text or template code.
"""
import os
import re
import sys

sys.path.insert(0, os.path.dirname(os.path.abspath(__file__)))
from rtok import lex, untok, match_close, Tok
from extract import find_item, find_closure, find_call_arg, find_region, LostAnchor
import rules as R

VERIF = os.path.dirname(os.path.dirname(os.path.abspath(__file__)))


class BuildResult:
    def __init__(self):
        self.text = ""
        self.linemap = []       # per generated line: ("repo", file, line) | ("tmpl", file, line) | ("gen", None, 0)
        self.functions = []     # dicts: name, selector, file, lines, sha256, has_spec, gen_name
        self.rewrites = []      # (rule, where, before, after)
        self.tags = {}          # tag -> generated line
        self.trusted = []       # (kind, generated line, text)
        self.fn_spans = []      # (gen_line0, gen_line1, qualified name) for extracted fns
        self.unaccounted = []   # `count` directives that do not match: places the unit does not account for (no HELD then)
        self.absent_loops = []  # `loop @n` directives whose loop does not exist (informational)
        self.lost = []          # soft-lost anchors (hint/loop/sub that no longer matches); proof may still go through


_SUB_RE = re.compile(r"sub\s+(\S+)\s+`(.*?)`\s*=>\s*`(.*?)`\s*(x\d+|\*|\?)?\s*$")
_HINT_RE = re.compile(r"hint\s+(?:in\s+`(?P<scope>[^`]*)`\s+)?(before|after|start|loopstart|loopend)\s*(?:(\d+|last)\s*)?(?:`(.*)`)?\s*$")


def _variant_filter(lines, variant):
    out = []
    for (txt, origin) in lines:
        m = re.search(r"//@only:([\w,]+)\s*$", txt)
        if m:
            if not (set(m.group(1).split(",")) & set(variant.split("+"))):
                continue
            txt = txt[:m.start()].rstrip()
        out.append((txt, origin))
    return out


def _read_template(path, variant, seen=None):
    """-> list of (text, origin) with includes expanded"""
    seen = seen or set()
    out = []
    with open(path) as f:
        for ln, txt in enumerate(f.read().split("\n"), 1):
            m = re.match(r"\s*//@\s*include\s+(\S+)\s*$", txt)
            if m:
                inc = os.path.join(VERIF, m.group(1))
                if inc in seen:
                    raise ValueError("recursive include " + inc)
                out.extend(_read_template(inc, variant, seen | {inc}))
                continue
            out.append((txt, ("tmpl", os.path.relpath(path, VERIF), ln)))
    return _variant_filter(out, variant)


def _apply_rules(toks, rule_list, log, where, kind):
    for r in rule_list:
        if r == "R1":
            toks = R.r1_strip_attrs_docs(toks, log, where)
        elif r == "R2":
            toks = R.r2_pub_fn(toks, log, where)
            if kind == "struct":
                toks = R.r2_pub_fields(toks, log, where)
        elif r == "R3":
            toks = R.r3_bytes(toks, log, where)
        elif r == "R4":
            toks = R.r4_asserts(toks, log, where)
        elif r == "R5":
            toks = R.r5_logs(toks, log, where)
        elif r == "R6":
            toks = R.r6_opaque_text(toks, log, where)
        else:
            raise ValueError("unknown automatic rule " + r)
    return toks


def _toks_to_lines(toks, path, src_line_of):
    """render tokens to lines with origin = repo line of the first original token on each line"""
    lines = []
    cur_txt, cur_origin = "", None
    for t in toks:
        parts = t.text.split("\n")
        for pi, p in enumerate(parts):
            if pi > 0:
                lines.append((cur_txt, cur_origin))
                cur_txt, cur_origin = "", None
            if p:
                if cur_origin is None and t.start >= 0 and t.kind not in ("ws",):
                    cur_origin = src_line_of(t.start) + pi
                cur_txt += p
    lines.append((cur_txt, cur_origin))
    return lines


def build(template_path, repo, variant="strict", inline=None):
    res = BuildResult()
    tl = _read_template(template_path, variant)
    out = []  # (text, origin)
    default_rules = ["R1", "R2", "R3", "R4", "R5", "R6"]
    i = 0
    impl_ctx = None
    while i < len(tl):
        txt, origin = tl[i]
        s = txt.strip()
        if not s.startswith("//@"):
            out.append((txt, origin))
            i += 1
            continue
        d = s[3:].strip()
        if d.startswith("rules "):
            default_rules = d.split()[1:]
            i += 1
            continue
        if d.startswith("unit ") or d.startswith("property ") or d.startswith("note "):
            out.append((txt, origin))
            i += 1
            continue
        if d.startswith("callsite "):
            # //@ callsite <file> <Path::to::callee> arg <n> name <PREFIX> type <T> ensure `<expr over $v>`
            m = re.match(r"callsite\s+(\S+)\s+(\S+)\s+arg\s+(\d+)\s+name\s+(\w+)\s+type\s+(\S+)\s+ensure\s+`(.*)`\s*(?://\s*(O:\S+))?\s*$", d)
            if not m:
                raise ValueError("%s:%d: bad callsite directive" % (origin[1], origin[2]))
            relfile, callee, argn, prefix, ty, ens, otag = m.group(1), m.group(2), int(m.group(3)), m.group(4), m.group(5), m.group(6), m.group(7)
            path = os.path.join(repo, relfile)
            if not os.path.exists(path):
                raise LostAnchor("file %s not found" % relfile)
            src = open(path).read()
            ctoks = lex(src)
            code = [t for t in ctoks if t.kind not in ("ws", "lcomment", "bcomment")]
            pat = [x for x in re.split(r"(::)", callee) if x]
            # stop at the first #[cfg(test)] (test modules are at the end of adlt's files)
            limit = len(src)
            mt = re.search(r"#\[cfg\(test\)\]", src)
            if mt:
                limit = mt.start()
            kfound = 0
            for ci in range(len(code) - len(pat)):
                if code[ci].start >= limit:
                    break
                if all(code[ci + q].text == pat[q] for q in range(len(pat))) and code[ci + len(pat)].text == "(" and (ci == 0 or code[ci - 1].text != "::"):
                    op = ci + len(pat)
                    cl = match_close(code, op)
                    args = R.split_args(code[op + 1:cl])
                    if argn > len(args):
                        raise LostAnchor("%s: call of %s has %d args" % (relfile, callee, len(args)))
                    expr = " ".join(t.text for t in args[argn - 1])
                    kfound += 1
                    ln = src.count("\n", 0, code[ci].start) + 1
                    nm = "%s_%d" % (prefix, kfound)
                    out.append(("// ---- call site: %s:%d %s(.., arg %d = %s, ..) ----" % (relfile, ln, callee, argn, expr), ("gen", None, 0)))
                    out.append(("pub const %s: %s = %s;" % (nm, ty, expr), ("repo", relfile, ln)))
                    out.append(("pub proof fn %s_ok()" % nm.lower(), ("gen", None, 0)))
                    out.append(("    ensures %s, // %s" % (ens.replace("$v", nm), (otag or ("O:callsite." + nm.lower()))), ("repo", relfile, ln)))
                    out.append(("{}", ("gen", None, 0)))
                    res.functions.append({"name": nm, "selector": "call site of %s, argument %d" % (callee, argn), "file": relfile,
                                          "lines": str(ln), "sha256": "", "contracted": True, "canary": False, "kind": "callsite", "expr": expr})
            if kfound == 0:
                raise LostAnchor("%s: no call site of %s found" % (relfile, callee))
            i += 1
            continue
        if d.startswith("count "):
            # //@ count <file> <selector> `tokens` == N : the item must contain the token sequence exactly N times, else a lost
            # anchor (UNDECIDED). Used to pin down that all the places touching some state are the ones under contract.
            m = re.match(r"count\s+(\S+)\s+(.*?)\s+`(.*)`\s*==\s*(\d+)\s*$", d)
            if not m:
                raise ValueError("%s:%d: bad count directive" % (origin[1], origin[2]))
            relfile, sel_, pat_, want_ = m.group(1), m.group(2), m.group(3), int(m.group(4))
            try:
                it_ = find_item(os.path.join(repo, relfile), sel_)
                hcode = [t.text for t in it_.toks if t.kind not in ("ws", "lcomment", "bcomment")]
                pt = [t.text for t in lex(pat_) if t.kind not in ("ws", "lcomment", "bcomment")]
                got = sum(1 for q in range(len(hcode) - len(pt) + 1) if hcode[q:q + len(pt)] == pt)
                if got != want_:
                    res.unaccounted.append("%s %s: `%s` occurs %d times, the unit accounts for %d" % (relfile, sel_, pat_, got, want_))
                else:
                    out.append(("// count: `%s` occurs %d times in %s %s (all accounted for)" % (pat_, got, relfile, sel_), ("gen", None, 0)))
            except LostAnchor as e:
                res.lost.append(str(e))
            i += 1
            continue
        if d.startswith("rlimit ") or d.startswith("smtopt "):
            # read by the driver (SMT resource limit of this unit)
            i += 1
            continue
        if not d.startswith("extract "):
            raise ValueError("%s:%d: unknown directive %r" % (origin[1], origin[2], s))
        _, relfile, selector = d.split(None, 2)
        # collect block
        i += 1
        opts = {"ret": "r", "rules": list(default_rules), "subs": [], "spec": [], "loops": {}, "hints": [],
                "rename": None, "nocanary": False, "bodyless": False, "drop_sig_generics": False}
        cur = None
        while True:
            if i >= len(tl):
                raise ValueError("unterminated extract block for " + selector)
            t2, o2 = tl[i]
            s2 = t2.strip()
            i += 1
            if s2.startswith("//@|"):
                if cur is None:
                    raise ValueError("%s:%d: content line without section" % (o2[1], o2[2]))
                cur.append((s2[4:], o2))
                continue
            if not s2.startswith("//@"):
                if s2 == "":
                    continue
                raise ValueError("%s:%d: unexpected text inside extract block: %r" % (o2[1], o2[2], s2))
            d2 = s2[3:].strip()
            if d2 == "end":
                break
            if d2.startswith("ret "):
                opts["ret"] = d2.split()[1]
            elif d2.startswith("rename "):
                opts["rename"] = d2.split()[1]
            elif d2.startswith("rules "):
                opts["rules"] = d2.split()[1:]
            elif d2.startswith("r13 "):
                opts.setdefault("r13", []).append(int(d2.split()[1]))
            elif d2.startswith("cut "):
                mm = re.match(r"cut\s+(\S+)\s+`(.*)`\s*(\?)?\s*$", d2)
                opts.setdefault("cuts", []).append((mm.group(1), mm.group(2), bool(mm.group(3))))
            elif d2.startswith("sig "):
                opts["sig"] = d2[len("sig "):].strip()
            elif d2.startswith("when ") or d2.startswith("unless "):
                kw, rest = d2.split(None, 1)
                opts.setdefault("conds", []).append((kw, rest.strip().strip("`")))
            elif d2.startswith("tail "):
                opts["tail"] = d2[len("tail "):].strip().strip("`")
            elif d2.startswith("derive "):
                opts["derive"] = d2[len("derive "):].strip()
            elif d2 == "optional":
                opts["optional"] = True
            elif d2 == "nocanary":
                opts["nocanary"] = True
            elif d2.startswith("attr "):
                # a Verus attribute for the generated function (and its canary copy), e.g. #[verifier::exec_allows_no_decreases_clause]
                if not re.match(r"#\[verifier::[\w:]+(\([^)]*\))?\]$", d2[5:].strip()):
                    raise ValueError("attr: only #[verifier::..] attributes: %r" % d2)
                opts.setdefault("attrs", []).append(d2[5:].strip())
            elif d2 == "bodyless":
                opts["bodyless"] = True
            elif d2.startswith("sub "):
                m = _SUB_RE.match(d2)
                if not m:
                    raise ValueError("%s:%d: bad sub directive" % (o2[1], o2[2]))
                cnt = m.group(4) or "x1"
                cnt = cnt[1:] if cnt.startswith("x") else cnt
                opts["subs"].append((m.group(1), m.group(2), m.group(3), cnt))
            elif d2 == "spec":
                cur = opts["spec"]
            elif d2.startswith("loop "):
                # `loop k` or `loop k \`header text\``: with a text, the k-th loop's header must contain that token sequence,
                # otherwise the invariants are NOT attached (lost anchor): a loop added or removed by a change shifts the
                # ordinals, and invariants on the wrong loop would fail for no semantic reason
                mi_ = re.match(r"loop\s+inner(?:\s+(\d+))?\s+`(.*)`\s*$", d2)
                if mi_:
                    # `loop inner [n] \`body text\``: the (n-th) INNERMOST loop whose body contains the token sequence, whatever
                    # its keyword and header (robust against while <-> loop { if .. break } and for <-> while rewrites)
                    cur = opts["loops"].setdefault(("i", int(mi_.group(1) or 1), mi_.group(2)), [])
                    continue
                mm_ = re.match(r"loop\s+@(\d+)\s+`(.*?)`(?:\s+has\s+`(.*)`)?\s*$", d2)
                if mm_:
                    # `loop @n \`header text\``: the n-th loop WHOSE HEADER CONTAINS the text (robust against loops added
                    # or removed elsewhere in the function)
                    # `... has \`body text\``: and whose body contains that token sequence
                    cur = opts["loops"].setdefault(("m", int(mm_.group(1)), mm_.group(2), mm_.group(3)), [])
                    continue
                ml = re.match(r"loop\s+(\d+)(?:\s+`(.*)`)?\s*(\?)?\s*$", d2)
                cur = opts["loops"].setdefault(int(ml.group(1)), [])
                if ml.group(2):
                    opts.setdefault("loop_heads", {})[int(ml.group(1))] = ml.group(2)
                if ml.group(3):
                    # `?`: the loop may be absent (a shape of the code without it is decided without these invariants)
                    opts.setdefault("loop_optional", set()).add(int(ml.group(1)))
            elif d2.startswith("hint "):
                m = _HINT_RE.match(d2)
                if not m:
                    raise ValueError("%s:%d: bad hint directive" % (o2[1], o2[2]))
                cur = []
                # ordinal `last`: the last line containing the anchor (robust against occurrences added in front of it)
                # `hint in \`loop text\` before ..`: the anchor is searched only inside the innermost loop whose body contains `loop text`;
                # if that loop does not exist the hint is absent (like the invariants of an absent loop), not lost
                opts["hints"].append((m.group(2), (-1 if m.group(3) == "last" else int(m.group(3) or 1)), m.group(4), cur, (o2, m.group("scope")) if m.group("scope") else o2))
            else:
                raise ValueError("%s:%d: unknown extract option %r" % (o2[1], o2[2], d2))

        path = os.path.join(repo, relfile)
        if not os.path.exists(path):
            raise LostAnchor("file %s not found" % relfile)
        # `when` / `unless`: extract this item only if the enclosing function (the item itself for plain selectors) contains /
        # does not contain the given token sequence: lets a unit carry contracts for alternative shapes of the same code (the
        # pinned text and its repaired form), so that a regression is decided again instead of losing its anchors
        if opts.get("conds"):
            msel = re.match(r"(?:closure\s+(.*)#\d+|callarg\s+`.*`\s+in\s+(.*)#\d+(?:\s+arg\s+\d+)?|region\s+`.*`\s+\.\.\s+`.*`\s+in\s+(.*))$", selector)
            host_sel = next((g for g in (msel.groups() if msel else ()) if g), selector).strip()
            try:
                host = find_item(path, host_sel)
            except LostAnchor as e:
                res.lost.append(str(e))
                continue
            hcode = [t.text for t in host.toks if t.kind not in ("ws", "lcomment", "bcomment")]
            skip = False
            for (kw, pat_) in opts["conds"]:
                pt = [t.text for t in R.lex(pat_) if t.kind not in ("ws", "lcomment", "bcomment")]
                found = any(hcode[q:q + len(pt)] == pt for q in range(len(hcode) - len(pt) + 1))
                if (kw == "when" and not found) or (kw == "unless" and found):
                    skip = True
            if skip:
                res.rewrites.append(("R18", "%s %s" % (relfile, selector), "skipped", "condition " + "; ".join("%s `%s`" % c for c in opts["conds"]) + " not met"))
                continue
        mclo = re.match(r"closure\s+(.*)#(\d+)$", selector)
        marg = re.match(r"callarg\s+`(.*)`\s+in\s+(.*)#(\d+)(?:\s+arg\s+(\d+))?$", selector)
        mreg = re.match(r"region\s+`(.*)`\s+\.\.\s+`(.*)`\s+in\s+(.*)$", selector)
        if mreg:
            # a range of statements of a function that cannot be extracted as a whole (JSON/websocket/logging around a core
            # loop), presented as a function: signature and result expression (`tail`) from the unit, statements from /repo
            item = find_region(path, mreg.group(3).strip(), mreg.group(1), mreg.group(2))
            if not opts.get("sig"):
                raise ValueError("region extraction needs a `sig` option")
            body = R.syn("{\n") + list(item.toks) + R.syn("\n" + (opts.get("tail") or "") + "\n}")
            item.toks = R.syn(opts["sig"] + " ") + body
            item.kind = "fn"
            item.name = re.search(r"\bfn\s+(\w+)", opts["sig"]).group(1)
            opts["rules"] = [r for r in opts["rules"] if r != "R2"]
            opts["closure_sig"] = True
            res.rewrites.append(("R18", "%s:%d-%d %s" % (relfile, item.line0, item.line1, selector), "statement range (everything else of the function is dropped)", opts["sig"] + (" ... " + opts["tail"] if opts.get("tail") else "")))
        elif marg:
            # the argument expression of a call inside a function that cannot be extracted as a whole, presented as a function
            item = find_call_arg(path, marg.group(2).strip(), marg.group(1), int(marg.group(3)), int(marg.group(4)) if marg.group(4) else None)
            if not opts.get("sig"):
                raise ValueError("callarg extraction needs a `sig` option")
            body = R.syn("{ ") + list(item.toks) + R.syn(" }")
            item.toks = R.syn(opts["sig"] + " ") + body
            item.kind = "fn"
            item.name = re.search(r"\bfn\s+(\w+)", opts["sig"]).group(1)
            opts["rules"] = [r for r in opts["rules"] if r != "R2"]
            opts["closure_sig"] = True
            res.rewrites.append(("R18", "%s:%d %s" % (relfile, item.line0, selector), "argument expression", opts["sig"]))
        elif mclo:
            item = find_closure(path, mclo.group(1).strip(), int(mclo.group(2)))
            if not opts.get("sig"):
                raise ValueError("closure extraction needs a `sig` option")
            # present the closure as a function: signature from the unit, body from the repository
            from rtok import lex as _lex
            body = list(item.toks)
            if not (body[0].kind == "punct" and body[0].text == "{"):
                body = R.syn("{ ") + body + R.syn(" }")
            sigt = R.syn(opts["sig"] + " ")
            item.toks = sigt + body
            item.kind = "fn"
            m_nm = re.search(r"\bfn\s+(\w+)", opts["sig"])
            item.name = m_nm.group(1)
            opts["rules"] = [r for r in opts["rules"] if r != "R2"]
            opts["closure_sig"] = True
            res.rewrites.append(("R18", "%s:%d %s" % (relfile, item.line0, selector), "closure " + (item.header or ""), opts["sig"]))
        else:
            try:
                item = find_item(path, selector)
            except LostAnchor:
                if opts.get("optional"):
                    # `optional`: an item that exists only in one shape of the code (e.g. a constant introduced by a repair)
                    res.rewrites.append(("R18", "%s %s" % (relfile, selector), "skipped", "optional item not present"))
                    continue
                raise
        src = open(path).read()

        def src_line_of(pos, _src=src):
            return _src.count("\n", 0, pos) + 1

        where = "%s:%d %s" % (relfile, item.line0, selector)
        log = res.rewrites
        toks = list(item.toks)
        toks = _apply_rules(toks, opts["rules"], log, where, item.kind)
        if item.kind == "fn" and inline:
            if inline.get("__desugar__"):
                # R21: Option combinators with closure arguments that have no specification -> their defining `match`
                toks = R.desugar_option_calls(toks, inline["__desugar__"], log, where)
            # R20 first: the unit's cuts and subs then see the helper's text as part of the function, as they did before the
            # helper was split off
            n_inl_ = len(log)
            for hname, helper in inline.items():
                if hname != "__desugar__" and hname != item.name:
                    toks = R.inline_helper(toks, helper, log, where)
            if any(r_[0] == "R20" for r_ in log[n_inl_:]):
                # the inlined helper text has not been through the automatic rules yet (format!, println!, assert!, from_*_bytes ..);
                # they are idempotent on the text that has
                toks = _apply_rules(toks, opts["rules"], log, where, item.kind)
        for (tag, pat, optional) in opts.get("cuts", []):
            try:
                toks = R.cut_statement(toks, pat, tag, log, where)
            except LostAnchor as e:
                if not optional:
                    res.lost.append(str(e))
        for (tag, pat, repl, cnt) in opts["subs"]:
            try:
                toks = R.sub_tokens(toks, pat, repl, tag, log, where, cnt)
            except LostAnchor as e:
                res.lost.append(str(e))

        for kk in opts.get("r13", []):
            try:
                toks = R.r13_index_loop(toks, kk, log, where)
            except LostAnchor as e:
                res.lost.append(str(e))
        gen_name = item.name
        if item.kind == "fn":
            # split signature / body on the rewritten tokens
            k = 0
            while not (toks[k].kind == "ident" and toks[k].text == "fn"):
                k += 1
            j = k
            body_open = None
            while j < len(toks):
                tj = toks[j]
                if tj.kind == "punct" and tj.text in "([":
                    j = match_close(toks, j) + 1
                    continue
                if tj.kind == "punct" and tj.text == "{":
                    body_open = j
                    break
                j += 1
            sig = toks[:body_open]
            body = toks[body_open:]
            if opts["rename"]:
                for q in range(k + 1, len(sig)):
                    if sig[q].kind == "ident":
                        sig[q] = Tok("ident", opts["rename"], sig[q].start, sig[q].end)
                        gen_name = opts["rename"]
                        break
            if not opts.get("closure_sig"):
                sig = R.name_result(sig, opts["ret"])
            # loops
            loops = R.find_loops(body)
            # `hint loopend k`: a marker comment on its own line before the closing brace of loop k's body; the hint is then
            # placed before that line
            le = sorted({nth for (pos, nth, anchor, content, o2) in opts["hints"] if pos == "loopend"}, reverse=True)
            marks = []
            for nth in le:
                if nth < 1 or nth > len(loops):
                    res.lost.append("%s: loopend hint: loop %d not found" % (where, nth))
                    continue
                marks.append((match_close(body, loops[nth - 1]), nth))
            for (ci, nth) in sorted(marks, reverse=True):
                body[ci:ci] = R.syn("\n/*VX_LOOPEND_%d*/\n" % nth)
            if marks:
                loops = R.find_loops(body)
            opts["hints"] = [((("before", 1, "/*VX_LOOPEND_%d*/" % nth, content, o2)) if pos == "loopend" else (pos, nth, anchor, content, o2)) for (pos, nth, anchor, content, o2) in opts["hints"]]
            ins = {}
            for kord, content in opts["loops"].items():
                if isinstance(kord, tuple) and kord[0] == "i":
                    (_i, nth_, has_) = kord
                    ht = [t.text for t in R.lex(has_) if t.kind not in ("ws", "lcomment", "bcomment")]
                    spans_ = [(lo_, match_close(body, lo_)) for lo_ in loops]
                    def _has(lo_, hi_):
                        # header (from the loop keyword) + body
                        bt = R.loop_header(body, lo_) + [t.text for t in body[lo_:hi_] if t.kind not in ("ws", "lcomment", "bcomment")]
                        return any(bt[q:q + len(ht)] == ht for q in range(len(bt) - len(ht) + 1))
                    with_ = [(lo_, hi_) for (lo_, hi_) in spans_ if _has(lo_, hi_)]
                    inner_ = [(lo_, hi_) for (lo_, hi_) in with_ if not any(lo_ < l2 and h2 < hi_ for (l2, h2) in with_)]
                    if nth_ < 1 or nth_ > len(inner_):
                        res.absent_loops.append("%s: innermost loop #%d containing `%s` not found (%d such loops)" % (where, nth_, has_, len(inner_)))
                        continue
                    ins[inner_[nth_ - 1][0]] = content
                    continue
                if isinstance(kord, tuple):
                    (_m, nth_, want_, has_) = kord
                    wt = [t.text for t in R.lex(want_) if t.kind not in ("ws", "lcomment", "bcomment")]
                    ht = [t.text for t in R.lex(has_) if t.kind not in ("ws", "lcomment", "bcomment")] if has_ else None
                    cands_ = []
                    for lo_ in loops:
                        hd = R.loop_header(body, lo_)
                        if any(hd[q:q + len(wt)] == wt for q in range(len(hd) - len(wt) + 1)):
                            if ht is not None:
                                bt = [t.text for t in body[lo_:match_close(body, lo_)] if t.kind not in ("ws", "lcomment", "bcomment")]
                                if not any(bt[q:q + len(ht)] == ht for q in range(len(bt) - len(ht) + 1)):
                                    continue
                            cands_.append(lo_)
                    if nth_ < 1 or nth_ > len(cands_):
                        # not a lost anchor: if the loop still exists in another shape it has no `decreases` now, which Verus
                        # rejects (no verdict); if it is gone, its invariants are moot
                        res.absent_loops.append("%s: loop #%d with a header containing `%s`%s not found (%d such loops)" % (where, nth_, want_, (" and a body containing `%s`" % has_) if has_ else "", len(cands_)))
                        continue
                    ins[cands_[nth_ - 1]] = content
                    continue
                if kord < 1 or kord > len(loops):
                    if kord not in opts.get("loop_optional", set()):
                        res.lost.append("%s: loop %d not found (%d loops)" % (where, kord, len(loops)))
                    continue
                want = opts.get("loop_heads", {}).get(kord)
                if os.environ.get("VX_LOOP_HEADS"):
                    print("LOOPHEAD %s | %d | %s" % (where, kord, " ".join(R.loop_header(body, loops[kord - 1]))))
                if want:
                    hd = R.loop_header(body, loops[kord - 1])
                    wt = [t.text for t in R.lex(want) if t.kind not in ("ws", "lcomment", "bcomment")]
                    if not any(hd[q:q + len(wt)] == wt for q in range(len(hd) - len(wt) + 1)):
                        if kord in opts.get("loop_optional", set()):
                            continue
                        res.lost.append("%s: loop %d is `%s`, expected a header containing `%s`" % (where, kord, " ".join(hd)[:80], want))
                        continue
                ins[loops[kord - 1]] = content
            # render
            sig_lines = _toks_to_lines(sig, relfile, src_line_of)
            # drop trailing whitespace-only line of sig
            while sig_lines and sig_lines[-1][0].strip() == "":
                sig_lines.pop()
            body_lines = []
            if ins:
                # split body tokens at insertion points
                pieces, prev = [], 0
                for idx in sorted(ins):
                    pieces.append((body[prev:idx], ins[idx]))
                    prev = idx
                pieces.append((body[prev:], None))
                loopstart = {}
                for (pos, nth, anchor, content, o2) in opts["hints"]:
                    if pos == "loopstart":
                        if nth < 1 or nth > len(loops):
                            res.lost.append("%s: loopstart hint: loop %d not found" % (where, nth))
                        else:
                            loopstart.setdefault(loops[nth - 1], []).extend(content)
                prev_idx = None
                order = sorted(ins)
                for pi, (ptoks, content) in enumerate(pieces):
                    pl = _toks_to_lines(ptoks, relfile, src_line_of)
                    if pi > 0 and order[pi - 1] in loopstart and pl:
                        # this piece starts with the loop's opening brace: put the hint right after that line
                        pl[1:1] = [("        " + ctext, corig) for (ctext, corig) in loopstart[order[pi - 1]]]
                    body_lines.extend(pl)
                    if content is not None:
                        for (ctext, corig) in content:
                            body_lines.append(("        " + ctext, corig))
            else:
                body_lines = _toks_to_lines(body, relfile, src_line_of)
            # hints (line based on rewritten body)
            for (pos, nth, anchor, content, o2) in opts["hints"]:
                if pos == "loopstart":
                    continue
                if pos == "start":
                    # right after the opening brace of the body: never lost
                    q0 = next(q for q, (t, o) in enumerate(body_lines) if "{" in t)
                    body_lines[q0 + 1:q0 + 1] = [("        " + ctext, corig) for (ctext, corig) in content]
                    continue
                scope_ = None
                if isinstance(o2, tuple) and len(o2) == 2 and isinstance(o2[1], str) and isinstance(o2[0], tuple):
                    (o2, scope_) = o2
                lo_ln, hi_ln = 0, len(body_lines)
                if scope_ is not None:
                    # line range of the innermost loop containing the scope text, computed on the current text of the body
                    txt_ = "\n".join(t for (t, o) in body_lines)
                    tk_ = R.lex(txt_)
                    st_ = [t.text for t in R.lex(scope_) if t.kind not in ("ws", "lcomment", "bcomment")]
                    loops_ = R.find_loops(tk_)
                    spans_ = []
                    for lo_ in loops_:
                        hi_ = match_close(tk_, lo_)
                        bt = [t.text for t in tk_[lo_:hi_] if t.kind not in ("ws", "lcomment", "bcomment")]
                        if any(bt[q:q + len(st_)] == st_ for q in range(len(bt) - len(st_) + 1)):
                            spans_.append((lo_, hi_))
                    inner_ = [(a_, b_) for (a_, b_) in spans_ if not any(a_ < a2 and b2 < b_ for (a2, b2) in spans_)]
                    if not inner_:
                        res.absent_loops.append("%s: hint scope: no loop contains `%s`" % (where, scope_))
                        continue
                    lo_ln = txt_[:tk_[inner_[0][0]].start].count("\n")
                    hi_ln = txt_[:tk_[inner_[0][1]].start].count("\n") + 1
                hits = []
                for anchor_ in anchor.split("` ||| `"):
                    # `A ||| B`: alternative anchors (two shapes of the same statement); the first one that occurs is used
                    if anchor_.startswith("^"):
                        # `^text`: the whole (stripped) line equals text
                        hits = [q for q, (t, o) in enumerate(body_lines) if lo_ln <= q < hi_ln and t.strip() == anchor_[1:] and not isinstance(o, tuple)]
                    else:
                        hits = [q for q, (t, o) in enumerate(body_lines) if lo_ln <= q < hi_ln and anchor_ in t and not isinstance(o, tuple)]
                    if hits:
                        break
                if len(hits) < max(nth, 1):
                    res.lost.append("%s: hint anchor `%s` #%d not found" % (where, anchor, nth))
                    continue
                q = hits[-1] if nth == -1 else hits[nth - 1]
                at = q if pos == "before" else q + 1
                body_lines[at:at] = [("        " + ctext, corig) for (ctext, corig) in content]
            do_canary = "canary" in variant.split("+") and bool(opts["spec"]) and not opts["nocanary"] and not opts["bodyless"]
            for emit_canary in ([False, True] if do_canary else [False]):
                g0 = len(out) + 1
                out.append(("// ---- extracted%s: %s %s (lines %d-%d, sha256 %s) ----" % (" (vacuity canary copy)" if emit_canary else "", relfile, selector, item.line0, item.line1, item.sha[:16]), ("gen", None, 0)))
                for a_ in opts.get("attrs", []):
                    out.append((a_, ("gen", None, 0)))
                first_sig = True
                for (t, o) in sig_lines:
                    if emit_canary and first_sig:
                        t2 = re.sub(r"\bfn\s+%s\b" % re.escape(gen_name), "fn %s__canary" % gen_name, t, count=1)
                        if t2 != t:
                            first_sig = False
                        t = t2
                    out.append((t, ("repo", relfile, o) if isinstance(o, int) else (o or ("gen", None, 0))))
                has_ens = any(re.match(r"\s*ensures\b", c) for c, _ in opts["spec"])
                done_can = False
                for (ctext, corig) in opts["spec"]:
                    if emit_canary:
                        ctext = re.sub(r"//\s*O:", "// o:", ctext)
                        if has_ens and not done_can and re.match(r"\s*ensures\b", ctext):
                            ctext = re.sub(r"^(\s*ensures)\b", r"\1 false,", ctext, count=1)
                            done_can = True
                    out.append(("    " + ctext, corig))
                if emit_canary and not has_ens:
                    # no ensures clause: put one in front of a decreases clause if there is one, else at the end
                    idx = None
                    for q in range(len(out) - len(opts["spec"]), len(out)):
                        if re.match(r"\s*decreases\b", out[q][0]):
                            idx = q
                            break
                    if idx is None:
                        out.append(("    ensures false,", ("gen", None, 0)))
                    else:
                        out.insert(idx, ("    ensures false,", ("gen", None, 0)))
                if opts["bodyless"]:
                    out.append(("    { unimplemented!() }", ("gen", None, 0)))
                else:
                    for (t, o) in body_lines:
                        out.append((t, ("repo", relfile, o) if isinstance(o, int) else (o or ("gen", None, 0))))
                g1 = len(out)
                res.fn_spans.append((g0, g1, gen_name + ("__canary" if emit_canary else "")))
            res.functions.append({"name": gen_name, "selector": selector, "file": relfile,
                                  "lines": "%d-%d" % (item.line0, item.line1), "sha256": item.sha,
                                  "contracted": bool(opts["spec"]), "canary": bool(opts["spec"]) and not opts["nocanary"] and not opts["bodyless"],
                                  "loops_with_invariant": len(opts["loops"]), "hints": len(opts["hints"])})
        else:
            out.append(("// ---- extracted: %s %s (lines %d-%d, sha256 %s) ----" % (relfile, selector, item.line0, item.line1, item.sha[:16]), ("gen", None, 0)))
            if opts.get("derive"):
                # rule R1 drops derive lists; a unit may keep the structural ones Verus understands (PartialEq/Eq/Clone/Copy)
                emit = None
                if "=>" in opts["derive"]:
                    opts["derive"], emit = [x.strip() for x in opts["derive"].split("=>")]
                want = [x.strip() for x in opts["derive"].split(",")]
                orig = re.search(r"#\[\s*derive\s*\(([^)]*)\)", untok(item.toks))
                have = [x.strip() for x in orig.group(1).split(",")] if orig else []
                missing = [w for w in want if w not in have]
                if missing:
                    res.lost.append("%s: derive(%s) no longer present in the source" % (where, ",".join(missing)))
                else:
                    out.append(("#[derive(%s)]" % (emit or ", ".join(want)), ("gen", None, 0)))
                    log.append(("R1", where, "derive(%s)" % ", ".join(have), "derive(%s)" % (emit or ", ".join(want))))
            for (t, o) in _toks_to_lines(toks, relfile, src_line_of):
                if opts.get("derive") and t.strip().startswith("#[derive(Clone, Copy)]"):
                    t = t.replace("#[derive(Clone, Copy)]", "", 1)   # the unit's derive option replaces R1's default
                out.append((t, ("repo", relfile, o) if isinstance(o, int) else ("gen", None, 0)))
            res.functions.append({"name": item.name, "selector": selector, "file": relfile,
                                  "lines": "%d-%d" % (item.line0, item.line1), "sha256": item.sha,
                                  "contracted": False, "canary": False, "kind": item.kind})

    res.text = "\n".join(t for t, _ in out) + "\n"
    res.linemap = [o for _, o in out]
    for ln, (t, o) in enumerate(out, 1):
        for m in re.finditer(r"//\s*O:([\w.\-|]+)", t):
            res.tags.setdefault(m.group(1), ln)
        code = t.split("//")[0]
        for kind in ("assume(", "admit(", "external_body", "assume_specification", "external_type_specification",
                     "verifier::truncate", "external_fn_specification", "verifier::external", "unsafe "):
            if kind in code:
                desc = t.strip()
                if desc.startswith("#["):
                    # an attribute line: name the item it is attached to
                    for q in range(ln, min(ln + 4, len(out))):
                        nxt = out[q][0].strip()
                        if nxt and not nxt.startswith("#[") and not nxt.startswith("//"):
                            desc += " " + nxt
                            break
                res.trusted.append((kind.rstrip("("), ln, desc[:160]))
                break
    return res


if __name__ == "__main__":
    import json
    r = build(sys.argv[1], sys.argv[2] if len(sys.argv) > 2 else "/repo", sys.argv[3] if len(sys.argv) > 3 else "strict")
    sys.stdout.write(r.text)
    sys.stderr.write(json.dumps({"functions": r.functions, "rewrites": r.rewrites, "tags": r.tags}, indent=1)[:4000])
