"""Locate items in a Rust source file by name and copy their text verbatim."""
import hashlib
import re
from rtok import lex, code_toks, match_close, untok


class LostAnchor(Exception):
    pass


class Item:
    def __init__(self, kind, name, path, toks, sig_end, line0, line1, src_text, header=None):
        self.kind = kind          # fn | struct | enum | const | static | type
        self.name = name
        self.path = path
        self.toks = toks          # tokens of the item (attributes/docs stripped)
        self.sig_end = sig_end    # for fn: index in toks of the body '{'
        self.line0, self.line1 = line0, line1
        self.sha = hashlib.sha256(src_text.encode()).hexdigest()
        self.header = header      # impl header text for methods


_cache = {}


def _load(path):
    if path not in _cache:
        src = open(path).read()
        toks = lex(src)
        _cache[path] = (src, toks)
    return _cache[path]


def _line_of(src, pos):
    return src.count("\n", 0, pos) + 1


def _skip_ws(toks, k):
    while k < len(toks) and toks[k].kind in ("ws", "lcomment", "bcomment"):
        k += 1
    return k


def _scan_items(toks, lo, hi):
    """Yield (kind, name, start_idx, end_idx_exclusive, header_info) for items directly inside toks[lo:hi]."""
    k = lo
    while k < hi:
        k = _skip_ws(toks, k)
        if k >= hi:
            break
        start = k
        # attributes
        while k < hi and toks[k].text == "#":
            j = _skip_ws(toks, k + 1)
            if toks[j].text == "!":
                j = _skip_ws(toks, j + 1)
            assert toks[j].text == "[", toks[j]
            k = _skip_ws(toks, match_close(toks, j) + 1)
        item_start = k
        # visibility & qualifiers
        while k < hi and toks[k].kind == "ident" and toks[k].text in (
                "pub", "const", "async", "unsafe", "extern", "default"):
            if toks[k].text == "const":
                # `const NAME: T = ..;` vs `const fn`
                j = _skip_ws(toks, k + 1)
                if toks[j].text != "fn" and toks[j].text not in ("unsafe", "async", "extern"):
                    break
            k = _skip_ws(toks, k + 1)
            if toks[k].text == "(" and toks[k - 1].kind != "ws" or (toks[k].text == "("):
                # pub(crate)
                k = _skip_ws(toks, match_close(toks, k) + 1)
            if toks[k].kind == "str":  # extern "C"
                k = _skip_ws(toks, k + 1)
        if k >= hi:
            break
        t = toks[k]
        kw = t.text if t.kind == "ident" else None
        if kw in ("fn", "struct", "enum", "union", "trait", "mod", "type", "const", "static", "impl", "use",
                  "macro_rules", "extern"):
            # find the end: first ';' or '{...}' at depth 0 ( parens/brackets skipped )
            j = k + 1
            name = None
            nj = _skip_ws(toks, j)
            if kw == "macro_rules":
                nj = _skip_ws(toks, nj + 1)  # skip '!'
            if toks[nj].kind == "ident" and kw not in ("impl", "use"):
                name = toks[nj].text
                if kw in ("const", "static") and name == "mut":
                    name = toks[_skip_ws(toks, nj + 1)].text
            end = None
            body_open = None
            while j < hi:
                tj = toks[j]
                if tj.kind == "punct":
                    if tj.text in "([":
                        j = match_close(toks, j) + 1
                        continue
                    if tj.text == "{":
                        body_open = j
                        end = match_close(toks, j) + 1
                        # `struct X {..}` / fn / impl end at '}' ; `const X: T = S { .. };` continue to ';'
                        if kw in ("const", "static", "type", "use"):
                            j = end
                            end = None
                            continue
                        break
                    if tj.text == ";":
                        end = j + 1
                        break
                j += 1
            if end is None:
                raise ValueError("could not find end of item %s %s" % (kw, name))
            yield (kw, name, (start if kw in ("struct", "enum") else item_start), end, body_open, k)
            k = end
        else:
            # macro invocation at item level (lazy_static! {..}, etc.) or stray token: skip to end of braces / ';'
            j = k
            end = None
            while j < hi:
                tj = toks[j]
                if tj.kind == "punct":
                    if tj.text in "([":
                        j = match_close(toks, j) + 1
                        continue
                    if tj.text == "{":
                        end = match_close(toks, j) + 1
                        break
                    if tj.text == ";":
                        end = j + 1
                        break
                j += 1
            if end is None:
                end = hi
            yield ("macro", toks[k].text, item_start, end, None, k)
            k = end


def _impl_header(toks, kw_idx, body_open):
    return re.sub(r"\s+", " ", untok(toks[kw_idx:body_open])).strip()


def _impl_names(header):
    """-> (trait or None, self type name)"""
    h = header[len("impl"):].strip()
    # strip leading generics
    if h.startswith("<"):
        d = 0
        for i, c in enumerate(h):
            if c == "<":
                d += 1
            elif c == ">":
                d -= 1
                if d == 0:
                    h = h[i + 1:].strip()
                    break
    h = re.split(r"\bwhere\b", h)[0].strip()
    m = re.match(r"(.*?)\bfor\b(.*)$", h)
    trait, ty = (None, h)
    if m and not m.group(1).strip().endswith("<"):
        trait, ty = m.group(1).strip(), m.group(2).strip()

    def last_name(s):
        s = re.sub(r"<.*$", "", s.strip())
        s = s.replace("&mut ", "&").lstrip("&").strip()
        s = re.sub(r"^'\w+\s+", "", s)
        s = s.replace("mut ", "").strip()
        return s.split("::")[-1].strip()
    return (last_name(trait) if trait else None, last_name(ty), ty.strip())


def find_item(path, selector):
    """selector forms:
         fn NAME | struct NAME | enum NAME | const NAME | static NAME | type NAME
         Type::NAME                 (method in any `impl .. Type ..` block; must be unique)
         <Trait for Type>::NAME     (method in a trait impl)
         mod a::fn NAME ...         (prefix `mod NAME::` descends into an inline module)
    """
    src, toks = _load(path)
    lo, hi = 0, len(toks)
    sel = selector.strip()
    while sel.startswith("mod "):
        m = re.match(r"mod (\w+)::(.*)$", sel)
        modname, sel = m.group(1), m.group(2)
        found = False
        for kw, name, s, e, bo, kwi in _scan_items(toks, lo, hi):
            if kw == "mod" and name == modname and bo is not None:
                lo, hi = bo + 1, e - 1
                found = True
                break
        if not found:
            raise LostAnchor("module %s not found in %s" % (modname, path))
    m = re.match(r"(fn|struct|enum|const|static|type) (\w+)$", sel)
    cands = []
    if m:
        for kw, name, s, e, bo, kwi in _scan_items(toks, lo, hi):
            if kw == m.group(1) and name == m.group(2):
                cands.append((kw, name, s, e, bo, None))
    else:
        m = re.match(r"<(\w+) for ([&\w ]+)>::(\w+)$", sel)
        if m:
            trait, ty, fname = m.group(1), m.group(2).strip(), m.group(3)
        else:
            m = re.match(r"(\w+)::(\w+)$", sel)
            if not m:
                raise ValueError("bad selector %r" % selector)
            trait, ty, fname = None, m.group(1), m.group(2)
        for kw, name, s, e, bo, kwi in _scan_items(toks, lo, hi):
            if kw != "impl" or bo is None:
                continue
            header = _impl_header(toks, kwi, bo)
            tr, tyname, tyfull = _impl_names(header)
            def _norm(x):
                x = re.sub(r"<.*$", "", x)
                x = re.sub(r"'\w+\s*", "", x)
                return re.sub(r"\s+", " ", x).strip()
            if "&" in ty:
                if _norm(tyfull) != _norm(ty):
                    continue
            else:
                if tyfull.startswith("&"):
                    continue
                if tyname != ty:
                    continue
            if trait is not None and tr != trait:
                continue
            if trait is None and tr is not None and False:
                continue
            for kw2, name2, s2, e2, bo2, kwi2 in _scan_items(toks, bo + 1, e - 1):
                if kw2 == "fn" and name2 == fname:
                    cands.append((kw2, name2, s2, e2, bo2, header))
    if not cands:
        raise LostAnchor("item %r not found in %s" % (selector, path))
    if len(cands) > 1:
        raise LostAnchor("item %r is ambiguous in %s (%d candidates)" % (selector, path, len(cands)))
    kw, name, s, e, bo, header = cands[0]
    it_toks = toks[s:e]
    src_text = src[toks[s].start:toks[e - 1].end]
    sig_end = (bo - s) if (bo is not None) else None
    return Item(kw, name, path, it_toks, sig_end,
                _line_of(src, toks[s].start), _line_of(src, toks[e - 1].end - 1), src_text, header)


def find_closure(path, fn_selector, k):
    """k-th (1-based) closure expression inside the body of the function selected by fn_selector.
       Returns an Item of kind 'closure' whose toks are the closure *body* tokens (a block incl. braces, or an expression)."""
    it = find_item(path, fn_selector)
    src, _ = _load(path)
    toks = it.toks
    code = [i for i, t in enumerate(toks) if t.kind not in ("ws", "lcomment", "bcomment")]
    found = []
    ci = 0
    while ci < len(code):
        i = code[ci]
        t = toks[i]
        if t.kind == "punct" and t.text in ("|", "||") and ci > 0:
            prev = toks[code[ci - 1]]
            if (prev.kind == "punct" and prev.text in ("(", ",", "=", "{", ";")) or (prev.kind == "ident" and prev.text in ("move", "return")):
                # parameters
                if t.text == "||":
                    pe = ci
                else:
                    pe = ci + 1
                    while pe < len(code) and not (toks[code[pe]].kind == "punct" and toks[code[pe]].text == "|"):
                        if toks[code[pe]].text in ("(", "["):
                            cl = match_close(toks, code[pe])
                            while code[pe] < cl:
                                pe += 1
                            continue
                        pe += 1
                bstart = code[pe + 1]
                # `|params| -> T { body }`: skip the return type (the body is then always a block)
                if toks[bstart].kind == "punct" and toks[bstart].text == "->":
                    q_ = pe + 2
                    while q_ < len(code) and not (toks[code[q_]].kind == "punct" and toks[code[q_]].text == "{"):
                        q_ += 1
                    if q_ < len(code):
                        bstart = code[q_]
                if toks[bstart].kind == "punct" and toks[bstart].text == "{":
                    bend = match_close(toks, bstart)
                else:
                    q = pe + 1
                    depth = 0
                    bend = bstart
                    while q < len(code):
                        tq = toks[code[q]]
                        if tq.kind == "punct" and tq.text in "([{":
                            cl = match_close(toks, code[q])
                            while q < len(code) and code[q] <= cl:
                                bend = code[q]
                                q += 1
                            continue
                        if tq.kind == "punct" and tq.text in (",", ")", ";", "}"):
                            break
                        bend = code[q]
                        q += 1
                found.append((i, bstart, bend))
                # continue scanning after the closure header (nested closures inside the body are found too)
        ci += 1
    if k < 1 or k > len(found):
        raise LostAnchor("closure #%d of %r not found in %s (%d closures)" % (k, fn_selector, path, len(found)))
    i, bstart, bend = found[k - 1]
    btoks = toks[bstart:bend + 1]
    text = src[btoks[0].start:btoks[-1].end]
    params = untok(toks[i:bstart]).strip()
    return Item("closure", "%s#%d" % (it.name, k), path, btoks, None, _line_of(src, btoks[0].start), _line_of(src, btoks[-1].end - 1), params + " " + text, params)


def find_call_arg(path, fn_selector, callee, k, argn=None):
    """the argument tokens of the k-th (1-based) call `callee(...)` inside the function selected by fn_selector
       (callee given as a token sequence such as `Vec::with_capacity`). Returned as an Item of kind 'expr'."""
    it = find_item(path, fn_selector)
    src, _ = _load(path)
    toks = it.toks
    pat = [t.text for t in lex(callee) if t.kind not in ("ws", "lcomment", "bcomment")]
    code = [i for i, t in enumerate(toks) if t.kind not in ("ws", "lcomment", "bcomment")]
    hits = []
    for ci in range(len(code) - len(pat)):
        if all(toks[code[ci + q]].text == pat[q] for q in range(len(pat))) and toks[code[ci + len(pat)]].text == "(":
            op = code[ci + len(pat)]
            cl = match_close(toks, op)
            hits.append((op, cl))
    if k < 1 or k > len(hits):
        raise LostAnchor("call #%d of %s in %r not found in %s (%d calls)" % (k, callee, fn_selector, path, len(hits)))
    op, cl = hits[k - 1]
    atoks = toks[op + 1:cl]
    if argn is not None:
        # the argn-th (1-based) argument only: split at top-level commas
        parts, cur, q = [], [], 0
        while q < len(atoks):
            t = atoks[q]
            if t.kind == "punct" and t.text in "([{":
                c2 = match_close(atoks, q)
                cur.extend(atoks[q:c2 + 1])
                q = c2 + 1
                continue
            if t.kind == "punct" and t.text == "," :
                parts.append(cur)
                cur = []
            else:
                cur.append(t)
            q += 1
        if any(x.kind not in ("ws", "lcomment", "bcomment") for x in cur):
            parts.append(cur)
        if argn < 1 or argn > len(parts):
            raise LostAnchor("call #%d of %s in %r has %d arguments, argument %d wanted" % (k, callee, fn_selector, len(parts), argn))
        atoks = parts[argn - 1]
    while atoks and atoks[0].kind == "ws":
        atoks = atoks[1:]
    while atoks and atoks[-1].kind == "ws":
        atoks = atoks[:-1]
    text = src[atoks[0].start:atoks[-1].end]
    return Item("expr", "%s@%s#%d" % (callee, it.name, k), path, atoks, None, _line_of(src, atoks[0].start), _line_of(src, atoks[-1].end - 1), text, None)


def find_region(path, fn_selector, start_pat, end_pat):
    """`A ||| B` in either anchor: alternative shapes of the anchored statement; the first combination that is found is used"""
    starts = [x.strip() for x in start_pat.split("|||")]
    ends = [x.strip() for x in end_pat.split("|||")]
    if len(starts) == 1 and len(ends) == 1:
        return _find_region1(path, fn_selector, start_pat, end_pat)
    err = None
    for a_ in starts:
        for b_ in ends:
            try:
                return _find_region1(path, fn_selector, a_, b_)
            except LostAnchor as e:
                err = err or e
    raise err


def _find_region1(path, fn_selector, start_pat, end_pat):
    """the statements of the function selected by fn_selector from the statement that starts with the token sequence
       start_pat up to and including the statement that starts with end_pat (through its terminating `;` at the bracket depth
       of its first token). Returned as an Item of kind 'region' (tokens of those statements, byte-identical)."""
    it = find_item(path, fn_selector)
    src, _ = _load(path)
    toks = it.toks
    code = [i for i, t in enumerate(toks) if t.kind not in ("ws", "lcomment", "bcomment")]

    def find(pat_text, from_ci):
        pat = [t.text for t in lex(pat_text) if t.kind not in ("ws", "lcomment", "bcomment")]
        for ci in range(from_ci, len(code) - len(pat) + 1):
            # `_id_` in an anchor stands for any one identifier
            if all((toks[code[ci + q]].text == pat[q]) or (pat[q] == "_id_" and toks[code[ci + q]].kind == "ident") for q in range(len(pat))):
                return ci
        return None
    def stmt_end(ci):
        """code index of the last token of the statement that starts at code index ci (block statements end with their last
           block, including else chains; other statements with `;`)"""
        q = ci
        blockish = toks[code[ci]].kind == "ident" and toks[code[ci]].text in ("for", "while", "loop", "if", "match")
        while q < len(code):
            tq = toks[code[q]]
            if tq.kind == "punct" and tq.text in "([":
                q = pos_of_tok[match_close(toks, code[q])] + 1
                continue
            if tq.kind == "punct" and tq.text == "{":
                q = pos_of_tok[match_close(toks, code[q])] + 1
                if blockish:
                    if q < len(code) and toks[code[q]].kind == "ident" and toks[code[q]].text == "else":
                        q += 1
                        continue
                    if q < len(code) and toks[code[q]].kind == "punct" and toks[code[q]].text == ";":
                        return q
                    return q - 1
                continue
            if tq.kind == "punct" and tq.text == ";":
                return q
            if tq.kind == "punct" and tq.text in ")]}":
                return q - 1
            q += 1
        return None
    pos_of_tok = {ti: ci for ci, ti in enumerate(code)}
    after_stmt = start_pat.startswith(">>")
    if after_stmt:
        # `>>pattern`: the region starts with the statement FOLLOWING the statement that starts with the pattern
        start_pat = start_pat[2:].strip()
        a0 = find(start_pat, 0)
        if a0 is None:
            raise LostAnchor("region start `>>%s` not found in %r of %s" % (start_pat, fn_selector, path))
        e0 = stmt_end(a0)
        a = None if e0 is None else e0 + 1
        if a is None or a >= len(code):
            raise LostAnchor("region start `>>%s`: no following statement in %r" % (start_pat, fn_selector))
    after = (not after_stmt) and start_pat.startswith(">")
    if after:
        # `>pattern`: the region starts with the first statement AFTER the matched tokens (e.g. `>if c {` = first statement of
        # that block)
        start_pat = start_pat[1:].strip()
    if not after_stmt:
        a = find(start_pat, 0)
        if a is None:
            raise LostAnchor("region start `%s` not found in %r of %s" % (start_pat, fn_selector, path))
    if after:
        a += len([t for t in lex(start_pat) if t.kind not in ("ws", "lcomment", "bcomment")])
    if end_pat.strip() == "$end":
        # through the end of the block that contains the start statement
        q, end_i = a, None
        while q < len(code):
            tq = toks[code[q]]
            if tq.kind == "punct" and tq.text in "([{":
                cl = match_close(toks, code[q])
                while q < len(code) and code[q] <= cl:
                    q += 1
                continue
            if tq.kind == "punct" and tq.text in ")]}":
                end_i = code[q - 1]
                break
            q += 1
        if end_i is None:
            raise LostAnchor("region `%s` .. $end: no enclosing block end in %r" % (start_pat, fn_selector))
        rt = toks[code[a]:end_i + 1]
        if not rt:
            raise LostAnchor("region `%s` .. $end is empty in %r" % (start_pat, fn_selector))
        text = src[rt[0].start:rt[-1].end]
        return Item("region", "%s@%s" % (start_pat[:30], it.name), path, rt, None, _line_of(src, rt[0].start), _line_of(src, rt[-1].end - 1), text, None)
    b = find(end_pat, a)
    if b is None:
        raise LostAnchor("region end `%s` not found in %r of %s" % (end_pat, fn_selector, path))
    # end of the statement that starts at code[b]
    q = b
    end_i = None
    if toks[code[b]].kind == "ident" and toks[code[b]].text in ("for", "while", "loop", "if", "match"):
        # a block statement: ends with the closing brace of its (last) block; `else` / `else if` chains belong to it
        while q < len(code):
            tq = toks[code[q]]
            if tq.kind == "punct" and tq.text in "([":
                cl = match_close(toks, code[q])
                while q < len(code) and code[q] <= cl:
                    q += 1
                continue
            if tq.kind == "punct" and tq.text == "{":
                cl = match_close(toks, code[q])
                while q < len(code) and code[q] <= cl:
                    q += 1
                if q < len(code) and toks[code[q]].kind == "ident" and toks[code[q]].text == "else":
                    q += 1
                    continue
                end_i = cl
                if q < len(code) and toks[code[q]].kind == "punct" and toks[code[q]].text == ";":
                    end_i = code[q]
                break
            q += 1
        if end_i is None:
            raise LostAnchor("region end statement `%s`: no block found" % end_pat)
        q = len(code)
    while q < len(code):
        tq = toks[code[q]]
        if tq.kind == "punct" and tq.text in "([{":
            cl = match_close(toks, code[q])
            while q < len(code) and code[q] <= cl:
                q += 1
            # a block statement (`while .. { }`, `if .. { } else { }`) may end without `;`
            continue
        if tq.kind == "punct" and tq.text == ";":
            end_i = code[q]
            break
        if tq.kind == "punct" and tq.text in ")]}":
            # the end statement is the tail expression of its block: the region ends right before the closing bracket
            end_i = code[q - 1]
            break
        q += 1
    if end_i is None:
        raise LostAnchor("region end statement `%s` has no terminating `;`" % end_pat)
    rt = toks[code[a]:end_i + 1]
    text = src[rt[0].start:rt[-1].end]
    return Item("region", "%s@%s" % (start_pat[:30], it.name), path, rt, None, _line_of(src, rt[0].start), _line_of(src, rt[-1].end - 1), text, None)


def list_items(path):
    src, toks = _load(path)
    out = []
    for kw, name, s, e, bo, kwi in _scan_items(toks, 0, len(toks)):
        if kw == "impl" and bo is not None:
            header = _impl_header(toks, kwi, bo)
            for kw2, name2, s2, e2, bo2, kwi2 in _scan_items(toks, bo + 1, e - 1):
                out.append((header, kw2, name2, _line_of(src, toks[s2].start)))
        else:
            out.append((None, kw, name, _line_of(src, toks[s].start)))
    return out


if __name__ == "__main__":
    import sys
    if len(sys.argv) == 2:
        for x in list_items(sys.argv[1]):
            print(x)
    else:
        it = find_item(sys.argv[1], sys.argv[2])
        print("// %s:%d-%d sha=%s header=%s" % (it.path, it.line0, it.line1, it.sha[:12], it.header))
        print(untok(it.toks))
