"""check driver: property -> units -> (extract, weave, verus) -> verdict + evidence.

Exit codes: 0 property held on everything decided; 1 VIOLATION; 2 UNDECIDED (tool/anchor/resource problem).
"""
import concurrent.futures as cf
import json
import os
import re
import subprocess
import sys
import time

HERE = os.path.dirname(os.path.abspath(__file__))
VERIF = os.path.dirname(HERE)
sys.path.insert(0, HERE)
import build as B
from extract import LostAnchor
from rules import Unsupported

REPO = os.environ.get("ADLT_REPO", "/repo")
BUILD = os.path.join(VERIF, "build")
RLIMIT = os.environ.get("VERIF_RLIMIT", "100")

SEMANTIC = [
    ("postcondition not satisfied", "postcondition"),
    ("precondition not satisfied", "precondition"),
    ("precondition not met", "precondition"),    # built-in array index: "precondition not met: index in bounds for this access"
    ("assertion failed", "assertion"),
    ("possible arithmetic underflow/overflow", "overflow"),
    ("possible division by zero", "div0"),
    ("invariant not satisfied", "invariant"),
    ("loop invariant not satisfied", "invariant"),
    ("decreases not satisfied", "termination"),
    ("could not prove termination", "termination"),
    ("possible bit shift underflow/overflow", "shift"),
    ("unreachable", "unreachable"),
    ("index out of bounds", "bounds"),
]
RESOURCE = ["Resource limit", "rlimit", "timed out", "timeout"]


def load_props():
    return json.load(open(os.path.join(VERIF, "vx", "props.json")))


def load_known_findings():
    """known_findings.txt: `finding: property=Cxx unit=U obligation=TAG what=...` / `fixed: property=Cxx <commit> <what>`"""
    out = {"finding": [], "fixed": []}
    p = os.path.join(VERIF, "known_findings.txt")
    if not os.path.exists(p):
        return out
    for ln in open(p):
        ln = ln.strip()
        if not ln or ln.startswith("#"):
            continue
        kind, _, rest = ln.partition(":")
        kind = kind.strip()
        if kind == "finding":
            d = {}
            m = re.match(r"\s*property=(\S+)\s+unit=(\S+)\s+obligation=(\S+)\s+(.*)$", rest)
            if not m:
                raise ValueError("bad known finding line: " + ln)
            d = {"property": m.group(1), "unit": m.group(2), "obligation": m.group(3), "what": m.group(4)}
            out["finding"].append(d)
        elif kind == "fixed":
            out["fixed"].append(rest.strip())
    return out


class UnitRun:
    def __init__(self, unit, variant):
        self.unit, self.variant = unit, variant
        self.status = None        # ok | errors | undecided
        self.reason = ""
        self.failed = []          # list of dicts: id, fn, kind, message, gen_line, origin, raw
        self.verified = 0
        self.errors = 0
        self.fn_results = {}      # name -> {success, time_ms, rlimit}
        self.smt_ms = 0
        self.wall_s = 0.0
        self.build = None
        self.cmd = ""
        self.stderr_tail = ""
        self.lost = []
        self.unaccounted = []


def _fn_at(build, text_lines, gen_line):
    for (a, b, name) in build.fn_spans:
        if a <= gen_line <= b:
            return name
    # template function: search backwards for `fn NAME`
    for ln in range(min(gen_line, len(text_lines)), 0, -1):
        m = re.search(r"\bfn\s+(\w+)", text_lines[ln - 1].split("//")[0])
        if m:
            return m.group(1)
    return "?"


def _tag_on(text_lines, gen_line):
    if 1 <= gen_line <= len(text_lines):
        m = re.search(r"//\s*O:([\w.\-|]+)", text_lines[gen_line - 1])
        if m:
            return m.group(1)
    return None


_RUN_DIR = None
_RUN_LOCK = __import__("threading").Lock()


def _run_dir():
    global _RUN_DIR
    with _RUN_LOCK:
        if _RUN_DIR is None:
            import tempfile
            os.makedirs(BUILD, exist_ok=True)
            _RUN_DIR = tempfile.mkdtemp(prefix="run_%d_" % os.getpid(), dir=BUILD)
    return _RUN_DIR


def cleanup_run_dir():
    import shutil
    if _RUN_DIR is not None:
        shutil.rmtree(_RUN_DIR, ignore_errors=True)



# ---- guard against alarms caused by under-specified std functions (iterator adapters, closure-taking combinators) ----
# Verus accepts e.g. `v.iter().rev().find(|x| ..)` but knows (almost) nothing about the result: an obligation that fails in a
# function using such a call says nothing about the code. The extracted text of the UNCHANGED tree is profiled once
# (vx/weak_baseline.json, tools/mk_weak_baseline.py); a function of the working tree that contains MORE of these calls than its
# baseline is "tainted": its failing obligations are demoted to auxiliary (verdict UNDECIDED, never VIOLATION).
WEAK_RE = re.compile(r"\.\s*(rev|find|any|all|map|filter|position|rposition|fold|count|sum|product|collect|enumerate|zip|for_each|max_by|max_by_key|min_by|"
                     r"min_by_key|filter_map|flat_map|take_while|skip_while|map_while|partition|chain|nth|find_map|flatten|peekable|"
                     r"step_by|windows|chunks|retain|sort_by|sort_by_key|sort_unstable_by|sort_unstable_by_key|dedup|dedup_by_key|drain|binary_search_by|binary_search_by_key|"
                     r"partition_point|iter|iter_mut|into_iter|unwrap_or_else|map_or|map_or_else|and_then|or_else|is_some_and|is_ok_and|"
                     r"skip|rfind|try_fold|reduce|scan|inspect|fuse|cycle)\s*(?:::\s*<[^>]*>\s*)?\(")
# (methods of Option / slices that std documents completely and that have a specification here - copied, cloned, take, last, min, max,
# unwrap_or, .. - are not in the list: Verus rejects a std function without any specification, so what is accepted AND not listed
# here has a usable one)


GUARD_RE = re.compile(r"[\)\w\]]\s+if\s+[^;{}]*?=>", re.S)


_SAFE_METHODS = {"get", "copied", "cloned", "clone", "len", "is_some", "is_none", "is_empty", "contains_key", "contains", "as_ref", "iter",
                 "unwrap_or", "unwrap_or_default", "unwrap", "first", "last", "to_owned", "as_str", "as_slice", "eq", "starts_with", "ends_with"}


def _guarded_match_may_mutate(body, pos):
    """The match-guard artefact (see weak_profile) shows only if an arm of the guarded `match` writes through a `&mut` (probed:
       guards over locals or over the `&mut` parameter itself are harmless when every arm is pure). Conservative test: the text
       of the enclosing match block is 'pure' only if it has no assignment (outside `let` bindings), no `&mut`, no macro and no
       call other than enum constructors and a short list of `&self` methods. Anything else, or a block that cannot be found -> True."""
    depth, k = 0, pos
    while k > 0:
        k -= 1
        c = body[k]
        if c == "}":
            depth += 1
        elif c == "{":
            if depth == 0:
                break
            depth -= 1
    else:
        return True
    head = body[max(0, k - 400):k]
    head = re.split(r"[;{}]", head)[-1]
    if not re.search(r"\bmatch\b", head):
        return True
    depth, e = 0, k
    while e < len(body):
        if body[e] == "{":
            depth += 1
        elif body[e] == "}":
            depth -= 1
            if depth == 0:
                break
        e += 1
    else:
        return True
    blk = body[k:e + 1]
    blk = re.sub(r'"(?:[^"\\]|\\.)*"', '""', blk)
    blk = re.sub(r"\blet\b[^=;]*=(?!=)", " ", blk)
    if "&mut" in blk or re.search(r"\w\s*!\s*[\(\[{]", blk):
        return True
    if re.search(r"(?<![=!<>+\-*/%&|^])=(?![=>])", blk) or re.search(r"(\+|-|\*|/|%|&|\||\^|<<|>>)=", blk):
        return True
    for m_ in re.finditer(r"(\.?)\s*\b([A-Za-z_]\w*)\s*(?:::\s*<[^>]*>\s*)?\(", blk):
        dot, name = m_.group(1), m_.group(2)
        if name in ("if", "match", "while", "for", "return", "Some", "Ok", "Err") or name[0].isupper():
            continue
        if dot and name in _SAFE_METHODS:
            continue
        return True
    return False


def weak_profile(b):
    """per extracted function: how many calls of each under-specified std method its repo-origin lines contain"""
    lines = b.text.split("\n")
    prof = {}
    for (a, e, name) in b.fn_spans:
        if name.endswith("__canary"):
            continue
        cnt = {}
        for gl in range(a, min(e, len(lines)) + 1):
            origin = b.linemap[gl - 1] if gl - 1 < len(b.linemap) else ("gen", None, 0)
            if origin[0] != "repo":
                continue
            code = lines[gl - 1].split("//")[0]
            for m in WEAK_RE.finditer(code):
                cnt[m.group(1)] = cnt.get(m.group(1), 0) + 1
        # match-arm guards (`PAT if COND =>`): this Verus loses everything it knows about a `&mut` parameter that a guard reads
        # (observed: `match g { Some(p) if t.a == 5 => { t.b = 1 } _ => {} }` fails `final(t).a == old(t).a`) - a failing obligation
        # in a function that has gained such a guard says nothing about the code
        body_ = "\n".join(lines[gl - 1].split("//")[0] for gl in range(a, min(e, len(lines)) + 1)
                          if (b.linemap[gl - 1] if gl - 1 < len(b.linemap) else ("gen", None, 0))[0] == "repo")
        ng_ = sum(1 for m_ in GUARD_RE.finditer(body_) if _guarded_match_may_mutate(body_, m_.start()))
        if ng_:
            cnt["match_guard"] = cnt.get("match_guard", 0) + ng_
        old = prof.setdefault(name, {})
        for k_, v_ in cnt.items():
            old[k_] = old.get(k_, 0) + v_
    return prof


_WEAK_BASE = None


def weak_tainted(unit, b):
    """functions whose extracted text has more under-specified calls than recorded for the unchanged tree: {fn: [names]}"""
    global _WEAK_BASE
    if _WEAK_BASE is None:
        try:
            _WEAK_BASE = json.load(open(os.path.join(VERIF, "vx", "weak_baseline.json")))
        except Exception:
            _WEAK_BASE = {}
    base = _WEAK_BASE.get(unit)
    if base is None:
        return {}
    res = {}
    for fn, cnt in weak_profile(b).items():
        more = [k_ for k_, v_ in cnt.items() if v_ > base.get(fn, {}).get(k_, 0)]
        if more:
            res[fn] = sorted(more)
    return res


def run_unit(unit, variant, multiple_errors=20, extra_args=(), rlimit=None, inline=None):
    ur = UnitRun(unit, variant)
    t0 = time.time()
    tmpl = os.path.join(VERIF, "units", unit, "unit.rs")
    try:
        b = B.build(tmpl, REPO, variant, inline)
    except Exception as e:   # LostAnchor, Unsupported and any internal error of the template processor: no verdict for this unit
        ur.status, ur.reason = "undecided", "%s: %s" % (type(e).__name__, e)
        return ur
    ur.build = b
    os.makedirs(BUILD, exist_ok=True)
    fname = "%s_%s.rs" % (unit, variant.replace("+", "_"))
    # every check process works in its own directory: checks of properties that share a unit may run at the same time
    run_dir = _run_dir()
    path = os.path.join(run_dir, fname)
    with open(path, "w") as f:
        f.write(b.text)
    try:
        # a copy for inspection (best effort; never read back)
        tmp_ = os.path.join(BUILD, ".%s.%d" % (fname, os.getpid()))
        with open(tmp_, "w") as f:
            f.write(b.text)
        os.replace(tmp_, os.path.join(BUILD, fname))
    except OSError:
        pass
    # `//@ rlimit N` in unit.rs: a larger SMT resource limit for a unit with one big function (deterministic, not a time-out)
    unit_rl = None
    try:
        mrl = re.search(r"^//@\s*rlimit\s+(\d+)\s*$", open(tmpl).read(), re.M)
        unit_rl = mrl.group(1) if mrl else None
    except OSError:
        pass
    # `//@ smtopt key=value` in unit.rs: a Z3 option for this unit (a search-strategy option only; used where one function is a long
    # chain of conditional writes and Z3's default case splitting explores the 2^n paths one by one)
    unit_smt = []
    try:
        for mo in re.finditer(r"^//@\s*smtopt\s+([\w.]+=[\w.]+)\s*$", open(tmpl).read(), re.M):
            unit_smt += ["--smt-option", mo.group(1)]
    except OSError:
        pass
    cmd = ["verus", fname, "--output-json", "--time", "--multiple-errors", str(multiple_errors),
           "--error-format=json", "--rlimit", str(rlimit or unit_rl or RLIMIT)] + unit_smt + list(extra_args)
    ur.cmd = " ".join(cmd)
    try:
        p = subprocess.run(cmd, cwd=run_dir, capture_output=True, text=True, timeout=int(os.environ.get("VERIF_VERUS_TIMEOUT", "900")))
    except subprocess.TimeoutExpired:
        ur.status, ur.reason = "undecided", "verus timed out"
        return ur
    ur.wall_s = time.time() - t0
    text_lines = b.text.split("\n")
    try:
        js = json.loads(p.stdout)
    except Exception:
        js = None
    diags = []
    for ln in p.stderr.split("\n"):
        ln = ln.strip()
        if ln.startswith("{"):
            try:
                diags.append(json.loads(ln))
            except Exception:
                pass
    ur.stderr_tail = "\n".join((d.get("rendered") or d.get("message", "")) for d in diags if d.get("level") == "error")[-6000:]
    if inline is None:
        # a call of a function that is not part of the unit (e.g. a freshly extracted private helper): if it is a small
        # function of one of the unit's source files, inline its body at the call sites (rule R20) and try once more
        names = set()
        for d in diags:
            m = re.search(r"no method named `(\w+)` found|cannot find function `(\w+)` in this scope|no (?:function or associated item|associated function or constant) named `(\w+)` found", d.get("message", ""))
            if d.get("level") == "error" and m:
                names.add(m.group(1) or m.group(2) or m.group(3))
        helpers = {}
        desugar = set()
        for d in diags:
            m2 = re.search(r"`core::option::impl&%\d+::(map_or|filter|map|and_then|is_some_and)` is not supported", d.get("message", ""))
            if d.get("level") == "error" and m2:
                desugar.add(m2.group(1))
        if any(d.get("level") == "error" and "closures capturing a mutable reference" in d.get("message", "") for d in diags):
            # the closure is usually the argument of an Option combinator: desugaring removes it
            desugar.update({"map_or", "filter", "map", "and_then", "is_some_and"})
        if desugar:
            helpers["__desugar__"] = desugar
        if names:
            import extract as X
            import rules as RR
            files = sorted({f["file"] for f in b.functions})
            for nm in names:
                found = []
                for rel in files:
                    path_ = os.path.join(REPO, rel)
                    for (header, kind_, iname, line_) in X.list_items(path_):
                        if kind_ == "fn" and iname == nm:
                            found.append((rel, header))
                if len(found) == 1:
                    rel, header = found[0]
                    try:
                        if header:
                            tr, tyname, tyfull = X._impl_names(header)
                            sel = ("<%s for %s>::%s" % (tr, tyname, nm)) if tr else ("%s::%s" % (tyname, nm))
                        else:
                            sel = "fn " + nm
                        it = X.find_item(os.path.join(REPO, rel), sel)
                        helpers[nm] = RR.make_helper(it, "%s:%d" % (rel, it.line0))
                    except Exception:
                        pass
        if helpers:
            return run_unit(unit, variant, multiple_errors, extra_args, rlimit, helpers)
    if js is None or "verification-results" not in js:
        ur.status = "undecided"
        msgs = [d.get("message", "") for d in diags if d.get("level") == "error"]
        ur.reason = "verus produced no verification result (compile error or unsupported construct): " + "; ".join(msgs)[:600]
        if not msgs:
            ur.reason += (p.stderr[-400:] + p.stdout[-200:])
        return ur
    vr = js["verification-results"]
    ur.verified, ur.errors = vr.get("verified", 0), vr.get("errors", 0)
    try:
        smt = js["times-ms"]["smt"]
        ur.smt_ms = smt.get("smt-run", 0)
        for mod in smt.get("smt-run-module-times", []):
            for fb in mod.get("function-breakdown", []):
                nm = fb["function"].split("::", 1)[-1]
                ur.fn_results[nm] = {"success": fb.get("success"), "time_ms": fb.get("time"), "rlimit": fb.get("rlimit"), "mode": fb.get("mode:")}
    except Exception:
        pass
    undec = []
    for d in diags:
        if d.get("level") != "error":
            continue
        msg = d.get("message", "")
        if msg.startswith("aborting due to"):
            continue
        kind = None
        for pat, k in SEMANTIC:
            if pat in msg:
                kind = k
                break
        all_spans = d.get("spans", [])
        # spans inside vstd (inherited trait specifications, std preconditions) carry no location of ours: use ours only
        spans = [s_ for s_ in all_spans if os.path.basename(s_.get("file_name", "")) == fname] or []
        foreign_primary = any(s_.get("is_primary") for s_ in all_spans if s_ not in spans)
        prim = [s for s in spans if s.get("is_primary")] or spans
        gl = prim[0]["line_start"] if prim else 0
        tag = None
        for s in spans:
            if s.get("label") and "function body" in (s.get("label") or ""):
                continue
            for ln_ in range(s["line_start"], min(s["line_end"], s["line_start"] + 40) + 1):
                t = _tag_on(text_lines, ln_)
                if t:
                    tag = t
                    break
            if tag:
                break
        # the failing *site* is the primary span; for postconditions the clause is primary, for preconditions the call
        fn = _fn_at(b, text_lines, max(s["line_start"] for s in spans) if spans else gl)
        origin = b.linemap[gl - 1] if 1 <= gl <= len(b.linemap) else ("gen", None, 0)
        if kind is None:
            if any(x in msg for x in RESOURCE):
                undec.append("resource limit in %s: %s" % (fn, msg[:200]))
            else:
                undec.append("non-semantic verus error in %s: %s" % (fn, msg[:300]))
            continue
        if origin[0] == "repo":
            where = "%s:%s" % (origin[1], origin[2])
        else:
            where = "%s:%s" % (origin[1] or fname, origin[2] or gl)
        oid = tag if tag else "%s.%s@%s" % (fn, kind, where)
        # property-level (alarm-worthy) obligations: contract postconditions, and every obligation whose failing site is
        # a line of /repo (overflow, index, unwrap/callee precondition, converted assert!). Auxiliary obligations (loop
        # invariants, hint assertions, lemma preconditions in template text) only make the proof undecided.
        in_extracted = any(a <= gl <= bnd for (a, bnd, _n) in b.fn_spans)
        if tag is not None:
            is_primary = True            # tagged clause (postcondition, invariant or lemma statement): property-derived
        elif kind == "postcondition":
            is_primary = in_extracted    # untagged postcondition of an extracted function; helper lemmas are auxiliary
        elif kind in ("invariant", "termination"):
            is_primary = False
        else:
            is_primary = origin[0] == "repo"   # overflow / index / unwrap / callee precondition / assert! at a line of /repo
        ur.failed.append({"id": oid, "fn": fn, "kind": kind, "message": msg, "gen_line": gl, "origin": where, "primary": is_primary,
                          "rendered": (d.get("rendered") or "")[:3000]})
    ur.lost = list(b.lost)
    ur.unaccounted = list(getattr(b, "unaccounted", []))
    ur.tainted = weak_tainted(unit, b)
    if ur.tainted and ur.failed:
        # any failing obligation of this unit may be an artefact of the unknown results: callers see tainted callees through
        # their (then unprovable, hence assumed) contracts only, so the demotion is limited to the tainted functions themselves
        for f_ in ur.failed:
            if f_["fn"] in ur.tainted or f_["fn"].replace("__canary", "") in ur.tainted:
                f_["primary"] = False
                f_["tainted"] = ur.tainted.get(f_["fn"]) or ur.tainted.get(f_["fn"].replace("__canary", ""))
        undec.append("function(s) %s now call std functions without a usable specification (%s): failing obligations there are no verdict" % (
            ", ".join(sorted(ur.tainted)), ", ".join(sorted({x for v in ur.tainted.values() for x in v}))))
    if undec and not ur.failed:
        ur.status, ur.reason = "undecided", "; ".join(undec)[:800]
    elif ur.failed:
        ur.status = "errors"
        ur.reason = "; ".join(undec)[:400]
    elif vr.get("success") and ur.errors == 0:
        ur.status = "ok"
    else:
        ur.status, ur.reason = "undecided", "verus reported failure without a classified diagnostic: " + p.stderr[-400:]
    return ur


def unit_variants(unit):
    """variant names used by //@only: markers in the unit template and everything it includes"""
    names = set()
    seen = set()

    def scan(path):
        if path in seen or not os.path.exists(path):
            return
        seen.add(path)
        txt = open(path).read()
        for m in re.finditer(r"//@only:([\w,]+)", txt):
            names.update(m.group(1).split(","))
        for m in re.finditer(r"^\s*//@\s*include\s+(\S+)\s*$", txt, re.M):
            scan(os.path.join(VERIF, m.group(1)))
    scan(os.path.join(VERIF, "units", unit, "unit.rs"))
    return names


def write_replay(prop, unit, fail, ur, extra=""):
    d = os.path.join(VERIF, "evidence", "replay")
    os.makedirs(d, exist_ok=True)
    safe = re.sub(r"[^\w.\-]", "_", fail["id"])[:80]
    path = os.path.join(d, "%s.%s.%s.txt" % (prop, unit, safe))
    with open(path, "w") as f:
        f.write("property: %s\nunit: %s (variant %s)\nfailed obligation: %s\nfunction: %s\nkind: %s\nrepo location: %s\n" % (
            prop, unit, ur.variant, fail["id"], fail["fn"], fail["kind"], fail["origin"]))
        f.write("verifier: %s (cwd /verif/build)\n" % ur.cmd)
        f.write("counterexample: none (Verus reports no model)%s\n" % extra)
        f.write("replay: ./check %s   (re-extracts from the working tree and re-runs the verifier)\n" % prop)
        f.write("---- verifier output ----\n")
        f.write(fail["rendered"] or fail["message"])
        f.write("\n")
    return path
