"""Minimal Rust lexer: enough to do brace matching and token-level rewrites safely.

Tokens: (kind, text, start, end) with kind in
  ws, lcomment, bcomment, str, rawstr, char, lifetime, ident, num, punct
The concatenation of all token texts is the input (lossless).
"""
import re

_IDENT = re.compile(r"[A-Za-z_][A-Za-z0-9_]*")
_NUM = re.compile(r"[0-9][0-9A-Za-z_]*(\.[0-9][0-9A-Za-z_]*)?")
_WS = re.compile(r"\s+")
# longest first
_PUNCT3 = ("<<=", ">>=", "...", "..=")
_PUNCT2 = ("::", "->", "=>", "==", "!=", "<=", ">=", "&&", "||", "+=", "-=", "*=", "/=",
           "%=", "^=", "&=", "|=", "<<", ">>", "..")


class Tok:
    __slots__ = ("kind", "text", "start", "end")

    def __init__(self, kind, text, start, end):
        self.kind, self.text, self.start, self.end = kind, text, start, end

    def __repr__(self):
        return "Tok(%s,%r)" % (self.kind, self.text)


def lex(src):
    toks = []
    i, n = 0, len(src)
    while i < n:
        c = src[i]
        m = _WS.match(src, i)
        if m:
            toks.append(Tok("ws", m.group(0), i, m.end()))
            i = m.end()
            continue
        if src.startswith("//", i):
            j = src.find("\n", i)
            if j < 0:
                j = n
            toks.append(Tok("lcomment", src[i:j], i, j))
            i = j
            continue
        if src.startswith("/*", i):
            depth, j = 1, i + 2
            while j < n and depth > 0:
                if src.startswith("/*", j):
                    depth += 1
                    j += 2
                elif src.startswith("*/", j):
                    depth -= 1
                    j += 2
                else:
                    j += 1
            toks.append(Tok("bcomment", src[i:j], i, j))
            i = j
            continue
        # raw strings r"..", r#".."#, br"..", also byte strings b".."
        m = re.match(r"(b|c)?r(#*)\"", src[i:i + 40])
        if m:
            hashes = m.group(2)
            close = '"' + hashes
            j = src.find(close, i + m.end())
            if j < 0:
                raise ValueError("unterminated raw string at %d" % i)
            j += len(close)
            toks.append(Tok("rawstr", src[i:j], i, j))
            i = j
            continue
        if c == '"' or (c in "bc" and i + 1 < n and src[i + 1] == '"'):
            j = i + (1 if c == '"' else 2)
            while j < n and src[j] != '"':
                if src[j] == "\\":
                    j += 1
                j += 1
            j += 1
            toks.append(Tok("str", src[i:j], i, j))
            i = j
            continue
        if c == "'" or (c == "b" and i + 1 < n and src[i + 1] == "'"):
            k = i + (1 if c == "'" else 2)
            # char literal or lifetime
            if k < n and src[k] == "\\":
                j = src.find("'", k + 2)
                toks.append(Tok("char", src[i:j + 1], i, j + 1))
                i = j + 1
                continue
            if k + 1 < n and src[k + 1] == "'":
                toks.append(Tok("char", src[i:k + 2], i, k + 2))
                i = k + 2
                continue
            # multibyte char literal e.g. 'é' handled by the branch above (python str index) ;
            m = _IDENT.match(src, k)
            if m and c == "'":
                toks.append(Tok("lifetime", src[i:m.end()], i, m.end()))
                i = m.end()
                continue
            raise ValueError("cannot lex quote at %d: %r" % (i, src[i:i + 20]))
        m = _IDENT.match(src, i)
        if m:
            toks.append(Tok("ident", m.group(0), i, m.end()))
            i = m.end()
            continue
        m = _NUM.match(src, i)
        if m:
            # avoid swallowing `0..5` as a float
            t = m.group(0)
            if m.group(1) and src.startswith("..", i + len(t) - len(m.group(1))):
                t = t[: len(t) - len(m.group(1))]
            elif m.group(1) and re.match(r"\.[A-Za-z_]", m.group(1)):
                # `1.max(2)` / tuple field `x.0.foo` : keep only the integer part
                t = t[: len(t) - len(m.group(1))]
            toks.append(Tok("num", t, i, i + len(t)))
            i += len(t)
            continue
        for p in _PUNCT3:
            if src.startswith(p, i):
                toks.append(Tok("punct", p, i, i + 3))
                i += 3
                break
        else:
            for p in _PUNCT2:
                if src.startswith(p, i):
                    toks.append(Tok("punct", p, i, i + 2))
                    i += 2
                    break
            else:
                toks.append(Tok("punct", c, i, i + 1))
                i += 1
    return toks


def code_toks(toks):
    """indices of tokens that are code (not whitespace/comments)"""
    return [k for k, t in enumerate(toks) if t.kind not in ("ws", "lcomment", "bcomment")]


OPEN = {"{": "}", "(": ")", "[": "]"}
CLOSE = {"}": "{", ")": "(", "]": "["}


def match_close(toks, k):
    """toks[k] is an opening bracket punct; return index of the matching close."""
    assert toks[k].kind == "punct" and toks[k].text in OPEN, toks[k]
    depth = 0
    for j in range(k, len(toks)):
        t = toks[j]
        if t.kind != "punct":
            continue
        if t.text in OPEN:
            depth += 1
        elif t.text in CLOSE:
            depth -= 1
            if depth == 0:
                return j
    raise ValueError("unbalanced bracket")


def untok(toks):
    return "".join(t.text for t in toks)
