#!/usr/bin/env python3
"""Regenerate /verif/MANIFEST.json from vx/props.json (claimed checks) and vx/not_applicable.json."""
import json, os
V = os.path.dirname(os.path.dirname(os.path.abspath(__file__)))
props = json.load(open(os.path.join(V, "vx", "props.json")))
na = json.load(open(os.path.join(V, "vx", "not_applicable.json")))
all_ids = [json.loads(l)["id"] for l in open(os.path.join(V, "properties.jsonl"))]
checks = []
for pid in all_ids:
    if pid not in props:
        continue
    c = props[pid]
    checks.append({
        "property_id": pid,
        "quick_cmd": "./check %s --tier quick" % pid,
        "thorough_cmd": "./check %s --tier thorough" % pid,
        "evidence_file": "/verif/evidence/%s.json" % pid,
        "replay_cmd_template": "./check %s --replay {path}" % pid,
        "engine": c.get("engine", "verus"),
        "level_claimed": {"category": c.get("level", "proof"), "text": c["level_text"], "design_ref": c.get("design_ref", "DESIGN.md section 6")},
        "level_note": c["level_note"],
        "technique": c.get("technique", "contract-based deductive verification (Verus) of functions extracted from /repo on every run"),
    })
not_app = []
for pid in all_ids:
    if pid in props:
        continue
    not_app.append({"property_id": pid, "reason": na.get(pid, "not built (see DESIGN.md)")})
m = {
    "version": 1,
    "setup_cmd": "./setup.sh",
    "hooks": {"guard": "adlt_verif", "enable": "no hook is needed so far: Verus reads /repo's source text, the replay crate uses adlt's public API (RUSTFLAGS=\"--cfg adlt_verif\" is reserved)",
              "baseline_off_cmd": "cd /repo && cargo test --workspace --no-fail-fast --offline", "source_commits": [], "add_only": True},
    "engines": [
        {"name": "verus", "path": "/verif/vx", "serves_properties": [c["property_id"] for c in checks],
         "kind_free_text": "extract real functions from /repo, weave contracts from units/<unit>/unit.rs, discharge with Verus/Z3"},
    ],
    "checks": checks,
    "notes": "Exit codes of ./check: 0 held, 1 VIOLATION, 2 UNDECIDED (lost anchor / unsupported construct / resource limit; never an alarm). Known findings: known_findings.txt.",
    "not_applicable": not_app,
}
json.dump(m, open(os.path.join(V, "MANIFEST.json"), "w"), indent=1)
print("MANIFEST.json: %d checks, %d not applicable" % (len(checks), len(not_app)))
