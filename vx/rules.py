"""Token-level rewrite rules (DESIGN.md section 4). Every application is logged."""
import re
from rtok import lex, Tok, match_close, untok

LOG_MACROS = {"println", "eprintln", "print", "eprint", "debug", "info", "warn", "trace", "error", "crit", "dbg"}
INT_TYPES = {"u8", "u16", "u32", "u64", "u128", "usize", "i8", "i16", "i32", "i64", "i128", "isize", "f32", "f64"}


class Unsupported(Exception):
    pass


def syn(text):
    """synthetic tokens (no origin)"""
    out = lex(text)
    for t in out:
        t.start = -1
        t.end = -1
    return out


def _is_code(t):
    return t.kind not in ("ws", "lcomment", "bcomment")


def _next_code(toks, k):
    while k < len(toks) and not _is_code(toks[k]):
        k += 1
    return k


def _prev_code(toks, k):
    while k >= 0 and not _is_code(toks[k]):
        k -= 1
    return k


def split_args(toks):
    """split a token list at top-level commas"""
    args, cur, k = [], [], 0
    while k < len(toks):
        t = toks[k]
        if t.kind == "punct" and t.text in "([{":
            j = match_close(toks, k)
            cur.extend(toks[k:j + 1])
            k = j + 1
            continue
        if t.kind == "punct" and t.text == ",":
            args.append(cur)
            cur = []
        else:
            cur.append(t)
        k += 1
    if any(_is_code(t) for t in cur):
        args.append(cur)
    return args


def r1_strip_attrs_docs(toks, log, where):
    """R1: drop #[...] attributes and doc comments inside the item."""
    out, k, n = [], 0, 0
    while k < len(toks):
        t = toks[k]
        if t.kind == "punct" and t.text == "#":
            j = _next_code(toks, k + 1)
            if j < len(toks) and toks[j].text == "[":
                e = match_close(toks, j)
                txt = untok(toks[k:e + 1])
                if re.match(r"#\[\s*(inline|allow|derive|doc|must_use|cold|deny|warn|cfg_attr|serde|default|repr)\b", txt):
                    if re.match(r"#\[\s*derive\b", txt) and re.search(r"\bCopy\b", txt):
                        log.append(("R1", where, txt.strip()[:80], "#[derive(Clone, Copy)]"))
                        out.extend(syn("#[derive(Clone, Copy)]"))
                    else:
                        log.append(("R1", where, txt.strip()[:80], "(deleted)"))
                    k = e + 1
                    n += 1
                    continue
                if re.match(r"#\[\s*verifier::", txt):
                    # written by a unit template (signature given with `sig`); /repo has no such attributes
                    out.extend(toks[k:e + 1])
                    k = e + 1
                    continue
                raise Unsupported("attribute %s in %s" % (txt[:60], where))
        if t.kind == "lcomment" and (t.text.startswith("///") or t.text.startswith("//!")):
            k += 1
            continue
        out.append(t)
        k += 1
    return out


def r2_pub_fn(toks, log, where):
    """R2: make fn public: strip leading visibility, emit `pub`."""
    k = _next_code(toks, 0)
    while toks[k].text == "#":
        j = _next_code(toks, k + 1)
        k = _next_code(toks, match_close(toks, j) + 1)
    if toks[k].text == "pub":
        j = _next_code(toks, k + 1)
        if toks[j].text == "(":
            e = match_close(toks, j)
            log.append(("R2", where, untok(toks[k:e + 1]), "pub"))
            return toks[:k + 1] + toks[e + 1:]
        return toks
    log.append(("R2", where, "(private)", "pub"))
    return toks[:k] + syn("pub ") + toks[k:]


def r2_pub_fields(toks, log, where):
    """R2 for struct: every named field becomes pub."""
    # find body
    k = 0
    while k < len(toks) and not (toks[k].kind == "ident" and toks[k].text == "struct"):
        k += 1
    while k < len(toks) and not (toks[k].kind == "punct" and toks[k].text in "{(;"):
        if toks[k].text == "<":
            pass
        k += 1
    if k >= len(toks) or toks[k].text != "{":
        return toks
    e = match_close(toks, k)
    out = toks[:k + 1]
    j = k + 1
    at_field_start = True
    n = 0
    while j < e:
        t = toks[j]
        if not _is_code(t):
            out.append(t)
            j += 1
            continue
        if at_field_start:
            if t.text == "pub":
                out.append(t)
                j2 = _next_code(toks, j + 1)
                if toks[j2].text == "(":
                    j = match_close(toks, j2) + 1
                    n += 1
                else:
                    j += 1
            else:
                out.extend(syn("pub "))
                n += 1
            at_field_start = False
            continue
        if t.kind == "punct" and t.text in "([{":
            c = match_close(toks, j)
            out.extend(toks[j:c + 1])
            j = c + 1
            continue
        if t.kind == "punct" and t.text == "<":
            # generic args: skip to matching '>' (no comparison operators in field types)
            d = 0
            while j < e:
                if toks[j].text == "<":
                    d += 1
                elif toks[j].text == ">":
                    d -= 1
                elif toks[j].text == ">>":
                    d -= 2
                out.append(toks[j])
                j += 1
                if d <= 0:
                    break
            continue
        if t.kind == "punct" and t.text == ",":
            at_field_start = True
        out.append(t)
        j += 1
    out.extend(toks[e:])
    if n:
        log.append(("R2", where, "%d private/pub(crate) fields" % n, "pub"))
    return out


def r3_bytes(toks, log, where):
    """R3: T::from_{le,be,ne}_bytes( -> vx_T_from_xx_bytes( ; std::cmp::min/max and bare min/max( untouched here (unit subs)."""
    out, k = [], 0
    while k < len(toks):
        t = toks[k]
        if t.kind == "ident" and t.text in INT_TYPES:
            j = _next_code(toks, k + 1)
            if j < len(toks) and toks[j].text == "::":
                j2 = _next_code(toks, j + 1)
                m = re.match(r"from_(le|be|ne)_bytes$", toks[j2].text) if j2 < len(toks) else None
                if m:
                    new = "vx_%s_from_%s_bytes" % (t.text, m.group(1))
                    log.append(("R3", where, "%s::%s" % (t.text, toks[j2].text), new))
                    s_ = syn(new)
                    s_[0].start = t.start
                    out.extend(s_)
                    k = j2 + 1
                    continue
        out.append(t)
        k += 1
    return out


def r4_asserts(toks, log, where):
    """R4: assert!/assert_eq!/assert_ne!/debug_assert*! -> assert(..) proof obligations;
       panic!/unreachable!/unimplemented!/todo! -> vx_unreached() (requires false)."""
    out, k = [], 0
    while k < len(toks):
        t = toks[k]
        if t.kind == "ident" and t.text in ("assert", "assert_eq", "assert_ne", "debug_assert", "debug_assert_eq",
                                             "debug_assert_ne", "panic", "unreachable", "unimplemented", "todo"):
            j = _next_code(toks, k + 1)
            if j < len(toks) and toks[j].text == "!":
                j2 = _next_code(toks, j + 1)
                e = match_close(toks, j2)
                args = split_args(toks[j2 + 1:e])
                name = t.text.replace("debug_", "")
                if name == "assert":
                    new = "assert(" + untok(args[0]).strip() + ")"
                elif name == "assert_eq":
                    new = "assert((" + untok(args[0]).strip() + ") == (" + untok(args[1]).strip() + "))"
                elif name == "assert_ne":
                    new = "assert((" + untok(args[0]).strip() + ") != (" + untok(args[1]).strip() + "))"
                else:
                    new = "vx_unreached()"
                log.append(("R4", where, untok(toks[k:e + 1])[:100], new[:100]))
                s = syn(new)
                # keep origin of first token for the line map
                s[0].start = t.start
                out.extend(s)
                k = e + 1
                continue
        out.append(t)
        k += 1
    return out


def r5_logs(toks, log, where):
    """R5: delete log/print macro statements."""
    out, k = [], 0
    while k < len(toks):
        t = toks[k]
        if t.kind == "ident" and t.text in LOG_MACROS:
            j = _next_code(toks, k + 1)
            p = _prev_code(toks, k - 1)
            if j < len(toks) and toks[j].text == "!" and (p < 0 or toks[p].text in (";", "{", "}")):
                j2 = _next_code(toks, j + 1)
                e = match_close(toks, j2)
                inner = toks[j2 + 1:e]
                for x in inner:
                    if x.kind == "punct" and x.text in ("=", "+=", "-=", "*=", "?", "|=", "&="):
                        raise Unsupported("log macro with side effect in %s: %s" % (where, untok(toks[k:e + 1])[:80]))
                    if x.kind == "ident" and x.text in ("mut", "push", "next", "insert", "remove", "pop"):
                        raise Unsupported("log macro with side effect in %s: %s" % (where, untok(toks[k:e + 1])[:80]))
                e2 = _next_code(toks, e + 1)
                if e2 < len(toks) and toks[e2].text == ";":
                    e = e2
                else:
                    # expression position (e.g. last expr of a block): must be unit
                    pass
                log.append(("R5", where, re.sub(r"\s+", " ", untok(toks[k:e + 1]))[:100], "(deleted)"))
                k = e + 1
                continue
        out.append(t)
        k += 1
    return out


def sub_tokens(toks, pat, repl, tag, log, where, count=1):
    """replace the code-token sequence `pat` by `repl` text. count: int (exact) or '*' (>=1) or '?' (>=0)"""
    ptoks = [t for t in lex(pat) if _is_code(t)]
    if not ptoks:
        raise ValueError("empty pattern")
    code = [(i, t) for i, t in enumerate(toks) if _is_code(t)]
    pos_of = {ti: ci for ci, (ti, _t) in enumerate(code)}

    def match_at(ci):
        """code index after the match starting at ci, or None. The pattern token `__` stands for any token sequence up to the
           closing bracket of the innermost bracket opened by the pattern (the rest of a closure, an argument list, a block)."""
        c = ci
        opened = []     # token indices (in toks) of the brackets opened by the pattern and not closed yet
        caps = []
        for d, pt in enumerate(ptoks):
            if pt.kind == "ident" and pt.text == "__" and opened:
                # skip to the closing bracket of the innermost bracket the pattern has opened; the skipped text is `$1`, `$2`, .. of
                # the replacement
                c2 = pos_of[match_close(toks, opened[-1])]
                caps.append(untok(toks[code[c][0]:code[c2][0]]).strip() if c2 > c else "")
                c = c2
                continue
            if pt.kind == "ident" and pt.text == "_id_":
                # any single identifier; captured like `__` (`$n` in the replacement)
                if c >= len(code) or code[c][1].kind != "ident":
                    return None
                caps.append(code[c][1].text)
                c += 1
                continue
            if pt.kind == "ident" and pt.text == "_lit_":
                # any single string literal (a format text); not captured
                if c >= len(code) or code[c][1].kind not in ("str", "rawstr"):
                    return None
                c += 1
                continue
            if c >= len(code) or code[c][1].text != pt.text:
                return None
            if pt.kind == "punct" and pt.text in ("(", "[", "{"):
                opened.append(code[c][0])
            elif pt.kind == "punct" and pt.text in (")", "]", "}") and opened:
                opened.pop()
            c += 1
        last_caps[0] = caps
        return c
    last_caps = [[]]
    out_ranges = []
    i = 0
    while i < len(code):
        e = match_at(i)
        if e is not None and e > i:
            out_ranges.append((code[i][0], code[e - 1][0], list(last_caps[0])))
            i = e
        else:
            i += 1
    n = len(out_ranges)
    if count == "*":
        ok = n >= 1
    elif count == "?":
        ok = True
    else:
        ok = (n == int(count))
    if not ok:
        from extract import LostAnchor
        raise LostAnchor("%s: sub %s pattern `%s` matched %d times (expected %s)" % (where, tag, pat, n, count))
    if n == 0:
        return toks
    out, prev = [], 0
    for (a, b, caps_) in out_ranges:
        out.extend(toks[prev:a])
        repl_ = repl
        for q_, ctext_ in enumerate(caps_):
            repl_ = repl_.replace("$%d" % (q_ + 1), ctext_)
        s = syn(repl_)
        if s:
            orig = [x.start for x in toks[a:b + 1] if x.start >= 0]
            s[0].start = orig[0] if orig else -1
        out.extend(s)
        prev = b + 1
    out.extend(toks[prev:])
    log.append((tag, where, pat[:100], repl[:100] + (" (x%d)" % n if n > 1 else "")))
    return out


def name_result(sig_toks, retname):
    """fn f(..) -> T [where ..]   =>   fn f(..) -> (r: T) [where ..]"""
    k, n = 0, len(sig_toks)
    # find params paren
    while k < n and not (sig_toks[k].kind == "punct" and sig_toks[k].text == "("):
        if sig_toks[k].text == "<":
            # skip generics
            d = 0
            while k < n:
                tx = sig_toks[k].text
                if sig_toks[k].kind == "punct" and tx in ("<", "<<"):
                    d += len(tx)
                elif sig_toks[k].kind == "punct" and tx in (">", ">>"):
                    d -= len(tx)
                    if d <= 0:
                        break
                k += 1
        k += 1
    e = match_close(sig_toks, k)
    j = _next_code(sig_toks, e + 1)
    if j >= n or sig_toks[j].text != "->":
        return sig_toks  # unit return
    # return type extends to `where` at depth 0 or end
    w = j + 1
    d = 0
    end = n
    while w < n:
        t = sig_toks[w]
        if t.kind == "punct" and t.text in "([":
            w = match_close(sig_toks, w) + 1
            continue
        if t.kind == "ident" and t.text == "where":
            end = w
            break
        w += 1
    ty = sig_toks[j + 1:end]
    # trim trailing ws
    while ty and not _is_code(ty[-1]):
        ty.pop()
    first = _next_code(sig_toks, j + 1)
    return sig_toks[:first] + syn("(%s: " % retname) + ty[first - (j + 1):] + syn(") ") + sig_toks[end:]


def find_loops(body_toks):
    """indices of the body-opening '{' of each loop (while/for/loop) in source order"""
    res = []
    k = 0
    n = len(body_toks)
    while k < n:
        t = body_toks[k]
        if t.kind == "ident" and t.text in ("while", "for", "loop"):
            p = _prev_code(body_toks, k - 1)
            # skip `for<'a>` and labels are fine
            j = k + 1
            while j < n:
                tj = body_toks[j]
                if tj.kind == "punct" and tj.text in "([":
                    j = match_close(body_toks, j) + 1
                    continue
                if tj.kind == "punct" and tj.text == "{":
                    res.append(j)
                    break
                j += 1
        k += 1
    return res


def loop_header(body_toks, open_idx):
    """code-token texts of the loop header that ends with the body brace at open_idx: from the while/for/loop keyword on"""
    k = open_idx - 1
    depth = 0
    while k >= 0:
        t = body_toks[k]
        if t.kind == "punct" and t.text in ")]}":
            depth += 1
        elif t.kind == "punct" and t.text in "([{":
            depth -= 1
            if depth < 0:
                break
        elif depth == 0 and t.kind == "ident" and t.text in ("while", "for", "loop"):
            return [x.text for x in body_toks[k:open_idx] if _is_code(x)]
        k -= 1
    return []


def r13_index_loop(toks, k, log, where):
    """R13: k-th loop (1-based) `for PAT in &mut EXPR {B}` / `for PAT in &EXPR {B}` ->
       `let mut vx_i: usize = 0; while vx_i < EXPR.len() { let PAT = &mut EXPR[vx_i]; B vx_i += 1; }`
       with `continue` in B (shared reference only) the increment follows the element access instead."""
    from extract import LostAnchor
    opens = find_loops(toks)
    if k < 1 or k > len(opens):
        raise LostAnchor("%s: R13 loop %d not found" % (where, k))
    ob = opens[k - 1]
    # find the keyword
    kw = ob
    d = 0
    j = ob - 1
    # walk back to the `for` keyword that produced this loop: nearest preceding for/while/loop whose body-open is ob
    cands = [i for i, t in enumerate(toks[:ob]) if t.kind == "ident" and t.text in ("for", "while", "loop")]
    kwi = None
    for i in reversed(cands):
        # body open of loop starting at i
        jj = i + 1
        while jj < len(toks):
            tj = toks[jj]
            if tj.kind == "punct" and tj.text in "([":
                jj = match_close(toks, jj) + 1
                continue
            if tj.kind == "punct" and tj.text == "{":
                break
            jj += 1
        if jj == ob:
            kwi = i
            break
    if kwi is None or toks[kwi].text != "for":
        raise Unsupported("%s: R13 loop %d is not a for loop" % (where, k))
    header = toks[kwi + 1:ob]
    ini = None
    for i, t in enumerate(header):
        if t.kind == "ident" and t.text == "in":
            ini = i
            break
        if t.kind == "punct" and t.text in "([":
            pass
    # `in` at top level: patterns may contain parens; find first top-level `in`
    i = 0
    ini = None
    while i < len(header):
        t = header[i]
        if t.kind == "punct" and t.text in "([":
            i = match_close(header, i) + 1
            continue
        if t.kind == "ident" and t.text == "in":
            ini = i
            break
        i += 1
    if ini is None:
        raise Unsupported("%s: R13 cannot parse for header" % where)
    pat = untok(header[:ini]).strip()
    expr_toks = [t for t in header[ini + 1:] if _is_code(t)]
    if not expr_toks:
        raise Unsupported("%s: R13 cannot parse for header" % where)
    if expr_toks[0].text != "&":
        # `for x in s` with s: &[T] (a slice reference): same as `for x in &s[..]`; only a plain identifier is accepted
        if len(expr_toks) != 1 or expr_toks[0].kind != "ident":
            raise Unsupported("%s: R13 needs `in &EXPR`, `in &mut EXPR` or `in <slice identifier>`" % where)
        expr_toks = syn("&") + expr_toks
    mut = len(expr_toks) > 1 and expr_toks[1].text == "mut"
    expr = "".join(t.text for t in expr_toks[2 if mut else 1:])
    close = match_close(toks, ob)
    body = toks[ob + 1:close]
    has_continue = any(t.kind == "ident" and t.text == "continue" for t in body)
    head = syn("let mut vx_i: usize = 0;\n        while vx_i < %s.len() " % expr)
    head[0].start = toks[kwi].start
    if has_continue and not mut:
        # a body with `continue`: the counter is advanced right after the element is taken (a `continue` would skip an increment
        # at the end); at the loop head the counter means the same in both shapes
        first = syn("\n            let %s = &%s[vx_i]; vx_i += 1;" % (pat, expr))
        tail = syn("")
    elif has_continue:
        raise Unsupported("%s: R13 loop over `&mut` with `continue` in the body" % where)
    else:
        first = syn("\n            let %s = &%s%s[vx_i];" % (pat, "mut " if mut else "", expr))
        tail = syn("    vx_i += 1;\n        ")
    log.append(("R13", where, re.sub(r"\s+", " ", untok(toks[kwi:ob + 1])), re.sub(r"\s+", " ", untok(head) + "{" + untok(first)) + " ... vx_i += 1; }"))
    return toks[:kwi] + head + [toks[ob]] + first + body + tail + toks[close:]


def _pure_args(toks, where, what):
    for x in toks:
        if x.kind == "punct" and x.text in ("=", "+=", "-=", "*=", "?", "|=", "&="):
            raise Unsupported("%s with side effect in %s" % (what, where))
        if x.kind == "ident" and x.text in ("mut", "push", "next", "insert", "remove", "pop", "take"):
            raise Unsupported("%s with side effect in %s" % (what, where))



def _reply_kind(toks, k, first_lit):
    """R6r: text built directly inside `Message::Text( .. )` keeps its reply class: the literal (format string) starting with
       `ok:` -> 1, `err:` -> 2, `unknown command` -> 3, anything else -> 0. Returns None when toks[k] is not the first token
       inside `Message::Text(`."""
    p = _prev_code(toks, k - 1)
    if p < 0 or toks[p].text != "(":
        return None
    p2 = _prev_code(toks, p - 1)
    if p2 < 0 or toks[p2].text != "Text":
        return None
    p3 = _prev_code(toks, p2 - 1)
    p4 = _prev_code(toks, p3 - 1) if p3 >= 0 else -1
    if p3 < 0 or toks[p3].text != "::" or p4 < 0 or toks[p4].text != "Message":
        return None
    if first_lit is None or first_lit.kind != "str":
        return 0
    body = first_lit.text[1:]
    if body.startswith("ok:"):
        return 1
    if body.startswith("err:"):
        return 2
    if body.startswith("unknown command"):
        return 3
    return 0

def r6_opaque_text(toks, log, where):
    """R6: error/label text is dropped: format!(..) / String::from("lit") / "lit".to_string()|.to_owned()|.into() ->
       vx_opaque_string(); std::io::Error::new(kind, text) / std::io::Error::other(text) -> vx_io_error()."""
    out, k = [], 0
    n = len(toks)
    while k < n:
        t = toks[k]
        # format!( .. )
        if t.kind == "ident" and t.text == "format":
            j = _next_code(toks, k + 1)
            if j < n and toks[j].text == "!":
                j2 = _next_code(toks, j + 1)
                e = match_close(toks, j2)
                _pure_args(toks[j2 + 1:e], where, "format!")
                fl = _next_code(toks, j2 + 1)
                rk = _reply_kind(toks, k, toks[fl] if fl < e else None)
                repl_ = "vx_opaque_string()" if rk is None else "vx_reply_text(%d)" % rk
                log.append(("R6", where, re.sub(r"\s+", " ", untok(toks[k:e + 1]))[:100], repl_))
                s_ = syn(repl_)
                s_[0].start = t.start
                out.extend(s_)
                k = e + 1
                continue
        # String::from("lit")
        if t.kind == "ident" and t.text == "String":
            j = _next_code(toks, k + 1)
            if j < n and toks[j].text == "::":
                j2 = _next_code(toks, j + 1)
                if j2 < n and toks[j2].text == "from":
                    j3 = _next_code(toks, j2 + 1)
                    if j3 < n and toks[j3].text == "(":
                        e = match_close(toks, j3)
                        inner = [x for x in toks[j3 + 1:e] if _is_code(x) and x.text != ","]
                        if len(inner) == 1 and inner[0].kind in ("str", "rawstr"):
                            log.append(("R6", where, re.sub(r"\s+", " ", untok(toks[k:e + 1]))[:100], "vx_opaque_string()"))
                            s_ = syn("vx_opaque_string()")
                            s_[0].start = t.start
                            out.extend(s_)
                            k = e + 1
                            continue
        # "lit".to_string() / .to_owned() / .into()
        if t.kind in ("str", "rawstr"):
            j = _next_code(toks, k + 1)
            if j < n and toks[j].text == ".":
                j2 = _next_code(toks, j + 1)
                if j2 < n and toks[j2].text in ("to_string", "to_owned"):
                    j3 = _next_code(toks, j2 + 1)
                    if j3 < n and toks[j3].text == "(":
                        e = match_close(toks, j3)
                        rk = _reply_kind(toks, k, t)
                        repl_ = "vx_opaque_string()" if rk is None else "vx_reply_text(%d)" % rk
                        log.append(("R6", where, untok(toks[k:e + 1])[:100], repl_))
                        s_ = syn(repl_)
                        s_[0].start = t.start
                        out.extend(s_)
                        k = e + 1
                        continue
        # std::io::Error::new(..) / std::io::Error::other(..)
        if t.kind == "ident" and t.text == "std":
            seq = []
            j = k
            for want in ("std", "::", "io", "::", "Error", "::"):
                if j < n and toks[j].text == want:
                    seq.append(j)
                    j = _next_code(toks, j + 1)
                else:
                    seq = None
                    break
            if seq is not None and j < n and toks[j].text in ("new", "other"):
                j3 = _next_code(toks, j + 1)
                if j3 < n and toks[j3].text == "(":
                    e = match_close(toks, j3)
                    inner = toks[j3 + 1:e]
                    _pure_args([x for x in inner if not (x.kind == "ident" and x.text == "format")], where, "std::io::Error::new")
                    log.append(("R6", where, re.sub(r"\s+", " ", untok(toks[k:e + 1]))[:100], "vx_io_error()"))
                    s_ = syn("vx_io_error()")
                    s_[0].start = t.start
                    out.extend(s_)
                    k = e + 1
                    continue
        out.append(t)
        k += 1
    return out


def inline_helper(toks, helper, log, where):
    """R20: replace calls of a small helper function that is not part of the unit by a block that binds the arguments to
       the parameters and contains the helper's body (the helper's text is taken from /repo like every extracted item).
       `helper`: dict(name, params=[(name, type_text)], self_kind in (None, 'ref', 'val'), body_toks).
       Refused (Unsupported) when the body contains `return` or `?`, or the receiver is not a simple path."""
    name = helper["name"]
    out, k, n = [], 0, len(toks)
    changed = 0
    while k < n:
        t = toks[k]
        if t.kind == "ident" and t.text == name:
            j = _next_code(toks, k + 1)
            p = _prev_code(toks, k - 1)
            if j < n and toks[j].text == "(" and not (p >= 0 and toks[p].kind == "ident" and toks[p].text == "fn"):
                cl = match_close(toks, j)
                if helper.get("has_return"):
                    # only a call in tail position of the calling function, with the same return type
                    last_code = max(q for q, x in enumerate(toks) if _is_code(x))
                    sig_end = next(q for q, x in enumerate(toks) if x.kind == "punct" and x.text == "{")
                    caller_sig = re.sub(r"\s+", " ", untok([x for x in toks[:sig_end] if _is_code(x)]))
                    mret = re.search(r"\)\s*(->\s*.*)$", caller_sig)
                    caller_ret = mret.group(1).strip() if mret else ""
                    caller_ret = re.sub(r"^->\s*\(\s*\w+\s*:\s*(.*)\)\s*$", r"-> \1", caller_ret)   # `-> (r: T)` as written by name_result
                    # (equality of the two return types is left to the type checker: the unit's subs may have renamed them)
                    if _next_code(toks, cl + 1) != last_code:
                        raise Unsupported("%s: helper %s contains return/? and is not called in tail position" % (where, name))
                args = split_args(toks[j + 1:cl])
                recv = None
                start = k
                if p >= 0 and toks[p].text == ".":
                    # method call: receiver = chain of idents / field accesses before the dot
                    q = _prev_code(toks, p - 1)
                    rs = q
                    while True:
                        if toks[rs].kind not in ("ident", "num"):
                            raise Unsupported("%s: receiver of %s() is not a simple path" % (where, name))
                        pp = _prev_code(toks, rs - 1)
                        if pp >= 0 and toks[pp].text == ".":
                            rs = _prev_code(toks, pp - 1)
                            continue
                        break
                    recv = untok([x for x in toks[rs:p] if _is_code(x)])
                    # drop the receiver tokens already emitted
                    cnt = len([x for x in toks[rs:k]])
                    del out[len(out) - cnt:]
                    start = rs
                elif p >= 0 and toks[p].text == "::":
                    # Type::name(..) or Self::name(..): drop the path prefix
                    q = _prev_code(toks, p - 1)
                    cnt = len(toks[q:k])
                    del out[len(out) - cnt:]
                    start = q
                binds = []
                params = list(helper["params"])
                if helper["self_kind"] is not None:
                    if recv is None:
                        # UFCS call: first argument is the receiver
                        recv = untok(args[0]).strip()
                        args = args[1:]
                    if helper["self_kind"] == "mut":
                        # `&mut self` helper: the receiver is a simple place path; `self.<x>` in the body means `<recv>.<x>`
                        pass
                    elif helper["self_kind"] == "ref":
                        binds.append("let vx_self = %s;" % (recv if recv == "self" else "&(" + recv + ")"))
                    else:
                        binds.append("let vx_self = %s;" % recv)
                if len(args) != len(params):
                    raise Unsupported("%s: call of %s with %d args, helper has %d params" % (where, name, len(args), len(params)))
                for (pn, pt), a in zip(params, args):
                    binds.append("let %s: %s = %s;" % (pn, pt, untok(a).strip()))
                body = []
                for x in helper["body_toks"]:
                    if x.kind == "ident" and x.text == "self":
                        body.extend(syn(recv if helper["self_kind"] == "mut" else "vx_self"))
                    else:
                        body.append(x)
                blk = syn("{ " + " ".join(binds) + " ") + body + syn(" }")
                blk[0].start = toks[start].start
                out.extend(blk)
                changed += 1
                k = cl + 1
                continue
        out.append(t)
        k += 1
    if changed:
        log.append(("R20", where, "call of helper %s (x%d)" % (name, changed), "inlined body of %s from %s" % (name, helper["origin"])))
    return out


def match_open(toks, k):
    """index of the opening bracket matching the closing bracket at k"""
    close_to_open = {")": "(", "]": "[", "}": "{"}
    want = close_to_open[toks[k].text]
    depth = 0
    i = k
    while i >= 0:
        t = toks[i]
        if t.kind == "punct" and t.text == toks[k].text:
            depth += 1
        elif t.kind == "punct" and t.text == want:
            depth -= 1
            if depth == 0:
                return i
        i -= 1
    raise Unsupported("unbalanced bracket")


def chain_start(toks, dot_idx):
    """first token of the postfix expression that ends right before the `.` at dot_idx (idents, field accesses, calls, indexing,
       `?`, paths with `::`, a leading `&`/`*` is NOT included)"""
    i = _prev_code(toks, dot_idx - 1)
    start = None
    while i >= 0:
        t = toks[i]
        if t.kind == "punct" and t.text in (")", "]"):
            i = match_open(toks, i)
            start = i
            p = _prev_code(toks, i - 1)
            if p >= 0 and toks[p].kind == "ident" and toks[p].text not in ("if", "match", "while", "return", "in", "let", "else"):
                i = p
                continue       # the callee / indexed name is handled by the ident case
            break
        if t.kind == "punct" and t.text == "?":
            i = _prev_code(toks, i - 1)
            continue
        if t.kind in ("ident", "num"):
            start = i
            p = _prev_code(toks, i - 1)
            if p >= 0 and toks[p].kind == "punct" and toks[p].text in (".", "::"):
                i = _prev_code(toks, p - 1)
                continue
            break
        break
    if start is None:
        raise Unsupported("receiver expression not recognised")
    return start


def desugar_option_calls(toks, methods, log, where):
    """R21: `RECV.map_or(D, |P| B)`, `RECV.filter(|P| B)`, `RECV.map(|P| B)`, `RECV.and_then(|P| B)`, `RECV.is_some_and(|P| B)` on
       an Option -> the `match` the combinator stands for (std's documented definition); the closure's text is kept as the arm."""
    out = list(toks)
    changed = []
    k = 0
    guard = 0
    while k < len(out):
        t = out[k]
        guard += 1
        if guard > 100000:
            break
        if t.kind == "ident" and t.text in methods:
            p = _prev_code(out, k - 1)
            j = _next_code(out, k + 1)
            if p >= 0 and out[p].text == "." and j < len(out) and out[j].text == "(":
                cl = match_close(out, j)
                args = split_args(out[j + 1:cl])
                clo = [x for x in args[-1] if _is_code(x)] if args else []
                if clo and clo[0].text in ("|", "||"):
                    try:
                        rs = chain_start(out, p)
                    except Unsupported:
                        k += 1
                        continue
                    recv = untok([x for x in out[rs:p]]).strip()
                    if clo[0].text == "||":
                        pat, body = "", clo[1:]
                    else:
                        e = next(q for q in range(1, len(clo)) if clo[q].text == "|")
                        pat, body = untok(clo[1:e]).strip(), clo[e + 1:]
                    body_txt = untok(body).strip()
                    m = t.text
                    if m == "map_or":
                        d = untok(args[0]).strip()
                        if not re.match(r"^[\w:.!\-]+$", d):
                            raise Unsupported("%s: map_or with a non-trivial default `%s`" % (where, d[:40]))
                        rep = "(match %s { Some(%s) => { %s }, None => %s })" % (recv, pat, body_txt, d)
                    elif m == "filter":
                        rep = "(match %s { Some(vx_o) => { let vx_keep = { let %s = &vx_o; %s }; if vx_keep { Some(vx_o) } else { None } }, None => None })" % (recv, pat, body_txt)
                    elif m == "map":
                        rep = "(match %s { Some(%s) => Some({ %s }), None => None })" % (recv, pat, body_txt)
                    elif m == "and_then":
                        rep = "(match %s { Some(%s) => { %s }, None => None })" % (recv, pat, body_txt)
                    elif m == "is_some_and":
                        rep = "(match %s { Some(%s) => { %s }, None => false })" % (recv, pat, body_txt)
                    else:
                        k += 1
                        continue
                    new = syn(rep)
                    if new:
                        new[0].start = out[rs].start
                    out[rs:cl + 1] = new
                    changed.append(m)
                    k = rs + len(new)
                    continue
        k += 1
    if changed:
        log.append(("R21", where, "Option combinators with closures: " + ", ".join(changed), "the `match` each combinator is defined as"))
    return out


def make_helper(item, origin):
    """build the helper description from an extracted fn Item (tokens incl. signature)"""
    toks = item.toks
    k = 0
    while not (toks[k].kind == "ident" and toks[k].text == "fn"):
        k += 1
    # params
    j = k
    while toks[j].text != "(":
        if toks[j].text == "<":
            raise Unsupported("generic helper %s" % item.name)
        j += 1
    cl = match_close(toks, j)
    params, self_kind = [], None
    for a in split_args(toks[j + 1:cl]):
        txt = re.sub(r"\s+", " ", untok(a)).strip()
        if txt in ("self", "mut self"):
            self_kind = "val"
        elif txt in ("&self", "& self"):
            self_kind = "ref"
        elif "self" == txt.replace("&mut ", "").strip():
            self_kind = "mut"
        else:
            m = re.match(r"(mut )?(\w+)\s*:\s*(.*)$", txt)
            if not m:
                raise Unsupported("helper %s: parameter %r" % (item.name, txt))
            params.append((("mut " if m.group(1) else "") + m.group(2), m.group(3)))
    # body
    b = cl
    while not (toks[b].kind == "punct" and toks[b].text == "{"):
        if toks[b].kind == "ident" and toks[b].text == "where":
            raise Unsupported("helper %s has a where clause" % item.name)
        b += 1
    body = toks[b:match_close(toks, b) + 1]
    # `return` / `?` inside the helper: inlining is still meaning-preserving where the call is the tail expression of the
    # calling function and both have the same return type (a return from the inlined text is then a return from the caller)
    has_return = any((x.kind == "ident" and x.text == "return") or (x.kind == "punct" and x.text == "?") for x in body)
    ret_type = re.sub(r"\s+", " ", untok([x for x in toks[cl + 1:b] if _is_code(x)])).strip()
    if self_kind == "mut":
        code = [x for x in body if _is_code(x)]
        for i_, x in enumerate(code):
            if x.kind == "ident" and x.text == "self" and not (i_ + 1 < len(code) and code[i_ + 1].text == "."):
                raise Unsupported("helper %s uses `self` other than as `self.<field or method>`" % item.name)
    body = r1_strip_attrs_docs(body, [], origin)
    body = r3_bytes(body, [], origin)
    return {"name": item.name, "params": params, "self_kind": self_kind, "body_toks": body, "origin": origin,
            "has_return": has_return, "ret_type": ret_type}


def cut_statement(toks, pat, tag, log, where):
    """remove the statement (or local item) that starts with the code-token sequence `pat`, up to and including its
       terminating `;` at bracket depth 0 (for `struct X { .. }` local items: up to the closing brace)."""
    from extract import LostAnchor
    ptoks = [t for t in lex(pat) if _is_code(t)]
    code = [(i, t) for i, t in enumerate(toks) if _is_code(t)]
    hit = None
    for ci in range(len(code) - len(ptoks) + 1):
        if all(code[ci + d][1].text == ptoks[d].text for d in range(len(ptoks))):
            hit = ci
            break
    if hit is None:
        raise LostAnchor("%s: cut pattern `%s` not found" % (where, pat))
    a = code[hit][0]
    j = a
    is_item = ptoks[0].text in ("struct", "enum")
    while j < len(toks):
        t = toks[j]
        if t.kind == "punct" and t.text in "([{":
            cl = match_close(toks, j)
            if is_item and t.text == "{":
                j = cl
                break
            j = cl + 1
            continue
        if t.kind == "punct" and t.text == ";":
            break
        j += 1
    log.append((tag, where, re.sub(r"\s+", " ", untok(toks[a:j + 1]))[:120] + " ...", "(removed; a stub with an explicit contract stands in)"))
    return toks[:a] + toks[j + 1:]
