//! Differential harnesses on the REAL adlt crate (path dependency on /repo).
//! `logic::*` functions take all their input from one byte array and return Err(description) when the real code disagrees
//! with the oracle; they are plain Rust (used by replay tests). `proofs::*` feed them with kani::any() (bounded model checking).
pub mod logic;

#[cfg(kani)]
mod proofs {
    use super::logic;

    #[kani::proof]
    #[kani::unwind(5)]
    fn k_c20_chain_ops() {
        let inp: [u8; 8] = kani::any();
        assert!(logic::c20_chain_ops(&inp).is_ok());
    }

    #[kani::proof]
    #[kani::unwind(8)]
    fn k_c09_merge() {
        let inp: [u8; 10] = kani::any();
        assert!(logic::c09_merge(&inp).is_ok());
    }

    #[kani::proof]
    #[kani::unwind(5)]
    fn k_c09_chain3() {
        let inp: [u8; 4] = kani::any();
        assert!(logic::c09_chain3(&inp).is_ok());
    }

    #[kani::proof]
    #[kani::unwind(6)]
    fn k_c09_sort2() {
        let inp: [u8; 7] = kani::any();
        assert!(logic::c09_sort2(&inp).is_ok());
    }

    #[kani::proof]
    #[kani::unwind(6)]
    fn k_c09_three_sources() {
        let inp: [u8; 4] = kani::any();
        assert!(logic::c09_three_sources(&inp).is_ok());
    }

    #[kani::proof]
    #[kani::unwind(30)]
    fn k_c01_parse_storage() {
        let inp: [u8; 24] = kani::any();
        assert!(logic::c01_parse_storage(&inp).is_ok());
    }

    // the description text path (status 7) is statically reachable: regex_automata crashes kani-compiler, so the two
    // regex entry points are stubbed (they are not reached dynamically for status 3..6)
    fn stub_regex_new(_re: &str) -> Result<regex::Regex, regex::Error> { Err(regex::Error::Syntax(String::new())) }
    fn stub_replace_all<'h, R: regex::Replacer>(_r: &regex::Regex, h: &'h str, _rep: R) -> std::borrow::Cow<'h, str> { std::borrow::Cow::Borrowed(h) }
    #[kani::proof]
    #[kani::unwind(12)]
    #[kani::stub(regex::Regex::new, stub_regex_new)]
    #[kani::stub(regex::Regex::replace_all, stub_replace_all)]
    fn k_c03_log_info() {
        let inp: [u8; 12] = kani::any();
        assert!(logic::c03_log_info(&inp).is_ok());
    }

    // regex engines and text rendering are unreachable for the literal criteria used here, but must not be compiled by
    // Kani (kani-compiler crashes on regex_automata): stubbed away
    fn stub_bytes_is_match(_r: &regex::bytes::Regex, _h: &[u8]) -> bool { false }
    fn stub_str_is_match(_r: &regex::Regex, _h: &str) -> bool { false }
    fn stub_fancy_is_match(_r: &fancy_regex::Regex, _h: &str) -> fancy_regex::Result<bool> { Ok(false) }
    fn stub_payload_as_text(_m: &adlt::dlt::DltMessage) -> Result<std::borrow::Cow<'_, str>, std::fmt::Error> { Err(std::fmt::Error) }
    #[kani::proof]
    #[kani::unwind(6)]
    #[kani::stub(regex::bytes::Regex::is_match, stub_bytes_is_match)]
    #[kani::stub(regex::Regex::is_match, stub_str_is_match)]
    #[kani::stub(fancy_regex::Regex::is_match, stub_fancy_is_match)]
    #[kani::stub(adlt::dlt::DltMessage::payload_as_text, stub_payload_as_text)]
    fn k_c12_match_filters() {
        let inp: [u8; 3] = kani::any();
        assert!(logic::c12_match_filters(&inp).is_ok());
    }

    // deliberately failing: used by `./check selftest-kani` to test the counterexample -> replay path
    #[kani::proof]
    fn k_selftest_fail() {
        let inp: [u8; 3] = kani::any();
        assert!(super::logic::selftest(&inp).is_ok());
    }

    #[kani::proof]
    #[kani::unwind(8)]
    fn k_c18_ser_str() {
        let inp: [u8; 3] = kani::any();
        assert!(logic::c18_ser_str(&inp).is_ok());
    }
}
