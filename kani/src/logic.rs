//! Oracle comparisons on the real adlt crate. No formatting, no strings: CBMC pays dearly for `format!`.
//! Every function returns Err(code) on a disagreement; codes are documented per function.
use adlt::utils::seekablechain::SeekableChain;
use std::io::{Cursor, Read, Seek, SeekFrom};

/// C20: a chain of 2 volumes (0..2 bytes each) against a Cursor over the concatenation, 2 operations.
/// inp[0..2]: volume lengths (mod 3); inp[2..6]: volume bytes; inp[6..8]: operations.
/// codes: 10+k read mismatch at op k, 20+k seek(Start), 30+k seek(End), 90 I/O error
pub fn c20_chain_ops(inp: &[u8; 8]) -> Result<(), u32> {
    let l0 = (inp[0] % 3) as usize;
    let l1 = (inp[1] % 3) as usize;
    let v0 = inp[2..2 + l0].to_vec();
    let v1 = inp[4..4 + l1].to_vec();
    let mut all: Vec<u8> = Vec::with_capacity(4);
    all.extend_from_slice(&v0);
    all.extend_from_slice(&v1);
    let total = all.len() as u64;
    let mut chain = SeekableChain::new(vec![Cursor::new(v0), Cursor::new(v1)]);
    let mut file = Cursor::new(all);
    for k in 0..2usize {
        let op = inp[6 + k];
        let arg = (op >> 2) as u64 % (total + 1);
        match op & 3 {
            0 | 1 => {
                let n = 1 + (op >> 2) as usize % 2;
                let mut b1 = [0u8; 2];
                let mut b2 = [0u8; 2];
                let r1 = chain.read(&mut b1[..n]).map_err(|_| 90u32)?;
                let r2 = file.read(&mut b2[..n]).map_err(|_| 90u32)?;
                // a chain may return fewer bytes than a file (volume boundary) but never 0 before the end, never other bytes
                if (r1 == 0) != (r2 == 0) || r1 > r2 || b1[..r1] != b2[..r1] {
                    return Err(10 + k as u32);
                }
                file.seek(SeekFrom::Current(r1 as i64 - r2 as i64)).map_err(|_| 90u32)?;
            }
            2 => {
                let p1 = chain.seek(SeekFrom::Start(arg)).map_err(|_| 90u32)?;
                let p2 = file.seek(SeekFrom::Start(arg)).map_err(|_| 90u32)?;
                if p1 != p2 {
                    return Err(20 + k as u32);
                }
            }
            _ => {
                let back = -(arg as i64);
                let p1 = chain.seek(SeekFrom::End(back)).map_err(|_| 90u32)?;
                let p2 = file.seek(SeekFrom::End(back)).map_err(|_| 90u32)?;
                if p1 != p2 {
                    return Err(30 + k as u32);
                }
            }
        }
    }
    Ok(())
}

use adlt::dlt::{DltChar4, DltMessage, DltStandardHeader};
use adlt::utils::sorting_multi_readeriterator::{SequentialMultiIterator, SortingMultiReaderIterator};

fn mk_msg(t: u64, tag: u8) -> DltMessage {
    DltMessage {
        index: 0,
        reception_time_us: t,
        ecu: DltChar4::from_buf(b"ECU1"),
        timestamp_dms: 0,
        standard_header: DltStandardHeader { htyp: 0x20, mcnt: tag, len: 4 },
        extended_header: None,
        payload: Vec::new(),
        payload_text: None,
        lifecycle: 0,
    }
}

/// C09: three sources with 0..2 messages each (sorted within a source), merged by SortingMultiReaderIterator and chained by
/// SequentialMultiIterator. inp[0..3]: lengths (mod 3); inp[3..9]: reception times (second of a source = first + delta);
/// inp[9]: start index. codes: 1 count, 2 index, 3 not sorted, 4 per-source order, 5 lost/duplicated message (tag sum),
/// 11 chain count, 12 chain index, 13 chain order
pub fn c09_merge(inp: &[u8; 10]) -> Result<(), u32> {
    let start = inp[9] as u32;
    let mut srcs: Vec<Vec<DltMessage>> = Vec::new();
    let mut total = 0usize;
    let mut tagsum = 0u32;
    for s in 0..3usize {
        let l = (inp[s] % 3) as usize;
        let mut v = Vec::new();
        let t0 = inp[3 + 2 * s] as u64;
        for k in 0..l {
            let t = if k == 0 { t0 } else { t0 + inp[4 + 2 * s] as u64 };
            let tag = (s * 2 + k + 1) as u8; // unique tag per message
            tagsum += tag as u32;
            v.push(mk_msg(t, tag));
        }
        total += l;
        srcs.push(v);
    }
    // merge
    let its: Vec<Box<dyn Iterator<Item = DltMessage>>> = srcs.clone().into_iter().map(|v| Box::new(v.into_iter()) as Box<dyn Iterator<Item = DltMessage>>).collect();
    let it = SortingMultiReaderIterator::new(start, its);
    let mut n = 0usize;
    let mut last_t = 0u64;
    let mut last_tag = [0u8; 3];
    let mut sum = 0u32;
    for m in it {
        if m.index != start + n as u32 { return Err(2); }
        if m.reception_time_us < last_t { return Err(3); }
        last_t = m.reception_time_us;
        let tag = m.standard_header.mcnt;
        let s = ((tag - 1) / 2) as usize;
        if tag <= last_tag[s] { return Err(4); }
        last_tag[s] = tag;
        sum += tag as u32;
        n += 1;
        if n > 6 { return Err(1); }
    }
    if n != total { return Err(1); }
    if sum != tagsum { return Err(5); }
    // chain
    let its2 = srcs.into_iter().map(|v| Box::new(v.into_iter()) as Box<dyn Iterator<Item = DltMessage>>);
    let it2 = SequentialMultiIterator::new(start, its2);
    let mut n2 = 0usize;
    let mut prev_tag = 0u8;
    for m in it2 {
        if m.index != start + n2 as u32 { return Err(12); }
        if m.standard_header.mcnt <= prev_tag { return Err(13); }
        prev_tag = m.standard_header.mcnt;
        n2 += 1;
        if n2 > 6 { return Err(11); }
    }
    if n2 != total { return Err(11); }
    Ok(())
}

/// C18: serialize a UTF-8 (here: ASCII) string of 0..2 bytes with the serde Serializer and decode it again.
/// inp[0]: length (mod 3), inp[1..3]: bytes (masked to 7 bit). codes: 1 serializer error, 2 not exactly one argument,
/// 3 type info, 4 raw bytes differ from string + NUL
pub fn c18_ser_str(inp: &[u8; 3]) -> Result<(), u32> {
    let l = (inp[0] % 3) as usize;
    let bytes = [inp[1] & 0x7f, inp[2] & 0x7f];
    let s = match std::str::from_utf8(&bytes[..l]) { Ok(s) => s, Err(_) => return Ok(()) };
    let payload = adlt::serde_verb_payload::to_payload(&s).map_err(|_| 1u32)?;
    let msg = DltMessage::get_testmsg_with_payload(cfg!(target_endian = "big"), 1, &payload);
    let mut it = (&msg).into_iter();
    let a = match it.next() { Some(a) => a, None => return Err(2) };
    if a.type_info != (adlt::dlt::DLT_TYPE_INFO_STRG | adlt::dlt::DLT_SCOD_UTF8) { return Err(3); }
    if a.payload_raw.len() != l + 1 || a.payload_raw[..l] != bytes[..l] || a.payload_raw[l] != 0 { return Err(4); }
    if it.next().is_some() { return Err(2); }
    Ok(())
}

/// not a property: fails for exactly one input pattern (used to test the counterexample -> replay path)
pub fn selftest(inp: &[u8; 3]) -> Result<(), u32> {
    if inp[0] == 7 && inp[2] == 9 { Err(1) } else { Ok(()) }
}

/// C09 (smaller): two sources with 0..2 messages each merged by SortingMultiReaderIterator.
/// inp[0..2]: lengths (mod 3); inp[2..6]: reception times (second = first + delta); inp[6]: start index.
/// codes as c09_merge (1 count, 2 index, 3 not sorted, 4 per-source order, 5 lost/duplicated)
pub fn c09_sort2(inp: &[u8; 7]) -> Result<(), u32> {
    let start = inp[6] as u32;
    let mut its: Vec<Box<dyn Iterator<Item = DltMessage>>> = Vec::with_capacity(2);
    let mut total = 0usize;
    let mut tagsum = 0u32;
    for s in 0..2usize {
        let l = (inp[s] % 3) as usize;
        let mut v = Vec::with_capacity(2);
        let t0 = inp[2 + 2 * s] as u64;
        for k in 0..l {
            let t = if k == 0 { t0 } else { t0 + inp[3 + 2 * s] as u64 };
            let tag = (s * 2 + k + 1) as u8;
            tagsum += tag as u32;
            v.push(mk_msg(t, tag));
        }
        total += l;
        its.push(Box::new(v.into_iter()));
    }
    let it = SortingMultiReaderIterator::new(start, its);
    let mut n = 0usize;
    let mut last_t = 0u64;
    let mut last_tag = [0u8; 2];
    let mut sum = 0u32;
    for m in it {
        if m.index != start + n as u32 { return Err(2); }
        if m.reception_time_us < last_t { return Err(3); }
        last_t = m.reception_time_us;
        let tag = m.standard_header.mcnt;
        let s = ((tag - 1) / 2) as usize;
        if tag <= last_tag[s] { return Err(4); }
        last_tag[s] = tag;
        sum += tag as u32;
        n += 1;
        if n > 4 { return Err(1); }
    }
    if n != total { return Err(1); }
    if sum != tagsum { return Err(5); }
    Ok(())
}

/// C09 (smaller): three sources with 0..1 message each chained by SequentialMultiIterator and merged by
/// SortingMultiReaderIterator (catches sources dropped after an empty one). inp[0..3]: lengths (mod 2), inp[3]: start index.
/// codes: 11 chain count, 12 chain index, 13 chain order, 1 merge count, 2 merge index
pub fn c09_three_sources(inp: &[u8; 4]) -> Result<(), u32> {
    let start = inp[3] as u32;
    let mut total = 0usize;
    let mut v1: Vec<Box<dyn Iterator<Item = DltMessage>>> = Vec::with_capacity(3);
    let mut v2: Vec<Box<dyn Iterator<Item = DltMessage>>> = Vec::with_capacity(3);
    for s in 0..3usize {
        let l = (inp[s] % 2) as usize;
        total += l;
        let a: Vec<DltMessage> = if l == 1 { vec![mk_msg(s as u64, s as u8 + 1)] } else { Vec::new() };
        let b: Vec<DltMessage> = if l == 1 { vec![mk_msg(s as u64, s as u8 + 1)] } else { Vec::new() };
        v1.push(Box::new(a.into_iter()));
        v2.push(Box::new(b.into_iter()));
    }
    let mut n = 0usize;
    let mut prev = 0u8;
    for m in SequentialMultiIterator::new(start, v1.into_iter()) {
        if m.index != start + n as u32 { return Err(12); }
        if m.standard_header.mcnt <= prev { return Err(13); }
        prev = m.standard_header.mcnt;
        n += 1;
        if n > 3 { return Err(11); }
    }
    if n != total { return Err(11); }
    let mut n2 = 0usize;
    for m in SortingMultiReaderIterator::new(start, v2) {
        if m.index != start + n2 as u32 { return Err(2); }
        n2 += 1;
        if n2 > 3 { return Err(1); }
    }
    if n2 != total { return Err(1); }
    Ok(())
}

/// C09 (chain only): three sources with 0..1 message each chained by SequentialMultiIterator (catches sources dropped after
/// an empty one). inp[0..3]: lengths (mod 2), inp[3]: start index. codes: 11 count, 12 index, 13 order
pub fn c09_chain3(inp: &[u8; 4]) -> Result<(), u32> {
    let start = inp[3] as u32;
    let mut total = 0usize;
    let mut v1: Vec<Box<dyn Iterator<Item = DltMessage>>> = Vec::with_capacity(3);
    for s in 0..3usize {
        let l = (inp[s] % 2) as usize;
        total += l;
        let a: Vec<DltMessage> = if l == 1 { vec![mk_msg(s as u64, s as u8 + 1)] } else { Vec::new() };
        v1.push(Box::new(a.into_iter()));
    }
    let mut n = 0usize;
    let mut prev = 0u8;
    for m in SequentialMultiIterator::new(start, v1.into_iter()) {
        if m.index != start + n as u32 { return Err(12); }
        if m.standard_header.mcnt <= prev { return Err(13); }
        prev = m.standard_header.mcnt;
        n += 1;
        if n > 3 { return Err(11); }
    }
    if n != total { return Err(11); }
    Ok(())
}

use adlt::dlt::{parse_dlt_with_storage_header, ErrorKind};

fn sh_pat(d: &[u8], i: usize) -> bool { i + 4 <= d.len() && d[i] == 0x44 && d[i + 1] == 0x4c && d[i + 2] == 0x54 && d[i + 3] == 0x01 }
fn hdr_size(h: u8) -> usize { 4 + if h & 4 != 0 { 4 } else { 0 } + if h & 8 != 0 { 4 } else { 0 } + if h & 16 != 0 { 4 } else { 0 } + if h & 1 != 0 { 10 } else { 0 } }

/// C01/C03: parse_dlt_with_storage_header on every 28-byte input whose first 4 bytes are the storage marker, against the
/// byte-layout oracle (the same one the Verus unit dltcore states as spec_parse_storage), written again in plain Rust.
/// inp: bytes 4..28 of the data (the marker is prepended). codes: 1 classification differs, 2 consumed length,
/// 3 header fields, 4 payload, 5 ecu, 6 timestamp
pub fn c01_parse_storage(inp: &[u8; 24]) -> Result<(), u32> {
    let mut d = [0u8; 28];
    d[0] = 0x44; d[1] = 0x4c; d[2] = 0x54; d[3] = 0x01;
    d[4..28].copy_from_slice(inp);
    let l = (d[18] as usize) * 256 + d[19] as usize;
    let h = hdr_size(d[16]);
    // oracle: 0 = NotEnough, 1 = Invalid, 2 = Msg
    let (cls, n) = if l < h { (1, 0) } else if d.len() - 16 < l { (0, 0) } else {
        let n = 16 + l;
        let mut inner = false;
        let mut i = 5;
        while i < n { if sh_pat(&d, i) { inner = true; } i += 1; }
        if d.len() - n >= 4 && !sh_pat(&d, n) && inner { (1, 0) } else { (2, n) }
    };
    match parse_dlt_with_storage_header(7, &d) {
        Ok((consumed, m)) => {
            if cls != 2 { return Err(1); }
            if consumed != n { return Err(2); }
            if m.index != 7 || m.standard_header.htyp != d[16] || m.standard_header.mcnt != d[17] || m.standard_header.len as usize != l { return Err(3); }
            if m.payload[..] != d[16 + h..16 + l] { return Err(4); }
            let ecu: &[u8] = if d[16] & 4 != 0 { &d[20..24] } else { &d[12..16] };
            if m.ecu.as_buf()[..] != ecu[..] { return Err(5); }
            let to = 20 + if d[16] & 4 != 0 { 4 } else { 0 } + if d[16] & 8 != 0 { 4 } else { 0 };
            let ts = if d[16] & 16 != 0 { u32::from_be_bytes([d[to], d[to + 1], d[to + 2], d[to + 3]]) } else { 0 };
            if m.timestamp_dms != ts { return Err(6); }
            if (m.extended_header.is_some()) != (d[16] & 1 != 0) { return Err(3); }
            Ok(())
        }
        Err(e) => match e.kind() {
            ErrorKind::InvalidData(_) => if cls == 1 { Ok(()) } else { Err(1) },
            ErrorKind::NotEnoughData(_) => if cls == 0 { Ok(()) } else { Err(1) },
            _ => Err(1),
        },
    }
}

/// C03: parse_ctrl_log_info_payload never panics (status 3..6: no description text, which would reach encoding_rs / regex)
/// inp[0]: status selector, inp[1]: endianness + length (0..10), inp[2..12]: payload. code 1: more entries than announced
pub fn c03_log_info(inp: &[u8; 12]) -> Result<(), u32> {
    let status = 3 + inp[0] % 4;
    let len = (inp[1] >> 1) as usize % 11;
    let r = adlt::dlt::control_msgs::parse_ctrl_log_info_payload(status, inp[1] & 1 == 1, &inp[2..2 + len]);
    if r.len() > 65535 { return Err(1); }
    Ok(())
}

use adlt::filter::{Char4OrRegex, Filter, FilterKind, FilterKindContainer};
use adlt::utils::remote_utils::match_filters;

/// C12: match_filters against the property's formula for a set with 0..1 filter of each of the four kinds; each filter has
/// a literal ECU criterion (one of two ECUs) and a symbolic enabled flag... (only enabled filters are put into the set, as
/// StreamContext::from does). inp[0]: which kinds are present (bits 0..3), inp[1]: which ECU each filter asks for (bits 0..3),
/// inp[2]: the message's ECU (bit 0). codes: 1 result differs from the formula
pub fn c12_match_filters(inp: &[u8; 3]) -> Result<(), u32> {
    let ecus = [DltChar4::from_buf(b"ECU1"), DltChar4::from_buf(b"ECU2")];
    let mut set: FilterKindContainer<Vec<Filter>> = Default::default();
    let kinds = [FilterKind::Positive, FilterKind::Negative, FilterKind::Marker, FilterKind::Event];
    let mut present = [false; 4];
    let mut hits = [false; 4];
    let msg_ecu = (inp[2] & 1) as usize;
    for k in 0..4usize {
        if inp[0] & (1 << k) != 0 {
            let want = ((inp[1] >> k) & 1) as usize;
            let mut f = Filter::new(kinds[k]);
            f.ecu = Some(Char4OrRegex::DltChar4(ecus[want]));
            set[kinds[k]].push(f);
            present[k] = true;
            hits[k] = want == msg_ecu;
        }
    }
    let mut m = mk_msg(1, 1);
    m.ecu = ecus[msg_ecu];
    let expected = (!present[0] || hits[0]) && !(present[1] && hits[1]) && (!present[3] || hits[3]);
    if match_filters(&m, &set) != expected { return Err(1); }
    Ok(())
}
