//! Oracle comparisons on the real adlt crate. No formatting, no strings: CBMC pays dearly for `format!`.
//! Every function returns Err(code) on a disagreement; codes are documented per function.
use adlt::utils::seekablechain::SeekableChain;
use std::io::{Cursor, Read, Seek, SeekFrom};

/// C20: a chain of 2 volumes (0..2 bytes each) against a Cursor over the concatenation, 2 operations.
/// inp[0..2]: volume lengths (mod 3); inp[2..6]: volume bytes; inp[6..8]: operations.
/// codes: 10+k read mismatch at op k, 20+k seek(Start), 30+k seek(End), 90 I/O error
pub fn c20_chain_ops(inp: &[u8; 8]) -> Result<(), u32> {
    let l0 = (inp[0] % 3) as usize;
    let l1 = (inp[1] % 3) as usize;
    let v0 = inp[2..2 + l0].to_vec();
    let v1 = inp[4..4 + l1].to_vec();
    let mut all: Vec<u8> = Vec::with_capacity(4);
    all.extend_from_slice(&v0);
    all.extend_from_slice(&v1);
    let total = all.len() as u64;
    let mut chain = SeekableChain::new(vec![Cursor::new(v0), Cursor::new(v1)]);
    let mut file = Cursor::new(all);
    for k in 0..2usize {
        let op = inp[6 + k];
        let arg = (op >> 2) as u64 % (total + 1);
        match op & 3 {
            0 | 1 => {
                let n = 1 + (op >> 2) as usize % 2;
                let mut b1 = [0u8; 2];
                let mut b2 = [0u8; 2];
                let r1 = chain.read(&mut b1[..n]).map_err(|_| 90u32)?;
                let r2 = file.read(&mut b2[..n]).map_err(|_| 90u32)?;
                // a chain may return fewer bytes than a file (volume boundary) but never 0 before the end, never other bytes
                if (r1 == 0) != (r2 == 0) || r1 > r2 || b1[..r1] != b2[..r1] {
                    return Err(10 + k as u32);
                }
                file.seek(SeekFrom::Current(r1 as i64 - r2 as i64)).map_err(|_| 90u32)?;
            }
            2 => {
                let p1 = chain.seek(SeekFrom::Start(arg)).map_err(|_| 90u32)?;
                let p2 = file.seek(SeekFrom::Start(arg)).map_err(|_| 90u32)?;
                if p1 != p2 {
                    return Err(20 + k as u32);
                }
            }
            _ => {
                let back = -(arg as i64);
                let p1 = chain.seek(SeekFrom::End(back)).map_err(|_| 90u32)?;
                let p2 = file.seek(SeekFrom::End(back)).map_err(|_| 90u32)?;
                if p1 != p2 {
                    return Err(30 + k as u32);
                }
            }
        }
    }
    Ok(())
}

use adlt::dlt::{DltChar4, DltMessage, DltStandardHeader};
use adlt::utils::sorting_multi_readeriterator::{SequentialMultiIterator, SortingMultiReaderIterator};

fn mk_msg(t: u64, tag: u8) -> DltMessage {
    DltMessage {
        index: 0,
        reception_time_us: t,
        ecu: DltChar4::from_buf(b"ECU1"),
        timestamp_dms: 0,
        standard_header: DltStandardHeader { htyp: 0x20, mcnt: tag, len: 4 },
        extended_header: None,
        payload: Vec::new(),
        payload_text: None,
        lifecycle: 0,
    }
}

/// C09: three sources with 0..2 messages each (sorted within a source), merged by SortingMultiReaderIterator and chained by
/// SequentialMultiIterator. inp[0..3]: lengths (mod 3); inp[3..9]: reception times (second of a source = first + delta);
/// inp[9]: start index. codes: 1 count, 2 index, 3 not sorted, 4 per-source order, 5 lost/duplicated message (tag sum),
/// 11 chain count, 12 chain index, 13 chain order
pub fn c09_merge(inp: &[u8; 10]) -> Result<(), u32> {
    let start = inp[9] as u32;
    let mut srcs: Vec<Vec<DltMessage>> = Vec::new();
    let mut total = 0usize;
    let mut tagsum = 0u32;
    for s in 0..3usize {
        let l = (inp[s] % 3) as usize;
        let mut v = Vec::new();
        let t0 = inp[3 + 2 * s] as u64;
        for k in 0..l {
            let t = if k == 0 { t0 } else { t0 + inp[4 + 2 * s] as u64 };
            let tag = (s * 2 + k + 1) as u8; // unique tag per message
            tagsum += tag as u32;
            v.push(mk_msg(t, tag));
        }
        total += l;
        srcs.push(v);
    }
    // merge
    let its: Vec<Box<dyn Iterator<Item = DltMessage>>> = srcs.clone().into_iter().map(|v| Box::new(v.into_iter()) as Box<dyn Iterator<Item = DltMessage>>).collect();
    let it = SortingMultiReaderIterator::new(start, its);
    let mut n = 0usize;
    let mut last_t = 0u64;
    let mut last_tag = [0u8; 3];
    let mut sum = 0u32;
    for m in it {
        if m.index != start + n as u32 { return Err(2); }
        if m.reception_time_us < last_t { return Err(3); }
        last_t = m.reception_time_us;
        let tag = m.standard_header.mcnt;
        let s = ((tag - 1) / 2) as usize;
        if tag <= last_tag[s] { return Err(4); }
        last_tag[s] = tag;
        sum += tag as u32;
        n += 1;
        if n > 6 { return Err(1); }
    }
    if n != total { return Err(1); }
    if sum != tagsum { return Err(5); }
    // chain
    let its2 = srcs.into_iter().map(|v| Box::new(v.into_iter()) as Box<dyn Iterator<Item = DltMessage>>);
    let it2 = SequentialMultiIterator::new(start, its2);
    let mut n2 = 0usize;
    let mut prev_tag = 0u8;
    for m in it2 {
        if m.index != start + n2 as u32 { return Err(12); }
        if m.standard_header.mcnt <= prev_tag { return Err(13); }
        prev_tag = m.standard_header.mcnt;
        n2 += 1;
        if n2 > 6 { return Err(11); }
    }
    if n2 != total { return Err(11); }
    Ok(())
}

/// C18: serialize a UTF-8 (here: ASCII) string of 0..2 bytes with the serde Serializer and decode it again.
/// inp[0]: length (mod 3), inp[1..3]: bytes (masked to 7 bit). codes: 1 serializer error, 2 not exactly one argument,
/// 3 type info, 4 raw bytes differ from string + NUL
pub fn c18_ser_str(inp: &[u8; 3]) -> Result<(), u32> {
    let l = (inp[0] % 3) as usize;
    let bytes = [inp[1] & 0x7f, inp[2] & 0x7f];
    let s = match std::str::from_utf8(&bytes[..l]) { Ok(s) => s, Err(_) => return Ok(()) };
    let payload = adlt::serde_verb_payload::to_payload(&s).map_err(|_| 1u32)?;
    let msg = DltMessage::get_testmsg_with_payload(cfg!(target_endian = "big"), 1, &payload);
    let mut it = (&msg).into_iter();
    let a = match it.next() { Some(a) => a, None => return Err(2) };
    if a.type_info != (adlt::dlt::DLT_TYPE_INFO_STRG | adlt::dlt::DLT_SCOD_UTF8) { return Err(3); }
    if a.payload_raw.len() != l + 1 || a.payload_raw[..l] != bytes[..l] || a.payload_raw[l] != 0 { return Err(4); }
    if it.next().is_some() { return Err(2); }
    Ok(())
}

/// not a property: fails for exactly one input pattern (used to test the counterexample -> replay path)
pub fn selftest(inp: &[u8; 3]) -> Result<(), u32> {
    if inp[0] == 7 && inp[2] == 9 { Err(1) } else { Ok(()) }
}
