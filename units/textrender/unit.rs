//@ unit textrender
// C03 ('rendering message headers and payloads as text'): the index and capacity arithmetic of DltMessage::payload_as_text for non-verbose
// messages - the statements that can panic or allocate; the formatting itself (write!, serde_json, regex) is not verified.
#![allow(unused_imports, dead_code, unused_variables, unused_mut, non_upper_case_globals)]
use vstd::prelude::*;
verus! {
global size_of usize == 8;

//@ include prelude/std_specs.rs

//@ extract src/dlt/mod.rs static CTRL_RESPONSE_STRS
//@   sub R12 `static CTRL_RESPONSE_STRS: [&str;` => `const CTRL_RESPONSE_STRS: [&'static str;`
//@ end

// R11: `write!(&mut text, FORMAT, arg)?` - appending formatted text; the argument expression stays (it is evaluated first)
#[verifier::external_body]
pub fn vx_write_str(text: &mut String, s: &str) -> (r: Result<(), std::fmt::Error>) { unimplemented!() }
#[verifier::external_body]
pub fn vx_write_u8(text: &mut String, v: u8) -> (r: Result<(), std::fmt::Error>) { unimplemented!() }

// the control-response arm: the status byte and its name, the rest of the payload (the `match message_id` that renders the rest by
// service id - parsers under contract in unit ctrlmsgs, serde_json - is cut)
//@ extract src/dlt/mod.rs region `if !payload.is_empty() {` .. `if !payload.is_empty() {` in DltMessage::payload_as_text
//@   sig pub fn ctrl_response_status(text: &mut String, payload: &[u8], needs_closing_bracket0: bool, message_id: u32, is_big_endian: bool) -> (r: Result<bool, std::fmt::Error>)
//@   sub R11 `match message_id { __ }` => `{ }`
//@   sub R11 `write!(&mut text, " {}]", __)?;` => `vx_write_str(text, $1)?;`
//@   sub R11 `write!(&mut text, " {:02x}]", *retval)?;` => `vx_write_u8(text, *retval)?;`
//@   hint start
//@|    let mut needs_closing_bracket = needs_closing_bracket0;
//@   tail `Ok(needs_closing_bracket)`
//@   spec
//@|    ensures true, // O:text.ctrl_response.no_panic (payload[0], the name table, payload[1..] - for every payload)
//@ end


// the plain non-verbose arm: the capacity of the text buffer, computed from the payload length
// usize::next_power_of_two (std: the smallest power of two >= self; panics in debug mode / wraps to 0 if that does not fit)
pub assume_specification [usize::next_power_of_two] (x: usize) -> (r: usize)
    requires x <= 0x4000_0000_0000_0000, // O:text.capacity.npot_fits
    ensures r >= x, r >= 1, r < 2 * x || x == 0;
#[verifier::external_body]
pub fn vx_any_non_printable(payload: &[u8]) -> (r: bool) { unimplemented!() }
#[verifier::external_body]
pub fn vx_string_with_capacity(n: usize) -> (r: String) { unimplemented!() }
//@ extract src/dlt/mod.rs region `const MAX_U32_LEN: usize` .. `let mut text = String::with_capacity(est_len_full.next_power_of_two());` in DltMessage::payload_as_text
//@   sig pub fn plain_text_capacity(payload: &[u8]) -> (r: usize)
//@   sub R11 `"4294967295".len()` => `10`
//@   sub R11 `payload.iter().any(is_non_printable_char_wo_rnt)` => `vx_any_non_printable(payload)`
//@   sub R11 `let mut text = String::with_capacity(est_len_full.next_power_of_two());` => `let vx_cap = est_len_full.next_power_of_two(); let mut text = vx_string_with_capacity(vx_cap);`
//@   tail `vx_cap`
//@   spec
//@|    requires payload@.len() <= 0x1_0000, // a DLT message's payload (16-bit length field)
//@|    ensures r <= 8 * payload@.len() + 32, // O:text.capacity.bounded (allocation clause: at most a small multiple of the payload size)
//@ end


// DltMessage::header_as_text_to_write: the name of the message type is looked up in four tables by the enum's discriminant
//@ extract src/dlt/mod.rs static LOG_LEVEL_STRS
//@   sub R12 `static LOG_LEVEL_STRS: [&str;` => `const LOG_LEVEL_STRS: [&'static str;`
//@ end
//@ extract src/dlt/mod.rs static TRACE_TYPE_STRS
//@   sub R12 `static TRACE_TYPE_STRS: [&str;` => `const TRACE_TYPE_STRS: [&'static str;`
//@ end
//@ extract src/dlt/mod.rs static NW_TYPE_STRS
//@   sub R12 `static NW_TYPE_STRS: [&str;` => `const NW_TYPE_STRS: [&'static str;`
//@ end
//@ extract src/dlt/mod.rs static CONTROL_TYPE_STRS
//@   sub R12 `static CONTROL_TYPE_STRS: [&str;` => `const CONTROL_TYPE_STRS: [&'static str;`
//@ end
//@ extract src/dlt/mod.rs enum DltMessageLogType
//@ end
//@ extract src/dlt/mod.rs enum DltMessageTraceType
//@ end
//@ extract src/dlt/mod.rs enum DltMessageNwType
//@ end
//@ extract src/dlt/mod.rs enum DltMessageControlType
//@ end
//@ extract src/dlt/mod.rs enum DltMessageType
//@ end
#[verifier::external_body]
pub struct VxWriter { _p: u8 }
#[verifier::external_body]
pub fn vx_write_name(writer: &mut VxWriter, s: &str) -> (r: Result<(), std::io::Error>) { unimplemented!() }
//@ extract src/dlt/mod.rs region `match self.mstp() {` .. `match self.mstp() {` in DltMessage::header_as_text_to_write
//@   sig pub fn header_type_name(writer: &mut VxWriter, vx_mstp: DltMessageType) -> (r: Result<(), std::io::Error>)
//@   sub R12 `self.mstp()` => `vx_mstp`
//@   sub R11 `write!(writer, _lit_, __)?;` => `vx_write_name(writer, $1)?;` *
//@   tail `Ok(())`
//@   spec
//@|    ensures true, // O:text.header.type_name_in_table (every message type has a name in its table)
//@ end

fn main() {}
} // verus!
