//@ unit convertin
// C14 (input clause, partitioning): the loop of `convert` that distributes the input files over streams by their ECU sets.
#![allow(unused_imports, dead_code, unused_variables, unused_mut, non_upper_case_globals)]
use vstd::prelude::*;
verus! {
global size_of usize == 8;

//@ include prelude/std_specs.rs
//@ include units/dltcore/part.rs

// R12 models. HashSet<DltChar4> (`ecus_seen`): its elements; `==` on two sets is equality of the element sets; clone keeps them.
#[verifier::external_body]
pub struct VxEcuSet { _p: u8 }
impl VxEcuSet {
    pub uninterp spec fn ids(&self) -> Set<DltChar4>;
    #[verifier::external_body]
    pub fn clone(&self) -> (r: VxEcuSet) ensures r.ids() == self.ids() { unimplemented!() }
}
#[verifier::external_body]
pub fn vx_set_eq(a: &VxEcuSet, b: &VxEcuSet) -> (r: bool) ensures r == (a.ids() == b.ids()) { unimplemented!() }
// DltFileInfos (src/utils/mod.rs): the two fields the loop reads; the file name is a String
pub struct DltFileInfos { pub first_msg: Option<DltMessage>, pub ecus_seen: VxEcuSet }
pub type StreamEntry = (VxEcuSet, Vec<(u64, String, DltFileInfos)>);
// `files_ok.into_iter().map(..).filter(|(_a, b)| b.first_msg.is_some())`: the files still to come, each with a first message
#[verifier::external_body]
pub struct VxFileIter { _p: u8 }
impl VxFileIter {
    pub uninterp spec fn rem(&self) -> Seq<(String, DltFileInfos)>;
    #[verifier::external_body]
    pub fn next(&mut self) -> (r: Option<(String, DltFileInfos)>)
        ensures
            old(self).rem().len() == 0 ==> r is None && final(self).rem() == old(self).rem(),
            old(self).rem().len() > 0 ==> r == Some(old(self).rem()[0]) && final(self).rem() == old(self).rem().skip(1),
    { unimplemented!() }
}
// `input_file_streams.iter_mut().find(|e| e.0 == fm.1.ecus_seen)`: the first stream with that ECU set (Iterator::find = first match)
#[verifier::external_body]
pub fn vx_find_stream<'a>(v: &'a mut Vec<StreamEntry>, key: &VxEcuSet) -> (r: Option<&'a mut StreamEntry>)
    ensures
        r is Some ==> exists|i: int| 0 <= i < old(v)@.len() && #[trigger] old(v)@[i].0.ids() == key.ids() && (forall|j: int| 0 <= j < i ==> #[trigger] old(v)@[j].0.ids() != key.ids())
            && *r->Some_0 == old(v)@[i] && final(v)@ == old(v)@.update(i, *final(r->Some_0)),
        r is None ==> final(v)@ == old(v)@ && forall|i: int| 0 <= i < old(v)@.len() ==> #[trigger] old(v)@[i].0.ids() != key.ids(),
{ unimplemented!() }

// ---------- oracle (from the property / the comment in the code): one stream per distinct ECU set; a stream holds exactly the files
// with its ECU set, in the order given, each with the reception time of its first message ----------
pub open spec fn entry_of(f: (String, DltFileInfos)) -> (u64, String, DltFileInfos) { (f.1.first_msg->Some_0.reception_time_us, f.0, f.1) }
pub open spec fn files_of(fs: Seq<(String, DltFileInfos)>, key: Set<DltChar4>, n: int) -> Seq<(u64, String, DltFileInfos)>
    decreases n
{
    if n <= 0 { Seq::empty() }
    else if fs[n - 1].1.ecus_seen.ids() == key { files_of(fs, key, n - 1).push(entry_of(fs[n - 1])) }
    else { files_of(fs, key, n - 1) }
}
pub open spec fn has_stream(ss: Seq<StreamEntry>, f: (String, DltFileInfos)) -> bool { exists|i: int| 0 <= i < ss.len() && #[trigger] ss[i].0.ids() == f.1.ecus_seen.ids() }
pub open spec fn partitioned(ss: Seq<StreamEntry>, fs: Seq<(String, DltFileInfos)>, n: int) -> bool {
    // one stream per ECU set
    &&& forall|i: int, j: int| 0 <= i < j < ss.len() ==> #[trigger] ss[i].0.ids() != #[trigger] ss[j].0.ids()
    // a stream holds exactly the files with its ECU set, in the order given (so: each file in exactly one stream, once)
    &&& forall|i: int| 0 <= i < ss.len() ==> (#[trigger] ss[i]).1@ == files_of(fs, ss[i].0.ids(), n) && ss[i].1@.len() > 0
    // every file is in a stream
    &&& forall|k: int| 0 <= k < n ==> has_stream(ss, #[trigger] fs[k])
}
pub open spec fn found_shape(ss: Seq<StreamEntry>, ss2: Seq<StreamEntry>, fs: Seq<(String, DltFileInfos)>, k: int) -> bool {
    ss2.len() == ss.len()
    && exists|i: int| 0 <= i < ss.len() && #[trigger] ss[i].0.ids() == fs[k].1.ecus_seen.ids() && ss2[i].0 == ss[i].0 && ss2[i].1@ == ss[i].1@.push(entry_of(fs[k]))
        && forall|j: int| 0 <= j < ss.len() && j != i ==> #[trigger] ss2[j] == ss[j]
}
pub open spec fn new_shape(ss: Seq<StreamEntry>, ss2: Seq<StreamEntry>, fs: Seq<(String, DltFileInfos)>, k: int) -> bool {
    &&& forall|i: int| 0 <= i < ss.len() ==> #[trigger] ss[i].0.ids() != fs[k].1.ecus_seen.ids()
    &&& ss2.len() == ss.len() + 1 && forall|j: int| 0 <= j < ss.len() ==> #[trigger] ss2[j] == ss[j]
    &&& ss2[ss.len() as int].0.ids() == fs[k].1.ecus_seen.ids() && ss2[ss.len() as int].1@ =~= seq![entry_of(fs[k])]
}
pub proof fn lemma_files_of_none(fs: Seq<(String, DltFileInfos)>, key: Set<DltChar4>, n: int)
    requires 0 <= n <= fs.len(), forall|j: int| 0 <= j < n ==> (#[trigger] fs[j]).1.ecus_seen.ids() != key,
    ensures files_of(fs, key, n).len() == 0,
    decreases n,
{
    if n > 0 { lemma_files_of_none(fs, key, n - 1); }
}
// file k goes to the existing stream i of its ECU set
pub proof fn lemma_part_found(ss: Seq<StreamEntry>, ss2: Seq<StreamEntry>, fs: Seq<(String, DltFileInfos)>, k: int)
    requires
        0 <= k < fs.len(), partitioned(ss, fs, k), found_shape(ss, ss2, fs, k),
    ensures partitioned(ss2, fs, k + 1),
{
    let i = choose|i: int| 0 <= i < ss.len() && #[trigger] ss[i].0.ids() == fs[k].1.ecus_seen.ids() && ss2[i].0 == ss[i].0 && ss2[i].1@ == ss[i].1@.push(entry_of(fs[k]))
            && forall|j: int| 0 <= j < ss.len() && j != i ==> #[trigger] ss2[j] == ss[j];
    assert forall|a: int, b: int| 0 <= a < b < ss2.len() implies #[trigger] ss2[a].0.ids() != #[trigger] ss2[b].0.ids() by {
        assert(ss2[a].0.ids() == ss[a].0.ids() && ss2[b].0.ids() == ss[b].0.ids());
    }
    assert forall|j: int| 0 <= j < ss2.len() implies (#[trigger] ss2[j]).1@ == files_of(fs, ss2[j].0.ids(), k + 1) && ss2[j].1@.len() > 0 by {
        assert(ss2[j].0.ids() == ss[j].0.ids());
        if j != i {
            assert(ss[j].1@ == files_of(fs, ss[j].0.ids(), k));
            if j < i { assert(ss[j].0.ids() != ss[i].0.ids()); } else { assert(ss[i].0.ids() != ss[j].0.ids()); }
        } else {
            assert(ss[i].1@ == files_of(fs, ss[i].0.ids(), k));
        }
    }
    assert forall|q: int| 0 <= q < k + 1 implies has_stream(ss2, #[trigger] fs[q]) by {
        if q < k {
            assert(has_stream(ss, fs[q]));
            let w = choose|w: int| 0 <= w < ss.len() && #[trigger] ss[w].0.ids() == fs[q].1.ecus_seen.ids();
            assert(ss2[w].0.ids() == ss[w].0.ids());
        } else {
            assert(ss2[i].0.ids() == fs[k].1.ecus_seen.ids());
        }
    }
}
// file k opens a new stream: no stream has its ECU set yet
pub proof fn lemma_part_new(ss: Seq<StreamEntry>, ss2: Seq<StreamEntry>, fs: Seq<(String, DltFileInfos)>, k: int)
    requires
        0 <= k < fs.len(), partitioned(ss, fs, k), new_shape(ss, ss2, fs, k),
    ensures partitioned(ss2, fs, k + 1),
{
    let key = fs[k].1.ecus_seen.ids();
    let n = ss.len() as int;
    // no earlier file has this ECU set (it would have a stream)
    assert forall|j: int| 0 <= j < k implies (#[trigger] fs[j]).1.ecus_seen.ids() != key by {
        assert(has_stream(ss, fs[j]));
    }
    lemma_files_of_none(fs, key, k);
    assert(files_of(fs, key, k + 1) =~= seq![entry_of(fs[k])]);
    assert forall|j: int| 0 <= j < ss2.len() implies (#[trigger] ss2[j]).1@ == files_of(fs, ss2[j].0.ids(), k + 1) && ss2[j].1@.len() > 0 by {
        if j < n { assert(ss2[j] == ss[j]); assert(ss[j].1@ == files_of(fs, ss[j].0.ids(), k)); }
    }
    assert forall|q: int| 0 <= q < k + 1 implies has_stream(ss2, #[trigger] fs[q]) by {
        if q < k {
            assert(has_stream(ss, fs[q]));
            let w = choose|w: int| 0 <= w < ss.len() && #[trigger] ss[w].0.ids() == fs[q].1.ecus_seen.ids();
            assert(ss2[w] == ss[w]);
        } else {
            assert(ss2[n].0.ids() == fs[k].1.ecus_seen.ids());
        }
    }
    assert forall|a: int, b: int| 0 <= a < b < ss2.len() implies #[trigger] ss2[a].0.ids() != #[trigger] ss2[b].0.ids() by {
        assert(ss2[a] == ss[a]);
        if b < n { assert(ss2[b] == ss[b]); }
    }
}
//@ extract src/bin/adlt/convert.rs region `for fm in file_msgs {` .. `for fm in file_msgs {` in fn convert
//@   sig #[verifier::loop_isolation(false)] #[verifier::allow_complex_invariants] pub fn partition_inputs(mut file_msgs: VxFileIter, mut input_file_streams: Vec<StreamEntry>) -> (r: Vec<StreamEntry>)
//@   tail `input_file_streams`
//@   sub R13 `for fm in file_msgs {` => `loop { let fm = match file_msgs.next() { Some(vx_f) => vx_f, None => break }; let ghost ss_b = input_file_streams@; let ghost f_k = fm; proof { assert(fm == fs0[k]); assert(fs0.skip(k).skip(1) =~= fs0.skip(k + 1)); }`
//@   sub R11 `_id_ .iter_mut() .find(|_id_| _id_.0 == __)` => `vx_find_stream(&mut $1, &$4)`
//@   spec
//@|    requires
//@|        input_file_streams@.len() == 0,
//@|        forall|k: int| 0 <= k < file_msgs.rem().len() ==> (#[trigger] file_msgs.rem()[k]).1.first_msg is Some, // the `.filter(|(_a, b)| b.first_msg.is_some())` in front of the loop
//@|    ensures
//@|        partitioned(r@, file_msgs.rem(), file_msgs.rem().len() as int), // O:convert.partition (one stream per ECU set; each file with a first message in exactly the stream of its ECU set, in the order given)
//@   hint start
//@|    let ghost fs0 = file_msgs.rem();
//@|    let ghost mut k: int = 0;
//@   hint loopend 1
//@|    proof {
//@|        // (conditional: a body that does something else gets no help from the lemmas and fails the tagged invariant itself)
//@|        if found_shape(ss_b, input_file_streams@, fs0, k) { lemma_part_found(ss_b, input_file_streams@, fs0, k); }
//@|        else if new_shape(ss_b, input_file_streams@, fs0, k) { lemma_part_new(ss_b, input_file_streams@, fs0, k); }
//@|        k = k + 1;
//@|    }
//@   loop inner `file_msgs.next()`
//@|    invariant
//@|        0 <= k <= fs0.len(), file_msgs.rem() == fs0.skip(k),
//@|        partitioned(input_file_streams@, fs0, k), // O:convert.inv.partition
//@|    ensures k == fs0.len(),
//@|    decreases fs0.len() - k,
//@ end

// ---------- per stream: order the files by first reception time, drop repeated entries ----------
// R11 (std, documented contracts): `v.sort_by(|a, b| a.0.cmp(&b.0))` - afterwards ordered by `.0`, the same elements; `v.dedup()` - removes
// consecutive repeated elements (only those)
pub type TimeFile = (u64, String, DltFileInfos);
pub open spec fn sorted_by_time(s: Seq<TimeFile>) -> bool { forall|i: int, j: int| 0 <= i < j < s.len() ==> s[i].0 <= s[j].0 }
pub open spec fn dedup_seq(s: Seq<TimeFile>) -> Seq<TimeFile>
    decreases s.len()
{
    if s.len() <= 1 { s } else if s[s.len() - 1] == s[s.len() - 2] { dedup_seq(s.drop_last()) } else { dedup_seq(s.drop_last()).push(s.last()) }
}
#[verifier::external_body]
pub fn vx_sort_by_time(v: &mut Vec<TimeFile>)
    ensures sorted_by_time(final(v)@), final(v)@.to_multiset() == old(v)@.to_multiset(),
{ unimplemented!() }
#[verifier::external_body]
pub fn vx_dedup(v: &mut Vec<TimeFile>)
    ensures final(v)@ == dedup_seq(old(v)@),
{ unimplemented!() }
// the property's hypothesis for this step: different files (of one stream) have different first reception times - entries with the same
// time are the same entry (the same file named twice)
pub open spec fn time_identifies(s: Seq<TimeFile>) -> bool { forall|i: int, j: int| 0 <= i < s.len() && 0 <= j < s.len() && #[trigger] s[i].0 == #[trigger] s[j].0 ==> s[i] == s[j] }
pub open spec fn strictly_by_time(s: Seq<TimeFile>) -> bool { forall|i: int, j: int| 0 <= i < j < s.len() ==> s[i].0 < s[j].0 }
// ordered + "same time, same entry": after dedup every entry occurs once (the times are strictly increasing) and none is lost
pub proof fn lemma_dedup_sorted(s: Seq<TimeFile>)
    requires sorted_by_time(s), time_identifies(s),
    ensures
        strictly_by_time(dedup_seq(s)),
        s.len() > 0 ==> dedup_seq(s).len() > 0 && dedup_seq(s).last() == s.last(),
        forall|i: int| 0 <= i < s.len() ==> dedup_seq(s).contains(#[trigger] s[i]),
        forall|x: TimeFile| dedup_seq(s).contains(x) ==> s.contains(x),
    decreases s.len(),
{
    if s.len() <= 1 {
        assert forall|i: int| 0 <= i < s.len() implies dedup_seq(s).contains(#[trigger] s[i]) by { assert(dedup_seq(s)[i] == s[i]); }
    } else {
        let p = s.drop_last();
        assert(sorted_by_time(p)) by { assert forall|i: int, j: int| 0 <= i < j < p.len() implies p[i].0 <= p[j].0 by { assert(p[i] == s[i] && p[j] == s[j]); } }
        assert(time_identifies(p)) by { assert forall|i: int, j: int| 0 <= i < p.len() && 0 <= j < p.len() && #[trigger] p[i].0 == #[trigger] p[j].0 implies p[i] == p[j] by { assert(p[i] == s[i] && p[j] == s[j]); } }
        lemma_dedup_sorted(p);
        let d = dedup_seq(p);
        assert(d.last() == p.last() && p.last() == s[s.len() - 2]);
        if s[s.len() - 1] == s[s.len() - 2] {
            assert(dedup_seq(s) == d);
            assert forall|i: int| 0 <= i < s.len() implies dedup_seq(s).contains(#[trigger] s[i]) by {
                if i < s.len() - 1 { assert(p[i] == s[i]); assert(d.contains(p[i])); } else { assert(d.contains(p[p.len() - 1])); }
            }
            assert forall|x: TimeFile| dedup_seq(s).contains(x) implies s.contains(x) by { assert(p.contains(x)); let k = choose|k: int| 0 <= k < p.len() && p[k] == x; assert(s[k] == x); }
        } else {
            let r = d.push(s.last());
            assert(dedup_seq(s) == r);
            // the last entry has a later time than everything kept so far: d ends with s[n-2], whose time is <= and, not being equal, <
            assert(s[s.len() - 2].0 <= s[s.len() - 1].0);
            assert(s[s.len() - 2].0 != s[s.len() - 1].0);
            assert(strictly_by_time(r)) by {
                assert forall|i: int, j: int| 0 <= i < j < r.len() implies r[i].0 < r[j].0 by {
                    if j < d.len() { assert(r[i] == d[i] && r[j] == d[j]); }
                    else { assert(r[i] == d[i]); if i < d.len() - 1 { assert(d[i].0 < d[d.len() - 1].0); } }
                }
            }
            assert forall|i: int| 0 <= i < s.len() implies r.contains(#[trigger] s[i]) by {
                if i < s.len() - 1 { assert(p[i] == s[i]); assert(d.contains(p[i])); let k = choose|k: int| 0 <= k < d.len() && d[k] == p[i]; assert(r[k] == s[i]); }
                else { assert(r[r.len() - 1] == s[i]); }
            }
            assert forall|x: TimeFile| r.contains(x) implies s.contains(x) by {
                let k = choose|k: int| 0 <= k < r.len() && r[k] == x;
                if k < d.len() { assert(d[k] == x); assert(d.contains(x)); assert(p.contains(x)); let q = choose|q: int| 0 <= q < p.len() && p[q] == x; assert(s[q] == x); }
                else { assert(s[s.len() - 1] == x); }
            }
        }
    }
}
//@ extract src/bin/adlt/convert.rs region `_id_.sort_by(|a, b| a.0 ||| _id_.sort_by_key(|_id_| _id_.0) ||| _id_.dedup();` .. `_id_.dedup(); ||| _id_.sort_by(|a, b| a.0 ||| _id_.sort_by_key(|_id_| _id_.0)` in fn convert
//@   sig pub fn stream_files_in_order(mut time_files: Vec<TimeFile>) -> (r: Vec<TimeFile>)
//@   tail `time_files`
//@   sub R11 `_id_.sort_by(|a, b| a.0.cmp(&b.0));` => `vx_sort_by_time(&mut time_files);` ?
//@   sub R11 `_id_.sort_by_key(|_id_| _id_.0);` => `vx_sort_by_time(&mut time_files);` ?
//@   sub R11 `_id_.dedup();` => `vx_dedup(&mut time_files);` ?
//@   spec
//@|    ensures
//@|        sorted_by_time(r@), // O:convert.stream.sorted (the files of a stream are read in the order of their first reception time)
//@|        time_identifies(time_files@) ==> strictly_by_time(r@)
//@|            && (forall|i: int| 0 <= i < time_files@.len() ==> r@.contains(#[trigger] time_files@[i])) && (forall|x: TimeFile| r@.contains(x) ==> time_files@.contains(x)), // O:convert.stream.once (with distinct first reception times for different files: every file of the stream is read, each exactly once - a file named twice is read once)
//@   hint start
//@|    let ghost tf0 = time_files@;
//@|    let ghost mut s1: Seq<TimeFile> = time_files@;
//@   hint after `vx_sort_by_time(&mut time_files);`
//@|    proof { s1 = time_files@; }
//@   hint before `^time_files`
//@|    proof {
//@|        // (conditional on the shape sort-then-dedup: anything else gets no help)
//@|        if sorted_by_time(s1) && s1.to_multiset() == tf0.to_multiset() && time_files@ == dedup_seq(s1) {
//@|            assert(sorted_by_time(dedup_seq(s1))) by {
//@|                if time_identifies(s1) { lemma_dedup_sorted(s1); } else { lemma_dedup_keeps_order(s1); }
//@|            }
//@|            if time_identifies(tf0) {
//@|                assert(time_identifies(s1)) by {
//@|                    assert forall|i: int, j: int| 0 <= i < s1.len() && 0 <= j < s1.len() && #[trigger] s1[i].0 == #[trigger] s1[j].0 implies s1[i] == s1[j] by {
//@|                        lemma_in_multiset(s1, tf0, i); lemma_in_multiset(s1, tf0, j);
//@|                        let a = choose|a: int| 0 <= a < tf0.len() && tf0[a] == s1[i]; let b = choose|b: int| 0 <= b < tf0.len() && tf0[b] == s1[j];
//@|                        assert(tf0[a].0 == tf0[b].0);
//@|                    }
//@|                }
//@|                lemma_dedup_sorted(s1);
//@|                assert forall|i: int| 0 <= i < tf0.len() implies time_files@.contains(#[trigger] tf0[i]) by {
//@|                    lemma_in_multiset(tf0, s1, i); let a = choose|a: int| 0 <= a < s1.len() && s1[a] == tf0[i]; assert(dedup_seq(s1).contains(s1[a]));
//@|                }
//@|                assert forall|x: TimeFile| time_files@.contains(x) implies tf0.contains(x) by {
//@|                    assert(s1.contains(x)); let a = choose|a: int| 0 <= a < s1.len() && s1[a] == x; lemma_in_multiset(s1, tf0, a);
//@|                }
//@|            }
//@|        }
//@|    }
//@ end
// dropping consecutive repeats keeps the order
pub proof fn lemma_dedup_keeps_order(s: Seq<TimeFile>)
    requires sorted_by_time(s),
    ensures sorted_by_time(dedup_seq(s)), s.len() > 0 ==> dedup_seq(s).len() > 0 && dedup_seq(s).last() == s.last(),
    decreases s.len(),
{
    if s.len() > 1 {
        let p = s.drop_last();
        assert(sorted_by_time(p)) by { assert forall|i: int, j: int| 0 <= i < j < p.len() implies p[i].0 <= p[j].0 by { assert(p[i] == s[i] && p[j] == s[j]); } }
        lemma_dedup_keeps_order(p);
        let d = dedup_seq(p);
        if s[s.len() - 1] != s[s.len() - 2] {
            let r = d.push(s.last());
            assert(sorted_by_time(r)) by {
                assert forall|i: int, j: int| 0 <= i < j < r.len() implies r[i].0 <= r[j].0 by {
                    if j < d.len() { assert(r[i] == d[i] && r[j] == d[j]); }
                    else { assert(r[i] == d[i]); assert(d[i].0 <= d[d.len() - 1].0); assert(d.last() == p.last()); assert(p.last() == s[s.len() - 2]); assert(s[s.len() - 2].0 <= s[s.len() - 1].0); }
                }
            }
        }
    }
}
pub proof fn lemma_in_multiset(a: Seq<TimeFile>, b: Seq<TimeFile>, i: int)
    requires 0 <= i < a.len(), a.to_multiset() == b.to_multiset(),
    ensures b.contains(a[i]),
{
    a.to_multiset_ensures(); b.to_multiset_ensures();
    assert(a.contains(a[i]));
    assert(a.to_multiset().count(a[i]) > 0);
}

fn main() {}
} // verus!
