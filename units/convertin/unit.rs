//@ unit convertin
// C14 (input clause, partitioning): the loop of `convert` that distributes the input files over streams by their ECU sets.
#![allow(unused_imports, dead_code, unused_variables, unused_mut, non_upper_case_globals)]
use vstd::prelude::*;
verus! {
global size_of usize == 8;

//@ include prelude/std_specs.rs
//@ include units/dltcore/part.rs

// R12 models. HashSet<DltChar4> (`ecus_seen`): its elements; `==` on two sets is equality of the element sets; clone keeps them.
#[verifier::external_body]
pub struct VxEcuSet { _p: u8 }
impl VxEcuSet {
    pub uninterp spec fn ids(&self) -> Set<DltChar4>;
    #[verifier::external_body]
    pub fn clone(&self) -> (r: VxEcuSet) ensures r.ids() == self.ids() { unimplemented!() }
}
#[verifier::external_body]
pub fn vx_set_eq(a: &VxEcuSet, b: &VxEcuSet) -> (r: bool) ensures r == (a.ids() == b.ids()) { unimplemented!() }
// DltFileInfos (src/utils/mod.rs): the two fields the loop reads; the file name is a String
pub struct DltFileInfos { pub first_msg: Option<DltMessage>, pub ecus_seen: VxEcuSet }
pub type StreamEntry = (VxEcuSet, Vec<(u64, String, DltFileInfos)>);
// `files_ok.into_iter().map(..).filter(|(_a, b)| b.first_msg.is_some())`: the files still to come, each with a first message
#[verifier::external_body]
pub struct VxFileIter { _p: u8 }
impl VxFileIter {
    pub uninterp spec fn rem(&self) -> Seq<(String, DltFileInfos)>;
    #[verifier::external_body]
    pub fn next(&mut self) -> (r: Option<(String, DltFileInfos)>)
        ensures
            old(self).rem().len() == 0 ==> r is None && final(self).rem() == old(self).rem(),
            old(self).rem().len() > 0 ==> r == Some(old(self).rem()[0]) && final(self).rem() == old(self).rem().skip(1),
    { unimplemented!() }
}
// `input_file_streams.iter_mut().find(|e| e.0 == fm.1.ecus_seen)`: the first stream with that ECU set (Iterator::find = first match)
#[verifier::external_body]
pub fn vx_find_stream<'a>(v: &'a mut Vec<StreamEntry>, key: &VxEcuSet) -> (r: Option<&'a mut StreamEntry>)
    ensures
        r is Some ==> exists|i: int| 0 <= i < old(v)@.len() && #[trigger] old(v)@[i].0.ids() == key.ids() && (forall|j: int| 0 <= j < i ==> #[trigger] old(v)@[j].0.ids() != key.ids())
            && *r->Some_0 == old(v)@[i] && final(v)@ == old(v)@.update(i, *final(r->Some_0)),
        r is None ==> final(v)@ == old(v)@ && forall|i: int| 0 <= i < old(v)@.len() ==> #[trigger] old(v)@[i].0.ids() != key.ids(),
{ unimplemented!() }

// ---------- oracle (from the property / the comment in the code): one stream per distinct ECU set; a stream holds exactly the files
// with its ECU set, in the order given, each with the reception time of its first message ----------
pub open spec fn entry_of(f: (String, DltFileInfos)) -> (u64, String, DltFileInfos) { (f.1.first_msg->Some_0.reception_time_us, f.0, f.1) }
pub open spec fn files_of(fs: Seq<(String, DltFileInfos)>, key: Set<DltChar4>, n: int) -> Seq<(u64, String, DltFileInfos)>
    decreases n
{
    if n <= 0 { Seq::empty() }
    else if fs[n - 1].1.ecus_seen.ids() == key { files_of(fs, key, n - 1).push(entry_of(fs[n - 1])) }
    else { files_of(fs, key, n - 1) }
}
pub open spec fn has_stream(ss: Seq<StreamEntry>, f: (String, DltFileInfos)) -> bool { exists|i: int| 0 <= i < ss.len() && #[trigger] ss[i].0.ids() == f.1.ecus_seen.ids() }
pub open spec fn partitioned(ss: Seq<StreamEntry>, fs: Seq<(String, DltFileInfos)>, n: int) -> bool {
    // one stream per ECU set
    &&& forall|i: int, j: int| 0 <= i < j < ss.len() ==> #[trigger] ss[i].0.ids() != #[trigger] ss[j].0.ids()
    // a stream holds exactly the files with its ECU set, in the order given (so: each file in exactly one stream, once)
    &&& forall|i: int| 0 <= i < ss.len() ==> (#[trigger] ss[i]).1@ == files_of(fs, ss[i].0.ids(), n) && ss[i].1@.len() > 0
    // every file is in a stream
    &&& forall|k: int| 0 <= k < n ==> has_stream(ss, #[trigger] fs[k])
}
pub open spec fn found_shape(ss: Seq<StreamEntry>, ss2: Seq<StreamEntry>, fs: Seq<(String, DltFileInfos)>, k: int) -> bool {
    ss2.len() == ss.len()
    && exists|i: int| 0 <= i < ss.len() && #[trigger] ss[i].0.ids() == fs[k].1.ecus_seen.ids() && ss2[i].0 == ss[i].0 && ss2[i].1@ == ss[i].1@.push(entry_of(fs[k]))
        && forall|j: int| 0 <= j < ss.len() && j != i ==> #[trigger] ss2[j] == ss[j]
}
pub open spec fn new_shape(ss: Seq<StreamEntry>, ss2: Seq<StreamEntry>, fs: Seq<(String, DltFileInfos)>, k: int) -> bool {
    &&& forall|i: int| 0 <= i < ss.len() ==> #[trigger] ss[i].0.ids() != fs[k].1.ecus_seen.ids()
    &&& ss2.len() == ss.len() + 1 && forall|j: int| 0 <= j < ss.len() ==> #[trigger] ss2[j] == ss[j]
    &&& ss2[ss.len() as int].0.ids() == fs[k].1.ecus_seen.ids() && ss2[ss.len() as int].1@ =~= seq![entry_of(fs[k])]
}
pub proof fn lemma_files_of_none(fs: Seq<(String, DltFileInfos)>, key: Set<DltChar4>, n: int)
    requires 0 <= n <= fs.len(), forall|j: int| 0 <= j < n ==> (#[trigger] fs[j]).1.ecus_seen.ids() != key,
    ensures files_of(fs, key, n).len() == 0,
    decreases n,
{
    if n > 0 { lemma_files_of_none(fs, key, n - 1); }
}
// file k goes to the existing stream i of its ECU set
pub proof fn lemma_part_found(ss: Seq<StreamEntry>, ss2: Seq<StreamEntry>, fs: Seq<(String, DltFileInfos)>, k: int)
    requires
        0 <= k < fs.len(), partitioned(ss, fs, k), found_shape(ss, ss2, fs, k),
    ensures partitioned(ss2, fs, k + 1),
{
    let i = choose|i: int| 0 <= i < ss.len() && #[trigger] ss[i].0.ids() == fs[k].1.ecus_seen.ids() && ss2[i].0 == ss[i].0 && ss2[i].1@ == ss[i].1@.push(entry_of(fs[k]))
            && forall|j: int| 0 <= j < ss.len() && j != i ==> #[trigger] ss2[j] == ss[j];
    assert forall|a: int, b: int| 0 <= a < b < ss2.len() implies #[trigger] ss2[a].0.ids() != #[trigger] ss2[b].0.ids() by {
        assert(ss2[a].0.ids() == ss[a].0.ids() && ss2[b].0.ids() == ss[b].0.ids());
    }
    assert forall|j: int| 0 <= j < ss2.len() implies (#[trigger] ss2[j]).1@ == files_of(fs, ss2[j].0.ids(), k + 1) && ss2[j].1@.len() > 0 by {
        assert(ss2[j].0.ids() == ss[j].0.ids());
        if j != i {
            assert(ss[j].1@ == files_of(fs, ss[j].0.ids(), k));
            if j < i { assert(ss[j].0.ids() != ss[i].0.ids()); } else { assert(ss[i].0.ids() != ss[j].0.ids()); }
        } else {
            assert(ss[i].1@ == files_of(fs, ss[i].0.ids(), k));
        }
    }
    assert forall|q: int| 0 <= q < k + 1 implies has_stream(ss2, #[trigger] fs[q]) by {
        if q < k {
            assert(has_stream(ss, fs[q]));
            let w = choose|w: int| 0 <= w < ss.len() && #[trigger] ss[w].0.ids() == fs[q].1.ecus_seen.ids();
            assert(ss2[w].0.ids() == ss[w].0.ids());
        } else {
            assert(ss2[i].0.ids() == fs[k].1.ecus_seen.ids());
        }
    }
}
// file k opens a new stream: no stream has its ECU set yet
pub proof fn lemma_part_new(ss: Seq<StreamEntry>, ss2: Seq<StreamEntry>, fs: Seq<(String, DltFileInfos)>, k: int)
    requires
        0 <= k < fs.len(), partitioned(ss, fs, k), new_shape(ss, ss2, fs, k),
    ensures partitioned(ss2, fs, k + 1),
{
    let key = fs[k].1.ecus_seen.ids();
    let n = ss.len() as int;
    // no earlier file has this ECU set (it would have a stream)
    assert forall|j: int| 0 <= j < k implies (#[trigger] fs[j]).1.ecus_seen.ids() != key by {
        assert(has_stream(ss, fs[j]));
    }
    lemma_files_of_none(fs, key, k);
    assert(files_of(fs, key, k + 1) =~= seq![entry_of(fs[k])]);
    assert forall|j: int| 0 <= j < ss2.len() implies (#[trigger] ss2[j]).1@ == files_of(fs, ss2[j].0.ids(), k + 1) && ss2[j].1@.len() > 0 by {
        if j < n { assert(ss2[j] == ss[j]); assert(ss[j].1@ == files_of(fs, ss[j].0.ids(), k)); }
    }
    assert forall|q: int| 0 <= q < k + 1 implies has_stream(ss2, #[trigger] fs[q]) by {
        if q < k {
            assert(has_stream(ss, fs[q]));
            let w = choose|w: int| 0 <= w < ss.len() && #[trigger] ss[w].0.ids() == fs[q].1.ecus_seen.ids();
            assert(ss2[w] == ss[w]);
        } else {
            assert(ss2[n].0.ids() == fs[k].1.ecus_seen.ids());
        }
    }
    assert forall|a: int, b: int| 0 <= a < b < ss2.len() implies #[trigger] ss2[a].0.ids() != #[trigger] ss2[b].0.ids() by {
        assert(ss2[a] == ss[a]);
        if b < n { assert(ss2[b] == ss[b]); }
    }
}
//@ extract src/bin/adlt/convert.rs region `for fm in file_msgs {` .. `for fm in file_msgs {` in fn convert
//@   sig #[verifier::loop_isolation(false)] #[verifier::allow_complex_invariants] pub fn partition_inputs(mut file_msgs: VxFileIter, mut input_file_streams: Vec<StreamEntry>) -> (r: Vec<StreamEntry>)
//@   tail `input_file_streams`
//@   sub R13 `for fm in file_msgs {` => `loop { let fm = match file_msgs.next() { Some(vx_f) => vx_f, None => break }; let ghost ss_b = input_file_streams@; let ghost f_k = fm; proof { assert(fm == fs0[k]); assert(fs0.skip(k).skip(1) =~= fs0.skip(k + 1)); }`
//@   sub R11 `_id_ .iter_mut() .find(|_id_| _id_.0 == __)` => `vx_find_stream(&mut $1, &$4)`
//@   spec
//@|    requires
//@|        input_file_streams@.len() == 0,
//@|        forall|k: int| 0 <= k < file_msgs.rem().len() ==> (#[trigger] file_msgs.rem()[k]).1.first_msg is Some, // the `.filter(|(_a, b)| b.first_msg.is_some())` in front of the loop
//@|    ensures
//@|        partitioned(r@, file_msgs.rem(), file_msgs.rem().len() as int), // O:convert.partition (one stream per ECU set; each file with a first message in exactly the stream of its ECU set, in the order given)
//@   hint start
//@|    let ghost fs0 = file_msgs.rem();
//@|    let ghost mut k: int = 0;
//@   hint loopend 1
//@|    proof {
//@|        // (conditional: a body that does something else gets no help from the lemmas and fails the tagged invariant itself)
//@|        if found_shape(ss_b, input_file_streams@, fs0, k) { lemma_part_found(ss_b, input_file_streams@, fs0, k); }
//@|        else if new_shape(ss_b, input_file_streams@, fs0, k) { lemma_part_new(ss_b, input_file_streams@, fs0, k); }
//@|        k = k + 1;
//@|    }
//@   loop inner `file_msgs.next()`
//@|    invariant
//@|        0 <= k <= fs0.len(), file_msgs.rem() == fs0.skip(k),
//@|        partitioned(input_file_streams@, fs0, k), // O:convert.inv.partition
//@|    ensures k == fs0.len(),
//@|    decreases fs0.len() - k,
//@ end

fn main() {}
} // verus!
