// ---- units/streamidx/part.rs ----
//@ extract src/utils/remote_utils.rs struct StreamContext
//@ end

// R11: the rayon closure `get_matching_idxs` (msgs.par_iter().enumerate().filter(match_filters).map(offset + i).collect())
// assumed contract: the ascending list of offset + i for the matching msgs[i] (rayon's indexed collect keeps the order)
pub open spec fn matching_from(msgs: Seq<DltMessage>, filters: &FilterKindContainer<Vec<Filter>>, offset: int, n: int) -> Seq<usize>
    decreases n
{
    if n <= 0 { Seq::empty() }
    else if spec_match_filters(&msgs[n - 1], filters) { matching_from(msgs, filters, offset, n - 1).push((offset + n - 1) as usize) }
    else { matching_from(msgs, filters, offset, n - 1) }
}
#[verifier::external_body]
pub fn vx_get_matching_idxs(filters: &FilterKindContainer<Vec<Filter>>, msgs: &[DltMessage], offset: usize) -> (r: Vec<usize>)
    requires offset + msgs@.len() <= usize::MAX,
    ensures r@ == matching_from(msgs@, filters, offset as int, msgs@.len() as int),
{ unimplemented!() }
#[verifier::external_body]
pub fn vx_cfg_test() -> (r: bool) { cfg!(test) }

// all matching positions of all[lo..hi), ascending
pub open spec fn matches_in(all: Seq<DltMessage>, filters: &FilterKindContainer<Vec<Filter>>, lo: int, hi: int) -> Seq<usize> {
    matching_from(all.subrange(lo, hi), filters, lo, hi - lo)
}

// ---- lemmas about the ascending list of matching positions ----
pub proof fn lemma_mf_shift(all: Seq<DltMessage>, f: &FilterKindContainer<Vec<Filter>>, lo: int, hi: int, n: int)
    requires 0 <= lo <= hi <= all.len(), 0 <= n <= hi - lo,
    ensures matching_from(all.subrange(lo, hi), f, lo, n) == matching_from(all.subrange(lo, lo + n), f, lo, n),
    decreases n,
{
    if n > 0 {
        lemma_mf_shift(all, f, lo, hi, n - 1);
        lemma_mf_shift(all, f, lo, lo + n, n - 1);
        assert(all.subrange(lo, hi)[n - 1] == all.subrange(lo, lo + n)[n - 1]);
    }
}
// bounds, order and meaning of the entries
pub proof fn lemma_mf_props(all: Seq<DltMessage>, f: &FilterKindContainer<Vec<Filter>>, lo: int, hi: int)
    requires 0 <= lo <= hi <= all.len(), hi <= usize::MAX,
    ensures ({
        let m = matches_in(all, f, lo, hi);
        &&& m.len() <= hi - lo
        &&& (forall|k: int| 0 <= k < m.len() ==> lo <= (#[trigger] m[k]) < hi && spec_match_filters(&all[m[k] as int], f))
        &&& (forall|a: int, b: int| 0 <= a < b < m.len() ==> m[a] < m[b])
        &&& (forall|p: int| lo <= p < hi && spec_match_filters(&all[p], f) ==> exists|k: int| 0 <= k < m.len() && #[trigger] m[k] == p)
    }),
    decreases hi - lo,
{
    if hi > lo {
        lemma_mf_props(all, f, lo, hi - 1);
        lemma_mf_shift(all, f, lo, hi, hi - lo - 1);
        let m0 = matches_in(all, f, lo, hi - 1);
        let m = matches_in(all, f, lo, hi);
        assert(all.subrange(lo, hi)[hi - lo - 1] == all[hi - 1]);
        if spec_match_filters(&all[hi - 1], f) {
            assert(m == m0.push((hi - 1) as usize));
            assert forall|p: int| lo <= p < hi && spec_match_filters(&all[p], f) implies exists|k: int| 0 <= k < m.len() && #[trigger] m[k] == p by {
                if p == hi - 1 { assert(m[m.len() - 1] == p); }
                else { let k = choose|k: int| 0 <= k < m0.len() && #[trigger] m0[k] == p; assert(m[k] == p); }
            }
        } else {
            assert(m == m0);
        }
    }
}
// concatenation: matches of [lo, hi) = matches of [lo, mid) ++ matches of [mid, hi)
pub proof fn lemma_mf_concat(all: Seq<DltMessage>, f: &FilterKindContainer<Vec<Filter>>, lo: int, mid: int, hi: int)
    requires 0 <= lo <= mid <= hi <= all.len(),
    ensures matches_in(all, f, lo, hi) == matches_in(all, f, lo, mid) + matches_in(all, f, mid, hi),
    decreases hi - mid,
{
    if hi == mid {
        assert(matches_in(all, f, mid, hi) =~= Seq::<usize>::empty());
        assert(matches_in(all, f, lo, hi) =~= matches_in(all, f, lo, mid) + matches_in(all, f, mid, hi));
    } else {
        lemma_mf_concat(all, f, lo, mid, hi - 1);
        lemma_mf_shift(all, f, lo, hi, hi - lo - 1);
        lemma_mf_shift(all, f, mid, hi, hi - mid - 1);
        assert(all.subrange(lo, hi)[hi - lo - 1] == all[hi - 1]);
        assert(all.subrange(mid, hi)[hi - mid - 1] == all[hi - 1]);
        let a = matches_in(all, f, lo, mid);
        let b0 = matches_in(all, f, mid, hi - 1);
        if spec_match_filters(&all[hi - 1], f) {
            assert((a + b0).push((hi - 1) as usize) =~= a + b0.push((hi - 1) as usize));
        }
    }
}
// cutting at the position of the k-th match keeps exactly the first k matches
pub proof fn lemma_mf_cut(all: Seq<DltMessage>, f: &FilterKindContainer<Vec<Filter>>, lo: int, hi: int, k: int)
    requires 0 <= lo <= hi <= all.len(), hi <= usize::MAX, 0 <= k < matches_in(all, f, lo, hi).len(),
    ensures
        lo <= matches_in(all, f, lo, hi)[k] < hi,
        matches_in(all, f, lo, matches_in(all, f, lo, hi)[k] as int) == matches_in(all, f, lo, hi).subrange(0, k),
{
    let m = matches_in(all, f, lo, hi);
    let c = m[k] as int;
    lemma_mf_props(all, f, lo, hi);
    lemma_mf_concat(all, f, lo, c, hi);
    lemma_mf_props(all, f, lo, c);
    lemma_mf_props(all, f, c, hi);
    let a = matches_in(all, f, lo, c);
    let b = matches_in(all, f, c, hi);
    assert(m == a + b);
    // every entry of a is < c, every entry of b is >= c, m is strictly ascending and m[k] == c: so a has exactly k entries
    if a.len() > k { assert(m[k] == a[k]); assert(a[k] < c); }
    if a.len() < k { assert(m[k] == b[k - a.len()]); assert(m[a.len() as int] == b[0]); assert(b[0] >= c); assert(m[a.len() as int] < m[k]); }
    assert(a =~= m.subrange(0, k));
}

impl StreamContext {
    // the index invariant: filtered_msgs is exactly the ascending list of matching positions among the messages processed so far
    // (streams), or its first msgs_to_send.end entries with processing stopped right after the last one taken (queries)
    pub open spec fn idx_ok(&self, all: Seq<DltMessage>) -> bool {
        &&& self.all_msgs_last_processed_len <= all.len()
        &&& self.filtered_msgs@ == matches_in(all, &self.filters, 0, self.all_msgs_last_processed_len as int)
        &&& (!self.is_stream ==> self.filtered_msgs@.len() <= self.msgs_to_send.end)
    }
}

//@ extract src/utils/remote_utils.rs fn process_stream_new_msgs
//@   sub R3 `std::cmp::min(` => `vx_min_usize(` x3
//@   sub R11 `let get_matching_idxs = |msgs: &[DltMessage], offset: usize| -> Vec<usize> { msgs.par_iter() .enumerate() .filter(|(_i, msg)| match_filters(msg, &stream.filters)) .map(|(i, _msg)| offset + i) .collect() };` => ``
//@   sub R11 `get_matching_idxs(` => `vx_get_matching_idxs(&stream.filters,` x2
//@   sub R19 `max_chunk_size: usize, )` => `max_chunk_size: usize, Ghost(all): Ghost<Seq<DltMessage>>, )`
//@   spec
//@|    requires
//@|        old(stream).filters_active ==> old(stream).idx_ok(all),
//@|        new_msgs_offset == old(stream).all_msgs_last_processed_len,      // the caller passes exactly the messages not processed yet ...
//@|        new_msgs_offset + new_msgs@.len() == all.len(),                 // ... up to the end of what has been parsed so far
//@|        new_msgs@ == all.subrange(new_msgs_offset as int, all.len() as int),
//@|        max_chunk_size > 0,
//@|        all.len() + 0x10000 <= usize::MAX, // `all` is the caller's Vec<DltMessage>
//@|    ensures
//@|        final(stream).filters_active ==> final(stream).idx_ok(all), // O:stream.idx_ok
//@|        final(stream).all_msgs_last_processed_len >= old(stream).all_msgs_last_processed_len, // O:stream.monotone
//@|        final(stream).filters == old(stream).filters && final(stream).is_stream == old(stream).is_stream && final(stream).msgs_to_send == old(stream).msgs_to_send
//@|            && final(stream).filters_active == old(stream).filters_active && final(stream).id == old(stream).id && final(stream).msgs_sent == old(stream).msgs_sent,
//@   hint before `if stream.is_stream {`
//@|    let ghost f0 = old(stream).filtered_msgs@;
//@|    let ghost p0 = old(stream).all_msgs_last_processed_len as int;
//@|    let ghost off = new_msgs_offset as int;
//@|    proof {
//@|        // facts for the stream branch, stated before the branch so that no hint hangs on its statements
//@|        assert(new_msgs@.subrange(0, max_idx as int) =~= all.subrange(off, off + max_idx));
//@|        lemma_mf_concat(all, &stream.filters, 0, off, off + max_idx);
//@|    }
//@   loop 1
//@|    invariant
//@|        max_idx <= new_msgs@.len(), start_idx <= max_idx, 0 < part_chunk_size <= 0x10000, all.len() + 0x10000 <= usize::MAX,
//@|        off == new_msgs_offset, off + new_msgs@.len() == all.len(), new_msgs@ == all.subrange(off, all.len() as int),
//@|        max_matching == stream.msgs_to_send.end,
//@|        stream.filters == old(stream).filters && stream.is_stream == old(stream).is_stream && stream.msgs_to_send == old(stream).msgs_to_send
//@|            && stream.filters_active == old(stream).filters_active && stream.id == old(stream).id && stream.msgs_sent == old(stream).msgs_sent,
//@|        p0 <= stream.all_msgs_last_processed_len <= all.len(),
//@|        stream.filtered_msgs@ == matches_in(all, &stream.filters, 0, stream.all_msgs_last_processed_len as int), // O:stream.inv.index
//@|        stream.filtered_msgs@.len() <= max_matching,
//@|        stream.filtered_msgs@.len() < max_matching ==> stream.all_msgs_last_processed_len == off + start_idx, // O:stream.inv.resume_point
//@|    decreases max_idx - start_idx,
//@   hint before `start_idx = max_this_chunk;`
//@|    proof {
//@|        let a = off + start_idx; let b = off + max_this_chunk;
//@|        assert(new_msgs@.subrange(start_idx as int, max_this_chunk as int) =~= all.subrange(a, b));
//@|        lemma_mf_concat(all, &stream.filters, 0, a, b);
//@|        lemma_mf_props(all, &stream.filters, a, b);
//@|        if matching_idxs@.len() > nr_wanted {
//@|            lemma_mf_cut(all, &stream.filters, a, b, nr_wanted as int);
//@|            lemma_mf_concat(all, &stream.filters, 0, a, matching_idxs@[nr_wanted as int] as int);
//@|        }
//@|    }
//@ end
// ---- end of units/streamidx/part.rs ----
