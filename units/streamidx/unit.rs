//@ unit streamidx
// C16 (index clause): process_stream_new_msgs keeps the incremental index of matching message positions.
#![allow(unused_imports, dead_code, unused_variables, unused_mut, non_upper_case_globals)]
use vstd::prelude::*;
verus! {
global size_of usize == 8;

//@ include prelude/std_specs.rs
//@ include units/dltcore/part.rs
//@ include units/filter/char4eq.rs
//@ include units/filter/part.rs
//@ include units/filterset/part.rs
//@ include units/streamidx/part.rs

fn main() {}
} // verus!
