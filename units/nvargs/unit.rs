//@ unit nvargs
// C03 ('running the built-in plugins', non-verbose plugin): the argument source the plugin builds from a FIBEX frame - NVArgsIterator::next
// slices the payload PDU by PDU - and the verbose renderer DltMessage::process_msg_arg_iter instantiated with it. What makes both safe is an
// invariant of the preprocessed frame (`frame_wf`): the PDU lengths add up to the frame's byte_length (checked by insert_frames before a frame
// is stored - ASSUMED here) and a PDU typed BOOL has at least one byte and no static text (parse_pdus: a PDU of length 0 is typed as text -
// ASSUMED here; both functions read afibex structures and are not under contract).
#![allow(unused_imports, dead_code, unused_variables, unused_mut, non_upper_case_globals)]
use vstd::prelude::*;
verus! {
global size_of usize == 8;

//@ include prelude/std_specs.rs
//@ include units/dltcore/part.rs
//@ include units/verbarg/part.rs
//@ include units/verbarg/render_stubs.rs

//@ extract src/plugins/non_verbose.rs struct NVPdu
//@ end
//@ extract src/plugins/non_verbose.rs struct NVFrame
//@ end
//@ extract src/plugins/non_verbose.rs struct NVArgsIterator
//@ end

pub open spec fn pdu_sum(pdus: Seq<NVPdu>, n: int) -> int decreases n { if n <= 0 { 0 } else { pdu_sum(pdus, n - 1) + pdus[n - 1].byte_length } }
pub open spec fn frame_wf(f: &NVFrame) -> bool {
    &&& pdu_sum(f.pdus@, f.pdus@.len() as int) == f.byte_length
    &&& forall|k: int| 0 <= k < f.pdus@.len() ==> ((#[trigger] f.pdus@[k]).type_info & 0x10 != 0 ==> f.pdus@[k].byte_length >= 1 && f.pdus@[k].text is None)
}
pub proof fn lemma_pdu_sum_mono(pdus: Seq<NVPdu>, a: int, b: int)
    requires 0 <= a <= b <= pdus.len(),
    ensures pdu_sum(pdus, a) <= pdu_sum(pdus, b),
    decreases b - a,
{ if a < b { lemma_pdu_sum_mono(pdus, a, b - 1); } }
// String::as_bytes of the static text
#[verifier::external_body]
pub fn vx_string_as_bytes<'a>(s: &'a String) -> (r: &'a [u8]) { s.as_bytes() }

impl<'a> NVArgsIterator<'a> {
    pub open spec fn wf(&self) -> bool {
        frame_wf(self.frame) && self.index <= self.frame.pdus@.len() && self.bytes_used == pdu_sum(self.frame.pdus@, self.index as int)
            && self.msg_payload@.len() >= self.frame.byte_length
    }
//@ extract src/plugins/non_verbose.rs NVArgsIterator::new
//@   spec
//@|    requires frame_wf(frame), msg_payload@.len() >= frame.byte_length, // (the caller's test `payload.len() as u32 >= frame.byte_length`: O:nv.payload_covers_frame of unit pluginnv)
//@|    ensures r.wf(), // O:nvargs.new.wf
//@ end
//@ extract src/plugins/non_verbose.rs <Iterator for NVArgsIterator>::next
//@   sub R8 `Self::Item` => `DltArg<'a>`
//@   sub R11 `text.as_bytes()` => `vx_string_as_bytes(text)`
//@   hint start
//@|    proof { if self.index < self.frame.pdus@.len() { lemma_pdu_sum_mono(self.frame.pdus@, self.index as int + 1, self.frame.pdus@.len() as int); } }
//@   spec
//@|    requires old(self).wf(),
//@|    ensures final(self).wf(), // O:nvargs.next.wf
//@|        final(self).frame == old(self).frame,
//@|        r is Some ==> final(self).index == old(self).index + 1,
//@|        r is None ==> final(self).index == old(self).index,
//@|        r is Some && r->Some_0.type_info & 0x10 != 0 ==> r->Some_0.payload_raw@.len() >= 1, // O:nvargs.next.bool_has_a_byte
//@ end

// the renderer over this argument source
//@ extract src/dlt/mod.rs DltMessage::process_msg_arg_iter
//@   sub R12 `fn process_msg_arg_iter<'a, I>( args: I, text: &mut String, ) -> Result<(), std::fmt::Error> where I: Iterator<Item = DltArg<'a>>,` => `fn process_msg_arg_iter<'b>(mut args: NVArgsIterator<'b>, text: &mut String) -> Result<(), std::fmt::Error>`
//@   rename nv_process_msg_arg_iter
//@   cut R11 `let mut itoa_buf = itoa::Buffer::new();`
//@   sub R13 `for (nr_arg, arg) in args.enumerate() {` => `let mut vx_cnt: usize = 0; loop { let arg = match args.next() { Some(vx_a) => vx_a, None => { break; } }; let nr_arg = vx_cnt; if vx_cnt < usize::MAX { vx_cnt = vx_cnt + 1; }`
//@   sub R11 `text.push(' ');` => `vx_push_char(text, ' ');`
//@   sub R11 `text.push_str(itoa_buf.format(val));` => `vx_push_num(text, val);` *
//@   sub R11 `text.push_str(&s);` => `vx_push_cow(text, &s);` *
//@   sub R11 `text.push_str(_lit_);` => `vx_push_lit(text);` *
//@   sub R3 `arg.payload_raw.try_into().unwrap()` => `vx_to_array(arg.payload_raw)` ?
//@   sub R3 `_id_.try_into().unwrap()` => `vx_to_array($1)` ?
//@   sub R11 `for (i, &c) in arg.payload_raw[0..arg.payload_raw.len()].iter().enumerate() { __ }` => `vx_write_hex(text, &arg.payload_raw[0..arg.payload_raw.len()])?;`
//@   sub R11 `write!(text, _lit_, __)?;` => `vx_write_args(text, ($1))?;` *
//@   sub R11 `write!(text, _lit_)?;` => `vx_write_lit(text)?;` *
//@   sub R11 `String::from_utf8_lossy(` => `vx_utf8_lossy(`
//@   sub R11 `WINDOWS_1252.decode_without_bom_handling(` => `vx_w1252_decode(`
//@   sub R11 `RE_NEW_LINE.replace_all(&s, " ")` => `vx_replace_newlines(&s)` *
//@   spec
//@|    requires args.wf(),
//@|    ensures true, // O:nvargs.render_no_panic
//@   loop 1
//@|    invariant args.wf(),
//@|    decreases args.frame.pdus@.len() - args.index,
//@ end
}

fn main() {}
} // verus!
