//@ unit seekchain
// C20 (clause 1): SeekableChain over volumes behaves like one file holding the concatenation.
// Functions under contract are extracted from /repo/src/utils/seekablechain.rs on every run.
#![allow(unused_imports, dead_code, unused_variables, unused_mut)]
use vstd::prelude::*;
use std::io::SeekFrom;
verus! {
global size_of usize == 8;

//@ include prelude/std_specs.rs

// ---- assumed contract of the volumes (rule R7): std::io::{Read, Seek} of a fixed finite byte sequence ----
pub trait VReadSeek: Sized {
    spec fn data(&self) -> Seq<u8>;
    spec fn pos(&self) -> int;
    fn read(&mut self, buf: &mut [u8]) -> (r: std::io::Result<usize>)
        ensures
            final(self).data() == old(self).data(),
            final(buf)@.len() == old(buf)@.len(),
            r is Ok ==> {
                let n = r->Ok_0 as int;
                let p = old(self).pos();
                let d = old(self).data();
                &&& n <= old(buf)@.len()
                &&& final(self).pos() == p + n
                &&& (p <= d.len() ==> p + n <= d.len() && final(buf)@.subrange(0, n) == d.subrange(p, p + n))
                &&& (p > d.len() ==> n == 0)
                &&& (n == 0 ==> old(buf)@.len() == 0 || p >= d.len())
                &&& final(buf)@.subrange(n, old(buf)@.len() as int) == old(buf)@.subrange(n, old(buf)@.len() as int)
            },
            r is Err ==> final(self).pos() == old(self).pos();
    // "this volume never reports an I/O error" (used by `new` only, whose unwrap()s panic by design on an I/O error)
    spec fn never_fails(&self) -> bool;
    fn seek(&mut self, pos: SeekFrom) -> (r: std::io::Result<u64>)
        ensures
            final(self).data() == old(self).data(),
            final(self).never_fails() == old(self).never_fails(),
            r is Ok ==> (pos matches SeekFrom::Start(p) ==> final(self).pos() == p && r->Ok_0 == p),
            r is Ok ==> (pos matches SeekFrom::End(o) ==> final(self).pos() == old(self).data().len() + o && r->Ok_0 == old(self).data().len() + o),
            r is Err ==> final(self).pos() == old(self).pos(),
            old(self).never_fails() && (pos is Start || pos == SeekFrom::End(0)) ==> r is Ok;
}

//@ extract src/utils/seekablechain.rs struct SeekableChain
//@   sub R7 `Read + Seek` => `VReadSeek`
//@ end

// ---- abstract view ----
pub open spec fn sum_sizes<RS: VReadSeek>(c: Seq<(u64, RS)>, n: int) -> int
    decreases n
{
    if n <= 0 { 0 } else { sum_sizes(c, n - 1) + c[n - 1].0 as int }
}
pub open spec fn cat<RS: VReadSeek>(c: Seq<(u64, RS)>, n: int) -> Seq<u8>
    decreases n
{
    if n <= 0 { Seq::empty() } else { cat(c, n - 1) + c[n - 1].1.data() }
}
pub open spec fn sizes_match<RS: VReadSeek>(c: Seq<(u64, RS)>) -> bool {
    forall|i: int| 0 <= i < c.len() ==> (#[trigger] c[i]).0 == c[i].1.data().len()
}
pub proof fn lemma_sum_mono<RS: VReadSeek>(c: Seq<(u64, RS)>, a: int, b: int)
    requires 0 <= a <= b <= c.len()
    ensures sum_sizes(c, a) <= sum_sizes(c, b)
    decreases b - a
{
    if a < b { lemma_sum_mono(c, a, b - 1); }
}
pub proof fn lemma_sum_same<RS: VReadSeek>(c: Seq<(u64, RS)>, d: Seq<(u64, RS)>, n: int)
    requires 0 <= n <= c.len(), c.len() == d.len(), forall|i:int| 0 <= i < c.len() ==> (#[trigger] c[i]).0 == d[i].0
    ensures sum_sizes(c, n) == sum_sizes(d, n)
    decreases n
{
    if n > 0 { lemma_sum_same(c, d, n - 1); }
}
pub proof fn lemma_cat_same<RS: VReadSeek>(c: Seq<(u64, RS)>, d: Seq<(u64, RS)>, n: int)
    requires 0 <= n <= c.len(), c.len() == d.len(), forall|i:int| 0 <= i < c.len() ==> (#[trigger] c[i]).1.data() == d[i].1.data()
    ensures cat(c, n) == cat(d, n)
    decreases n
{
    if n > 0 { lemma_cat_same(c, d, n - 1); }
}
pub proof fn lemma_cat_len<RS: VReadSeek>(c: Seq<(u64, RS)>, n: int)
    requires 0 <= n <= c.len(), sizes_match(c)
    ensures cat(c, n).len() == sum_sizes(c, n)
    decreases n
{
    if n > 0 { lemma_cat_len(c, n - 1); }
}
// the bytes of volume i sit at offset sum_sizes(c,i) of the concatenation
pub proof fn lemma_cat_at<RS: VReadSeek>(c: Seq<(u64, RS)>, i: int, n: int, a: int, b: int)
    requires 0 <= i < n <= c.len(), sizes_match(c), 0 <= a <= b <= c[i].1.data().len()
    ensures cat(c, n).subrange(sum_sizes(c, i) + a, sum_sizes(c, i) + b) == c[i].1.data().subrange(a, b),
        sum_sizes(c, i) + b <= cat(c, n).len(),
    decreases n
{
    lemma_cat_len(c, n - 1);
    lemma_cat_len(c, n);
    lemma_cat_len(c, i);
    if i == n - 1 {
        assert(cat(c, n).subrange(sum_sizes(c, i) + a, sum_sizes(c, i) + b) =~= c[i].1.data().subrange(a, b));
    } else {
        lemma_cat_at(c, i, n - 1, a, b);
        lemma_sum_mono(c, i + 1, n - 1);
        assert(cat(c, n).subrange(sum_sizes(c, i) + a, sum_sizes(c, i) + b) =~= cat(c, n - 1).subrange(sum_sizes(c, i) + a, sum_sizes(c, i) + b));
    }
}

// position a single file would have after seek(pos) from position `cur` in a file of length `len`
// (std::io::Cursor / std::fs::File: None = "invalid seek to a negative or overflowing position")
pub open spec fn file_seek_target(cur: int, len: int, pos: SeekFrom) -> Option<int> {
    let t: int = match pos {
        SeekFrom::Start(p) => p as int,
        SeekFrom::Current(o) => cur + o as int,
        SeekFrom::End(o) => len + o as int,
    };
    if 0 <= t <= u64::MAX { Some(t) } else { None }
}
pub open spec fn clamp(t: int, len: int) -> int {
    if t < 0 { 0 } else if t > len { len } else { t }
}
pub open spec fn raw_target(cur: int, len: int, pos: SeekFrom) -> int {
    match pos {
        SeekFrom::Start(p) => p as int,
        SeekFrom::Current(o) => cur + o as int,
        SeekFrom::End(o) => len + o as int,
    }
}

impl<RS: VReadSeek> SeekableChain<RS> {
    pub open spec fn all(&self) -> Seq<u8> { cat(self.chain@, self.chain@.len() as int) }
    pub open spec fn sizes_ok(&self) -> bool {
        &&& sizes_match(self.chain@)
        &&& self.max_pos == sum_sizes(self.chain@, self.chain@.len() as int)
        &&& self.chain@.len() < usize::MAX
    }
    pub open spec fn wf(&self) -> bool {
        &&& self.sizes_ok()
        &&& self.abs_pos <= self.max_pos
        &&& (self.cur_idx < self.chain@.len() ==> {
                &&& self.abs_pos == sum_sizes(self.chain@, self.cur_idx as int) + self.rel_pos
                &&& (self.rel_pos < self.chain@[self.cur_idx as int].0 || (self.rel_pos == 0 && self.chain@[self.cur_idx as int].0 == 0))
                &&& (self.rel_pos > 0 ==> self.chain@[self.cur_idx as int].1.pos() == self.rel_pos)
            })
        &&& (self.cur_idx >= self.chain@.len() ==> self.abs_pos == self.max_pos && self.rel_pos == 0)
    }

// ---- SeekableChain::new, in the pieces that are within reach: the closure that measures and rewinds one volume, and the final
// struct literal. Not verified: that `into_iter().map(closure).collect()` applies the closure to every volume in order and that
// `iter().map(|(size, _)| size).sum()` adds the sizes up (std iterator adapters, R11: assumed) ----
//@ extract src/utils/seekablechain.rs closure SeekableChain::new#1
//@   sig pub fn new_entry(mut r: RS) -> (e: (u64, RS))
//@   spec
//@|    requires r.never_fails(), r.data().len() <= u64::MAX,
//@|    ensures
//@|        e.0 == r.data().len(), // O:new.entry.size (the recorded size is the volume's length)
//@|        e.1.data() == r.data(), // O:new.entry.frame
//@|        // (that the volume is rewound here is not demanded: read() rewinds a volume itself whenever it starts at its beginning)
//@ end
//@ extract src/utils/seekablechain.rs region `SeekableChain { max_pos` .. `SeekableChain { max_pos` in SeekableChain::new
//@   sig pub fn new_from_parts(chain: Vec<(u64, RS)>, max_pos: u64) -> (r: SeekableChain<RS>)
//@   spec
//@|    requires
//@|        sizes_match(chain@), // established element-wise by new_entry
//@|        max_pos == sum_sizes(chain@, chain@.len() as int), // the sum computed by iter().map(|(size, _)| size).sum()
//@|        chain@.len() < usize::MAX,
//@|    ensures
//@|        r.wf(), // O:new.wf
//@|        r.abs_pos == 0 && r.chain@ == chain@, // O:new.start
//@ end

//@ extract src/utils/seekablechain.rs <HasLength for SeekableChain>::len
//@   spec
//@|    requires self.wf(),
//@|    ensures r == self.all().len(), // O:len.eq
//@   hint before `self.max_pos`
//@|    proof { lemma_cat_len(self.chain@, self.chain@.len() as int); }
//@ end

//@ extract src/utils/seekablechain.rs SeekableChain::read
//@   sub R3 `min(` => `vx_min_usize(`
//@   spec
//@|    requires old(self).wf(),
//@|    ensures
//@|        final(buf)@.len() == old(buf)@.len(),
//@|        r is Ok ==> final(self).wf(), // O:read.wf
//@|        r is Ok ==> final(self).all() == old(self).all(), // O:read.frame
//@|        r is Ok ==> final(self).abs_pos == old(self).abs_pos + r->Ok_0, // O:read.advance
//@|        r is Ok ==> old(self).abs_pos + r->Ok_0 <= old(self).all().len(), // O:read.within
//@|        r is Ok ==> final(buf)@.subrange(0, r->Ok_0 as int) == old(self).all().subrange(old(self).abs_pos as int, old(self).abs_pos + r->Ok_0), // O:read.data
//@|        r is Ok ==> (r->Ok_0 == 0 ==> old(buf)@.len() == 0 || old(self).abs_pos >= old(self).all().len()), // O:read.eof
//@   loop 1 `self.chain[self.cur_idx].0 == 0` ?
//@|    invariant
//@|        self.wf(), // O:read.inv.wf
//@|        self.chain@ == old(self).chain@, // O:read.inv.frame
//@|        self.abs_pos == old(self).abs_pos, // O:read.inv.pos
//@|        self.max_pos == old(self).max_pos,
//@|    decreases self.chain@.len() - self.cur_idx,
//@   hint before `Ok(0)`
//@|    proof { lemma_cat_len(self.chain@, self.chain@.len() as int); }
//@|    assert(buf@.subrange(0, 0) =~= self.all().subrange(self.abs_pos as int, self.abs_pos as int));
//@   hint before `let (max_pos, reader) = &mut self.chain[self.cur_idx];`
//@|    let ghost pre = self.chain@;
//@|    let ghost ci = self.cur_idx as int;
//@   hint after `let (max_pos, reader) = &mut self.chain[self.cur_idx];`
//@|    assert(*max_pos == pre[ci].0 && reader.data() == pre[ci].1.data() && reader.pos() == pre[ci].1.pos()); // O:read.current_volume
//@   hint before `let max_read =`
//@|    assert(reader.pos() == self.rel_pos && reader.data().len() == *max_pos); // O:read.volume_pos
//@   hint before `self.abs_pos += read as u64;`
//@|    proof { lemma_sum_mono(pre, ci + 1, pre.len() as int); }
//@   hint before `Ok(read)`
//@|    proof {
//@|        let c = self.chain@;
//@|        assert(forall|j: int| 0 <= j < pre.len() ==> (#[trigger] c[j]).0 == pre[j].0);
//@|        assert(forall|j: int| 0 <= j < pre.len() ==> (#[trigger] c[j]).1.data() == pre[j].1.data());
//@|        lemma_sum_same(c, pre, pre.len() as int);
//@|        lemma_sum_same(c, pre, ci);
//@|        lemma_sum_same(c, pre, ci + 1);
//@|        lemma_cat_same(c, pre, pre.len() as int);
//@|        lemma_cat_at(pre, ci, pre.len() as int, old(self).rel_pos as int, old(self).rel_pos as int + read as int);
//@|    }
//@ end

//@ extract src/utils/seekablechain.rs SeekableChain::seek_abs
//@   r13 1
//@   spec
//@|    requires old(self).wf(),
//@|    ensures
//@|        r is Ok ==> final(self).wf(), // O:seek_abs.wf
//@|        r is Ok ==> final(self).all() == old(self).all(), // O:seek_abs.frame
//@|        r is Ok ==> final(self).abs_pos == clamp(pos as int, old(self).all().len() as int), // O:seek_abs.pos
//@|        r is Ok ==> r->Ok_0 == final(self).abs_pos, // O:seek_abs.ret
//@   hint before `if self.abs_pos == pos {`
//@|    proof { lemma_cat_len(self.chain@, self.chain@.len() as int); }
//@   hint before `let mut pos = pos;`
//@|    let ghost pos0 = pos;
//@|    let ghost chain0 = self.chain@;
//@   loop 1
//@|    invariant_except_break
//@|        self.sizes_ok(),
//@|        self.chain@.len() == chain0.len(),
//@|        forall|j: int| 0 <= j < chain0.len() ==> (#[trigger] self.chain@[j]).1.data() == chain0[j].1.data(),
//@|        forall|j: int| 0 <= j < chain0.len() ==> (#[trigger] self.chain@[j]).0 == chain0[j].0,
//@|        self.max_pos == old(self).max_pos,
//@|        vx_i <= self.chain@.len(),
//@|        self.cur_idx == vx_i,
//@|        self.rel_pos == 0,
//@|        self.abs_pos == sum_sizes(self.chain@, vx_i as int), // O:seek_abs.inv.abs
//@|        self.abs_pos + pos == pos0, // O:seek_abs.inv.rem
//@|        pos0 <= self.max_pos,
//@|    ensures
//@|        self.wf(),
//@|        self.chain@.len() == chain0.len(),
//@|        forall|j: int| 0 <= j < chain0.len() ==> (#[trigger] self.chain@[j]).1.data() == chain0[j].1.data(),
//@|        self.abs_pos == pos0,
//@|    decreases self.chain@.len() - vx_i,
//@   hint before `let (size, reader) = &mut self.chain[vx_i];`
//@|    let ghost pre_chain = self.chain@;
//@|    proof { lemma_sum_mono(pre_chain, vx_i as int + 1, pre_chain.len() as int); }
//@   hint before `self.rel_pos = pos;`
//@|    proof {
//@|        assert(forall|j:int| 0 <= j < pre_chain.len() ==> (#[trigger] self.chain@[j]).0 == pre_chain[j].0);
//@|        assert(forall|j:int| 0 <= j < pre_chain.len() ==> (#[trigger] self.chain@[j]).1.data() == pre_chain[j].1.data());
//@|        lemma_sum_same(self.chain@, pre_chain, pre_chain.len() as int);
//@|        lemma_sum_same(self.chain@, pre_chain, vx_i as int);
//@|    }
//@   hint before `vx_i += 1;`
//@|    proof { assert(self.chain@ =~= pre_chain); }
//@   hint before `Ok(self.abs_pos)`
//@|    proof { lemma_cat_same(self.chain@, chain0, chain0.len() as int); }
//@ end

//@ extract src/utils/seekablechain.rs SeekableChain::seek
//@   spec
//@|    requires old(self).wf(),
//@|    ensures
//@|        r is Ok ==> final(self).wf(), // O:seek.wf
//@|        r is Ok ==> final(self).all() == old(self).all(), // O:seek.frame
//@|        // inside the file the chain is exactly a file (property)
//@|        r is Ok ==> (file_seek_target(old(self).abs_pos as int, old(self).all().len() as int, pos) matches Some(t) ==> t <= old(self).all().len() ==> (final(self).abs_pos == t && r->Ok_0 == t)), // O:seek.in_range
//@|        // outside: position is clamped into [0, len]; the returned value is the new position
//@|        r is Ok ==> final(self).abs_pos == clamp(raw_target(old(self).abs_pos as int, old(self).all().len() as int, pos), old(self).all().len() as int), // O:seek.clamped
//@|        r is Ok ==> r->Ok_0 == final(self).abs_pos, // O:seek.ret
//@|        // STRICT: a single file keeps positions beyond its end and rejects negative ones
//@|        r is Ok ==> file_seek_target(old(self).abs_pos as int, old(self).all().len() as int, pos) == Some(r->Ok_0 as int), // O:seek.file_exact //@only:strict
//@   hint before `match pos {`
//@|    proof { lemma_cat_len(self.chain@, self.chain@.len() as int); }
//@ end
}

fn main() {}
} // verus!
