//@ unit filterstream
// C12 (stream clause): filter_as_streams keeps exactly the selected messages, unchanged and in order; kept + dropped = received.
#![allow(unused_imports, dead_code, unused_variables, unused_mut, non_upper_case_globals)]
use vstd::prelude::*;
verus! {
global size_of usize == 8;

//@ include prelude/std_specs.rs
//@ include units/dltcore/part.rs
//@ include units/filter/char4eq.rs
//@ include units/filter/part.rs
//@ include units/filterstream/part.rs

fn main() {}
} // verus!
