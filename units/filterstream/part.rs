// ---- units/filterstream/part.rs ----
// R7/R12: std::sync::mpsc::Receiver<DltMessage> as a universally quantified source of a fixed finite message sequence
// (recv() fails once the sequence is exhausted = all senders gone), and the output closure `Fn(DltMessage) -> Result<(), SendError>`
// as a sink with a ghost log (a send either appends to the log or fails without appending)
#[derive(Debug)]
pub struct VxRecvError;
pub trait VRecv: Sized {
    spec fn rem(&self) -> Seq<DltMessage>;
    fn recv(&mut self) -> (r: Result<DltMessage, VxRecvError>)
        ensures
            old(self).rem().len() == 0 ==> r is Err && final(self).rem() == old(self).rem(),
            old(self).rem().len() > 0 ==> r == Ok::<DltMessage, VxRecvError>(old(self).rem()[0]) && final(self).rem() == old(self).rem().skip(1);
    // Receiver::recv_timeout / try_recv (not used by the text as it stands): may give up although messages are still to come
    fn recv_timeout(&mut self, d: VxDuration) -> (r: Result<DltMessage, VxRecvError>)
        ensures
            r is Err ==> final(self).rem() == old(self).rem(),
            r is Ok ==> old(self).rem().len() > 0 && r == Ok::<DltMessage, VxRecvError>(old(self).rem()[0]) && final(self).rem() == old(self).rem().skip(1);
    fn try_recv(&mut self) -> (r: Result<DltMessage, VxRecvError>)
        ensures
            r is Err ==> final(self).rem() == old(self).rem(),
            r is Ok ==> old(self).rem().len() > 0 && r == Ok::<DltMessage, VxRecvError>(old(self).rem()[0]) && final(self).rem() == old(self).rem().skip(1);
}
pub struct VxDuration { pub ms: u64 }
pub fn vx_millis(ms: u64) -> (r: VxDuration) { VxDuration { ms } }
pub trait VSink: Sized {
    spec fn log(&self) -> Seq<DltMessage>;
    fn send(&mut self, m: DltMessage) -> (r: Result<(), DltMessage>)
        ensures
            r is Ok ==> final(self).log() == old(self).log().push(m),
            r is Err ==> final(self).log() == old(self).log();
}
// `filters.iter().filter(|f| f.enabled && f.kind == K).collect::<Vec<&Filter>>()`: verified model (in-order scan)
pub open spec fn selected(fs: Seq<Filter>, kind: FilterKind, n: int) -> Seq<Filter>
    decreases n
{
    if n <= 0 { Seq::empty() }
    else if fs[n - 1].enabled && fs[n - 1].kind == kind { selected(fs, kind, n - 1).push(fs[n - 1]) }
    else { selected(fs, kind, n - 1) }
}
pub open spec fn deref_seq(v: Seq<&Filter>) -> Seq<Filter> { Seq::new(v.len(), |i: int| *v[i]) }
pub fn vx_select<'a>(filters: &'a [Filter], kind: FilterKind) -> (r: Vec<&'a Filter>)
    ensures deref_seq(r@) == selected(filters@, kind, filters@.len() as int),
{
    let mut out: Vec<&'a Filter> = Vec::new();
    let mut i: usize = 0;
    while i < filters.len()
        invariant i <= filters@.len(), deref_seq(out@) == selected(filters@, kind, i as int),
        decreases filters@.len() - i,
    {
        if filters[i].enabled && filters[i].kind == kind {
            out.push(&filters[i]);
            assert(deref_seq(out@) =~= selected(filters@, kind, i as int).push(filters@[i as int]));
        }
        i += 1;
    }
    out
}
pub open spec fn any_of(fs: Seq<Filter>, msg: &DltMessage) -> bool { exists|i: int| 0 <= i < fs.len() && #[trigger] spec_matches(&fs[i], msg) }
pub fn vx_any_ref(fs: &Vec<&Filter>, msg: &DltMessage) -> (r: bool)
    ensures r == any_of(deref_seq(fs@), msg),
{
    let mut i: usize = 0;
    while i < fs.len()
        invariant i <= fs@.len(), forall|j: int| 0 <= j < i ==> !spec_matches(&deref_seq(fs@)[j], msg),
        decreases fs@.len() - i,
    {
        if fs[i].matches(msg) { assert(spec_matches(&deref_seq(fs@)[i as int], msg)); return true; }
        i += 1;
    }
    false
}
// the property's selection formula for the stream filter (positive OR, negative veto; only enabled filters count)
pub open spec fn spec_kept(filters: Seq<Filter>, msg: &DltMessage) -> bool {
    let pos = selected(filters, FilterKind::Positive, filters.len() as int);
    let neg = selected(filters, FilterKind::Negative, filters.len() as int);
    (pos.len() == 0 || any_of(pos, msg)) && !any_of(neg, msg)
}
pub open spec fn kept_seq(filters: Seq<Filter>, ms: Seq<DltMessage>, n: int) -> Seq<DltMessage>
    decreases n
{
    if n <= 0 { Seq::empty() }
    else if spec_kept(filters, &ms[n - 1]) { kept_seq(filters, ms, n - 1).push(ms[n - 1]) }
    else { kept_seq(filters, ms, n - 1) }
}

//@ extract src/filter/functions.rs fn filter_as_streams
//@   sub R12 `<F: Fn(DltMessage) -> SendMsgFnReturnType>` => `<I: VRecv, S: VSink>`
//@   sub R12 `input: &Receiver<DltMessage>` => `input: &mut I`
//@   sub R12 `output: &F` => `output: &mut S`
//@   sub R12 `output(_id_)` => `output.send($1)` *
//@   sub R12 `std::time::Duration::from_millis(__)` => `vx_millis($1)` ?
//@   sub R11 `filters .iter() .filter(|f| f.enabled && f.kind == FilterKind::Positive) .collect()` => `vx_select(filters, FilterKind::Positive)`
//@   sub R11 `filters .iter() .filter(|f| f.enabled && f.kind == FilterKind::Negative) .collect()` => `vx_select(filters, FilterKind::Negative)`
//@   sub R11 `pos_filters.iter().any(|f| f.matches(&msg))` => `vx_any_ref(&pos_filters, &msg)`
//@   sub R11 `neg_filters.iter().any(|f| f.matches(&msg))` => `vx_any_ref(&neg_filters, &msg)`
//@   spec
//@|    requires old(input).rem().len() <= usize::MAX,
//@|    ensures
//@|        r is Ok ==> final(output).log() == old(output).log() + kept_seq(filters@, old(input).rem(), old(input).rem().len() as int), // O:stream_filter.kept (exactly the selected messages, unchanged, in order)
//@|        r is Ok ==> r->Ok_0.0 + r->Ok_0.1 == old(input).rem().len(), // O:stream_filter.counts (kept + dropped = received)
//@|        r is Ok ==> r->Ok_0.0 == kept_seq(filters@, old(input).rem(), old(input).rem().len() as int).len(), // O:stream_filter.kept_count
//@|        r is Ok ==> final(input).rem().len() == 0,
//@   hint before `loop`
//@|    let ghost ms = input.rem();
//@|    let ghost log0 = output.log();
//@|    let ghost mut k: int = 0;
//@   loop 1
//@|    invariant
//@|        0 <= k <= ms.len(), ms.len() <= usize::MAX, ms == old(input).rem(), log0 == old(output).log(),
//@|        input.rem() == ms.skip(k),
//@|        passed + filtered == k, // O:stream_filter.inv.counts
//@|        passed == kept_seq(filters@, ms, k).len(),
//@|        output.log() == log0 + kept_seq(filters@, ms, k), // O:stream_filter.inv.kept
//@|        deref_seq(pos_filters@) == selected(filters@, FilterKind::Positive, filters@.len() as int),
//@|        deref_seq(neg_filters@) == selected(filters@, FilterKind::Negative, filters@.len() as int),
//@|    ensures
//@|        k == ms.len(), input.rem().len() == 0, // O:stream_filter.exhausts (the stage leaves its loop only when its receiver is exhausted - or through a failed send)
//@|        passed + filtered == k, passed == kept_seq(filters@, ms, k).len(), output.log() == log0 + kept_seq(filters@, ms, k),
//@|    decreases ms.len() - k,
//@   hint after `let msg = recv.unwrap();`
//@|    proof { assert(msg == ms[k]); assert(ms.skip(k).skip(1) =~= ms.skip(k + 1)); k = k + 1; }
//@ end
// ---- end of units/filterstream/part.rs ----
