// ---- units/streamsearch/window.rs: C16, the sending step of process_file_context ----
// "send msgs_sent.end..min(len, window end)": the statement of process_file_context that delivers the part of a stream's window that
// exists by now. R12 models: the websocket as the sequence of message indices delivered (a binary frame delivers its list in order, a
// text frame one message); bincode / BinDltMsg / the header text as "carries the index of the message it was made from".
pub struct FcView { pub all_msgs: Vec<DltMessage>, pub drained_all_msgs: usize }
pub struct BinDltMsg { pub index: u32 }
#[verifier::external_body]
pub fn vx_bin_msg(msg: &DltMessage) -> (r: BinDltMsg) ensures r.index == msg.index { unimplemented!() }
pub open spec fn idxs_of(s: Seq<BinDltMsg>) -> Seq<u32> { Seq::new(s.len(), |k: int| s[k].index) }
pub struct VxMsgsFrame { pub idxs: Vec<BinDltMsg> }
#[verifier::external_body]
pub fn vx_encode_msgs(stream_id: u32, bin_msgs: Vec<BinDltMsg>) -> (r: VxMsgsFrame) ensures r.idxs@ == bin_msgs@ { unimplemented!() }
pub struct VxHdrText { pub index: u32 }
#[verifier::external_body]
pub fn vx_header_text(msg: &DltMessage) -> (r: VxHdrText) ensures r.index == msg.index { unimplemented!() }
#[verifier::external_body]
pub struct VxWsErr2 { _p: u8 }
#[verifier::external_body]
pub struct VxWsW { _p: u8 }
impl VxWsW {
    pub uninterp spec fn delivered(&self) -> Seq<u32>;
    #[verifier::external_body]
    pub fn vx_write_msgs(&mut self, f: VxMsgsFrame) -> (r: Result<(), VxWsErr2>)
        ensures r is Ok ==> final(self).delivered() == old(self).delivered() + idxs_of(f.idxs@),
    { unimplemented!() }
    #[verifier::external_body]
    pub fn vx_send_text_msg(&mut self, h: VxHdrText) -> (r: Result<(), VxWsErr2>)
        ensures r is Ok ==> final(self).delivered() == old(self).delivered().push(h.index),
    { unimplemented!() }
}
// the message at stream position p
pub open spec fn msg_at(fc: &FcView, stream: &StreamContext, p: int) -> DltMessage {
    fc.all_msgs@[(if stream.filters_active { stream.filtered_msgs@[p] as int } else { p }) - fc.drained_all_msgs]
}
pub open spec fn window_part(fc: &FcView, stream: &StreamContext, lo: int, hi: int) -> Seq<u32> {
    Seq::new((hi - lo) as nat, |k: int| msg_at(fc, stream, lo + k).index)
}
// ASSUMED on entry (the invariants of process_file_context, as its commented-out asserts state them): every selected position and every
// position still to be sent lies in the part of all_msgs that has not been drained
pub open spec fn window_ok(fc: &FcView, stream: &StreamContext, stream_msgs_len: usize) -> bool {
    &&& fc.all_msgs@.len() + fc.drained_all_msgs <= usize::MAX
    &&& stream_msgs_len as int == (if stream.filters_active { stream.filtered_msgs@.len() as int } else { fc.all_msgs@.len() + fc.drained_all_msgs })
    &&& stream.filters_active ==> forall|p: int| 0 <= p < stream.filtered_msgs@.len() ==> fc.drained_all_msgs <= (#[trigger] stream.filtered_msgs@[p]) < fc.all_msgs@.len() + fc.drained_all_msgs
    &&& !stream.filters_active ==> stream.msgs_sent.end >= fc.drained_all_msgs
}
pub open spec fn new_sent_end(stream: &StreamContext, len: usize) -> usize {
    if stream.msgs_sent.end < stream.msgs_to_send.end && stream.msgs_sent.end < len { if len <= stream.msgs_to_send.end { len } else { stream.msgs_to_send.end } } else { stream.msgs_sent.end }
}
//@ extract src/bin/adlt/remote.rs region `if stream.msgs_sent.end < stream.msgs_to_send.end` .. `if stream.msgs_sent.end < stream.msgs_to_send.end` in fn process_file_context
//@   sig #[verifier::loop_isolation(false)] pub fn send_window(fc: &FcView, stream: &mut StreamContext, stream_msgs_len: usize, all_msgs_len: usize, websocket: &mut VxWsW) -> (r: Result<(), VxWsErr2>)
//@   tail `Ok(())`
//@   sub R3 `std::cmp::min(` => `vx_min_usize(` ?
//@   sub R12 `let payload_as_text = msg.payload_as_text().unwrap_or_default();` => `` ?
//@   sub R12 `remote_types::BinDltMsg { __ }` => `vx_bin_msg(msg)`
//@   sub R12 `bincode::encode_to_vec( remote_types::BinType::DltMsgs((stream.id, bin_msgs)), BINCODE_CONFIG, ) .unwrap()` => `vx_encode_msgs(stream.id, bin_msgs)`
//@   sub R12 `let encoded: Vec<u8> =` => `let encoded =`
//@   sub R12 `websocket.write_message(Message::Binary(encoded))?;` => `websocket.vx_write_msgs(encoded)?;`
//@   cut R12 `let data = Vec::<u8>::with_capacity(65000);` ?
//@   cut R12 `let mut writer = std::io::BufWriter::new(data);` ?
//@   sub R12 `fc.all_msgs[msg_idx - fc.drained_all_msgs] .header_as_text_to_write(&mut writer) .unwrap();` => `let vx_hdr = vx_header_text(&fc.all_msgs[msg_idx - fc.drained_all_msgs]);`
//@   cut R12 `let data = writer.into_inner().unwrap();` ?
//@   sub R12 `websocket.write_message(Message::Text(vx_reply_text(0)))?;` => `websocket.vx_send_text_msg(vx_hdr)?;`
//@   spec
//@|    requires
//@|        window_ok(fc, old(stream), stream_msgs_len), all_msgs_len == fc.all_msgs@.len() + fc.drained_all_msgs, // (`all_msgs_len`: a local of the enclosing function the step does not use today)
//@|    ensures
//@|        r is Ok ==> final(stream).msgs_sent.end == new_sent_end(old(stream), stream_msgs_len), // O:window.sent_end (the sent range advances to min(stream length, window end), and only forward)
//@|        r is Ok ==> final(websocket).delivered() == old(websocket).delivered() + window_part(fc, old(stream), old(stream).msgs_sent.end as int, new_sent_end(old(stream), stream_msgs_len) as int), // O:window.exact (exactly the messages at the stream positions between the old and the new end of the sent range are delivered, each once, in order)
//@|        final(stream).filtered_msgs == old(stream).filtered_msgs && final(stream).filters_active == old(stream).filters_active && final(stream).msgs_to_send == old(stream).msgs_to_send
//@|            && final(stream).msgs_sent.start == old(stream).msgs_sent.start && final(stream).id == old(stream).id, // O:window.frame
//@   hint after `bin_msgs.push(bin_msg);`
//@|    proof {
//@|        assert(window_part(fc, stream, stream.msgs_sent.end as int, i as int + 1) =~= window_part(fc, stream, stream.msgs_sent.end as int, i as int).push(msg_at(fc, stream, i as int).index));
//@|        assert(idxs_of(bin_msgs@) =~= window_part(fc, stream, stream.msgs_sent.end as int, i as int + 1));
//@|    }
//@   hint after `websocket.vx_send_text_msg(vx_hdr)?;`
//@|    proof {
//@|        assert(window_part(fc, stream, stream.msgs_sent.end as int, i as int + 1) =~= window_part(fc, stream, stream.msgs_sent.end as int, i as int).push(msg_at(fc, stream, i as int).index));
//@|    }
//@   loop inner `bin_msgs.push(bin_msg)`
//@|    invariant
//@|        *stream == *old(stream), websocket.delivered() == old(websocket).delivered(), new_end <= stream_msgs_len, window_ok(fc, stream, stream_msgs_len),
//@|        idxs_of(bin_msgs@) =~= window_part(fc, stream, stream.msgs_sent.end as int, i as int), // O:window.inv.exact.binary
//@   loop inner `vx_send_text_msg(`
//@|    invariant
//@|        *stream == *old(stream), new_end <= stream_msgs_len, window_ok(fc, stream, stream_msgs_len),
//@|        websocket.delivered() =~= old(websocket).delivered() + window_part(fc, stream, stream.msgs_sent.end as int, i as int), // O:window.inv.exact.text
//@ end
// ---- end of units/streamsearch/window.rs ----
