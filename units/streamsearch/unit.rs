//@ unit streamsearch
// C16 (search paging clause): the search loop of process_stream_search_params examines the stream positions from the start
// position on, returns exactly the matching ones, and its continuation position is the first position not examined.
#![allow(unused_imports, dead_code, unused_variables, unused_mut, non_upper_case_globals)]
use vstd::prelude::*;
verus! {
global size_of usize == 8;

//@ include prelude/std_specs.rs
//@ include units/dltcore/part.rs
//@ include units/filter/char4eq.rs
//@ include units/filter/part.rs
//@ include units/filterset/part.rs
//@ include units/streamidx/part.rs
//@ include units/streamsearch/part.rs
//@ include units/streamsearch/window.rs

fn main() {}
} // verus!
