// ---- units/streamsearch/part.rs: stream_search paging ----
// the messages of a stream, by stream position: the matching messages in file order, or every message when no filter is active
pub open spec fn stream_msgs(all: Seq<DltMessage>, stream: &StreamContext) -> Seq<DltMessage> {
    if stream.filters_active { Seq::new(stream.filtered_msgs@.len(), |p: int| all[stream.filtered_msgs@[p] as int]) } else { all }
}
pub open spec fn stream_ok(all: Seq<DltMessage>, stream: &StreamContext) -> bool {
    &&& stream.filters_active ==> forall|p: int| 0 <= p < stream.filtered_msgs@.len() ==> (#[trigger] stream.filtered_msgs@[p]) < all.len()
    &&& stream_msgs(all, stream).len() <= u32::MAX
}
// the matching stream positions in [lo, hi), ascending
pub open spec fn hits(all: Seq<DltMessage>, stream: &StreamContext, f: &FilterKindContainer<Vec<Filter>>, lo: int, hi: int) -> Seq<usize> {
    matches_in(stream_msgs(all, stream), f, lo, hi)
}
pub open spec fn as_positions(v: Seq<u32>) -> Seq<usize> { v.map_values(|x: u32| x as usize) }

pub proof fn lemma_hits_step(sm: Seq<DltMessage>, f: &FilterKindContainer<Vec<Filter>>, lo: int, i: int)
    requires 0 <= lo <= i < sm.len(),
    ensures matches_in(sm, f, lo, i + 1) == (if spec_match_filters(&sm[i], f) { matches_in(sm, f, lo, i).push(i as usize) } else { matches_in(sm, f, lo, i) }),
{
    lemma_mf_shift(sm, f, lo, i + 1, i - lo);
    assert(sm.subrange(lo, i + 1)[i - lo] == sm[i]);
}

// the core of process_stream_search_params (src/bin/adlt/remote.rs): everything around it (JSON decoding of start_idx /
// max_results / filters, logging, the websocket reply) is dropped by the region extraction
//@ extract src/bin/adlt/remote.rs region `let mut search_idxs` .. `let next_search_idx =` in fn process_stream_search_params
//@   sig pub fn search_page(all_msgs: &[DltMessage], stream: &StreamContext, filters: FilterKindContainer<Vec<Filter>>, start_idx: usize, max_results: usize) -> (r: (Vec<DltMessageIndexType>, Option<usize>))
//@   tail `(search_idxs, next_search_idx)`
//@   sub R2 `adlt::dlt::DltMessage` => `DltMessage`
//@   sub R3 `std::cmp::min(` => `vx_min_usize(` ?
//@   spec
//@|    requires
//@|        stream_ok(all_msgs@, stream),
//@|    ensures
//@|        // the search is finished: every position from start_idx to the end of the stream was examined
//@|        r.1 is None ==> ({ let n = stream_msgs(all_msgs@, stream).len() as int; as_positions(r.0@) == hits(all_msgs@, stream, &filters, if start_idx <= n { start_idx as int } else { n }, n) }), // O:search.finished
//@|        // more to come: exactly the positions start_idx .. next were examined; the next page starts at the first position not examined
//@|        r.1 is Some ==> start_idx < r.1->Some_0 <= stream_msgs(all_msgs@, stream).len(), // O:search.progress
//@|        r.1 is Some ==> as_positions(r.0@) == hits(all_msgs@, stream, &filters, start_idx as int, r.1->Some_0 as int), // O:search.continuation
//@   hint before `^let mut i = start_idx;`
//@|    let ghost sm = stream_msgs(all_msgs@, stream);
//@|    let ghost n = sm.len() as int;
//@|    let ghost lo = if start_idx <= n { start_idx as int } else { n };
//@|    proof { assert(as_positions(search_idxs@) =~= Seq::<usize>::empty()); assert(matches_in(sm, &filters, lo, lo) =~= Seq::<usize>::empty()); }
//@   loop 1
//@|    invariant
//@|        stream_ok(all_msgs@, stream), sm == stream_msgs(all_msgs@, stream), n == sm.len(),
//@|        stream_msgs_len == n, // O:search.stream_len (the loop runs over the whole stream: all messages when no filter is active)
//@|        lo == (if start_idx <= n { start_idx as int } else { n }),
//@|        start_idx <= n ==> start_idx <= i <= n,
//@|        start_idx > n ==> i == start_idx,
//@|        start_idx <= n ==> as_positions(search_idxs@) == matches_in(sm, &filters, lo, i as int), // O:search.inv (the results are exactly the matching positions examined so far)
//@|        start_idx > n ==> search_idxs@.len() == 0,
//@|    ensures
//@|        i < n ==> i > start_idx,
//@|    decreases n - i,
//@   hint before `let matches = match_filters(msg, &filters);`
//@|    proof { lemma_hits_step(sm, &filters, lo, i as int); assert(*msg == sm[i as int]); }
//@|    let ghost res0 = search_idxs@;
//@   hint after `search_idxs.push(i as u32);`
//@|    proof { assert(as_positions(search_idxs@) =~= as_positions(res0).push(i)); }
//@ end

// ---- paging: a client that follows the continuation positions sees every matching position exactly once ----
// bounds[j] .. bounds[j+1] is the range of stream positions examined by page j (bounds[0] = first start position; the last page is
// the one answering "finished", its range ends at the end of the stream); pages[j] is what page j returned
pub open spec fn paging_run(all: Seq<DltMessage>, stream: &StreamContext, f: &FilterKindContainer<Vec<Filter>>, bounds: Seq<int>, pages: Seq<Seq<usize>>) -> bool {
    &&& bounds.len() == pages.len() + 1
    &&& forall|j: int| 0 <= j < pages.len() ==> 0 <= #[trigger] bounds[j] <= bounds[j + 1] <= stream_msgs(all, stream).len()
    // what search_page guarantees for a page started at bounds[j] whose continuation (or the end of the stream) is bounds[j+1]
    &&& forall|j: int| 0 <= j < pages.len() ==> #[trigger] pages[j] == hits(all, stream, f, bounds[j], bounds[j + 1])
}
pub open spec fn concat_pages(pages: Seq<Seq<usize>>) -> Seq<usize>
    decreases pages.len()
{
    if pages.len() == 0 { Seq::empty() } else { concat_pages(pages.drop_last()) + pages.last() }
}
pub proof fn theorem_paging(all: Seq<DltMessage>, stream: &StreamContext, f: &FilterKindContainer<Vec<Filter>>, bounds: Seq<int>, pages: Seq<Seq<usize>>)
    requires paging_run(all, stream, f, bounds, pages),
    ensures concat_pages(pages) == hits(all, stream, f, bounds[0], bounds.last()), // O:search.paging (the union of the pages is exactly the set of matching positions, each once, in order)
    decreases pages.len(),
{
    let sm = stream_msgs(all, stream);
    if pages.len() == 0 {
        assert(matches_in(sm, f, bounds[0], bounds[0]) =~= Seq::<usize>::empty());
    } else {
        let k = pages.len() - 1;
        let b2 = bounds.drop_last();
        let p2 = pages.drop_last();
        assert(paging_run(all, stream, f, b2, p2)) by {
            assert forall|j: int| 0 <= j < p2.len() implies 0 <= #[trigger] b2[j] <= b2[j + 1] <= sm.len() by { assert(b2[j] == bounds[j] && b2[j + 1] == bounds[j + 1]); }
            assert forall|j: int| 0 <= j < p2.len() implies #[trigger] p2[j] == hits(all, stream, f, b2[j], b2[j + 1]) by { assert(p2[j] == pages[j]); assert(b2[j] == bounds[j] && b2[j + 1] == bounds[j + 1]); }
        }
        theorem_paging(all, stream, f, b2, p2);
        lemma_bounds_mono(sm.len() as int, bounds, k);
        assert(b2.last() == bounds[k] && b2[0] == bounds[0]);
        assert(pages.last() == hits(all, stream, f, bounds[k], bounds[k + 1]));
        lemma_mf_concat(sm, f, bounds[0], bounds[k], bounds[k + 1]);
    }
}
pub proof fn lemma_bounds_mono(n: int, bounds: Seq<int>, k: int)
    requires 0 <= k < bounds.len() - 1, forall|j: int| 0 <= j < bounds.len() - 1 ==> 0 <= #[trigger] bounds[j] <= bounds[j + 1] <= n,
    ensures 0 <= bounds[0] <= bounds[k] <= bounds[k + 1] <= n,
    decreases k,
{
    if k > 0 { lemma_bounds_mono(n, bounds, k - 1); }
}

// ---- index lookup (stream_binary_search index=<n>, files not sorted by time) ----
// std: <[T]>::binary_search_by(|m| m.index.cmp(&wanted)) and <[usize]>::binary_search: documented contracts (R11)
pub open spec fn index_sorted(all: Seq<DltMessage>) -> bool { forall|i: int, j: int| 0 <= i < j < all.len() ==> (#[trigger] all[i]).index < (#[trigger] all[j]).index }
pub open spec fn ascending(v: Seq<usize>) -> bool { forall|i: int, j: int| 0 <= i < j < v.len() ==> #[trigger] v[i] < #[trigger] v[j] }
#[verifier::external_body]
pub fn vx_bsearch_msg_index(all: &Vec<DltMessage>, wanted: DltMessageIndexType) -> (r: Result<usize, usize>)
    ensures
        r is Ok ==> r->Ok_0 < all@.len() && all@[r->Ok_0 as int].index == wanted,
        index_sorted(all@) && r is Err ==> forall|i: int| 0 <= i < all@.len() ==> (#[trigger] all@[i]).index != wanted,
{ all.binary_search_by(|m| m.index.cmp(&wanted)) }
#[verifier::external_body]
pub fn vx_bsearch_usize(v: &Vec<usize>, x: usize) -> (r: Result<usize, usize>)
    ensures
        ascending(v@) && r is Ok ==> r->Ok_0 < v@.len() && v@[r->Ok_0 as int] == x,
        ascending(v@) && r is Err ==> r->Err_0 <= v@.len() && (forall|j: int| 0 <= j < r->Err_0 ==> #[trigger] v@[j] < x) && (forall|j: int| r->Err_0 <= j < v@.len() ==> #[trigger] v@[j] > x),
{ v.binary_search(&x) }
// Result::unwrap_or_else(|e| e) on a Result<usize, usize>
pub fn vx_ok_or_err(r: Result<usize, usize>) -> (x: usize)
    ensures x == (match r { Ok(a) => a, Err(e) => e }),
{ match r { Ok(a) => a, Err(e) => e } }

// the stream position of the first stream message that is not before position `a` of all messages
pub open spec fn is_first_not_before(stream: &StreamContext, a: int, p: int) -> bool {
    if stream.filters_active {
        0 <= p <= stream.filtered_msgs@.len()
        && (forall|j: int| 0 <= j < p ==> (#[trigger] stream.filtered_msgs@[j]) < a)
        && (forall|j: int| p <= j < stream.filtered_msgs@.len() ==> (#[trigger] stream.filtered_msgs@[j]) >= a)
    } else { p == a }
}
//@ extract src/bin/adlt/remote.rs region `let all_msgs_idx = fc .all_msgs .binary_search_by(` .. `$end` in fn binary_search_by_msg_index
//@   sig pub fn lookup_by_index(wanted_msg_idx: DltMessageIndexType, all_msgs: &Vec<DltMessage>, stream: &StreamContext) -> (r: Result<usize, String>)
//@   sub R11 `fc .all_msgs .binary_search_by(__)` => `vx_bsearch_msg_index(all_msgs, wanted_msg_idx)`
//@   sub R11 `stream .filtered_msgs .binary_search(&all_msgs_idx) .unwrap_or_else(|e| e)` => `vx_ok_or_err(vx_bsearch_usize(&stream.filtered_msgs, all_msgs_idx))`
//@   spec
//@|    requires
//@|        index_sorted(all_msgs@), // files not sorted by time: all_msgs is in index order
//@|        stream.filters_active ==> ascending(stream.filtered_msgs@), // the index invariant of unit streamidx
//@|    ensures
//@|        // found: the answer is the stream position of the first stream message at or after the message with that index
//@|        r is Ok ==> exists|a: int| 0 <= a < all_msgs@.len() && (#[trigger] all_msgs@[a]).index == wanted_msg_idx && is_first_not_before(stream, a, r->Ok_0 as int), // O:lookup.index
//@|        r is Err ==> forall|i: int| 0 <= i < all_msgs@.len() ==> (#[trigger] all_msgs@[i]).index != wanted_msg_idx, // O:lookup.index_unknown
//@ end

// ---- time lookup (stream_binary_search time_ms=<t>) ----
// msg_time: the time the closure of binary_search_by_time_us computes for a message (lifecycle start from a snapshot of the
// lifecycle table + timestamp, or the reception time when the lifecycle is unknown): a fixed function during one lookup (R11)
// the snapshot of lifecycle start times taken at the beginning of a lookup (BTreeMap filled from the evmap read handle): a fixed
// partial function during one lookup; start times are below 2^53 us (R11, assumed)
pub uninterp spec fn lc_start_of(lc: u32) -> Option<u64>;
pub struct VxLcMap { pub vx_dummy: u8 }
#[verifier::external_body]
pub fn vx_lc_get<'a>(map: &'a VxLcMap, lc: &u32) -> (r: Option<&'a u64>)
    ensures (match r { Some(s) => lc_start_of(*lc) == Some(*s) && *s <= 0x20_0000_0000_0000, None => lc_start_of(*lc) is None }),
{ unimplemented!() }
impl DltMessage {
//@ extract src/dlt/mod.rs DltMessage::timestamp_us
//@   spec
//@|    ensures r == self.timestamp_dms as int * 100, r <= 429_496_729_500,
//@ end
}
pub open spec fn msg_time(m: DltMessage) -> u64 {
    match lc_start_of(m.lifecycle) { Some(s) => (s + m.timestamp_dms as int * 100) as u64, None => m.reception_time_us }
}
// the predicate handed to partition_point by binary_search_by_time_us (closure #2 of that function)
//@ extract src/bin/adlt/remote.rs closure fn binary_search_by_time_us#2
//@   when `.partition_point(`
//@   sig pub fn lookup_time_pred(m: &DltMessage, lc_id_map: &VxLcMap, time_us: u64) -> (r: bool)
//@   sub R11 `lc_id_map.get(&m.lifecycle)` => `vx_lc_get(lc_id_map, &m.lifecycle)`
//@   spec
//@|    ensures r == (msg_time(*m) < time_us), // O:lookup.time.pred (the partition predicate is "earlier than the requested time")
//@ end
// the shape of the pinned tree (finding F15): a comparator handed to binary_search_by
//@ extract src/bin/adlt/remote.rs closure fn binary_search_by_time_us#2
//@   when `.binary_search_by(`
//@   sig pub fn lookup_time_cmp(m: &DltMessage, lc_id_map: &VxLcMap, time_us: u64) -> (r: std::cmp::Ordering)
//@   sub R11 `lc_id_map.get(&m.lifecycle)` => `vx_lc_get(lc_id_map, &m.lifecycle)`
//@   spec
//@|    ensures
//@|        r is Less <==> msg_time(*m) < time_us, // O:lookup.time.cmp
//@|        r is Equal <==> msg_time(*m) == time_us,
//@ end
pub open spec fn time_sorted(all: Seq<DltMessage>) -> bool { forall|i: int, j: int| 0 <= i < j < all.len() ==> msg_time(#[trigger] all[i]) <= msg_time(#[trigger] all[j]) }
// std: <[T]>::binary_search_by(|m| msg_time(m).cmp(&t)): "if there are multiple matches, then any one of the matches could be returned"
#[verifier::external_body]
pub fn vx_bsearch_time(all: &Vec<DltMessage>, t: u64) -> (r: Result<usize, usize>)
    ensures
        time_sorted(all@) && r is Ok ==> r->Ok_0 < all@.len() && msg_time(all@[r->Ok_0 as int]) == t,
        time_sorted(all@) && r is Err ==> r->Err_0 <= all@.len() && (forall|j: int| 0 <= j < r->Err_0 ==> msg_time(#[trigger] all@[j]) < t) && (forall|j: int| r->Err_0 <= j < all@.len() ==> msg_time(#[trigger] all@[j]) > t),
{ unimplemented!() }
// std: <[T]>::partition_point(|m| msg_time(m) < t) on a slice partitioned by that predicate: the index of the first element for
// which it is false
#[verifier::external_body]
pub fn vx_partition_point_time(all: &Vec<DltMessage>, t: u64) -> (r: usize)
    ensures
        r <= all@.len(),
        time_sorted(all@) ==> (forall|j: int| 0 <= j < r ==> msg_time(#[trigger] all@[j]) < t) && (forall|j: int| r <= j < all@.len() ==> msg_time(#[trigger] all@[j]) >= t),
{ unimplemented!() }
//@ extract src/bin/adlt/remote.rs region `let all_msgs_idx = fc` .. `$end` in fn binary_search_by_time_us
//@   sig pub fn lookup_by_time(time_us: u64, all_msgs: &Vec<DltMessage>, stream: &StreamContext) -> (r: usize)
//@   sub R11 `fc .all_msgs .binary_search_by(__) .unwrap_or_else(|e| e)` => `vx_ok_or_err(vx_bsearch_time(all_msgs, time_us))` ?
//@   sub R11 `fc .all_msgs .partition_point(__)` => `vx_partition_point_time(all_msgs, time_us)` ?
//@   sub R11 `stream .filtered_msgs .binary_search(&all_msgs_idx) .unwrap_or_else(|e| e)` => `vx_ok_or_err(vx_bsearch_usize(&stream.filtered_msgs, all_msgs_idx))`
//@   spec
//@|    requires
//@|        time_sorted(all_msgs@), // the lookup's own assumption: the messages are in time order
//@|        stream_ok(all_msgs@, stream),
//@|        stream.filters_active ==> ascending(stream.filtered_msgs@),
//@|    ensures
//@|        // the position of the first stream message that is not before the requested time
//@|        r <= stream_msgs(all_msgs@, stream).len(),
//@|        forall|p: int| 0 <= p < r ==> msg_time(#[trigger] stream_msgs(all_msgs@, stream)[p]) < time_us, // O:lookup.time.before
//@|        forall|p: int| r <= p < stream_msgs(all_msgs@, stream).len() ==> msg_time(#[trigger] stream_msgs(all_msgs@, stream)[p]) >= time_us, // O:lookup.time.first
//@ end

// ---- index lookup in a file sorted by time (the `if fc.sort_by_time` branch of binary_search_by_msg_index) ----
// std: iter().enumerate().find(|(_, m)| m.index == wanted): the first position with that index (R11)
#[verifier::external_body]
pub fn vx_find_by_index<'a>(all: &'a Vec<DltMessage>, wanted: DltMessageIndexType) -> (r: Option<(usize, &'a DltMessage)>)
    ensures
        r is Some ==> r->Some_0.0 < all@.len() && all@[r->Some_0.0 as int].index == wanted && *r->Some_0.1 == all@[r->Some_0.0 as int],
        r is None ==> forall|i: int| 0 <= i < all@.len() ==> (#[trigger] all@[i]).index != wanted,
{ unimplemented!() }
// std: filtered.binary_search_by(|f_idx| msg_time(all[*f_idx]).cmp(&msg_time(msg))): any one of the matches
#[verifier::external_body]
pub fn vx_bsearch_filtered_time(filtered: &Vec<usize>, all: &Vec<DltMessage>, msg: &DltMessage) -> (r: Result<usize, usize>)
    ensures
        r is Ok ==> r->Ok_0 < filtered@.len() && msg_time(all@[filtered@[r->Ok_0 as int] as int]) == msg_time(*msg),
        r is Err ==> r->Err_0 <= filtered@.len()
            && (forall|j: int| 0 <= j < r->Err_0 ==> msg_time(all@[#[trigger] filtered@[j] as int]) < msg_time(*msg))
            && (forall|j: int| r->Err_0 <= j < filtered@.len() ==> msg_time(all@[#[trigger] filtered@[j] as int]) > msg_time(*msg)),
{ unimplemented!() }
//@ extract src/bin/adlt/remote.rs region `>if fc.sort_by_time {` .. `$end` in fn binary_search_by_msg_index
//@   sig pub fn lookup_by_index_sorted(wanted_msg_idx: DltMessageIndexType, all_msgs: &Vec<DltMessage>, stream: &StreamContext) -> (r: Result<usize, String>)
//@   sub R11 `fc .all_msgs .iter() .enumerate() .find(__)` => `vx_find_by_index(all_msgs, wanted_msg_idx)`
//@   cut R11 `let lc_id_map =` ?
//@   cut R11 `let wanted_msg_time_us =` ?
//@   sub R11 `stream .filtered_msgs .binary_search_by(|f_idx| { let msg = fc.all_msgs.get(*f_idx).unwrap(); let m_time = if let Some(lc_start_time) = lc_id_map.get(&msg.lifecycle) { lc_start_time + msg.timestamp_us() } else { msg.reception_time_us }; m_time.cmp(&wanted_msg_time_us) }) .unwrap_or_else(|e| e)` => `vx_ok_or_err(vx_bsearch_filtered_time(&stream.filtered_msgs, all_msgs, msg))` ?
//@   sub R11 `stream .filtered_msgs .binary_search(&all_msgs_idx) .unwrap_or_else(|e| e)` => `vx_ok_or_err(vx_bsearch_usize(&stream.filtered_msgs, all_msgs_idx))` ?
//@   spec
//@|    requires
//@|        time_sorted(all_msgs@),
//@|        stream_ok(all_msgs@, stream),
//@|        stream.filters_active ==> ascending(stream.filtered_msgs@),
//@|    ensures
//@|        r is Ok ==> exists|a: int| 0 <= a < all_msgs@.len() && (#[trigger] all_msgs@[a]).index == wanted_msg_idx && is_first_not_before(stream, a, r->Ok_0 as int), // O:lookup.index_sorted
//@|        r is Err ==> forall|i: int| 0 <= i < all_msgs@.len() ==> (#[trigger] all_msgs@[i]).index != wanted_msg_idx, // O:lookup.index_sorted_unknown
//@ end

// the closures handed to std's searches by binary_search_by_msg_index: #1 the `find` predicate of the sort-by-time branch,
// #3 the comparator of the sort-by-index branch (#2 and #4 are `|e| e`); the stubs above assume exactly these meanings
//@ extract src/bin/adlt/remote.rs closure fn binary_search_by_msg_index#1
//@   sig pub fn lookup_find_pred(m: &DltMessage, wanted_msg_idx: DltMessageIndexType) -> (r: bool)
//@   spec
//@|    ensures r == (m.index == wanted_msg_idx), // O:lookup.find.pred
//@ end
//@ extract src/bin/adlt/remote.rs closure fn binary_search_by_msg_index#3
//@   unless `.binary_search_by(|f_idx|`
//@   sig pub fn lookup_index_cmp(m: &DltMessage, wanted_msg_idx: DltMessageIndexType) -> (r: std::cmp::Ordering)
//@   spec
//@|    ensures
//@|        r is Less <==> m.index < wanted_msg_idx, // O:lookup.index.cmp
//@|        r is Equal <==> m.index == wanted_msg_idx,
//@ end
// ---- end of units/streamsearch/part.rs ----
