//@ unit ctrlmsgs
// C03: the control-message body parsers of src/dlt/control_msgs.rs never panic / read out of bounds for any payload.
#![allow(unused_imports, dead_code, unused_variables, unused_mut, non_upper_case_globals)]
use vstd::prelude::*;
verus! {
global size_of usize == 8;

//@ include prelude/std_specs.rs
//@ include units/ctrlmsgs/part.rs

fn main() {}
} // verus!
