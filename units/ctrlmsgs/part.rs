// ---- units/ctrlmsgs/part.rs ----
//@ extract src/dlt/mod.rs struct DltChar4
//@ end
impl DltChar4 {
//@ extract src/dlt/mod.rs DltChar4::from_buf
//@   spec
//@|    requires buf@.len() == 4,
//@|    ensures r.char4@ == buf@,
//@ end
}
//@ extract src/dlt/control_msgs.rs struct ContextIdsInfoType
//@ end
//@ extract src/dlt/control_msgs.rs struct AppIdsType
//@ end

// R11 stubs: generic integer decoding via funty (outside the Verus subset), text decoding (encoding_rs, regex)
pub trait VxInt: Sized { spec fn nbytes() -> int; }
impl VxInt for u16 { open spec fn nbytes() -> int { 2 } }
impl VxInt for i8 { open spec fn nbytes() -> int { 1 } }
impl VxInt for i32 { open spec fn nbytes() -> int { 4 } }
// assumed contract of parse_payload_int::<T>: Some(..) iff size_of::<T>() bytes are available at `offset`
#[verifier::external_body]
pub fn parse_payload_int<T: VxInt>(is_big_endian: bool, payload: &[u8], offset: usize) -> (r: Option<T>)
    requires offset + T::nbytes() <= usize::MAX,
    ensures r is Some <==> payload@.len() >= offset + T::nbytes(),
{ unimplemented!() }
#[verifier::external_body]
pub struct VxCowStr { _p: u8 }
#[verifier::external_body]
pub fn vx_w1252_decode(b: &[u8]) -> (r: (VxCowStr, bool)) { unimplemented!() }
#[verifier::external_body]
pub fn vx_replace_newlines(s: &VxCowStr) -> (r: VxCowStr) { unimplemented!() }
#[verifier::external_body]
pub fn vx_string_from(s: VxCowStr) -> (r: String) { unimplemented!() }
// <[u8]>::get(a..b): Some(sub-slice) iff a <= b <= len
#[verifier::external_body]
pub fn vx_slice_get<'a>(s: &'a [u8], a: usize, b: usize) -> (r: Option<&'a [u8]>)
    ensures r is Some <==> (a <= b && b <= s@.len()), r is Some ==> r->Some_0@ == s@.subrange(a as int, b as int),
{ s.get(a..b) }
#[verifier::external_body]
pub fn vx_range_incl_contains(lo: u8, hi: u8, x: &u8) -> (r: bool)
    ensures r == (lo <= *x && *x <= hi),
{ (lo..=hi).contains(x) }

//@ extract src/dlt/control_msgs.rs fn parse_ctrl_unregister_context_payload
//@   spec
//@|    ensures r is Some <==> payload@.len() == 12, // O:ctrl.unregister
//@|        r is Some ==> r->Some_0.0.char4@ == payload@.subrange(0, 4) && r->Some_0.1.char4@ == payload@.subrange(4, 8) && r->Some_0.2.char4@ == payload@.subrange(8, 12),
//@ end
//@ extract src/dlt/control_msgs.rs fn parse_ctrl_connection_info_payload
//@   spec
//@|    ensures r is Some <==> payload@.len() == 5, // O:ctrl.connection_info
//@|        r is Some ==> r->Some_0.0 == payload@[0] && r->Some_0.1.char4@ == payload@.subrange(1, 5),
//@ end
//@ extract src/dlt/control_msgs.rs fn parse_ctrl_timezone_payload
//@   spec
//@|    ensures r is Some <==> payload@.len() == 5, // O:ctrl.timezone
//@|        r is Some ==> r->Some_0.1 == (payload@[4] > 0),
//@ end
//@ extract src/dlt/control_msgs.rs fn parse_ctrl_log_info_payload
//@   sub R3 `(3..=7).contains(&status)` => `vx_range_incl_contains(3, 7, &status)`
//@   sub R3 `payload.get(offset..offset + 4)` => `vx_slice_get(payload, offset, offset + 4)` x2
//@   sub R11 `WINDOWS_1252.decode_without_bom_handling(` => `vx_w1252_decode(` x2
//@   sub R11 `WINDOWS_1252 .decode_without_bom_handling(` => `vx_w1252_decode(` ?
//@   sub R11 `RE_NEW_LINE.replace_all(&s, " ")` => `vx_replace_newlines(&s)` x2
//@   sub R11 `String::from(s2)` => `vx_string_from(s2)` x2
//@   spec
//@|    ensures r@.len() <= 65535, // O:ctrl.log_info.bounded (at most as many entries as the 16-bit count announces)
//@   loop 1 `count_app_ids`
//@|    invariant
//@|        offset + avail == payload@.len(), // O:ctrl.log_info.inv.outer (offset never leaves the payload)
//@|        apids@.len() <= _i, payload@.len() <= usize::MAX,
//@   loop 2 `count_context_ids`
//@|    invariant
//@|        offset + avail == payload@.len(), // O:ctrl.log_info.inv.inner
//@|        apids@.len() <= _i, payload@.len() <= usize::MAX,
//@ end
// parse_ctrl_sw_version_payload: a 32-bit length and that many bytes of text
#[verifier::external_body]
pub fn vx_u32_from_be_slice4(s: &[u8]) -> (r: u32) requires s@.len() == 4 { unimplemented!() }
#[verifier::external_body]
pub fn vx_u32_from_le_slice4(s: &[u8]) -> (r: u32) requires s@.len() == 4 { unimplemented!() }
//@ extract src/dlt/control_msgs.rs fn parse_ctrl_sw_version_payload
//@   sub R3 `vx_u32_from_be_bytes(payload.get(0..4).unwrap().try_into().unwrap())` => `vx_u32_from_be_slice4(vx_slice_get(payload, 0, 4).unwrap())`
//@   sub R3 `vx_u32_from_le_bytes(payload.get(0..4).unwrap().try_into().unwrap())` => `vx_u32_from_le_slice4(vx_slice_get(payload, 0, 4).unwrap())`
//@   sub R11 `WINDOWS_1252.decode_without_bom_handling(` => `vx_w1252_decode(`
//@   sub R11 `RE_NEW_LINE.replace_all(&s, " ")` => `vx_replace_newlines(&s)`
//@   sub R11 `String::from(s2)` => `vx_string_from(s2)`
//@   spec
//@|    ensures r is Some ==> payload@.len() >= 4, // O:ctrl.sw_version (the announced length is compared with what is there before slicing)
//@ end
// ---- end of units/ctrlmsgs/part.rs ----
