//@ unit lcqueue
// C05 (forwarding clause): every statement range of parse_lifecycles_buffered_from_stream that touches the message queue or the
// output keeps "delivered ++ queued" intact: messages leave the single FIFO only from the front, each once, in order.
#![allow(unused_imports, dead_code, unused_variables, unused_mut, non_upper_case_globals, unused_assignments)]
use vstd::prelude::*;
verus! {
global size_of usize == 8;

//@ include prelude/std_specs.rs
//@ include units/dltcore/part.rs
//@ include units/lcqueue/models.rs
//@ include units/lcqueue/part.rs

fn main() {}
} // verus!
