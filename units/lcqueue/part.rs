// ---- units/lcqueue/part.rs ----
// R1: after a merge removed the last buffered lifecycle: flush everything that is queued, before the current message
//@ extract src/lifecycle/mod.rs region `>>let _removed = ecu_lcs.remove(` .. `$end` in fn parse_lifecycles_buffered_from_stream
//@   sig pub fn flush_if_unbuffered<Q: VQueue, L: VIdSet, S: VSink>(buffered_lcs: &L, buffered_msgs: &mut Q, outflow: &mut S)
//@   sub R11 `mark_lc_id_to_refresh(__);` => ``
//@   sub R12 `outflow(msg)` => `outflow.send(msg)`
//@   spec
//@|    ensures
//@|        final(outflow).log() + final(buffered_msgs).q() == old(outflow).log() + old(buffered_msgs).q() || !old(outflow).never_fails(), // O:queue.flush.fifo (sent from the front, in order, each once)
//@|        old(outflow).never_fails() ==> queue_inv(buffered_lcs, final(buffered_msgs)), // O:queue.flush.inv
//@|        final(outflow).never_fails() == old(outflow).never_fails(),
//@   hint start
//@|    let ghost all0 = outflow.log() + buffered_msgs.q();
//@|    let ghost nf = outflow.never_fails();
//@   loop 1
//@|    invariant
//@|        outflow.never_fails() == nf,
//@|        nf ==> outflow.log() + buffered_msgs.q() == all0, // O:queue.flush.inv.fifo
//@|    ensures
//@|        nf ==> buffered_msgs.q().len() == 0,
//@|    decreases buffered_msgs.q().len(),
//@   hint loopstart 1
//@|    let ghost lg = outflow.log();
//@|    let ghost qq0 = buffered_msgs.q();
//@   hint loopend 1
//@|    proof { if nf { assert(qq0.len() > 0); assert(lg.push(qq0[0]) + qq0.skip(1) =~= lg + qq0); } }
//@ end

// R2: a buffered lifecycle is confirmed: it leaves buffered_lcs (publication to the lifecycle table cut, see C06), then the queue
// is pruned from the front up to the first message of a lifecycle that is still buffered
//@ extract src/lifecycle/mod.rs region `buffered_lcs.remove(&lc.id);` .. `$end` in fn parse_lifecycles_buffered_from_stream
//@   sig pub fn confirm_and_prune<Q: VQueue, L: VIdSet, S: VSink, T: VLcTable>(lc_id: u32, buffered_lcs: &mut L, buffered_msgs: &mut Q, outflow: &mut S, lcs_w: &mut T)
//@   sub R12 `lc.id` => `lc_id` *
//@   sub R12 `lcs_w.update(__)` => `lcs_w.vx_update(lc_id)`
//@   cut R11 `last_lcw_refresh_index += 1;`
//@   sub R8 `buffered_msgs[0].lifecycle` => `buffered_msgs.vx_first().lifecycle`
//@   sub R11 `mark_lc_id_to_refresh(__);` => ``
//@   sub R12 `outflow(msg)` => `outflow.send(msg)` x2
//@   spec
//@|    ensures
//@|        final(outflow).log() + final(buffered_msgs).q() == old(outflow).log() + old(buffered_msgs).q() || !old(outflow).never_fails(), // O:queue.prune.fifo
//@|        old(outflow).never_fails() ==> queue_inv(final(buffered_lcs), final(buffered_msgs)), // O:queue.prune.inv (the pruning stops only at a message whose lifecycle is still buffered)
//@|        final(buffered_lcs).ids() == old(buffered_lcs).ids().remove(lc_id),
//@|        final(outflow).never_fails() == old(outflow).never_fails(),
//@|        // C06: every message released here carries a lifecycle that is visible in the shared table when it is released
//@|        queued_known(old(buffered_lcs), old(buffered_msgs), old(lcs_w)) ==>
//@|            final(outflow).log().len() >= old(outflow).log().len()
//@|            && (forall|j: int| old(outflow).log().len() <= j < final(outflow).log().len() ==> final(lcs_w).visible().contains((#[trigger] final(outflow).log()[j]).lifecycle)), // O:publish.before_release
//@|        queued_known(old(buffered_lcs), old(buffered_msgs), old(lcs_w)) ==> queued_known(final(buffered_lcs), final(buffered_msgs), final(lcs_w)), // O:publish.known_kept
//@   hint start
//@|    let ghost all0 = outflow.log() + buffered_msgs.q();
//@|    let ghost nf = outflow.never_fails();
//@|    let ghost n0 = outflow.log().len();
//@|    let ghost kn = queued_known(buffered_lcs, buffered_msgs, lcs_w);
//@   loop 1
//@|    invariant
//@|        outflow.never_fails() == nf,
//@|        nf ==> outflow.log() + buffered_msgs.q() == all0, // O:queue.prune.inv.fifo
//@|        outflow.log().len() >= n0,
//@|        kn ==> lcs_w.visible().contains(prune_lc_id) && queued_known(buffered_lcs, buffered_msgs, lcs_w), // O:publish.inv.known (the table is refreshed before anything is released)
//@|        kn ==> (forall|j: int| n0 <= j < outflow.log().len() ==> lcs_w.visible().contains((#[trigger] outflow.log()[j]).lifecycle)), // O:publish.inv.released
//@|    ensures
//@|        nf ==> queue_inv(buffered_lcs, buffered_msgs), // O:queue.prune.inv.stop (the loop stops only when the queue is empty or its first message belongs to a buffered lifecycle)
//@|    decreases buffered_msgs.q().len(),
//@   hint loopstart 1
//@|    let ghost lg = outflow.log();
//@|    let ghost qq = buffered_msgs.q();
//@   hint loopend 1
//@|    proof { if nf { assert(qq.len() > 0); assert(lg.push(qq[0]) + qq.skip(1) =~= lg + qq); } }
//@ end

// R3: the end of the loop body: the current message is queued while any lifecycle is buffered, otherwise sent directly
// (`break` leaves the enclosing `for msg in inflow` loop: as the piece is the tail of that loop's body it becomes `return`)
//@ extract src/lifecycle/mod.rs region `>>if next_buffer_check_time < msg_reception_time_us {` .. `$end` in fn parse_lifecycles_buffered_from_stream
//@   sig pub fn forward_or_buffer<Q: VQueue, L: VIdSet, S: VSink>(msg: DltMessage, buffered_lcs: &L, buffered_msgs: &mut Q, outflow: &mut S)
//@   cut R11 `mark_lc_id_to_refresh(msg.lifecycle`
//@   cut R11 `check_regular_refresh(`
//@   sub R12 `outflow(msg)` => `outflow.send(msg)`
//@   sub R13 `break;` => `return;`
//@   spec
//@|    requires queue_inv(buffered_lcs, old(buffered_msgs)),
//@|    ensures
//@|        // the message goes behind everything delivered or queued so far
//@|        final(outflow).log() + final(buffered_msgs).q() == (old(outflow).log() + old(buffered_msgs).q()).push(msg) || !old(outflow).never_fails(), // O:queue.forward.fifo
//@|        old(outflow).never_fails() ==> queue_inv(buffered_lcs, final(buffered_msgs)), // O:queue.forward.inv
//@|        final(outflow).never_fails() == old(outflow).never_fails(),
//@   hint start
//@|    let ghost lg = outflow.log();
//@|    let ghost qq = buffered_msgs.q();
//@|    proof { assert(lg + qq.push(msg) =~= (lg + qq).push(msg)); if qq.len() == 0 { assert(lg.push(msg) + qq =~= (lg + qq).push(msg)); } }
//@ end

// R4: end of input: everything still queued is delivered, in order
//@ extract src/lifecycle/mod.rs region `for m in buffered_msgs.into_iter() {` .. `for m in buffered_msgs.into_iter() {` in fn parse_lifecycles_buffered_from_stream
//@   sig pub fn final_flush<Q: VQueue, S: VSink>(mut buffered_msgs: Q, outflow: &mut S)
//@   sub R13 `for m in buffered_msgs.into_iter() {` => `loop { let m = match buffered_msgs.pop_front() { Some(vx_m) => vx_m, None => break };`
//@   sub R11 `mark_lc_id_to_refresh(__);` => ``
//@   sub R12 `outflow(m)` => `outflow.send(m)`
//@   spec
//@|    ensures
//@|        old(outflow).never_fails() ==> final(outflow).log() == old(outflow).log() + buffered_msgs.q(), // O:queue.final.flush (nothing stays behind)
//@   hint start
//@|    let ghost all0 = outflow.log() + buffered_msgs.q();
//@|    let ghost nf = outflow.never_fails();
//@|    let ghost mut lg = outflow.log();
//@|    let ghost mut qq = buffered_msgs.q();
//@   loop 1
//@|    invariant_except_break
//@|        lg == outflow.log(), qq == buffered_msgs.q(),
//@|    invariant
//@|        outflow.never_fails() == nf,
//@|        nf ==> outflow.log() + buffered_msgs.q() == all0, // O:queue.final.inv.fifo
//@|    ensures
//@|        nf ==> buffered_msgs.q().len() == 0,
//@|    decreases buffered_msgs.q().len(),
//@   hint loopend 1
//@|    proof { if nf { assert(qq.len() > 0); assert(lg.push(qq[0]) + qq.skip(1) =~= lg + qq); } lg = outflow.log(); qq = buffered_msgs.q(); }
//@   hint before `^}`
//@|    proof { if nf { assert(outflow.log() + buffered_msgs.q() =~= outflow.log()); } }
//@ end

// the re-labelling of queued messages when a lifecycle is merged into its predecessor (closures #3 and #5 of the function,
// applied by iter_mut().for_each): only the lifecycle id of a message changes
pub struct VxLcId { pub id: u32 }   // stand-in for &Lifecycle: the closures only read the id (R12)
pub open spec fn same_but_lc(a: DltMessage, b: DltMessage) -> bool {
    a.index == b.index && a.reception_time_us == b.reception_time_us && a.ecu == b.ecu && a.timestamp_dms == b.timestamp_dms
        && a.standard_header == b.standard_header && a.extended_header == b.extended_header && a.payload == b.payload && a.payload_text == b.payload_text
}
//@ extract src/lifecycle/mod.rs closure fn parse_lifecycles_buffered_from_stream#3
//@   sig pub fn relabel_buffered(m: &mut DltMessage, lc2: &VxLcId, prev_lc: &VxLcId)
//@   spec
//@|    ensures same_but_lc(*final(m), *old(m)), // O:queue.relabel.frame
//@ end
//@ extract src/lifecycle/mod.rs closure fn parse_lifecycles_buffered_from_stream#5
//@   sig pub fn relabel_buffered_counting(m: &mut DltMessage, lc2: &VxLcId, prev_lc: &VxLcId, mut moved_msgs: usize)
//@   spec
//@|    requires moved_msgs < usize::MAX,
//@|    ensures same_but_lc(*final(m), *old(m)), // O:queue.relabel2.frame
//@ end

// Completeness of the case split: these are ALL the places of parse_lifecycles_buffered_from_stream that send a message or change
// the queue / the set of buffered lifecycles. R1 has 1 send + 1 pop_front, R2 2 sends + 2 pop_front + 1 remove, R3 1 send + the
// push_back, R4 1 send + into_iter; the two iter_mut().for_each re-labellings keep length and order (closures #3, #5 above); the
// two other `buffered_lcs.remove` (merge branches) and the two `insert`s do not touch the queue, and each merge branch is followed
// by R1, which restores queue_inv. A change that adds another such place makes the count differ: the verdict is then UNDECIDED.
//@ count src/lifecycle/mod.rs fn parse_lifecycles_buffered_from_stream `outflow(` == 5
//@ count src/lifecycle/mod.rs fn parse_lifecycles_buffered_from_stream `.pop_front()` == 3
//@ count src/lifecycle/mod.rs fn parse_lifecycles_buffered_from_stream `.push_back(` == 1
//@ count src/lifecycle/mod.rs fn parse_lifecycles_buffered_from_stream `buffered_msgs.into_iter()` == 1
//@ count src/lifecycle/mod.rs fn parse_lifecycles_buffered_from_stream `buffered_msgs.iter_mut()` == 2
//@ count src/lifecycle/mod.rs fn parse_lifecycles_buffered_from_stream `buffered_lcs.remove(` == 3
//@ count src/lifecycle/mod.rs fn parse_lifecycles_buffered_from_stream `buffered_lcs.insert(` == 2
//@ count src/lifecycle/mod.rs fn parse_lifecycles_buffered_from_stream `buffered_msgs` == 13

// What follows from the pieces (the composition itself is an argument on paper, section 6-C05 of DESIGN.md): with a consumer that
// stays connected, `delivered ++ queued` grows by exactly the received message in every iteration (R3; R1, R2 keep it), queue_inv
// holds at the end of every iteration, the final flush empties the queue: the delivered sequence is the received one.
pub proof fn lemma_fifo_compose(log0: Seq<DltMessage>, q0: Seq<DltMessage>, log1: Seq<DltMessage>, q1: Seq<DltMessage>, log2: Seq<DltMessage>, q2: Seq<DltMessage>, m: DltMessage)
    requires log1 + q1 == log0 + q0, log2 + q2 == (log1 + q1).push(m),
    ensures log2 + q2 == (log0 + q0).push(m),
{}
// ---- end of units/lcqueue/part.rs ----
