// ---- units/lcqueue/models.rs ----
// R12 models. The output closure: a sink whose send either appends or fails; `never_fails()` = the consumer stays connected.
pub trait VSink: Sized {
    spec fn log(&self) -> Seq<DltMessage>;
    spec fn never_fails(&self) -> bool;
    fn send(&mut self, m: DltMessage) -> (r: Result<(), DltMessage>)
        ensures
            r is Ok ==> final(self).log() == old(self).log().push(m),
            r is Err ==> final(self).log() == old(self).log(),
            final(self).never_fails() == old(self).never_fails(),
            old(self).never_fails() ==> r is Ok;
}
// std::collections::VecDeque<DltMessage> (the single global FIFO `buffered_msgs`): assumed contract of the operations used
pub trait VQueue: Sized {
    spec fn q(&self) -> Seq<DltMessage>;
    fn is_empty(&self) -> (r: bool) ensures r == (self.q().len() == 0);
    fn len(&self) -> (r: usize) ensures r == self.q().len();
    fn pop_front(&mut self) -> (r: Option<DltMessage>)
        ensures
            old(self).q().len() == 0 ==> r is None && final(self).q() == old(self).q(),
            old(self).q().len() > 0 ==> r == Some(old(self).q()[0]) && final(self).q() == old(self).q().skip(1);
    fn push_back(&mut self, m: DltMessage) ensures final(self).q() == old(self).q().push(m);
    // not used by the pinned code; specified so that a change to them is decided, not lost
    fn pop_back(&mut self) -> (r: Option<DltMessage>)
        ensures
            old(self).q().len() == 0 ==> r is None && final(self).q() == old(self).q(),
            old(self).q().len() > 0 ==> r == Some(old(self).q().last()) && final(self).q() == old(self).q().drop_last();
    fn push_front(&mut self, m: DltMessage) ensures final(self).q() == seq![m] + old(self).q();
    fn front(&self) -> (r: Option<&DltMessage>)
        ensures self.q().len() == 0 ==> r is None, self.q().len() > 0 ==> r == Some(&self.q()[0]);
    fn back(&self) -> (r: Option<&DltMessage>)
        ensures self.q().len() == 0 ==> r is None, self.q().len() > 0 ==> r == Some(&self.q()[self.q().len() - 1]);
    // `queue[0]`
    fn vx_first(&self) -> (r: &DltMessage) requires self.q().len() > 0, ensures *r == self.q()[0];
}
// std::collections::HashSet<LifecycleId> (`buffered_lcs`): assumed contract of the operations used
pub trait VIdSet: Sized {
    spec fn ids(&self) -> Set<u32>;
    fn contains(&self, id: &u32) -> (r: bool) ensures r == self.ids().contains(*id);
    fn remove(&mut self, id: &u32) -> (r: bool) ensures final(self).ids() == old(self).ids().remove(*id), r == old(self).ids().contains(*id);
    fn is_empty(&self) -> (r: bool) ensures r == (forall|x: u32| !self.ids().contains(x));
    fn len(&self) -> (r: usize) ensures (r == 0) == (forall|x: u32| !self.ids().contains(x)), r == self.ids().len();
}
// evmap write handle for the shared lifecycle table (`lcs_w`): an update becomes visible to the readers with the next refresh
pub trait VLcTable: Sized {
    spec fn pending(&self) -> Set<u32>;
    spec fn visible(&self) -> Set<u32>;
    spec fn visible_msgs(&self) -> nat;   // the sum of nr_msgs over the visible entries
    fn vx_update(&mut self, id: u32)
        ensures final(self).pending() == old(self).pending().insert(id), final(self).visible() == old(self).visible();
    fn refresh(&mut self)
        ensures final(self).visible() == old(self).visible().union(old(self).pending()), final(self).pending() == old(self).pending();
}
// K: the lifecycle of every queued message is still buffered or already visible in the table
pub open spec fn queued_known<Q: VQueue, L: VIdSet, T: VLcTable>(lcs: &L, q: &Q, t: &T) -> bool {
    forall|i: int| 0 <= i < q.q().len() ==> lcs.ids().contains((#[trigger] q.q()[i]).lifecycle) || t.visible().contains(q.q()[i].lifecycle)
}
// J: nothing is queued unless some lifecycle is still buffered (what makes the direct send at the end of the loop body safe)
pub open spec fn queue_inv<Q: VQueue, L: VIdSet>(lcs: &L, q: &Q) -> bool {
    (forall|x: u32| !lcs.ids().contains(x)) ==> q.q().len() == 0
}

// ---- end of units/lcqueue/models.rs ----
