//@ unit remotecmd
// C15 (one crash-freedom clause): the parameter string handed to the stream_search handler is computed without panicking for
// every command text.
#![allow(unused_imports, dead_code, unused_variables, unused_mut, non_upper_case_globals)]
use vstd::prelude::*;
verus! {
global size_of usize == 8;

//@ include prelude/std_specs.rs

// str::split_once(' '): Some((before, after)) iff the text contains a blank (R11: std str routine, documented contract)
pub uninterp spec fn has_space(s: &str) -> bool;
#[verifier::external_body]
pub fn vx_split_once_space<'a>(s: &'a str) -> (r: Option<(&'a str, &'a str)>)
    ensures r is Some <==> has_space(s),
{ s.split_once(' ') }

// process_incoming_text_message (src/bin/adlt/remote.rs), arm "stream_search": the sixth argument of the call of
// process_stream_search_params. `params` is whatever followed the command word; all that is known at this point is that its first
// blank-separated token parsed as a stream id - nothing says that a second token exists.
//@ extract src/bin/adlt/remote.rs callarg `process_stream_search_params` in fn process_incoming_text_message#1 arg 6
//@   sig pub fn stream_search_params_arg<'a>(params: &'a str) -> (r: &'a str)
//@   sub R11 `params.split_once(' ')` => `vx_split_once_space(params)`
//@   spec
//@|    ensures true, // O:cmd.search_params.no_panic (the only obligations are the panic-freedom obligations of the extracted expression)
//@ end

fn main() {}
} // verus!
