//@ unit ftplugin
// C17 (which transfer a data package goes to) / C03 (no dangling transfer index): the FLDA and FLFI arms of
// FileTransferPlugin::process_msg, as statement ranges, against the per-transfer state machine of unit filetransfer.
#![allow(unused_imports, dead_code, unused_variables, unused_mut, non_upper_case_globals, unused_assignments)]
use vstd::prelude::*;
verus! {
global size_of usize == 8;

//@ include prelude/std_specs.rs
//@ include units/filetransfer/part.rs
//@ include units/ftplugin/part.rs

fn main() {}
} // verus!
