// ---- units/ftplugin/part.rs ----
// R12 models. The message: the statement ranges read only msg.ecu and msg.lifecycle
pub struct VxMsgKey { pub ecu: DltChar4, pub lifecycle: u32 }
// `msg.into_iter()` (DltMessageArgIterator; its real `next` is under contract in unit verbarg): here any sequence of arguments
pub trait VArgIter<'a>: Sized {
    spec fn rem(&self) -> Seq<DltArg<'a>>;
    fn next(&mut self) -> (r: Option<DltArg<'a>>)
        ensures
            old(self).rem().len() == 0 ==> r is None && final(self).rem() == old(self).rem(),
            old(self).rem().len() > 0 ==> r == Some(old(self).rem()[0]) && final(self).rem() == old(self).rem().skip(1);
}
// arg_as_uint: proved against its layout contract in unit filetransfer; here only "a function of the argument" is used
pub uninterp spec fn spec_uint(a: DltArg) -> Result<u64, ()>;
#[verifier::external_body]
//@ extract src/plugins/file_transfer.rs fn arg_as_uint
//@   bodyless
//@   nocanary
//@   sub R2 `crate::dlt::DltArg` => `DltArg`
//@   spec
//@|    ensures r == spec_uint(*arg),
//@ end
// std items without a vstd specification (documented behaviour)
pub assume_specification<'a, T: Copy> [Option::<&'a T>::copied] (o: Option<&'a T>) -> (r: Option<T>)
    ensures r == (match o { Some(x) => Some(*x), None => None::<T> });
// HashMap<(DltChar4, u32, u64), usize> (`transfers_idx`): assumed contract of get / insert
#[verifier::external_body]
pub struct VxFtIdx { m: std::collections::HashMap<(u32, u32, u64), usize> }
pub type FtKey = (DltChar4, u32, u64);
impl VxFtIdx {
    pub uninterp spec fn m(&self) -> Map<FtKey, usize>;
    #[verifier::external_body]
    pub fn get(&self, k: &FtKey) -> (r: Option<&usize>)
        ensures r is Some <==> self.m().dom().contains(*k), r is Some ==> *r->Some_0 == self.m()[*k],
    { unimplemented!() }
    #[verifier::external_body]
    pub fn insert(&mut self, k: FtKey, v: usize) -> (r: Option<usize>)
        ensures final(self).m() == old(self).m().insert(k, v),
    { unimplemented!() }
    // `.entry(k).or_insert(v)` (a shape the text does not use today; kept so that a change to it is decided, not lost)
    #[verifier::external_body]
    pub fn vx_entry_or_insert(&mut self, k: FtKey, v: usize)
        ensures final(self).m() == (if old(self).m().dom().contains(k) { old(self).m() } else { old(self).m().insert(k, v) }),
    { unimplemented!() }
}
#[verifier::external_body]
pub struct VxPluginState { _p: u8 }   // Arc<RwLock<PluginState>>
#[verifier::external_body]
pub struct VxGlob { _p: u8 }          // glob::Pattern
//@ extract src/plugins/file_transfer.rs struct FileTransferPlugin
//@   sub R11 `Arc<RwLock<PluginState>>` => `VxPluginState`
//@   sub R11 `Option<glob::Pattern>` => `Option<VxGlob>`
//@   sub R11 `HashMap<(DltChar4, u32, u64), usize>` => `VxFtIdx`
//@ end
// Vec::get_mut(i) (the `.unwrap()` that follows stays real text: its obligation is that the stored index is a valid position)
#[verifier::external_body]
pub fn vx_get_mut(v: &mut Vec<FileTransfer>, i: usize) -> (r: Option<&mut FileTransfer>)
    ensures
        i >= old(v).len() ==> r is None && final(v)@ == old(v)@,
        i < old(v).len() ==> r is Some && *r->Some_0 == old(v)@[i as int] && final(v)@ == old(v)@.update(i as int, *final(r->Some_0)),
{ unimplemented!() }
// what else may happen to a transfer while a message is processed: update_state() moves the data of a completed transfer into the
// plugin state (file_data becomes empty), check_auto_save records where a completed file was saved
pub open spec fn settled(a: FileTransfer, b: FileTransfer) -> bool {
    &&& b.ecu == a.ecu && b.lifecycle == a.lifecycle && b.serial == a.serial && b.state == a.state && b.file_name == a.file_name && b.file_size == a.file_size
    &&& b.file_creation_date == a.file_creation_date && b.nr_packages == a.nr_packages && b.buffer_size == a.buffer_size && b.next_package == a.next_package
    &&& b.recvd_packages == a.recvd_packages && b.recvd_payload == a.recvd_payload
    &&& (b.file_data == a.file_data || (a.state == FileTransferState::Complete && b.file_data@.len() == 0))
    &&& (b.auto_saved_to == a.auto_saved_to || a.state == FileTransferState::Complete)
}
pub open spec fn key_of(t: FileTransfer) -> FtKey { (t.ecu, t.lifecycle, t.serial) }
// the same on the state-machine view: everything but the kept data, which may have been moved out of a completed transfer
pub open spec fn ts_settled(s: TS, f: TS) -> bool {
    &&& f.state == s.state && f.next == s.next && f.recvd == s.recvd && f.payload_len == s.payload_len && f.nr == s.nr && f.bsize == s.bsize && f.fsize == s.fsize
    &&& ((f.data == s.data && f.storing == s.storing) || (s.state is Complete && f.data.len() == 0))
}
pub open spec fn t_bounded(t: FileTransfer) -> bool {
    t.recvd_packages < u64::MAX - 1 && t.recvd_payload <= 0x7fff_ffff_ffff_ffff   // fewer than 2^63 packages / bytes per transfer (ASSUMED)
}
impl FileTransferPlugin {
    // the index maps a key to the position of a transfer with that key; every transfer is well-formed
    pub open spec fn inv(&self) -> bool {
        &&& forall|k: FtKey| #[trigger] self.transfers_idx.m().dom().contains(k) ==> self.transfers_idx.m()[k] < self.transfers@.len() && key_of(self.transfers@[self.transfers_idx.m()[k] as int]) == k
        &&& forall|i: int| 0 <= i < self.transfers@.len() ==> (#[trigger] self.transfers@[i]).wf()
    }
    pub open spec fn bounded(&self) -> bool { forall|i: int| 0 <= i < self.transfers@.len() ==> t_bounded(#[trigger] self.transfers@[i]) }
    #[verifier::external_body]
    pub fn update_state(&mut self)
        ensures
            final(self).transfers@.len() == old(self).transfers@.len(),
            forall|i: int| 0 <= i < old(self).transfers@.len() ==> settled(old(self).transfers@[i], #[trigger] final(self).transfers@[i]),
            final(self).transfers_idx == old(self).transfers_idx, final(self).allow_save == old(self).allow_save, final(self).keep_flda == old(self).keep_flda,
    { unimplemented!() }
}
#[verifier::external_body]
pub fn vx_check_auto_save(glob: &Option<VxGlob>, path: &Option<String>, file_transfer: &mut FileTransfer, keep_data: bool)
    ensures save_frame(*old(file_transfer), *final(file_transfer), keep_data),   // the contract PROVED for check_auto_save below (O:save.frame), restated without the file-system parameter
{ unimplemented!() }
pub proof fn lemma_settled_view(a: FileTransfer, b: FileTransfer)
    requires settled(a, b),
    ensures ts_settled(a@, b@), key_of(b) == key_of(a), a.wf() ==> b.wf(),
{}
pub proof fn lemma_settled_trans(a: FileTransfer, b: FileTransfer, c: FileTransfer)
    requires settled(a, b), settled(b, c),
    ensures settled(a, c),
{}
pub proof fn lemma_settled_refl(a: FileTransfer)
    ensures settled(a, a),
{}
// what the FLDA arm does, given the decoded (serial, package number) and the arguments of the message
pub open spec fn flda_post(o: FileTransferPlugin, f: FileTransferPlugin, e: DltChar4, lc: u32, serial: u64, package_nr: u64, a: Seq<DltArg>) -> bool {
    let key = (e, lc, serial);
    let n = o.transfers@.len() as int;
    &&& f.inv() // O:ftp.flda.inv
    &&& f.transfers@.len() >= n
    // a data package changes no transfer other than the one of its own (ECU, lifecycle, serial)
    &&& forall|i: int| 0 <= i < n && key_of(o.transfers@[i]) != key ==> settled(o.transfers@[i], #[trigger] f.transfers@[i]) // O:ftp.flda.frame
    // the transfer of that key, if there is one, takes exactly the step of the per-transfer state machine for this package
    &&& (o.transfers_idx.m().dom().contains(key) ==> ({
            let t = o.transfers_idx.m()[key] as int;
            f.transfers@.len() == n && f.transfers_idx.m() == o.transfers_idx.m() && key_of(f.transfers@[t]) == key
            && (settled(o.transfers@[t], f.transfers@[t])
                || (a.len() > 3 && spec_uint(a[1]) == Ok::<u64, ()>(serial) && spec_uint(a[2]) == Ok::<u64, ()>(package_nr)
                    && ts_settled(step_flda(o.transfers@[t]@, package_nr as int, a[3].payload_raw@), f.transfers@[t]@)))
        })) // O:ftp.flda.step
    // without such a transfer only the first package opens one (recovery after a lost announcement), under exactly that key
    &&& (!o.transfers_idx.m().dom().contains(key) ==>
            (f.transfers@.len() == n && f.transfers_idx.m() == o.transfers_idx.m())
            || (package_nr == 1 && f.transfers@.len() == n + 1 && key_of(f.transfers@[n]) == key && f.transfers_idx.m() == o.transfers_idx.m().insert(key, n as usize))) // O:ftp.flda.recover
}

// The FLDA arm: the statements that decode a data package (serial, package number, data) and apply it.
//@ extract src/plugins/file_transfer.rs region `let mut serial = u64::MAX;` .. `for (i, arg) in args.enumerate() {` in <Plugin for FileTransferPlugin>::process_msg
//@   sig #[verifier::loop_isolation(false)] #[verifier::allow_complex_invariants] pub fn flda_msg<'a, A: VArgIter<'a>>(vx_self: &mut FileTransferPlugin, msg: &VxMsgKey, mut vx_args: A) -> (r: (u64, u64))
//@   tail `(serial, package_nr)`
//@   cut R12 `let args = msg.into_iter();`
//@   sub R13 `for (i, arg) in args.enumerate() {` => `let mut vx_i: usize = 0; loop { let arg = match vx_args.next() { Some(vx_a) => vx_a, None => break }; let i = vx_i; vx_i += 1;`
//@   sub R12 `self` => `vx_self` *
//@   sub R11 `vx_self.transfers.get_mut(` => `vx_get_mut(&mut vx_self.transfers,` *
//@   sub R11 `FileTransferPlugin::check_auto_save(` => `vx_check_auto_save(`
//@   spec
//@|    requires
//@|        old(vx_self).inv(), old(vx_self).bounded(),
//@|        forall|i: int| 0 <= i < vx_args.rem().len() ==> (#[trigger] vx_args.rem()[i]).payload_raw@.len() <= 0x10000, // an argument lies inside a message payload (< 64 KiB)
//@|    ensures
//@|        flda_post(*old(vx_self), *final(vx_self), msg.ecu, msg.lifecycle, r.0, r.1, vx_args.rem()), // O:ftp.flda
//@   hint start
//@|    let ghost a0 = vx_args.rem();
//@|    let ghost s0 = *vx_self;
//@|    proof { assert forall|i: int| 0 <= i < s0.transfers@.len() implies settled(s0.transfers@[i], #[trigger] s0.transfers@[i]) by { lemma_settled_refl(s0.transfers@[i]); } }
//@   loop inner `vx_args.next()`
//@|    invariant_except_break
//@|        *vx_self == s0, vx_i <= 3, vx_i <= a0.len(), vx_args.rem() == a0.skip(vx_i as int),
//@|        vx_i >= 2 ==> spec_uint(a0[1]) == Ok::<u64, ()>(serial),
//@|        vx_i >= 3 ==> spec_uint(a0[2]) == Ok::<u64, ()>(package_nr),
//@|    ensures
//@|        flda_post(s0, *vx_self, msg.ecu, msg.lifecycle, serial, package_nr, a0),
//@|    decreases vx_args.rem().len(),
//@ end

// The FLFI arm (end marker of a transfer): decode the serial, look the transfer up, close it.
pub open spec fn flfi_post(o: FileTransferPlugin, f: FileTransferPlugin, e: DltChar4, lc: u32, serial: u64) -> bool {
    let key = (e, lc, serial);
    let n = o.transfers@.len() as int;
    &&& f.inv() // O:ftp.flfi.inv
    &&& f.transfers@.len() == n && f.transfers_idx.m() == o.transfers_idx.m()
    &&& forall|i: int| 0 <= i < n && key_of(o.transfers@[i]) != key ==> settled(o.transfers@[i], #[trigger] f.transfers@[i]) // O:ftp.flfi.frame (an end marker changes no transfer of another key)
    &&& (o.transfers_idx.m().dom().contains(key) ==> ({
            let t = o.transfers_idx.m()[key] as int;
            key_of(f.transfers@[t]) == key && ts_settled(step_flfi(o.transfers@[t]@), f.transfers@[t]@) // O:ftp.flfi.step (the transfer of that key takes the end-marker step of the state machine)
        }))
    &&& (!o.transfers_idx.m().dom().contains(key) ==> forall|i: int| 0 <= i < n ==> settled(o.transfers@[i], #[trigger] f.transfers@[i]))
}
//@ extract src/plugins/file_transfer.rs region `>if FileTransferPlugin::is_type(msg, "FLFI") {` .. `$end` in <Plugin for FileTransferPlugin>::process_msg
//@   sig #[verifier::loop_isolation(false)] #[verifier::allow_complex_invariants] pub fn flfi_msg<'a, A: VArgIter<'a>>(vx_self: &mut FileTransferPlugin, msg: &VxMsgKey, mut vx_args: A) -> (r: u64)
//@   tail `serial`
//@   cut R12 `let args = msg.into_iter();`
//@   sub R13 `for (i, arg) in args.enumerate() {` => `let mut vx_i: usize = 0; loop { let arg = match vx_args.next() { Some(vx_a) => vx_a, None => break }; let i = vx_i; vx_i += 1;`
//@   sub R12 `self` => `vx_self` *
//@   sub R11 `vx_self.transfers.get_mut(` => `vx_get_mut(&mut vx_self.transfers,` *
//@   sub R11 `FileTransferPlugin::check_auto_save(` => `vx_check_auto_save(`
//@   spec
//@|    requires old(vx_self).inv(),
//@|    ensures flfi_post(*old(vx_self), *final(vx_self), msg.ecu, msg.lifecycle, r), // O:ftp.flfi
//@   hint start
//@|    let ghost a0 = vx_args.rem();
//@|    let ghost s0 = *vx_self;
//@|    proof { assert forall|i: int| 0 <= i < s0.transfers@.len() implies settled(s0.transfers@[i], #[trigger] s0.transfers@[i]) by { lemma_settled_refl(s0.transfers@[i]); } }
//@   loop inner `vx_args.next()`
//@|    invariant_except_break
//@|        vx_i <= 1,
//@|    invariant
//@|        *vx_self == s0,
//@|    decreases vx_args.rem().len(),
//@ end

// ---------- The FLST arm: the statements that decode an announcement and open a transfer ----------
#[verifier::external_body]
pub fn arg_as_string(arg: &DltArg) -> (r: Result<String, ()>) { unimplemented!() }
#[verifier::external_body]
pub fn vx_string_append(s: &mut String, t: &String) { unimplemented!() }
impl VxGlob {
    #[verifier::external_body]
    pub fn matches(&self, s: &String) -> (r: bool) { unimplemented!() }
}
// Vec::with_capacity(n): empty; "If capacity is 0, the vector will not allocate" and capacity >= n (std documentation)
#[verifier::external_body]
pub fn vx_with_capacity(n: usize) -> (r: Vec<u8>)
    ensures r@.len() == 0, spec_capacity(&r) >= n, n == 0 ==> spec_capacity(&r) == 0,
{ Vec::with_capacity(n) }
//@ extract src/plugins/file_transfer.rs const MAX_INITIAL_FILE_DATA_CAPACITY
//@ end
// an announcement opens a transfer iff its four numbers decode and it announces at least one package of non-zero size
pub open spec fn announce_ok(a: Seq<DltArg>) -> bool {
    a.len() > 6 && spec_uint(a[1]) is Ok && spec_uint(a[3]) is Ok && spec_uint(a[5]) is Ok && spec_uint(a[6]) is Ok
        && spec_uint(a[5])->Ok_0 > 0 && spec_uint(a[6])->Ok_0 > 0
}
pub open spec fn flst_post(o: FileTransferPlugin, f: FileTransferPlugin, e: DltChar4, lc: u32, a: Seq<DltArg>) -> bool {
    let n = o.transfers@.len() as int;
    &&& f.inv() // O:ftp.flst.inv
    // an announcement changes no existing transfer
    &&& f.transfers@.len() >= n && forall|i: int| 0 <= i < n ==> settled(o.transfers@[i], #[trigger] f.transfers@[i]) // O:ftp.flst.frame
    // a good announcement opens exactly one transfer - fresh, in state Started, expecting package 1, with the announced numbers - and
    // from now on the key (ECU, lifecycle, serial) leads to it (also when the key was in use: a re-announcement starts over)
    &&& (announce_ok(a) ==> ({
            let t = f.transfers@[n];
            let key = (e, lc, spec_uint(a[1])->Ok_0);
            f.transfers@.len() == n + 1 && key_of(t) == key && f.transfers_idx.m() == o.transfers_idx.m().insert(key, n as usize)
            && t@.state is Started && t@.next == 1 && t@.recvd == 0 && t@.payload_len == 0 && t@.data.len() == 0
            && t@.fsize == spec_uint(a[3])->Ok_0 && t@.nr == spec_uint(a[5])->Ok_0 && t@.bsize == spec_uint(a[6])->Ok_0
        })) // O:ftp.flst.opens
    // anything else opens nothing
    &&& (!announce_ok(a) ==> f.transfers@.len() == n && f.transfers_idx.m() == o.transfers_idx.m()) // O:ftp.flst.else_nothing
}
//@ extract src/plugins/file_transfer.rs region `>if FileTransferPlugin::is_type(msg, "FLST") {` .. `$end` in <Plugin for FileTransferPlugin>::process_msg
//@   sig #[verifier::loop_isolation(false)] #[verifier::allow_complex_invariants] pub fn flst_msg<'a, A: VArgIter<'a>>(vx_self: &mut FileTransferPlugin, msg: &VxMsgKey, mut vx_args: A)
//@   cut R12 `let args = msg.into_iter();`
//@   sub R13 `for (i, arg) in args.enumerate() {` => `let mut vx_i: usize = 0; loop { let arg = match vx_args.next() { Some(vx_a) => vx_a, None => break }; let i = vx_i; vx_i += 1;`
//@   sub R12 `self` => `vx_self` *
//@   sub R11 `file_name += &name;` => `vx_string_append(&mut file_name, &name);`
//@   sub R11 `file_creation_date += &name;` => `vx_string_append(&mut file_creation_date, &name);`
//@   sub R12 `.entry(__).or_insert(__)` => `.vx_entry_or_insert($1, $2)` ?
//@   sub R11 `Vec::with_capacity(` => `vx_with_capacity(`
//@   sub R3 `std::cmp::min(` => `vx_min_u64(` ?
//@   spec
//@|    requires old(vx_self).inv(), old(vx_self).transfers@.len() < usize::MAX,
//@|    ensures flst_post(*old(vx_self), *final(vx_self), msg.ecu, msg.lifecycle, vx_args.rem()), // O:ftp.flst
//@   hint start
//@|    let ghost a0 = vx_args.rem();
//@|    let ghost s0 = *vx_self;
//@|    proof { assert forall|i: int| 0 <= i < s0.transfers@.len() implies settled(s0.transfers@[i], #[trigger] s0.transfers@[i]) by { lemma_settled_refl(s0.transfers@[i]); } }
//@   loop inner `vx_args.next()`
//@|    invariant_except_break
//@|        vx_i <= 6, vx_i <= a0.len(), vx_args.rem() == a0.skip(vx_i as int),
//@|        vx_i >= 2 ==> spec_uint(a0[1]) == Ok::<u64, ()>(serial),
//@|        vx_i >= 4 ==> spec_uint(a0[3]) == Ok::<u64, ()>(file_size),
//@|        vx_i >= 6 ==> spec_uint(a0[5]) == Ok::<u64, ()>(nr_packages),
//@|        vx_i < 2 ==> serial == 0, vx_i < 4 ==> file_size == 0, vx_i < 6 ==> nr_packages == 0, buffer_size == 0,
//@|    invariant
//@|        *vx_self == s0,
//@|    ensures
//@|        (nr_packages > 0 && buffer_size > 0) ==> a0.len() > 6 && spec_uint(a0[1]) == Ok::<u64, ()>(serial) && spec_uint(a0[3]) == Ok::<u64, ()>(file_size)
//@|            && spec_uint(a0[5]) == Ok::<u64, ()>(nr_packages) && spec_uint(a0[6]) == Ok::<u64, ()>(buffer_size),
//@|        !(nr_packages > 0 && buffer_size > 0) ==> !announce_ok(a0),
//@|    decreases vx_args.rem().len(),
//@ end

// ---------- check_auto_save / base_name_for_filetransfer: "automatic saving never overwrites an existing file and never writes
// outside the configured directory" ----------
// R12 models of std::path / std::fs (ASSUMED, from their documentation): a path is its text; `Path::file_name()` is the last normal
// component (no separator, not `..`) if there is one; `dir.join(base)` for such a component lies directly in `dir`; `parent()` of
// `dir.join(base)` is not below it; the file system is a ghost record of what exists and of every create-and-write.
pub uninterp spec fn spec_is_base_name(s: Seq<char>) -> bool;
pub uninterp spec fn spec_join(dir: Seq<char>, name: Seq<char>) -> Seq<char>;
pub trait VxPathText { spec fn t(&self) -> Seq<char>; }
impl VxPathText for String { open spec fn t(&self) -> Seq<char> { self@ } }
impl VxPathText for str { open spec fn t(&self) -> Seq<char> { self@ } }
impl<T: VxPathText + ?Sized> VxPathText for &T { open spec fn t(&self) -> Seq<char> { (**self).t() } }
// what existed when check_auto_save was entered (the routine itself only ever adds directories above the file it writes; changes by
// other processes in between - TOCTOU - are outside the model)
pub uninterp spec fn spec_present0(p: Seq<char>) -> bool;
#[verifier::external_body]
pub struct VxPath { _p: u8 }
impl VxPathText for VxPath { open spec fn t(&self) -> Seq<char> { self.text() } }
#[verifier::external_body]
pub struct VxOsStr { _p: u8 }
#[verifier::external_body]
pub struct VxCow { _p: u8 }
impl VxOsStr {
    pub uninterp spec fn text(&self) -> Seq<char>;
    #[verifier::external_body]
    pub fn to_string_lossy(&self) -> (r: VxCow) ensures r.text() == self.text() { unimplemented!() }
}
impl VxCow {
    pub uninterp spec fn text(&self) -> Seq<char>;
    #[verifier::external_body]
    pub fn into_owned(self) -> (r: String) ensures r@ == self.text() { unimplemented!() }
}
impl VxPath {
    pub uninterp spec fn text(&self) -> Seq<char>;
    #[verifier::external_body]
    pub fn new<T: VxPathText>(s: T) -> (r: VxPath) ensures r.text() == s.t() { unimplemented!() }
    // Path::exists(): reports false only for what did not exist at entry
    #[verifier::external_body]
    pub fn exists(&self) -> (r: bool) ensures !r ==> !spec_present0(self.text()) { unimplemented!() }
    // `.file_name().map(|s| s.to_string_lossy())`
    #[verifier::external_body]
    pub fn vx_file_name_lossy(&self) -> (r: Option<VxCow>) ensures r is Some ==> spec_is_base_name(r->Some_0.text()) { unimplemented!() }
    #[verifier::external_body]
    pub fn is_relative(&self) -> (r: bool) { unimplemented!() }
    #[verifier::external_body]
    pub fn is_absolute(&self) -> (r: bool) { unimplemented!() }
    #[verifier::external_body]
    pub fn file_name(&self) -> (r: Option<VxOsStr>) ensures r is Some ==> spec_is_base_name(r->Some_0.text()) { unimplemented!() }
    #[verifier::external_body]
    pub fn join<T: VxPathText>(&self, name: T) -> (r: VxPath) ensures r.text() == spec_join(self.text(), name.t()) { unimplemented!() }
    #[verifier::external_body]
    pub fn parent(&self) -> (r: Option<&VxPath>) { unimplemented!() }
    #[verifier::external_body]
    pub fn to_str(&self) -> (r: Option<&str>) { unimplemented!() }
}
pub struct VxWrite { pub path: Seq<char>, pub data: Seq<u8>, pub existed: bool }
#[verifier::external_body]
pub struct VxFs { _p: u8 }
impl VxFs {
    pub uninterp spec fn writes(&self) -> Seq<VxWrite>;          // every create-and-write so far
    // std::fs::create_dir_all(q): may create q and its ancestors, nothing else; writes no file
    #[verifier::external_body]
    pub fn create_dir_all<T: VxPathText>(&mut self, q: T) -> (r: Result<(), VxIoErr>)
        ensures final(self).writes() == old(self).writes(),
    { unimplemented!() }
    // `File::create(&path).and_then(|mut f| f.write_all(data))`: truncates/creates the file and writes the bytes
    #[verifier::external_body]
    pub fn create_and_write<T: VxPathText>(&mut self, p: T, data: &Vec<u8>) -> (r: Result<(), VxIoErr>)
        ensures
            r is Ok ==> final(self).writes() == old(self).writes().push(VxWrite { path: p.t(), data: data@, existed: spec_present0(p.t()) }),
            r is Err ==> final(self).writes() == old(self).writes() || final(self).writes() == old(self).writes().push(VxWrite { path: p.t(), data: Seq::empty(), existed: spec_present0(p.t()) }),
    { unimplemented!() }
}
#[verifier::external_body]
pub struct VxIoErr { _p: u8 }
#[verifier::external_body]
pub fn vx_path_text_owned(p: &VxPath) -> (r: Option<String>) { unimplemented!() }

// the placeholder `format!("<invalid_filename serial {}>", serial)`: a text without a path separator (by reading the literal)
#[verifier::external_body]
pub fn vx_placeholder_name() -> (r: String) ensures spec_is_base_name(r@) { unimplemented!() }
impl FileTransferPlugin {
//@ extract src/plugins/file_transfer.rs FileTransferPlugin::base_name_for_filetransfer
//@   sub R12 `std::path::Path::new(` => `VxPath::new(` *
//@   sub R12 `.file_name() .map(|s| s.to_string_lossy())` => `.vx_file_name_lossy()` ?
//@   sub R6 `vx_opaque_string()` => `vx_placeholder_name()`
//@   spec
//@|    ensures spec_is_base_name(r@), // O:save.base_name (the name used for saving is a single path component: the last component of the announced name, or a placeholder)
//@ end
}
// what auto-save may do to the file system: at most one create-and-write - of the complete transfer's bytes, to a path directly in the
// configured directory (or "./"), which did not exist
pub open spec fn save_post(t0: FileTransfer, fs0: &VxFs, fs1: &VxFs, dir: Option<String>) -> bool {
    fs1.writes() == fs0.writes() || ({
        let w = fs1.writes().last();
        &&& fs1.writes().drop_last() =~= fs0.writes()
        &&& t0.state == FileTransferState::Complete                                       // O:save.complete_only
        &&& (w.data == t0.file_data@ || w.data.len() == 0)                                // O:save.bit_exact (the bytes written are the transfer's bytes; a failed write may leave an empty file)
        &&& !w.existed                                                                    // O:save.no_overwrite
        &&& exists|b: Seq<char>| #[trigger] spec_is_base_name(b) && w.path == spec_join(if dir is Some { dir->Some_0@ } else { "./"@ }, b)   // O:save.inside_dir
    })
}
// everything of the transfer but the kept bytes (dropped after saving unless they are to be kept) and the saved-to note
pub open spec fn save_frame(a: FileTransfer, b: FileTransfer, keep_data: bool) -> bool {
    &&& settled(a, b)
    &&& (b.file_data == a.file_data || (!keep_data && a.state == FileTransferState::Complete && b.file_data@.len() == 0))
}
impl FileTransferPlugin {
//@ extract src/plugins/file_transfer.rs FileTransferPlugin::check_auto_save
//@   sub R12 `glob: &Option<glob::Pattern>,` => `vx_fs: &mut VxFs, glob: &Option<VxGlob>,`
//@   sub R12 `std::path::Path::new(` => `VxPath::new(` *
//@   sub R12 `std::fs::create_dir_all(__)` => `vx_fs.create_dir_all($1)` ?
//@   sub R12 `File::create(__) .and_then(|mut f| f.write_all(__))` => `vx_fs.create_and_write($1, $2)` ?
//@   sub R12 `_id_.to_str().map(|p| p.to_owned())` => `vx_path_text_owned(&$1)` ?
//@   sub R11 `file_transfer.file_data.capacity()` => `vx_capacity(&file_transfer.file_data)`
//@   spec
//@|    ensures
//@|        save_frame(*old(file_transfer), *final(file_transfer), keep_data), // O:save.frame
//@|        save_post(*old(file_transfer), old(vx_fs), final(vx_fs), *path), // O:save.fs (at most one write: of a complete transfer's bytes, to a path directly in the configured directory that did not exist)
//@ end
}

// ---------- update_state: what is moved into the store the manual `save` command writes from ----------
// the selection closure of `self.transfers.iter_mut().enumerate().filter(|(_, t)| ..).collect()`: only a transfer that is Complete (and
// still holds its bytes) hands them to `completed_transfers` - an incomplete transfer can never be saved through the command
//@ extract src/plugins/file_transfer.rs closure FileTransferPlugin::update_state#1
//@   sig pub fn update_state_selects(t: &FileTransfer) -> (r: bool)
//@   spec
//@|    ensures r == (t.file_data@.len() > 0 && t.state == FileTransferState::Complete), // O:save.store_complete_only
//@ end
// ---- end of units/ftplugin/part.rs ----
