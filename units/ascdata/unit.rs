//@ unit ascdata
// C03 (text converters, slicing): the data bytes of a CAN / CAN-FD line of an .asc file are cut out of the line and decoded without
// panicking, whatever (valid UTF-8) text the line contains; a logcat tag is shortened without panicking.
#![allow(unused_imports, dead_code, unused_variables, unused_mut, non_upper_case_globals)]
use vstd::prelude::*;
verus! {
global size_of usize == 8;

//@ include prelude/std_specs.rs
//@ include units/dltcore/part.rs

// R11: &str by bytes. `blen` = length in bytes; `boundary(s, k)`: byte offset k is a character boundary (0 and blen always are);
// indexing a str by a byte range panics unless both ends are boundaries inside the text; `get(range)` answers None instead;
// an ASCII text has a boundary at every offset.
pub uninterp spec fn blen(s: &str) -> nat;
pub uninterp spec fn boundary(s: &str, k: int) -> bool;
#[verifier::external_body]
pub fn vx_blen(s: &str) -> (r: usize) ensures r == blen(s), boundary(s, 0), boundary(s, r as int) { s.len() }
#[verifier::external_body]
pub fn vx_str_slice<'a>(s: &'a str, a: usize, b: usize) -> (r: &'a str)
    requires a <= b <= blen(s), boundary(s, a as int), boundary(s, b as int), // O:asc.slice.char_boundary
    ensures blen(r) == b - a, forall|k: int| 0 <= k <= b - a ==> (boundary(r, k) == boundary(s, a + k)),
{ &s[a..b] }
#[verifier::external_body]
pub fn vx_str_get<'a>(s: &'a str, a: usize, b: usize) -> (r: Option<&'a str>)
    ensures r is Some ==> a <= b <= blen(s) && blen(r->Some_0) == b - a && forall|k: int| 0 <= k <= b - a ==> (boundary(r->Some_0, k) == boundary(s, a + k)),
{ s.get(a..b) }
#[verifier::external_body]
pub fn vx_is_ascii(s: &str) -> (r: bool) ensures r ==> forall|k: int| 0 <= k <= blen(s) ==> boundary(s, k) { s.is_ascii() }
#[verifier::external_body]
pub fn vx_u8_from_str_radix16(s: &str) -> (r: Result<u8, ()>) { u8::from_str_radix(s, 16).map_err(|_| ()) }

// the line (a String): its text
#[verifier::external_body]
pub struct VxLine { _p: u8 }
impl VxLine {
    pub uninterp spec fn s(&self) -> &'static str;
    #[verifier::external_body]
    pub fn as_str(&self) -> (r: &str) ensures r == self.s() { unimplemented!() }
}

// hex_to_bytes (src/utils/mod.rs): "11 22 33" -> [0x11, 0x22, 0x33]
//@ extract src/utils/mod.rs fn hex_to_bytes
//@   attr #[verifier::loop_isolation(false)]
//@   sub R11 `s.len()` => `vx_blen(s)` *
//@   sub R11 `s.is_ascii()` => `vx_is_ascii(s)` ?
//@   sub R13 `for _id_ in (0..__).step_by(3) {` => `let mut vx_i: usize = 0; let vx_n: usize = $2; while vx_i < vx_n { let $1 = vx_i; vx_i = if vx_i <= vx_n { vx_i + 3 } else { vx_n };`
//@   sub R11 `u8::from_str_radix(&s[_id_.._id_ + 2], 16)` => `vx_u8_from_str_radix16(vx_str_slice(s, $1, $2 + 2))`
//@   spec
//@|    requires blen(s) <= usize::MAX - 4,
//@|    ensures true, // O:asc.hex.no_panic (decoding the hex text cannot panic, whatever text it is given)
//@   loop inner `vx_str_slice(`
//@|    invariant vx_n == blen(s), vx_n >= 2, (vx_n - 2) % 3 == 0, vx_i % 3 == 0, vx_i <= vx_n + 1,
//@|    decreases vx_n + 1 - vx_i,
//@ end

// get_4digit_str (src/utils/mod.rs; used by get_apid_for_tag for logcat tags): "abcd", 42 -> "ab42"
#[verifier::external_body]
pub struct VxCowStr { _p: u8 }
#[verifier::external_body]
pub fn vx_cow_from(s: &str) -> (r: VxCowStr) { unimplemented!() }
#[verifier::external_body]
pub fn vx_cow_prefix_number(prefix: &str, n: u16) -> (r: VxCowStr) { unimplemented!() }
#[verifier::external_body]
pub fn vx_cow_padded(s: &str, n: u16, width: usize) -> (r: VxCowStr) { unimplemented!() }
// u16::to_string(): 1 to 5 digits
#[verifier::external_body]
pub fn vx_u16_digits(n: u16) -> (r: usize) ensures 1 <= r <= 5 { n.to_string().len() }
//@ extract src/utils/mod.rs fn get_4digit_str
//@   rules R1 R2 R3 R4 R5
//@   sub R12 `Cow<'_, str>` => `VxCowStr`
//@   sub R11 `Cow::from(a_str)` => `vx_cow_from(a_str)`
//@   sub R11 `a_str.len()` => `vx_blen(a_str)`
//@   sub R11 `let number_str = iteration.to_string();` => ``
//@   sub R11 `number_str.len()` => `vx_u16_digits(iteration)`
//@   sub R6 `Cow::Owned(format!("{}{:0len$}", a_str, iteration, len = 4 - len_str))` => `vx_cow_padded(a_str, iteration, 4 - len_str)`
//@   sub R6 `Cow::Owned(format!("{}{}", &a_str[0..needed_str], iteration))` => `vx_cow_prefix_number(vx_str_slice(a_str, 0, needed_str), iteration)` ?
//@   sub R6 `Cow::Owned(format!("{}{}", a_str.get(0..needed_str).unwrap_or(""), iteration))` => `vx_cow_prefix_number(vx_str_get(a_str, 0, needed_str).unwrap_or(""), iteration)` ?
//@   spec
//@|    ensures true, // O:asc.tag4.no_panic (shortening a tag to make room for a number cannot panic, whatever the tag)
//@ end

// logcat threadtime parsing (src/utils/logcat2dltmsgiterator.rs): the length guard and the fixed-offset slices of parse_threadtime_str
// ("mm-dd hh:mm:ss.mss") and parse_mmdd_str ("mm-dd"); chrono is not modelled, the regions end before the date arithmetic
#[verifier::external_body]
pub fn vx_parse_u32(s: &str) -> (r: u32) { s.parse::<u32>().unwrap_or_default() }
#[verifier::external_body]
pub fn vx_str_from<'a>(s: &'a str, a: usize) -> (r: &'a str)
    requires a <= blen(s), boundary(s, a as int), // O:asc.slice.char_boundary.from
{ &s[a..] }
#[verifier::external_body]
pub struct VxDate { _p: u8 }
//@ extract src/utils/logcat2dltmsgiterator.rs region `if mmdd.len() != 5` .. `let _id_: u32 = mmdd[3..]` in fn parse_mmdd_str
//@   sig pub fn mmdd_slices(mmdd: &str) -> (r: Option<VxDate>)
//@   tail `None`
//@   sub R11 `mmdd.len()` => `vx_blen(mmdd)`
//@   sub R11 `mmdd.is_ascii()` => `vx_is_ascii(mmdd)` ?
//@   sub R11 `mmdd[0..2].parse::<u32>().unwrap_or_default()` => `vx_parse_u32(vx_str_slice(mmdd, 0, 2))`
//@   sub R11 `mmdd[3..].parse::<u32>().unwrap_or_default()` => `vx_parse_u32(vx_str_from(mmdd, 3))`
//@   spec
//@|    ensures true, // O:asc.mmdd.no_panic
//@ end
#[verifier::external_body]
pub fn parse_mmdd_str(mmdd: &str, ref_date: &VxDate) -> (r: Option<VxDate>) { unimplemented!() }
#[verifier::external_body]
pub fn vx_date_or(d: Option<VxDate>, ref_date: &VxDate) -> (r: VxDate) { unimplemented!() }
// (two shapes of the guard in front of the slices: with the ASCII test - the repaired text - its facts are the precondition; without
// it only the length is known and the boundary obligations fail: the regression is decided, not lost)
//@ extract src/utils/logcat2dltmsgiterator.rs region `>if timestamp.len() != 18 || !timestamp.is_ascii() { None } else {` .. `let milli: u32 = timestamp[15..18]` in fn parse_threadtime_str
//@   when `timestamp.is_ascii()`
//@   sig pub fn threadtime_slices(timestamp: &str, ref_date: &VxDate) -> (r: u32)
//@   tail `milli`
//@   sub R11 `parse_mmdd_str(&timestamp[0..5], ref_date).unwrap_or(*ref_date)` => `vx_date_or(parse_mmdd_str(vx_str_slice(timestamp, 0, 5), ref_date), ref_date)`
//@   sub R11 `timestamp[6..8].parse::<u32>().unwrap_or_default()` => `vx_parse_u32(vx_str_slice(timestamp, 6, 8))`
//@   sub R11 `timestamp[9..11].parse::<u32>().unwrap_or_default()` => `vx_parse_u32(vx_str_slice(timestamp, 9, 11))`
//@   sub R11 `timestamp[12..14].parse::<u32>().unwrap_or_default()` => `vx_parse_u32(vx_str_slice(timestamp, 12, 14))`
//@   sub R11 `timestamp[15..18].parse::<u32>().unwrap_or_default()` => `vx_parse_u32(vx_str_slice(timestamp, 15, 18))`
//@   spec
//@|    requires blen(timestamp) == 18, forall|k: int| 0 <= k <= blen(timestamp) ==> boundary(timestamp, k), // the guard: 18 bytes, all ASCII
//@|    ensures true, // O:asc.threadtime.no_panic
//@ end
//@ extract src/utils/logcat2dltmsgiterator.rs region `>if timestamp.len() != 18 { None } else {` .. `let milli: u32 = timestamp[15..18]` in fn parse_threadtime_str
//@   unless `timestamp.is_ascii()`
//@   sig pub fn threadtime_slices(timestamp: &str, ref_date: &VxDate) -> (r: u32)
//@   tail `milli`
//@   sub R11 `parse_mmdd_str(&timestamp[0..5], ref_date).unwrap_or(*ref_date)` => `vx_date_or(parse_mmdd_str(vx_str_slice(timestamp, 0, 5), ref_date), ref_date)`
//@   sub R11 `timestamp[6..8].parse::<u32>().unwrap_or_default()` => `vx_parse_u32(vx_str_slice(timestamp, 6, 8))`
//@   sub R11 `timestamp[9..11].parse::<u32>().unwrap_or_default()` => `vx_parse_u32(vx_str_slice(timestamp, 9, 11))`
//@   sub R11 `timestamp[12..14].parse::<u32>().unwrap_or_default()` => `vx_parse_u32(vx_str_slice(timestamp, 12, 14))`
//@   sub R11 `timestamp[15..18].parse::<u32>().unwrap_or_default()` => `vx_parse_u32(vx_str_slice(timestamp, 15, 18))`
//@   spec
//@|    requires blen(timestamp) == 18, // the guard: 18 bytes
//@|    ensures true, // O:asc.threadtime.no_panic
//@ end

// Asc2DltMsgIterator::timestamp_dms_from: the message timestamp (0.1 ms) from the line's relative time stamp and the offset to the
// reference time (R12: the two fields of the iterator it reads)
pub assume_specification [i64::saturating_sub] (a: i64, b: i64) -> (r: i64)
    ensures r as int == (if a - b > i64::MAX { i64::MAX as int } else if a - b < i64::MIN { i64::MIN as int } else { a - b });
pub struct VxAscTimes { pub timestamp_offset_dms: u32, pub first_neg_timestamp_us: i64 }
//@ extract src/utils/asc2dltmsgiterator.rs Asc2DltMsgIterator::timestamp_dms_from
//@   sub R12 `fn timestamp_dms_from(&self, timestamp_us: i64) -> u32` => `fn timestamp_dms_from(vx_self: &VxAscTimes, timestamp_us: i64) -> u32`
//@   sub R12 `self` => `vx_self` *
//@   spec
//@|    requires timestamp_us > i64::MIN, // the result of parse_signed_time_str (O:asc.time.range, unit logcattime)
//@|    ensures true, // O:asc.timestamp.no_overflow (whatever time stamp the line carries and whatever the offset to the reference time is)
//@ end

// LogCat2DltMsgIterator::next, a threadtime line: time stamp and reception time from the parsed date-time. R12: chrono's NaiveDateTime
// as microseconds since the epoch (mathematical integer), the iterator reduced to the fields these statements touch.
#[verifier::external_body]
pub struct VxDateTime { _p: u8 }
#[verifier::external_body]
pub struct VxDuration { _p: u8 }
impl VxDuration {
    pub uninterp spec fn us(&self) -> int;
    #[verifier::external_body]
    pub fn num_microseconds(&self) -> (r: Option<i64>) ensures r is Some ==> r->Some_0 as int == self.us(), (i64::MIN as int <= self.us() <= i64::MAX as int) ==> r is Some { unimplemented!() }
}
impl VxDateTime {
    pub uninterp spec fn us(&self) -> int;
    #[verifier::external_body]
    pub fn vx_lt(&self, o: &VxDateTime) -> (r: bool) ensures r == (self.us() < o.us()) { unimplemented!() }
    #[verifier::external_body]
    pub fn vx_ge(&self, o: &VxDateTime) -> (r: bool) ensures r == (self.us() >= o.us()) { unimplemented!() }
    #[verifier::external_body]
    pub fn signed_duration_since(&self, o: VxDateTime) -> (r: VxDuration) ensures r.us() == self.us() - o.us() { unimplemented!() }
    #[verifier::external_body]
    pub fn and_utc(&self) -> (r: VxDateTime) ensures r.us() == self.us() { unimplemented!() }
    // chrono documents the range of dates it represents: far inside i64 microseconds
    #[verifier::external_body]
    pub fn timestamp_micros(&self) -> (r: i64) ensures r as int == self.us() { unimplemented!() }
    #[verifier::external_body]
    pub fn clone(&self) -> (r: VxDateTime) ensures r.us() == self.us() { unimplemented!() }
}
pub struct VxLogcatTimes {
    pub max_threadtime_treat_as_timestamp_start: VxDateTime,   // 1 Jan 00:00 of the reference year
    pub max_threadtime_treat_as_timestamp: VxDateTime,         // 1 Jan 12:00 of the reference year
    pub threadtime_last_monotonic_timestamp: u64,
    pub threadtime_timestamp_reference: Option<u64>,
    pub recorded_start_time_us: u64,
}
impl VxLogcatTimes {
    // as LogCat2DltMsgIterator::new sets the fields up, and as this step keeps them
    pub open spec fn inv(&self) -> bool {
        &&& 0 <= self.max_threadtime_treat_as_timestamp_start.us() <= 0x1000_0000_0000_0000
        &&& self.max_threadtime_treat_as_timestamp.us() == self.max_threadtime_treat_as_timestamp_start.us() + 43_200_000_000
        &&& self.threadtime_last_monotonic_timestamp < 43_200_000_000
        &&& self.recorded_start_time_us <= 0x7fff_ffff_ffff_ffff   // the recording start (file modification time / now) in us: below 2^63 (ASSUMED)
    }
}
//@ extract src/utils/logcat2dltmsgiterator.rs region `let (timestamp_us, reception_time_us) = if threadtime` .. `let (timestamp_us, reception_time_us) = if threadtime` in <Iterator for LogCat2DltMsgIterator>::next
//@   sig pub fn threadtime_times(vx_self: &mut VxLogcatTimes, threadtime: VxDateTime) -> (r: (u64, u64))
//@   tail `(timestamp_us, reception_time_us)`
//@   sub R12 `self` => `vx_self` *
//@   sub R12 `threadtime < vx_self.max_threadtime_treat_as_timestamp` => `threadtime.vx_lt(&vx_self.max_threadtime_treat_as_timestamp)`
//@   sub R12 `threadtime >= vx_self.max_threadtime_treat_as_timestamp_start` => `threadtime.vx_ge(&vx_self.max_threadtime_treat_as_timestamp_start)` ?
//@   sub R12 `vx_self.max_threadtime_treat_as_timestamp_start,` => `vx_self.max_threadtime_treat_as_timestamp_start.clone(),` ?
//@   spec
//@|    requires old(vx_self).inv(), 0 <= threadtime.us() <= i64::MAX as int,   // parse_mmdd_str never goes below the year 1970
//@|        threadtime.us() < old(vx_self).max_threadtime_treat_as_timestamp_start.us() ==> threadtime.us() >= 43_200_000_000, // ASSUMED: a date taken as 'previous year' is later in the year than the reference date, hence not within the first 12 h of 1970
//@|    ensures final(vx_self).inv(), // O:asc.threadtime.times_no_overflow (+ the arithmetic obligations of the statement: no overflow whatever date the line carries)
//@ end

// LogCat2DltMsgIterator::get_apid_info_msg: the statements that build the control message announcing a tag's APID (R12: the iterator
// reduced to the fields read here; the payload built in front of them is any byte vector - its length is 15 + the length of the tag)
pub struct VxLogcatHdr { pub index: u32, pub ecu: DltChar4, pub ctid: DltChar4, pub htyp: u8, pub len_wo_payload: u16, pub recorded_start_time_us: u64 }
impl VxLogcatHdr {
    pub fn timestamp_dms_from(&self, timestamp_us: u64) -> (r: u32) { (timestamp_us / 100) as u32 }
}
impl DltChar4 {
    #[verifier::external_body]
    pub fn to_owned(&self) -> (r: DltChar4) ensures r == *self { unimplemented!() }
}
//@ extract src/utils/logcat2dltmsgiterator.rs region `let index = self.index;` .. `$end` in LogCat2DltMsgIterator::get_apid_info_msg
//@   sig pub fn apid_info_msg(vx_self: &mut VxLogcatHdr, apid: &DltChar4, reception_time_us: u64, timestamp_us: u64, payload: Vec<u8>) -> (r: Option<DltMessage>)
//@   sub R12 `self` => `vx_self` *
//@   spec
//@|    requires old(vx_self).index < u32::MAX, // fewer than 2^32 messages (ASSUMED)
//@|    ensures true, // O:asc.logcat.apid_msg_no_overflow (whatever the length of the tag)
//@ end

// Asc2DltMsgIterator::next, a comment line `// BusMapping: CAN 1 = name`: the byte-offset slices that locate the channel number
// (entry fact: RE_COMMENT `^//` matched, the line starts with two ASCII characters)
#[verifier::external_body]
pub fn vx_str_from_b<'a>(s: &'a str, a: usize) -> (r: &'a str)
    requires a <= blen(s), boundary(s, a as int), // O:asc.slice.char_boundary.from
    ensures blen(r) == blen(s) - a, forall|k: int| 0 <= k <= blen(s) - a ==> (boundary(r, k) == boundary(s, a + k)),
{ &s[a..] }
// str::trim: a sub-slice between two boundaries (which ones is not needed)
#[verifier::external_body]
pub fn vx_trim<'a>(s: &'a str) -> (r: &'a str) ensures blen(r) <= blen(s) { s.trim() }
// str::starts_with(ASCII literal of n bytes): the text then has at least n bytes and a boundary after each of the first n
#[verifier::external_body]
pub fn vx_starts_with_ascii(s: &str, n: usize) -> (r: bool)
    ensures r ==> blen(s) >= n && forall|k: int| 0 <= k <= n ==> boundary(s, k),
{ unimplemented!() }
// str::find(' '): the byte offset of an ASCII character - a boundary before and after it
#[verifier::external_body]
pub fn vx_find_space(s: &str) -> (r: Option<usize>)
    ensures r is Some ==> r->Some_0 < blen(s) && boundary(s, r->Some_0 as int) && boundary(s, r->Some_0 + 1),
{ s.find(' ') }
//@ extract src/utils/asc2dltmsgiterator.rs region `let comment = &line[2..].trim();` .. `if comment.starts_with("BusMapping: CAN") {` in <Iterator for Asc2DltMsgIterator>::next
//@   sig pub fn asc_busmapping_slices(line: &str) -> (r: usize)
//@   sub R11 `&line[2..].trim()` => `&vx_trim(vx_str_from_b(line, 2))`
//@   sub R11 `comment.starts_with("BusMapping: CAN")` => `vx_starts_with_ascii(comment, 15)`
//@   sub R11 `comment[14..].find(' ')` => `vx_find_space(vx_str_from_b(comment, 14))`
//@   sub R11 `if let Some((id, name)) = comment[id_idx..].split_once('=') { __ }` => `let vx_rest = vx_str_from_b(comment, id_idx); return id_idx;`
//@   tail `0`
//@   spec
//@|    requires blen(line) >= 2, boundary(line, 2), // the line starts with `//`
//@|        blen(line) <= isize::MAX, // (Rust: no allocation exceeds isize::MAX bytes)
//@|    ensures true, // O:asc.busmapping.no_panic
//@ end

// get_apid_for_tag: the numbering loop for a tag that has no APID yet (R12: the per-namespace map is opaque; R11: the candidate - the `match`
// on the tag's length with the snake-case / camel-case abbreviation and get_4digit_str - is cut to a stub: any four characters).
// What is proved: the loop ends and its counter does not overflow, whatever the map holds (every candidate may be taken).
#[verifier::external_body]
pub struct VxTagMap { _p: u8 }
impl VxTagMap {
    // map.iter().find(|(_k, v)| v == &&apid)
    #[verifier::external_body]
    pub fn vx_find_apid(&self, apid: &DltChar4) -> (r: Option<(u8, u8)>) { unimplemented!() }
    // map.iter().any(|(_k, v)| v == &apid)
    #[verifier::external_body]
    pub fn vx_apid_taken(&self, apid: &DltChar4) -> (r: bool) { unimplemented!() }
    #[verifier::external_body]
    pub fn vx_insert(&mut self, tag: &str, apid: DltChar4) { unimplemented!() }
}
#[verifier::external_body]
pub fn vx_apid_candidate(trimmed_tag: &str, iteration: u16) -> (r: DltChar4) { unimplemented!() }
//@ extract src/utils/mod.rs region `let mut iteration = 0u16;` .. `$end` in fn get_apid_for_tag
//@   sig pub fn apid_numbering(map: &mut VxTagMap, tag: &str, trimmed_tag: &str) -> (r: DltChar4)
//@   sub R11 `match trimmed_tag.len() { __ }` => `vx_apid_candidate(trimmed_tag, iteration)`
//@   sub R12 `map.iter().find(__)` => `map.vx_find_apid(&apid)` ?
//@   sub R12 `map.iter().any(__)` => `map.vx_apid_taken(&apid)` ?
//@   sub R12 `map.values().any(__)` => `map.vx_apid_taken(&apid)` ?
//@   sub R12 `map.values().find(__)` => `map.vx_find_apid(&apid)` ?
//@   sub R12 `map.insert(tag.to_owned(), apid.to_owned())` => `map.vx_insert(tag, apid.to_owned())`
//@   spec
//@|    ensures true, // O:asc.apid.numbering_ends (termination and no counter overflow for every content of the map)
//@   loop 1
//@|    decreases 0xFFFF - iteration, // O:asc.apid.numbering_ends (whatever bound below the counter's range the loop gives itself)
//@ end

// LogCat2DltMsgIterator::next: the statements that build the log message of a monotonic-format line and of a threadtime line. The text
// of the message is what follows the time stamp and one white-space character in the matched line (entry fact: a capture ends on a
// character boundary inside the line; `\s` of the regexes matches multi-byte white space as well)
#[verifier::external_body]
pub fn vx_str_to_owned(s: &str) -> (r: String) { s.to_owned() }
// skip_first_char (src/utils/logcat2dltmsgiterator.rs): `chars()`, `next()`, `as_str()` - std's char iterator, not under contract
#[verifier::external_body]
pub fn skip_first_char<'a>(s: &'a str) -> (r: &'a str) { unimplemented!() }
//@ extract src/dlt/mod.rs enum DltMessageLogType
//@ end
//@ extract src/utils/logcat2dltmsgiterator.rs region `let index = self.index;` .. `let log_msg = DltMessage {` in <Iterator for LogCat2DltMsgIterator>::next
//@   sig pub fn logcat_monotonic_msg(vx_self: &mut VxLogcatHdr, cap_str: &str, loc_timestamp: (usize, usize), log_level: DltMessageLogType, apid: DltChar4, timestamp_us: u64) -> (r: DltMessage)
//@   tail `log_msg`
//@   sub R12 `self` => `vx_self` *
//@   sub R11 `cap_str[loc_timestamp.1 + 1..].to_owned()` => `vx_str_to_owned(vx_str_from_b(cap_str, loc_timestamp.1 + 1))` ?
//@   sub R11 `skip_first_char(&cap_str[loc_timestamp.1..]).to_owned()` => `vx_str_to_owned(skip_first_char(vx_str_from_b(cap_str, loc_timestamp.1)))` ?
//@   spec
//@|    requires loc_timestamp.1 < blen(cap_str), blen(cap_str) <= isize::MAX, boundary(cap_str, loc_timestamp.1 as int), // the capture is followed by at least one more character (`\s+`)
//@|        old(vx_self).index < u32::MAX, // fewer than 2^32 messages (ASSUMED)
//@|    ensures true, // O:asc.logcat.monotonic_msg_no_panic
//@ end
//@ extract src/utils/logcat2dltmsgiterator.rs region `>>let apid_info_msg = if new_apid { self.get_apid_info_msg(&apid, tag, reception_time_us` .. `let log_msg = DltMessage {` in <Iterator for LogCat2DltMsgIterator>::next
//@   sig pub fn logcat_threadtime_msg(vx_self: &mut VxLogcatHdr, cap_str: &str, loc_timestamp: (usize, usize), log_level: DltMessageLogType, apid: DltChar4, timestamp_us: u64, reception_time_us: u64) -> (r: DltMessage)
//@   tail `log_msg`
//@   sub R12 `self` => `vx_self` *
//@   sub R11 `cap_str[loc_timestamp.1 + 1..].to_owned()` => `vx_str_to_owned(vx_str_from_b(cap_str, loc_timestamp.1 + 1))` ?
//@   sub R11 `skip_first_char(&cap_str[loc_timestamp.1..]).to_owned()` => `vx_str_to_owned(skip_first_char(vx_str_from_b(cap_str, loc_timestamp.1)))` ?
//@   spec
//@|    requires loc_timestamp.1 < blen(cap_str), blen(cap_str) <= isize::MAX, boundary(cap_str, loc_timestamp.1 as int),
//@|        old(vx_self).index < u32::MAX, // fewer than 2^32 messages (ASSUMED)
//@|    ensures true, // O:asc.logcat.threadtime_msg_no_panic
//@ end

// GenLog2DltMsgIterator::next: the statements that build the log message of a matched line (the text is a capture: both ends are boundaries)
//@ extract src/utils/genlog2dltmsgiterator.rs region `let index = self.index;` .. `let msg = DltMessage {` in <Iterator for GenLog2DltMsgIterator>::next
//@   sig pub fn genlog_msg(vx_self: &mut VxLogcatHdr, cap_str: &str, loc_msg: (usize, usize), mtin: u8, apid: DltChar4, timestamp_us: u64, reception_time_us: u64, payload: Vec<u8>) -> (r: DltMessage)
//@   tail `msg`
//@   sub R12 `self` => `vx_self` *
//@   sub R11 `cap_str[loc_msg.0..loc_msg.1].to_owned()` => `vx_str_to_owned(vx_str_slice(cap_str, loc_msg.0, loc_msg.1))`
//@   spec
//@|    requires loc_msg.0 <= loc_msg.1 <= blen(cap_str), boundary(cap_str, loc_msg.0 as int), boundary(cap_str, loc_msg.1 as int), // a regex capture
//@|        old(vx_self).index < u32::MAX, // fewer than 2^32 messages (ASSUMED)
//@|    ensures true, // O:asc.genlog.msg_no_panic
//@ end

// Asc2DltMsgIterator::next, a CAN-FD error-frame line: the message built for it
//@ extract src/utils/asc2dltmsgiterator.rs region `let payload = vec![];` .. `return Some(DltMessage {` in <Iterator for Asc2DltMsgIterator>::next
//@   sig pub fn asc_errorframe_msg(vx_self: &mut VxAscIt, can_id: &u8, timestamp_us: i64) -> (r: Option<DltMessage>)
//@   tail `None`
//@   sub R12 `self` => `vx_self` *
//@   sub R11 `vx_self.date_us.saturating_add_signed(timestamp_us)` => `vx_u64_saturating_add_signed(vx_self.date_us, timestamp_us)`
//@   spec
//@|    requires old(vx_self).index < u32::MAX, // fewer than 2^32 messages (ASSUMED)
//@|    ensures true, // O:asc.errorframe.msg_no_panic
//@ end

// the same statements in GenLog2DltMsgIterator::get_apid_info_msg
//@ extract src/utils/genlog2dltmsgiterator.rs region `let index = self.index;` .. `$end` in GenLog2DltMsgIterator::get_apid_info_msg
//@   sig pub fn genlog_apid_info_msg(vx_self: &mut VxLogcatHdr, apid: &DltChar4, reception_time_us: u64, timestamp_us: u64, payload: Vec<u8>) -> (r: Option<DltMessage>)
//@   sub R12 `self` => `vx_self` *
//@   spec
//@|    requires old(vx_self).index < u32::MAX, // fewer than 2^32 messages (ASSUMED)
//@|    ensures true, // O:asc.genlog.apid_msg_no_overflow
//@ end

// Asc2DltMsgIterator::next, a CAN line: from the position of the data-length capture through the decoded data bytes, the payload
// (frame id + data) and the message built from them (R12: the iterator reduced to the fields read here)
pub struct VxAscIt { pub index: u32, pub date_us: u64, pub htyp: u8, pub len_wo_payload: u16, pub apid: DltChar4, pub ctid: DltChar4, pub times: VxAscTimes }
impl VxAscIt {
    #[verifier::external_body]
    pub fn get_ecu(&mut self, can_id: u8, name: &Option<&str>) -> (r: DltChar4)
        ensures final(self).index == old(self).index, final(self).len_wo_payload == old(self).len_wo_payload, final(self).times == old(self).times,
    { unimplemented!() }
    // proved above (timestamp_dms_from, with its body): total
    #[verifier::external_body]
    pub fn timestamp_dms_from(&self, timestamp_us: i64) -> (r: u32) { unimplemented!() }
}
// u64::saturating_add_signed
#[verifier::external_body]
pub fn vx_u64_saturating_add_signed(a: u64, b: i64) -> (r: u64) { a.saturating_add_signed(b) }
// payload.extend(frame_id.to_ne_bytes()): four more bytes
#[verifier::external_body]
pub fn vx_extend_u32(v: &mut Vec<u8>, x: u32)
    ensures final(v)@.len() == old(v)@.len() + 4,
{ v.extend(x.to_ne_bytes()) }
#[verifier::external_body]
pub fn vx_vec_with_capacity_u8(n: usize) -> (r: Vec<u8>)
    requires n <= 0x1_0004, // O:asc.can.payload_prealloc_bounded (allocation clause: 4 + a 16-bit data length)
    ensures r@.len() == 0,
{ Vec::with_capacity(n) }
//@ extract src/utils/asc2dltmsgiterator.rs region `let loc_d_start = loc_d.1 + 1;` .. `return Some(DltMessage {` in <Iterator for Asc2DltMsgIterator>::next
//@   sig pub fn asc_can_msg(vx_self: &mut VxAscIt, line: &VxLine, loc_d: (usize, usize), data_len: &u16, frame_id: u32, can_id: &u8, timestamp_us: i64) -> (r: Option<DltMessage>)
//@   tail `None`
//@   sub R12 `self` => `vx_self` *
//@   sub R11 `line.len()` => `vx_blen(line.as_str())` ?
//@   sub R11 `&line.as_str()[loc_d_start..loc_d_end]` => `vx_str_slice(line.as_str(), loc_d_start, loc_d_end)` ?
//@   sub R11 `line.as_str().get(loc_d_start..loc_d_end)` => `vx_str_get(line.as_str(), loc_d_start, loc_d_end)` ?
//@   sub R11 `Vec::with_capacity((u32::BITS / 8) as usize + (*data_len as usize))` => `vx_vec_with_capacity_u8((32u32 / 8) as usize + (*data_len as usize))`
//@   sub R11 `payload.extend(frame_id.to_ne_bytes());` => `vx_extend_u32(&mut payload, frame_id);`
//@   sub R11 `vx_self.date_us.saturating_add_signed(timestamp_us)` => `vx_u64_saturating_add_signed(vx_self.date_us, timestamp_us)`
//@   spec
//@|    requires loc_d.1 <= blen(line.s()), blen(line.s()) <= usize::MAX - 0x10_0000, boundary(line.s(), loc_d.1 as int), // a regex capture ends on a character boundary inside the line
//@|        old(vx_self).index < u32::MAX, // fewer than 2^32 messages (ASSUMED)
//@|    ensures true, // O:asc.can.data_no_panic
//@ end
// the same for a CAN-FD line (second occurrence of the statements)
//@ extract src/utils/asc2dltmsgiterator.rs region `>>let loc_d = self.capture_locations_canfd.get(8).unwrap();` .. `return Some(DltMessage {` in <Iterator for Asc2DltMsgIterator>::next
//@   sig pub fn asc_canfd_msg(vx_self: &mut VxAscIt, line: &VxLine, cap_str: &str, loc_d: (usize, usize), frame_id: u32, can_id: &u8, timestamp_us: i64) -> (r: Option<DltMessage>)
//@   tail `None`
//@   sub R12 `self` => `vx_self` *
//@   sub R11 `&cap_str[loc_d.0..loc_d.1].parse::<u16>().unwrap_or_default()` => `&vx_parse_u16(cap_str, loc_d.0, loc_d.1)` ?
//@   sub R11 `line.len()` => `vx_blen(line.as_str())` ?
//@   sub R11 `&line.as_str()[loc_d_start..loc_d_end]` => `vx_str_slice(line.as_str(), loc_d_start, loc_d_end)` ?
//@   sub R11 `line.as_str().get(loc_d_start..loc_d_end)` => `vx_str_get(line.as_str(), loc_d_start, loc_d_end)` ?
//@   sub R11 `Vec::with_capacity((u32::BITS / 8) as usize + (*data_len as usize))` => `vx_vec_with_capacity_u8((32u32 / 8) as usize + (*data_len as usize))`
//@   sub R11 `payload.extend(frame_id.to_ne_bytes());` => `vx_extend_u32(&mut payload, frame_id);`
//@   sub R11 `vx_self.date_us.saturating_add_signed(timestamp_us)` => `vx_u64_saturating_add_signed(vx_self.date_us, timestamp_us)`
//@   spec
//@|    requires loc_d.1 <= blen(line.s()), blen(line.s()) <= usize::MAX - 0x10_0000, boundary(line.s(), loc_d.1 as int),
//@|        old(vx_self).index < u32::MAX, // fewer than 2^32 messages (ASSUMED)
//@|    ensures true, // O:asc.canfd.data_no_panic
//@ end
#[verifier::external_body]
pub fn vx_parse_u16(s: &str, a: usize, b: usize) -> (r: u16) { unimplemented!() }

fn main() {}
} // verus!
