// ---- units/verbarg/serde.rs: the serde Serializer's per-type encoders append exactly enc_arg(type word, value bytes) in host order ----
// host byte order = little endian is assumed (x86_64 / aarch64 targets); to_ne_bytes of a value is std's (trusted wrapper)
#[verifier::external_body]
pub fn vx_tinfo_to_ne_bytes(x: u32) -> (r: [u8; 4])
    ensures r@ == le32_bytes(x as int),
{ x.to_ne_bytes() }
#[verifier::external_body]
pub fn vx_len_to_ne_bytes(x: u16) -> (r: [u8; 2])
    ensures r@ == le16_bytes(x as int),
{ x.to_ne_bytes() }
pub uninterp spec fn ne_bytes_i8(v: i8) -> Seq<u8>;
#[verifier::external_body]
pub fn vx_i8_to_ne_bytes(v: i8) -> (r: [u8; 1])
    ensures r@ == ne_bytes_i8(v), r@.len() == 1,
{ v.to_ne_bytes() }
pub uninterp spec fn ne_bytes_i16(v: i16) -> Seq<u8>;
#[verifier::external_body]
pub fn vx_i16_to_ne_bytes(v: i16) -> (r: [u8; 2])
    ensures r@ == ne_bytes_i16(v), r@.len() == 2,
{ v.to_ne_bytes() }
pub uninterp spec fn ne_bytes_i32(v: i32) -> Seq<u8>;
#[verifier::external_body]
pub fn vx_i32_to_ne_bytes(v: i32) -> (r: [u8; 4])
    ensures r@ == ne_bytes_i32(v), r@.len() == 4,
{ v.to_ne_bytes() }
pub uninterp spec fn ne_bytes_i64(v: i64) -> Seq<u8>;
#[verifier::external_body]
pub fn vx_i64_to_ne_bytes(v: i64) -> (r: [u8; 8])
    ensures r@ == ne_bytes_i64(v), r@.len() == 8,
{ v.to_ne_bytes() }
pub uninterp spec fn ne_bytes_u8(v: u8) -> Seq<u8>;
#[verifier::external_body]
pub fn vx_u8_to_ne_bytes(v: u8) -> (r: [u8; 1])
    ensures r@ == ne_bytes_u8(v), r@.len() == 1, r@ == seq![v],
{ v.to_ne_bytes() }
pub uninterp spec fn ne_bytes_u16(v: u16) -> Seq<u8>;
#[verifier::external_body]
pub fn vx_u16_to_ne_bytes(v: u16) -> (r: [u8; 2])
    ensures r@ == ne_bytes_u16(v), r@.len() == 2,
{ v.to_ne_bytes() }
pub uninterp spec fn ne_bytes_u32(v: u32) -> Seq<u8>;
#[verifier::external_body]
pub fn vx_u32_to_ne_bytes(v: u32) -> (r: [u8; 4])
    ensures r@ == ne_bytes_u32(v), r@.len() == 4,
{ v.to_ne_bytes() }
pub uninterp spec fn ne_bytes_u64(v: u64) -> Seq<u8>;
#[verifier::external_body]
pub fn vx_u64_to_ne_bytes(v: u64) -> (r: [u8; 8])
    ensures r@ == ne_bytes_u64(v), r@.len() == 8,
{ v.to_ne_bytes() }
pub uninterp spec fn ne_bytes_f32(v: f32) -> Seq<u8>;
#[verifier::external_body]
pub fn vx_f32_to_ne_bytes(v: f32) -> (r: [u8; 4])
    ensures r@ == ne_bytes_f32(v), r@.len() == 4,
{ v.to_ne_bytes() }
pub uninterp spec fn ne_bytes_f64(v: f64) -> Seq<u8>;
#[verifier::external_body]
pub fn vx_f64_to_ne_bytes(v: f64) -> (r: [u8; 8])
    ensures r@ == ne_bytes_f64(v), r@.len() == 8,
{ v.to_ne_bytes() }
pub uninterp spec fn str_bytes(v: &str) -> Seq<u8>;
#[verifier::external_body]
pub fn vx_str_len(v: &str) -> (r: usize)
    ensures r == str_bytes(v).len(),
{ v.len() }
#[verifier::external_body]
pub fn vx_str_as_bytes<'a>(v: &'a str) -> (r: &'a [u8])
    ensures r@ == str_bytes(v),
{ v.as_bytes() }

//@ extract src/serde_verb_payload/ser_verb_payload.rs struct Serializer
//@ end
//@ extract src/serde_verb_payload/error.rs enum Error
//@   sub R2 `enum Error` => `enum SerError`
//@ end

pub proof fn lemma_type_words()
    ensures
        (0x00000010u32 | (1u8 as u32)) == 0x11u32,
        (0x00000020u32 | (1u8 as u32)) == 0x21u32, (0x00000020u32 | (2u8 as u32)) == 0x22u32, (0x00000020u32 | (3u8 as u32)) == 0x23u32, (0x00000020u32 | (4u8 as u32)) == 0x24u32,
        (0x00000040u32 | (1u8 as u32)) == 0x41u32, (0x00000040u32 | (2u8 as u32)) == 0x42u32, (0x00000040u32 | (3u8 as u32)) == 0x43u32, (0x00000040u32 | (4u8 as u32)) == 0x44u32,
        (0x00000080u32 | (3u8 as u32)) == 0x83u32, (0x00000080u32 | (4u8 as u32)) == 0x84u32,
        (0x00000200u32 | 0x00008000u32) == 0x8200u32,
        !has_len_field(0x11u32), !has_len_field(0x21u32), !has_len_field(0x22u32), !has_len_field(0x23u32), !has_len_field(0x24u32),
        !has_len_field(0x41u32), !has_len_field(0x42u32), !has_len_field(0x43u32), !has_len_field(0x44u32), !has_len_field(0x83u32), !has_len_field(0x84u32),
        has_len_field(0x8200u32), has_len_field(0x400u32),
{
    assert((0x00000010u32 | 1u32) == 0x11u32 && (0x00000020u32 | 1u32) == 0x21u32 && (0x00000020u32 | 2u32) == 0x22u32 && (0x00000020u32 | 3u32) == 0x23u32
        && (0x00000020u32 | 4u32) == 0x24u32 && (0x00000040u32 | 1u32) == 0x41u32 && (0x00000040u32 | 2u32) == 0x42u32 && (0x00000040u32 | 3u32) == 0x43u32
        && (0x00000040u32 | 4u32) == 0x44u32 && (0x00000080u32 | 3u32) == 0x83u32 && (0x00000080u32 | 4u32) == 0x84u32 && (0x00000200u32 | 0x00008000u32) == 0x8200u32) by(bit_vector);
    assert(0x11u32 & (0x200u32 | 0x400u32) == 0 && 0x21u32 & (0x200u32 | 0x400u32) == 0 && 0x22u32 & (0x200u32 | 0x400u32) == 0 && 0x23u32 & (0x200u32 | 0x400u32) == 0
        && 0x24u32 & (0x200u32 | 0x400u32) == 0 && 0x41u32 & (0x200u32 | 0x400u32) == 0 && 0x42u32 & (0x200u32 | 0x400u32) == 0 && 0x43u32 & (0x200u32 | 0x400u32) == 0
        && 0x44u32 & (0x200u32 | 0x400u32) == 0 && 0x83u32 & (0x200u32 | 0x400u32) == 0 && 0x84u32 & (0x200u32 | 0x400u32) == 0
        && 0x8200u32 & (0x200u32 | 0x400u32) != 0 && 0x400u32 & (0x200u32 | 0x400u32) != 0) by(bit_vector);
}

impl Serializer {
//@ extract src/serde_verb_payload/ser_verb_payload.rs <Serializer for &mut Serializer>::serialize_bool
//@   sub R8 `(self,` => `(&mut self,`
//@   sub R8 `Result<()>` => `Result<(), SerError>`
//@   sub R3 `type_info.to_ne_bytes()` => `vx_tinfo_to_ne_bytes(type_info)`
//@   sub R3 `iv.to_ne_bytes()` => `vx_u8_to_ne_bytes(iv)`
//@   spec
//@|    ensures
//@|        r is Ok,
//@|        final(self).output@ == old(self).output@ + enc_arg(AArg { t: 0x11u32, raw: seq![if v { 1u8 } else { 0u8 }] }, false), // O:ser.bool
//@   hint before `Ok(())`
//@|    proof { lemma_type_words(); }
//@|    assert(self.output@ =~= old(self).output@ + enc_arg(AArg { t: 0x11u32, raw: seq![if v { 1u8 } else { 0u8 }] }, false));
//@ end
//@ extract src/serde_verb_payload/ser_verb_payload.rs <Serializer for &mut Serializer>::serialize_i8
//@   sub R8 `(self,` => `(&mut self,`
//@   sub R8 `Result<()>` => `Result<(), SerError>`
//@   sub R3 `type_info.to_ne_bytes()` => `vx_tinfo_to_ne_bytes(type_info)`
//@   sub R3 `v.to_ne_bytes()` => `vx_i8_to_ne_bytes(v)`
//@   spec
//@|    ensures
//@|        r is Ok,
//@|        final(self).output@ == old(self).output@ + enc_arg(AArg { t: 0x21u32, raw: ne_bytes_i8(v) }, false), // O:ser.i8
//@   hint before `Ok(())`
//@|    proof { lemma_type_words(); }
//@|    assert(self.output@ =~= old(self).output@ + enc_arg(AArg { t: 0x21u32, raw: ne_bytes_i8(v) }, false));
//@ end
//@ extract src/serde_verb_payload/ser_verb_payload.rs <Serializer for &mut Serializer>::serialize_i16
//@   sub R8 `(self,` => `(&mut self,`
//@   sub R8 `Result<()>` => `Result<(), SerError>`
//@   sub R3 `type_info.to_ne_bytes()` => `vx_tinfo_to_ne_bytes(type_info)`
//@   sub R3 `v.to_ne_bytes()` => `vx_i16_to_ne_bytes(v)`
//@   spec
//@|    ensures
//@|        r is Ok,
//@|        final(self).output@ == old(self).output@ + enc_arg(AArg { t: 0x22u32, raw: ne_bytes_i16(v) }, false), // O:ser.i16
//@   hint before `Ok(())`
//@|    proof { lemma_type_words(); }
//@|    assert(self.output@ =~= old(self).output@ + enc_arg(AArg { t: 0x22u32, raw: ne_bytes_i16(v) }, false));
//@ end
//@ extract src/serde_verb_payload/ser_verb_payload.rs <Serializer for &mut Serializer>::serialize_i32
//@   sub R8 `(self,` => `(&mut self,`
//@   sub R8 `Result<()>` => `Result<(), SerError>`
//@   sub R3 `type_info.to_ne_bytes()` => `vx_tinfo_to_ne_bytes(type_info)`
//@   sub R3 `v.to_ne_bytes()` => `vx_i32_to_ne_bytes(v)`
//@   spec
//@|    ensures
//@|        r is Ok,
//@|        final(self).output@ == old(self).output@ + enc_arg(AArg { t: 0x23u32, raw: ne_bytes_i32(v) }, false), // O:ser.i32
//@   hint before `Ok(())`
//@|    proof { lemma_type_words(); }
//@|    assert(self.output@ =~= old(self).output@ + enc_arg(AArg { t: 0x23u32, raw: ne_bytes_i32(v) }, false));
//@ end
//@ extract src/serde_verb_payload/ser_verb_payload.rs <Serializer for &mut Serializer>::serialize_i64
//@   sub R8 `(self,` => `(&mut self,`
//@   sub R8 `Result<()>` => `Result<(), SerError>`
//@   sub R3 `type_info.to_ne_bytes()` => `vx_tinfo_to_ne_bytes(type_info)`
//@   sub R3 `v.to_ne_bytes()` => `vx_i64_to_ne_bytes(v)`
//@   spec
//@|    ensures
//@|        r is Ok,
//@|        final(self).output@ == old(self).output@ + enc_arg(AArg { t: 0x24u32, raw: ne_bytes_i64(v) }, false), // O:ser.i64
//@   hint before `Ok(())`
//@|    proof { lemma_type_words(); }
//@|    assert(self.output@ =~= old(self).output@ + enc_arg(AArg { t: 0x24u32, raw: ne_bytes_i64(v) }, false));
//@ end
//@ extract src/serde_verb_payload/ser_verb_payload.rs <Serializer for &mut Serializer>::serialize_u8
//@   sub R8 `(self,` => `(&mut self,`
//@   sub R8 `Result<()>` => `Result<(), SerError>`
//@   sub R3 `type_info.to_ne_bytes()` => `vx_tinfo_to_ne_bytes(type_info)`
//@   sub R3 `v.to_ne_bytes()` => `vx_u8_to_ne_bytes(v)`
//@   spec
//@|    ensures
//@|        r is Ok,
//@|        final(self).output@ == old(self).output@ + enc_arg(AArg { t: 0x41u32, raw: ne_bytes_u8(v) }, false), // O:ser.u8
//@   hint before `Ok(())`
//@|    proof { lemma_type_words(); }
//@|    assert(self.output@ =~= old(self).output@ + enc_arg(AArg { t: 0x41u32, raw: ne_bytes_u8(v) }, false));
//@ end
//@ extract src/serde_verb_payload/ser_verb_payload.rs <Serializer for &mut Serializer>::serialize_u16
//@   sub R8 `(self,` => `(&mut self,`
//@   sub R8 `Result<()>` => `Result<(), SerError>`
//@   sub R3 `type_info.to_ne_bytes()` => `vx_tinfo_to_ne_bytes(type_info)`
//@   sub R3 `v.to_ne_bytes()` => `vx_u16_to_ne_bytes(v)`
//@   spec
//@|    ensures
//@|        r is Ok,
//@|        final(self).output@ == old(self).output@ + enc_arg(AArg { t: 0x42u32, raw: ne_bytes_u16(v) }, false), // O:ser.u16
//@   hint before `Ok(())`
//@|    proof { lemma_type_words(); }
//@|    assert(self.output@ =~= old(self).output@ + enc_arg(AArg { t: 0x42u32, raw: ne_bytes_u16(v) }, false));
//@ end
//@ extract src/serde_verb_payload/ser_verb_payload.rs <Serializer for &mut Serializer>::serialize_u32
//@   sub R8 `(self,` => `(&mut self,`
//@   sub R8 `Result<()>` => `Result<(), SerError>`
//@   sub R3 `type_info.to_ne_bytes()` => `vx_tinfo_to_ne_bytes(type_info)`
//@   sub R3 `v.to_ne_bytes()` => `vx_u32_to_ne_bytes(v)`
//@   spec
//@|    ensures
//@|        r is Ok,
//@|        final(self).output@ == old(self).output@ + enc_arg(AArg { t: 0x43u32, raw: ne_bytes_u32(v) }, false), // O:ser.u32
//@   hint before `Ok(())`
//@|    proof { lemma_type_words(); }
//@|    assert(self.output@ =~= old(self).output@ + enc_arg(AArg { t: 0x43u32, raw: ne_bytes_u32(v) }, false));
//@ end
//@ extract src/serde_verb_payload/ser_verb_payload.rs <Serializer for &mut Serializer>::serialize_u64
//@   sub R8 `(self,` => `(&mut self,`
//@   sub R8 `Result<()>` => `Result<(), SerError>`
//@   sub R3 `type_info.to_ne_bytes()` => `vx_tinfo_to_ne_bytes(type_info)`
//@   sub R3 `v.to_ne_bytes()` => `vx_u64_to_ne_bytes(v)`
//@   spec
//@|    ensures
//@|        r is Ok,
//@|        final(self).output@ == old(self).output@ + enc_arg(AArg { t: 0x44u32, raw: ne_bytes_u64(v) }, false), // O:ser.u64
//@   hint before `Ok(())`
//@|    proof { lemma_type_words(); }
//@|    assert(self.output@ =~= old(self).output@ + enc_arg(AArg { t: 0x44u32, raw: ne_bytes_u64(v) }, false));
//@ end
//@ extract src/serde_verb_payload/ser_verb_payload.rs <Serializer for &mut Serializer>::serialize_f32
//@   sub R8 `(self,` => `(&mut self,`
//@   sub R8 `Result<()>` => `Result<(), SerError>`
//@   sub R3 `type_info.to_ne_bytes()` => `vx_tinfo_to_ne_bytes(type_info)`
//@   sub R3 `v.to_ne_bytes()` => `vx_f32_to_ne_bytes(v)`
//@   spec
//@|    ensures
//@|        r is Ok,
//@|        final(self).output@ == old(self).output@ + enc_arg(AArg { t: 0x83u32, raw: ne_bytes_f32(v) }, false), // O:ser.f32
//@   hint before `Ok(())`
//@|    proof { lemma_type_words(); }
//@|    assert(self.output@ =~= old(self).output@ + enc_arg(AArg { t: 0x83u32, raw: ne_bytes_f32(v) }, false));
//@ end
//@ extract src/serde_verb_payload/ser_verb_payload.rs <Serializer for &mut Serializer>::serialize_f64
//@   sub R8 `(self,` => `(&mut self,`
//@   sub R8 `Result<()>` => `Result<(), SerError>`
//@   sub R3 `type_info.to_ne_bytes()` => `vx_tinfo_to_ne_bytes(type_info)`
//@   sub R3 `v.to_ne_bytes()` => `vx_f64_to_ne_bytes(v)`
//@   spec
//@|    ensures
//@|        r is Ok,
//@|        final(self).output@ == old(self).output@ + enc_arg(AArg { t: 0x84u32, raw: ne_bytes_f64(v) }, false), // O:ser.f64
//@   hint before `Ok(())`
//@|    proof { lemma_type_words(); }
//@|    assert(self.output@ =~= old(self).output@ + enc_arg(AArg { t: 0x84u32, raw: ne_bytes_f64(v) }, false));
//@ end
//@ extract src/serde_verb_payload/ser_verb_payload.rs <Serializer for &mut Serializer>::serialize_bytes
//@   sub R8 `(self,` => `(&mut self,`
//@   sub R8 `Result<()>` => `Result<(), SerError>`
//@   sub R8 `Error::DataTooLarge` => `SerError::DataTooLarge`
//@   sub R3 `type_info.to_ne_bytes()` => `vx_tinfo_to_ne_bytes(type_info)`
//@   sub R3 `len.to_ne_bytes()` => `vx_len_to_ne_bytes(len)`
//@   spec
//@|    ensures
//@|        r is Ok <==> v@.len() <= 0xffff, // O:ser.bytes.limit
//@|        r is Ok ==> final(self).output@ == old(self).output@ + enc_arg(AArg { t: 0x400u32, raw: v@ }, false), // O:ser.bytes
//@|        r is Err ==> final(self).output@ == old(self).output@,
//@   hint before `Ok(())`
//@|    proof { lemma_type_words(); }
//@|    assert(self.output@ =~= old(self).output@ + enc_arg(AArg { t: 0x400u32, raw: v@ }, false));
//@ end
//@ extract src/serde_verb_payload/ser_verb_payload.rs <Serializer for &mut Serializer>::serialize_str
//@   sub R8 `(self,` => `(&mut self,`
//@   sub R8 `Result<()>` => `Result<(), SerError>`
//@   sub R8 `Error::DataTooLarge` => `SerError::DataTooLarge`
//@   sub R3 `type_info.to_ne_bytes()` => `vx_tinfo_to_ne_bytes(type_info)`
//@   sub R3 `len.to_ne_bytes()` => `vx_len_to_ne_bytes(len)`
//@   sub R3 `v.len()` => `vx_str_len(v)` x2
//@   sub R3 `v.as_bytes()` => `vx_str_as_bytes(v)`
//@   spec
//@|    ensures
//@|        r is Ok <==> str_bytes(v).len() < 0xffff, // O:ser.str.limit
//@|        r is Ok ==> final(self).output@ == old(self).output@ + enc_arg(AArg { t: 0x8200u32, raw: str_bytes(v).push(0u8) }, false), // O:ser.str (UTF-8 string, NUL terminated)
//@|        r is Err ==> final(self).output@ == old(self).output@,
//@   hint before `Ok(())`
//@|    proof { lemma_type_words(); }
//@|    assert(self.output@ =~= old(self).output@ + enc_arg(AArg { t: 0x8200u32, raw: str_bytes(v).push(0u8) }, false));
//@ end
}
// ---- end of units/verbarg/serde.rs ----
