// ---- units/verbarg/render_stubs.rs: stubs for the formatting calls of DltMessage::process_msg_arg_iter (shared by units verbarg and nvargs) ----
//@ extract src/dlt/mod.rs const DLT_SCOD_HEX
//@ end
//@ extract src/dlt/mod.rs const DLT_SCOD_BIN
//@ end
#[verifier::external_body]
pub struct VxCowStr { _p: u8 }
#[verifier::external_body]
pub fn vx_utf8_lossy(b: &[u8]) -> (r: VxCowStr) { unimplemented!() }
#[verifier::external_body]
pub fn vx_w1252_decode(b: &[u8]) -> (r: (VxCowStr, bool)) { unimplemented!() }
#[verifier::external_body]
pub fn vx_replace_newlines(s: &VxCowStr) -> (r: VxCowStr) { unimplemented!() }
#[verifier::external_body]
pub fn vx_push_cow(text: &mut String, s: &VxCowStr) { unimplemented!() }
#[verifier::external_body]
pub fn vx_push_lit(text: &mut String) { unimplemented!() }
#[verifier::external_body]
pub fn vx_push_char(text: &mut String, c: char) { unimplemented!() }
// text.push_str(itoa_buf.format(val))
#[verifier::external_body]
pub fn vx_push_num<T>(text: &mut String, val: T) { unimplemented!() }
// write!(text, "format", args..): the arguments are evaluated, the text appended
#[verifier::external_body]
pub fn vx_write_args<T>(text: &mut String, args: T) -> (r: Result<(), std::fmt::Error>) { unimplemented!() }
#[verifier::external_body]
pub fn vx_write_lit(text: &mut String) -> (r: Result<(), std::fmt::Error>) { unimplemented!() }
// the hex dump loop of a raw argument
#[verifier::external_body]
pub fn vx_write_hex(text: &mut String, b: &[u8]) -> (r: Result<(), std::fmt::Error>) { unimplemented!() }
// <&[u8] as TryInto<[u8; N]>>::try_into(..).unwrap(): Ok iff the slice has N bytes
#[verifier::external_body]
pub fn vx_to_array<const N: usize>(s: &[u8]) -> (r: [u8; N])
    requires s@.len() == N, // O:render.fixed_width (the conversion to a fixed-width number is guarded by the match on the length)
{ s.try_into().unwrap() }

// R3: fixed-width conversions of the renderer (any value)
#[verifier::external_body]
pub fn vx_u16_from_le_bytes(b: [u8; 2]) -> (r: u16) { u16::from_le_bytes(b) }
#[verifier::external_body]
pub fn vx_u64_from_be_bytes(b: [u8; 8]) -> (r: u64) { u64::from_be_bytes(b) }
#[verifier::external_body]
pub fn vx_u64_from_le_bytes(b: [u8; 8]) -> (r: u64) { u64::from_le_bytes(b) }
#[verifier::external_body]
pub fn vx_u128_from_be_bytes(b: [u8; 16]) -> (r: u128) { u128::from_be_bytes(b) }
#[verifier::external_body]
pub fn vx_u128_from_le_bytes(b: [u8; 16]) -> (r: u128) { u128::from_le_bytes(b) }
#[verifier::external_body]
pub fn vx_i16_from_be_bytes(b: [u8; 2]) -> (r: i16) { i16::from_be_bytes(b) }
#[verifier::external_body]
pub fn vx_i16_from_le_bytes(b: [u8; 2]) -> (r: i16) { i16::from_le_bytes(b) }
#[verifier::external_body]
pub fn vx_i32_from_be_bytes(b: [u8; 4]) -> (r: i32) { i32::from_be_bytes(b) }
#[verifier::external_body]
pub fn vx_i32_from_le_bytes(b: [u8; 4]) -> (r: i32) { i32::from_le_bytes(b) }
#[verifier::external_body]
pub fn vx_i64_from_be_bytes(b: [u8; 8]) -> (r: i64) { i64::from_be_bytes(b) }
#[verifier::external_body]
pub fn vx_i64_from_le_bytes(b: [u8; 8]) -> (r: i64) { i64::from_le_bytes(b) }
#[verifier::external_body]
pub fn vx_i128_from_be_bytes(b: [u8; 16]) -> (r: i128) { i128::from_be_bytes(b) }
#[verifier::external_body]
pub fn vx_i128_from_le_bytes(b: [u8; 16]) -> (r: i128) { i128::from_le_bytes(b) }
#[verifier::external_body]
pub fn vx_f32_from_be_bytes(b: [u8; 4]) -> (r: f32) { f32::from_be_bytes(b) }
#[verifier::external_body]
pub fn vx_f32_from_le_bytes(b: [u8; 4]) -> (r: f32) { f32::from_le_bytes(b) }
#[verifier::external_body]
pub fn vx_f64_from_be_bytes(b: [u8; 8]) -> (r: f64) { f64::from_be_bytes(b) }
#[verifier::external_body]
pub fn vx_f64_from_le_bytes(b: [u8; 8]) -> (r: f64) { f64::from_le_bytes(b) }


// ---- end of units/verbarg/render_stubs.rs ----
