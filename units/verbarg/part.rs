// ---- units/verbarg/part.rs: verbose argument decoder against the layout oracle dec_at (C18, C03) ----

#[verifier::external_body]
pub fn vx_u32_from_be_slice(s: &[u8]) -> (r: u32)
    requires s@.len() == 4,
    ensures r as int == be32(s@[0], s@[1], s@[2], s@[3]),
{ u32::from_be_bytes(s.try_into().unwrap()) }
#[verifier::external_body]
pub fn vx_u32_from_le_slice(s: &[u8]) -> (r: u32)
    requires s@.len() == 4,
    ensures r as int == le32(s@[0], s@[1], s@[2], s@[3]),
{ u32::from_le_bytes(s.try_into().unwrap()) }
#[verifier::external_body]
pub fn vx_u16_from_be_slice(s: &[u8]) -> (r: u16)
    requires s@.len() == 2,
    ensures r as int == be16(s@[0], s@[1]),
{ u16::from_be_bytes(s.try_into().unwrap()) }
#[verifier::external_body]
pub fn vx_u16_from_le_slice(s: &[u8]) -> (r: u16)
    requires s@.len() == 2,
    ensures r as int == be16(s@[1], s@[0]),
{ u16::from_le_bytes(s.try_into().unwrap()) }

//@ extract src/dlt/mod.rs const DLT_TYPE_INFO_MASK_TYLE
//@ end
//@ extract src/dlt/mod.rs const DLT_TYPE_INFO_BOOL
//@ end
//@ extract src/dlt/mod.rs const DLT_TYPE_INFO_SINT
//@ end
//@ extract src/dlt/mod.rs const DLT_TYPE_INFO_UINT
//@ end
//@ extract src/dlt/mod.rs const DLT_TYPE_INFO_FLOA
//@ end
//@ extract src/dlt/mod.rs const DLT_TYPE_INFO_ARAY
//@ end
//@ extract src/dlt/mod.rs const DLT_TYPE_INFO_STRG
//@ end
//@ extract src/dlt/mod.rs const DLT_TYPE_INFO_RAWD
//@ end
//@ extract src/dlt/mod.rs const DLT_TYPE_INFO_VARI
//@ end
//@ extract src/dlt/mod.rs const DLT_TYPE_INFO_FIXP
//@ end
//@ extract src/dlt/mod.rs const DLT_TYPE_INFO_TRAI
//@ end
//@ extract src/dlt/mod.rs const DLT_TYPE_INFO_STRU
//@ end
//@ extract src/dlt/mod.rs const DLT_TYPE_INFO_MASK_SCOD
//@ end
//@ extract src/dlt/mod.rs const DLT_TYLE_8BIT
//@ end
//@ extract src/dlt/mod.rs const DLT_TYLE_16BIT
//@ end
//@ extract src/dlt/mod.rs const DLT_TYLE_32BIT
//@ end
//@ extract src/dlt/mod.rs const DLT_TYLE_64BIT
//@ end
//@ extract src/dlt/mod.rs const DLT_TYLE_128BIT
//@ end
//@ extract src/dlt/mod.rs const DLT_SCOD_ASCII
//@ end
//@ extract src/dlt/mod.rs const DLT_SCOD_UTF8
//@ end
//@ extract src/dlt/mod.rs struct DltArg
//@ end
//@ extract src/dlt/mod.rs struct DltMessageArgIterator
//@ end

// ---------- oracle: DLT verbose-mode argument layout ----------
pub open spec fn ti_at(p: Seq<u8>, i: int, be: bool) -> u32 {
    (if be { be32(p[i], p[i + 1], p[i + 2], p[i + 3]) } else { le32(p[i], p[i + 1], p[i + 2], p[i + 3]) }) as u32
}
pub open spec fn u16_at(p: Seq<u8>, i: int, be: bool) -> int {
    if be { be16(p[i], p[i + 1]) } else { be16(p[i + 1], p[i]) }
}
pub open spec fn tyle_len(t: u32) -> int {
    let tyle = (t & 0x0000000f) as u8;
    if tyle == 1 { 1 } else if tyle == 2 { 2 } else if tyle == 3 { 4 } else if tyle == 4 { 8 } else if tyle == 5 { 16 } else { 0 }
}
pub enum Dec { Arg { t: u32, start: int, end: int }, Stop }
// decode the argument starting at offset i of payload p (verbose mode)
pub open spec fn dec_at(p: Seq<u8>, i: int, be: bool) -> Dec {
    if p.len() < i + 4 { Dec::Stop } else {
        let t = ti_at(p, i, be);
        let j = i + 4;
        let len0 = tyle_len(t);
        if t & 0x00000800 != 0 { Dec::Stop }            // VARI: unsupported
        else if t & 0x00001000 != 0 { Dec::Stop }       // FIXP: unsupported
        else if t & 0x00000010 != 0 {                   // BOOL: width 1 (width 0 tolerated)
            if len0 != 1 && len0 != 0 { Dec::Stop } else if p.len() >= j + 1 { Dec::Arg { t, start: j, end: j + 1 } } else { Dec::Stop }
        } else if t & (0x00000020u32 | 0x00000040u32) != 0 { // SINT | UINT
            if len0 < 1 { Dec::Stop } else if p.len() >= j + len0 { Dec::Arg { t, start: j, end: j + len0 } } else { Dec::Stop }
        } else if t & 0x00000080 != 0 {                 // FLOA
            if len0 < 2 { Dec::Stop } else if p.len() >= j + len0 { Dec::Arg { t, start: j, end: j + len0 } } else { Dec::Stop }
        } else if t & (0x00000200u32 | 0x00000400u32) != 0 { // STRG | RAWD: 16 bit length, then the bytes
            if p.len() < j + 2 { Dec::Stop } else {
                let l = u16_at(p, j, be);
                if p.len() >= j + 2 + l { Dec::Arg { t, start: j + 2, end: j + 2 + l } } else { Dec::Stop }
            }
        } else { Dec::Stop }
    }
}

impl<'a> DltMessageArgIterator<'a> {
    pub open spec fn wf(&self) -> bool {
        &&& self.msg.payload@.len() + 0x20000 <= usize::MAX
        &&& self.index <= self.msg.payload@.len() + 0x10010
    }
//@ extract src/dlt/mod.rs <Iterator for DltMessageArgIterator>::next
//@   sub R8 `Self::Item` => `DltArg<'a>`
//@   sub R3 `vx_u32_from_be_bytes( self.msg.payload[self.index..self.index + 4] .try_into() .unwrap(), )` => `vx_u32_from_be_slice(&self.msg.payload[self.index..self.index + 4])`
//@   sub R3 `vx_u32_from_le_bytes( self.msg.payload[self.index..self.index + 4] .try_into() .unwrap(), )` => `vx_u32_from_le_slice(&self.msg.payload[self.index..self.index + 4])`
//@   sub R3 `vx_u16_from_be_bytes( self.msg.payload[self.index..self.index + 2] .try_into() .unwrap(), )` => `vx_u16_from_be_slice(&self.msg.payload[self.index..self.index + 2])`
//@   sub R3 `vx_u16_from_le_bytes( self.msg.payload[self.index..self.index + 2] .try_into() .unwrap(), )` => `vx_u16_from_le_slice(&self.msg.payload[self.index..self.index + 2])`
//@   spec
//@|    requires old(self).wf(),
//@|    ensures
//@|        final(self).wf(), // O:arg.next.wf
//@|        final(self).msg == old(self).msg && final(self).is_verbose == old(self).is_verbose && final(self).is_big_endian == old(self).is_big_endian,
//@|        r is Some ==> r->Some_0.is_big_endian == old(self).is_big_endian,
//@|        // verbose mode: exactly the layout oracle; the returned bytes are a sub-slice of the payload
//@|        old(self).is_verbose ==> (match dec_at(old(self).msg.payload@, old(self).index as int, old(self).is_big_endian) {
//@|            Dec::Arg { t, start, end } => r is Some && r->Some_0.type_info == t && 0 <= start <= end <= old(self).msg.payload@.len()
//@|                && r->Some_0.payload_raw@ == old(self).msg.payload@.subrange(start, end) && final(self).index == end,
//@|            Dec::Stop => r is None,
//@|        }), // O:arg.next.dec
//@|        // non-verbose mode: message id (4 bytes), then the rest
//@|        !old(self).is_verbose ==> (
//@|            if old(self).index == 0 && old(self).msg.payload@.len() >= 4 {
//@|                r is Some && r->Some_0.type_info == 0 && r->Some_0.payload_raw@ == old(self).msg.payload@.subrange(0, 4) && final(self).index == 4
//@|            } else if old(self).index == 4 && old(self).msg.payload@.len() > 4 {
//@|                r is Some && r->Some_0.type_info == 0 && r->Some_0.payload_raw@ == old(self).msg.payload@.subrange(4, old(self).msg.payload@.len() as int)
//@|                    && final(self).index == old(self).msg.payload@.len()
//@|            } else { r is None && final(self).index == old(self).index }), // O:arg.next.nonverbose
//@ end
}

impl DltExtendedHeader {
//@ extract src/dlt/mod.rs DltExtendedHeader::is_verbose
//@   spec
//@|    ensures r == (self.verb_mstp_mtin & 0x01 == 0x01),
//@ end
}
impl DltMessage {
    pub open spec fn spec_is_verbose(&self) -> bool {
        match self.extended_header { Some(e) => e.verb_mstp_mtin & 0x01 == 0x01, None => false }
    }
//@ extract src/dlt/mod.rs DltMessage::is_verbose
//@   spec
//@|    ensures r == self.spec_is_verbose(), // O:msg.is_verbose
//@ end
//@ extract src/dlt/mod.rs DltMessage::is_big_endian
//@   spec
//@|    ensures r == (self.standard_header.htyp & 2 != 0), // O:msg.is_big_endian
//@ end
//@ extract src/dlt/mod.rs <IntoIterator for &DltMessage>::into_iter
//@   sub R8 `fn into_iter(self)` => `fn into_iter<'a>(&'a self)`
//@   sub R8 `Self::IntoIter` => `DltMessageArgIterator<'a>`
//@   spec
//@|    requires self.payload@.len() + 0x20000 <= usize::MAX,
//@|    ensures
//@|        r.wf(), // O:into_iter.wf
//@|        r.msg == self && r.index == 0 && r.is_verbose == self.spec_is_verbose() && r.is_big_endian == (self.standard_header.htyp & 2 != 0), // O:into_iter.init
//@ end
}
// ---- end of units/verbarg/part.rs ----
