// ---- units/verbarg/enc.rs: encoders (payload_from_args, serde Serializer) and the round trip (C18) ----
#[verifier::external_body]
pub fn vx_u32_to_le_bytes(x: u32) -> (r: [u8; 4])
    ensures le32(r[0], r[1], r[2], r[3]) == x as int, r@ == le32_bytes(x as int),
{ u32::to_le_bytes(x) }
#[verifier::external_body]
pub fn vx_u32_to_be_bytes(x: u32) -> (r: [u8; 4])
    ensures be32(r[0], r[1], r[2], r[3]) == x as int, r@ == be32_bytes(x as int),
{ u32::to_be_bytes(x) }
#[verifier::external_body]
pub fn vx_u16_to_be_bytes(x: u16) -> (r: [u8; 2])
    ensures be16(r[0], r[1]) == x as int, r@ == be16_bytes(x as int),
{ u16::to_be_bytes(x) }
#[verifier::external_body]
pub fn vx_u16_to_le_bytes(x: u16) -> (r: [u8; 2])
    ensures be16(r[1], r[0]) == x as int, r@ == le16_bytes(x as int),
{ u16::to_le_bytes(x) }
pub open spec fn le32_bytes(x: int) -> Seq<u8> {
    seq![(x % 256) as u8, ((x / 256) % 256) as u8, ((x / 65536) % 256) as u8, ((x / 16777216) % 256) as u8]
}
pub open spec fn be32_bytes(x: int) -> Seq<u8> {
    seq![((x / 16777216) % 256) as u8, ((x / 65536) % 256) as u8, ((x / 256) % 256) as u8, (x % 256) as u8]
}
pub open spec fn be16_bytes(x: int) -> Seq<u8> { seq![((x / 256) % 256) as u8, (x % 256) as u8] }
pub open spec fn le16_bytes(x: int) -> Seq<u8> { seq![(x % 256) as u8, ((x / 256) % 256) as u8] }

// abstract argument
pub struct AArg { pub t: u32, pub raw: Seq<u8> }
pub open spec fn has_len_field(t: u32) -> bool { t & (0x00000200u32 | 0x00000400u32) != 0 }
pub open spec fn enc_arg(a: AArg, be: bool) -> Seq<u8> {
    (if be { be32_bytes(a.t as int) } else { le32_bytes(a.t as int) })
        + (if has_len_field(a.t) { if be { be16_bytes(a.raw.len() as int) } else { le16_bytes(a.raw.len() as int) } } else { Seq::<u8>::empty() })
        + a.raw
}
pub open spec fn enc_seq(args: Seq<AArg>, be: bool) -> Seq<u8>
    decreases args.len()
{
    if args.len() == 0 { Seq::empty() } else { enc_seq(args.drop_last(), be) + enc_arg(args.last(), be) }
}
pub open spec fn arg_views(args: Seq<DltArg>) -> Seq<AArg> {
    Seq::new(args.len(), |i: int| AArg { t: args[i].type_info, raw: args[i].payload_raw@ })
}

//@ extract src/utils/mod.rs fn payload_from_args
//@   sub R3 `arg.type_info.to_be_bytes()` => `vx_u32_to_be_bytes(arg.type_info)`
//@   sub R3 `arg.type_info.to_le_bytes()` => `vx_u32_to_le_bytes(arg.type_info)`
//@   sub R3 `persist_len_u16.to_be_bytes()` => `vx_u16_to_be_bytes(persist_len_u16)`
//@   sub R3 `persist_len_u16.to_le_bytes()` => `vx_u16_to_le_bytes(persist_len_u16)`
//@   r13 1
//@   spec
//@|    requires forall|i: int| 0 <= i < args@.len() ==> (#[trigger] args@[i]).payload_raw@.len() <= 65535,
//@|    ensures
//@|        args@.len() > 0 ==> r@ == enc_seq(arg_views(args@), args@[0].is_big_endian), // O:payload_from_args.enc
//@|        args@.len() == 0 ==> r@.len() == 0,
//@   loop 1
//@|    invariant
//@|        vx_i <= args@.len(),
//@|        args@.len() > 0 && big_endian == args@[0].is_big_endian,
//@|        forall|i: int| 0 <= i < args@.len() ==> (#[trigger] args@[i]).payload_raw@.len() <= 65535,
//@|        payload@ == enc_seq(arg_views(args@).subrange(0, vx_i as int), big_endian), // O:payload_from_args.inv
//@|    decreases args@.len() - vx_i,
//@   hint before `vx_i += 1;`
//@|    proof {
//@|        let av = arg_views(args@);
//@|        let pre = av.subrange(0, vx_i as int);
//@|        let nxt = av.subrange(0, vx_i as int + 1);
//@|        assert(nxt.drop_last() =~= pre);
//@|        assert(nxt.last() == av[vx_i as int]);
//@|        assert(payload@ =~= enc_seq(pre, big_endian) + enc_arg(av[vx_i as int], big_endian)); // O:payload_from_args.step
//@|    }
//@   hint before `^payload`
//@|    assert(arg_views(args@).subrange(0, args@.len() as int) =~= arg_views(args@));
//@ end
// ---- end of units/verbarg/enc.rs ----
