// ---- units/verbarg/roundtrip.rs: C18 at oracle level: decode(encode(args)) == args; truncation gives a prefix ----

pub open spec fn arg_ok(a: AArg) -> bool {
    let t = a.t;
    &&& t & 0x00000800 == 0 && t & 0x00001000 == 0     // VARI / FIXP are not supported
    &&& (if t & 0x00000010 != 0 { !has_len_field(t) && (tyle_len(t) == 1 || tyle_len(t) == 0) && a.raw.len() == 1 }
         else if t & (0x00000020u32 | 0x00000040u32) != 0 { !has_len_field(t) && tyle_len(t) >= 1 && a.raw.len() == tyle_len(t) }
         else if t & 0x00000080 != 0 { !has_len_field(t) && tyle_len(t) >= 2 && a.raw.len() == tyle_len(t) }
         else if has_len_field(t) { a.raw.len() <= 65535 }
         else { false })
}
pub open spec fn all_ok(args: Seq<AArg>) -> bool { forall|i: int| 0 <= i < args.len() ==> arg_ok(#[trigger] args[i]) }

// decode arguments from offset i until the decoder stops (what `for arg in &msg` collects)
pub open spec fn decode_all(p: Seq<u8>, i: int, be: bool) -> Seq<AArg>
    decreases p.len() - i
{
    match dec_at(p, i, be) {
        Dec::Arg { t, start, end } => if end <= i || i < 0 { Seq::empty() } else { seq![AArg { t, raw: p.subrange(start, end) }] + decode_all(p, end, be) },
        Dec::Stop => Seq::empty(),
    }
}

pub proof fn lemma_bytes_len(x: int)
    ensures le32_bytes(x).len() == 4, be32_bytes(x).len() == 4, be16_bytes(x).len() == 2, le16_bytes(x).len() == 2,
{}
pub proof fn lemma_u32_split(x: u32)
    ensures x == (x % 256) + 256 * ((x / 256) % 256) + 65536 * ((x / 65536) % 256) + 16777216 * ((x / 16777216) % 256), x / 16777216 < 256,
{
    assert(x == (x % 256) + 256 * ((x / 256) % 256) + 65536 * ((x / 65536) % 256) + 16777216 * ((x / 16777216) % 256) && x / 16777216 < 256) by(bit_vector);
}
pub proof fn lemma_u16_split(x: u16)
    ensures x == (x % 256) + 256 * ((x / 256) % 256), x / 256 < 256,
{
    assert(x == (x % 256) + 256 * ((x / 256) % 256) && x / 256 < 256) by(bit_vector);
}
pub proof fn lemma_u32_bytes(x: int)
    requires 0 <= x < 0x1_0000_0000,
    ensures le32(le32_bytes(x)[0], le32_bytes(x)[1], le32_bytes(x)[2], le32_bytes(x)[3]) == x,
        be32(be32_bytes(x)[0], be32_bytes(x)[1], be32_bytes(x)[2], be32_bytes(x)[3]) == x,
{
    lemma_u32_split(x as u32);
}
pub proof fn lemma_u16_bytes(x: int)
    requires 0 <= x < 0x1_0000,
    ensures be16(be16_bytes(x)[0], be16_bytes(x)[1]) == x, be16(le16_bytes(x)[1], le16_bytes(x)[0]) == x,
{
    lemma_u16_split(x as u16);
}
pub open spec fn enc_hdr_len(t: u32) -> int { if has_len_field(t) { 6 } else { 4 } }

pub proof fn lemma_enc_len(a: AArg, be: bool)
    ensures enc_arg(a, be).len() == enc_hdr_len(a.t) + a.raw.len(),
{
    lemma_bytes_len(a.t as int);
    lemma_bytes_len(a.raw.len() as int);
}

// decoding at the start of enc_arg(a) ++ post gives a back, whatever follows
pub proof fn lemma_dec_enc_one(a: AArg, be: bool, post: Seq<u8>)
    requires arg_ok(a),
    ensures ({
        let p = enc_arg(a, be) + post;
        dec_at(p, 0, be) == (Dec::Arg { t: a.t, start: enc_hdr_len(a.t), end: enc_arg(a, be).len() as int })
            && p.subrange(enc_hdr_len(a.t), enc_arg(a, be).len() as int) == a.raw
    }),
{
    let e = enc_arg(a, be);
    let p = e + post;
    let tb = if be { be32_bytes(a.t as int) } else { le32_bytes(a.t as int) };
    lemma_enc_len(a, be);
    lemma_bytes_len(a.t as int);
    lemma_bytes_len(a.raw.len() as int);
    lemma_u32_bytes(a.t as int);
    assert(p[0] == tb[0] && p[1] == tb[1] && p[2] == tb[2] && p[3] == tb[3]);
    assert(ti_at(p, 0, be) == a.t);
    if has_len_field(a.t) {
        let lb = if be { be16_bytes(a.raw.len() as int) } else { le16_bytes(a.raw.len() as int) };
        lemma_u16_bytes(a.raw.len() as int);
        assert(p[4] == lb[0] && p[5] == lb[1]);
        assert(u16_at(p, 4, be) == a.raw.len());
    }
    assert(p.subrange(enc_hdr_len(a.t), e.len() as int) =~= a.raw);
}

// a proper prefix of enc_arg(a) does not decode to an argument
pub proof fn lemma_dec_truncated(a: AArg, be: bool, k: int)
    requires arg_ok(a), 0 <= k < enc_arg(a, be).len(),
    ensures dec_at(enc_arg(a, be).subrange(0, k), 0, be) is Stop,
{
    let e = enc_arg(a, be);
    let p = e.subrange(0, k);
    let tb = if be { be32_bytes(a.t as int) } else { le32_bytes(a.t as int) };
    lemma_enc_len(a, be);
    lemma_bytes_len(a.t as int);
    lemma_bytes_len(a.raw.len() as int);
    lemma_u32_bytes(a.t as int);
    if k >= 4 {
        assert(p[0] == tb[0] && p[1] == tb[1] && p[2] == tb[2] && p[3] == tb[3]);
        assert(ti_at(p, 0, be) == a.t);
        if has_len_field(a.t) && k >= 6 {
            let lb = if be { be16_bytes(a.raw.len() as int) } else { le16_bytes(a.raw.len() as int) };
            lemma_u16_bytes(a.raw.len() as int);
            assert(p[4] == lb[0] && p[5] == lb[1]);
            assert(u16_at(p, 4, be) == a.raw.len());
        }
    }
}

pub proof fn lemma_dec_shift(pre: Seq<u8>, q: Seq<u8>, i: int, be: bool)
    requires 0 <= i,
    ensures dec_at(pre + q, pre.len() + i, be) == (match dec_at(q, i, be) {
        Dec::Arg { t, start, end } => Dec::Arg { t, start: start + pre.len(), end: end + pre.len() },
        Dec::Stop => Dec::Stop,
    }),
{
    let p = pre + q;
    let n = pre.len() as int;
    if q.len() >= i + 4 {
        assert(p[n + i] == q[i] && p[n + i + 1] == q[i + 1] && p[n + i + 2] == q[i + 2] && p[n + i + 3] == q[i + 3]);
        if q.len() >= i + 6 { assert(p[n + i + 4] == q[i + 4] && p[n + i + 5] == q[i + 5]); }
    }
}
pub proof fn lemma_decode_shift(pre: Seq<u8>, q: Seq<u8>, i: int, be: bool)
    requires 0 <= i,
    ensures decode_all(pre + q, pre.len() + i, be) == decode_all(q, i, be),
    decreases q.len() - i,
{
    lemma_dec_shift(pre, q, i, be);
    match dec_at(q, i, be) {
        Dec::Arg { t, start, end } => {
            if end > i {
                lemma_decode_shift(pre, q, end, be);
                assert((pre + q).subrange(start + pre.len(), end + pre.len()) =~= q.subrange(start, end));
            }
        }
        Dec::Stop => {}
    }
}

pub proof fn lemma_enc_seq_front(args: Seq<AArg>, be: bool)
    requires args.len() > 0,
    ensures enc_seq(args, be) == enc_arg(args[0], be) + enc_seq(args.skip(1), be),
    decreases args.len(),
{
    if args.len() == 1 {
        assert(args.drop_last() =~= Seq::<AArg>::empty());
        assert(args.skip(1) =~= Seq::<AArg>::empty());
        assert(enc_seq(args, be) =~= enc_arg(args[0], be) + enc_seq(args.skip(1), be));
    } else {
        lemma_enc_seq_front(args.drop_last(), be);
        assert(args.drop_last().skip(1) =~= args.skip(1).drop_last());
        assert(args.drop_last()[0] == args[0]);
        assert(args.skip(1).last() == args.last());
        assert(enc_seq(args, be) =~= enc_arg(args[0], be) + enc_seq(args.skip(1), be));
    }
}

// O:rt -- decoding an encoded argument list gives the arguments back: same count, types and raw bytes, both byte orders
pub proof fn theorem_roundtrip(args: Seq<AArg>, be: bool)
    requires all_ok(args),
    ensures decode_all(enc_seq(args, be), 0, be) == args, // O:rt.decode_encode
    decreases args.len(),
{
    if args.len() == 0 {
        assert(decode_all(enc_seq(args, be), 0, be) =~= args);
    } else {
        let a = args[0];
        let rest = enc_seq(args.skip(1), be);
        lemma_enc_seq_front(args, be);
        lemma_dec_enc_one(a, be, rest);
        lemma_enc_len(a, be);
        let e = enc_arg(a, be);
        assert(all_ok(args.skip(1))) by {
            assert forall|i: int| 0 <= i < args.skip(1).len() implies arg_ok(#[trigger] args.skip(1)[i]) by { assert(args.skip(1)[i] == args[i + 1]); }
        }
        theorem_roundtrip(args.skip(1), be);
        lemma_decode_shift(e, rest, 0, be);
        assert(decode_all(e + rest, 0, be) =~= seq![a] + args.skip(1));
        assert(seq![a] + args.skip(1) =~= args);
    }
}

// O:prefix -- a truncated argument list decodes to a prefix of the original arguments (never to something else)
pub proof fn theorem_truncation(args: Seq<AArg>, be: bool, k: int)
    requires all_ok(args), 0 <= k <= enc_seq(args, be).len(),
    ensures decode_all(enc_seq(args, be).subrange(0, k), 0, be).is_prefix_of(args), // O:prefix.truncation
    decreases args.len(),
{
    let full = enc_seq(args, be);
    let p = full.subrange(0, k);
    if args.len() == 0 {
        assert(decode_all(p, 0, be) =~= Seq::<AArg>::empty());
    } else {
        let a = args[0];
        let rest = enc_seq(args.skip(1), be);
        let e = enc_arg(a, be);
        lemma_enc_seq_front(args, be);
        lemma_enc_len(a, be);
        if k < e.len() {
            lemma_dec_truncated(a, be, k);
            assert(p =~= e.subrange(0, k));
            assert(decode_all(p, 0, be) =~= Seq::<AArg>::empty());
        } else {
            let rk = rest.subrange(0, k - e.len());
            assert(p =~= e + rk);
            lemma_dec_enc_one(a, be, rk);
            assert(all_ok(args.skip(1))) by {
                assert forall|i: int| 0 <= i < args.skip(1).len() implies arg_ok(#[trigger] args.skip(1)[i]) by { assert(args.skip(1)[i] == args[i + 1]); }
            }
            theorem_truncation(args.skip(1), be, k - e.len());
            lemma_decode_shift(e, rk, 0, be);
            let d = decode_all(rk, 0, be);
            assert(decode_all(p, 0, be) =~= seq![a] + d);
            assert((seq![a] + d).is_prefix_of(args)) by {
                assert(d.is_prefix_of(args.skip(1)));
                assert forall|i: int| 0 <= i < (seq![a] + d).len() implies (seq![a] + d)[i] == args[i] by {
                    if i > 0 { assert(d[i - 1] == args.skip(1)[i - 1]); }
                }
            }
        }
    }
}

// vacuity guards: the hypotheses of the theorems are satisfiable (8-bit UINT, empty and non-empty UTF-8 string, BOOL, 32-bit FLOA)
pub proof fn witness_arg_ok()
    ensures
        arg_ok(AArg { t: 0x41u32, raw: seq![42u8] }),
        arg_ok(AArg { t: 0x8200u32, raw: Seq::<u8>::empty() }),
        arg_ok(AArg { t: 0x8200u32, raw: seq![0x61u8, 0u8] }),
        arg_ok(AArg { t: 0x11u32, raw: seq![1u8] }),
        arg_ok(AArg { t: 0x83u32, raw: seq![0u8, 0u8, 0x80u8, 0x3fu8] }),
        !arg_ok(AArg { t: 0x841u32, raw: seq![42u8] }),
{
    assert(0x41u32 & 0x800 == 0 && 0x41u32 & 0x1000 == 0 && 0x41u32 & 0x10 == 0 && 0x41u32 & (0x20u32 | 0x40u32) != 0
        && 0x41u32 & (0x200u32 | 0x400u32) == 0 && ((0x41u32 & 0xf) as u8) == 1u8) by(bit_vector);
    assert(0x8200u32 & 0x800 == 0 && 0x8200u32 & 0x1000 == 0 && 0x8200u32 & 0x10 == 0 && 0x8200u32 & (0x20u32 | 0x40u32) == 0
        && 0x8200u32 & 0x80 == 0 && 0x8200u32 & (0x200u32 | 0x400u32) != 0) by(bit_vector);
    assert(0x11u32 & 0x800 == 0 && 0x11u32 & 0x1000 == 0 && 0x11u32 & 0x10 != 0 && 0x11u32 & (0x200u32 | 0x400u32) == 0
        && ((0x11u32 & 0xf) as u8) == 1u8) by(bit_vector);
    assert(0x83u32 & 0x800 == 0 && 0x83u32 & 0x1000 == 0 && 0x83u32 & 0x10 == 0 && 0x83u32 & (0x20u32 | 0x40u32) == 0
        && 0x83u32 & 0x80 != 0 && 0x83u32 & (0x200u32 | 0x400u32) == 0 && ((0x83u32 & 0xf) as u8) == 3u8) by(bit_vector);
    assert(0x841u32 & 0x800 != 0) by(bit_vector);
}
// ---- end of units/verbarg/roundtrip.rs ----
