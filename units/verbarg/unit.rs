//@ unit verbarg
// C18/C03: verbose payload argument decoding (DltMessageArgIterator::next) and encoding against a layout oracle.
#![allow(unused_imports, dead_code, unused_variables, unused_mut, non_upper_case_globals)]
use vstd::prelude::*;
verus! {
global size_of usize == 8;

//@ include prelude/std_specs.rs
//@ include units/dltcore/part.rs
//@ include units/verbarg/part.rs
//@ include units/verbarg/enc.rs
//@ include units/verbarg/roundtrip.rs
//@ include units/verbarg/serde.rs
//@ include units/verbarg/render_stubs.rs
//@ include units/verbarg/render.rs

fn main() {}
} // verus!
