// ---- units/verbarg/render.rs: C03/C18 - the verbose renderer DltMessage::process_msg_arg_iter, with its generic argument source instantiated
// by the message's own argument iterator (what payload_as_text passes): every index and conversion in it is justified by the contract of
// DltMessageArgIterator::next (a BOOL argument has one byte; the `match` on the length guards the fixed-width conversions). The formatting
// (itoa, write!, encoding_rs, regex) is behind stubs.
//@ extract src/dlt/mod.rs const DLT_SCOD_HEX
//@ end
//@ extract src/dlt/mod.rs const DLT_SCOD_BIN
//@ end
#[verifier::external_body]
pub struct VxCowStr { _p: u8 }
#[verifier::external_body]
pub fn vx_utf8_lossy(b: &[u8]) -> (r: VxCowStr) { unimplemented!() }
#[verifier::external_body]
pub fn vx_w1252_decode(b: &[u8]) -> (r: (VxCowStr, bool)) { unimplemented!() }
#[verifier::external_body]
pub fn vx_replace_newlines(s: &VxCowStr) -> (r: VxCowStr) { unimplemented!() }
#[verifier::external_body]
pub fn vx_push_cow(text: &mut String, s: &VxCowStr) { unimplemented!() }
#[verifier::external_body]
pub fn vx_push_lit(text: &mut String) { unimplemented!() }
#[verifier::external_body]
pub fn vx_push_char(text: &mut String, c: char) { unimplemented!() }
// text.push_str(itoa_buf.format(val))
#[verifier::external_body]
pub fn vx_push_num<T>(text: &mut String, val: T) { unimplemented!() }
// write!(text, "format", args..): the arguments are evaluated, the text appended
#[verifier::external_body]
pub fn vx_write_args<T>(text: &mut String, args: T) -> (r: Result<(), std::fmt::Error>) { unimplemented!() }
#[verifier::external_body]
pub fn vx_write_lit(text: &mut String) -> (r: Result<(), std::fmt::Error>) { unimplemented!() }
// the hex dump loop of a raw argument
#[verifier::external_body]
pub fn vx_write_hex(text: &mut String, b: &[u8]) -> (r: Result<(), std::fmt::Error>) { unimplemented!() }
// <&[u8] as TryInto<[u8; N]>>::try_into(..).unwrap(): Ok iff the slice has N bytes
#[verifier::external_body]
pub fn vx_to_array<const N: usize>(s: &[u8]) -> (r: [u8; N])
    requires s@.len() == N, // O:render.fixed_width (the conversion to a fixed-width number is guarded by the match on the length)
{ s.try_into().unwrap() }

// R3: fixed-width conversions of the renderer (any value)
#[verifier::external_body]
pub fn vx_u16_from_le_bytes(b: [u8; 2]) -> (r: u16) { u16::from_le_bytes(b) }
#[verifier::external_body]
pub fn vx_u64_from_be_bytes(b: [u8; 8]) -> (r: u64) { u64::from_be_bytes(b) }
#[verifier::external_body]
pub fn vx_u64_from_le_bytes(b: [u8; 8]) -> (r: u64) { u64::from_le_bytes(b) }
#[verifier::external_body]
pub fn vx_u128_from_be_bytes(b: [u8; 16]) -> (r: u128) { u128::from_be_bytes(b) }
#[verifier::external_body]
pub fn vx_u128_from_le_bytes(b: [u8; 16]) -> (r: u128) { u128::from_le_bytes(b) }
#[verifier::external_body]
pub fn vx_i16_from_be_bytes(b: [u8; 2]) -> (r: i16) { i16::from_be_bytes(b) }
#[verifier::external_body]
pub fn vx_i16_from_le_bytes(b: [u8; 2]) -> (r: i16) { i16::from_le_bytes(b) }
#[verifier::external_body]
pub fn vx_i32_from_be_bytes(b: [u8; 4]) -> (r: i32) { i32::from_be_bytes(b) }
#[verifier::external_body]
pub fn vx_i32_from_le_bytes(b: [u8; 4]) -> (r: i32) { i32::from_le_bytes(b) }
#[verifier::external_body]
pub fn vx_i64_from_be_bytes(b: [u8; 8]) -> (r: i64) { i64::from_be_bytes(b) }
#[verifier::external_body]
pub fn vx_i64_from_le_bytes(b: [u8; 8]) -> (r: i64) { i64::from_le_bytes(b) }
#[verifier::external_body]
pub fn vx_i128_from_be_bytes(b: [u8; 16]) -> (r: i128) { i128::from_be_bytes(b) }
#[verifier::external_body]
pub fn vx_i128_from_le_bytes(b: [u8; 16]) -> (r: i128) { i128::from_le_bytes(b) }
#[verifier::external_body]
pub fn vx_f32_from_be_bytes(b: [u8; 4]) -> (r: f32) { f32::from_be_bytes(b) }
#[verifier::external_body]
pub fn vx_f32_from_le_bytes(b: [u8; 4]) -> (r: f32) { f32::from_le_bytes(b) }
#[verifier::external_body]
pub fn vx_f64_from_be_bytes(b: [u8; 8]) -> (r: f64) { f64::from_be_bytes(b) }
#[verifier::external_body]
pub fn vx_f64_from_le_bytes(b: [u8; 8]) -> (r: f64) { f64::from_le_bytes(b) }

impl DltMessage {
//@ extract src/dlt/mod.rs DltMessage::process_msg_arg_iter
//@   sub R12 `fn process_msg_arg_iter<'a, I>( args: I, text: &mut String, ) -> Result<(), std::fmt::Error> where I: Iterator<Item = DltArg<'a>>,` => `fn process_msg_arg_iter<'a>(mut args: DltMessageArgIterator<'a>, text: &mut String) -> Result<(), std::fmt::Error>`
//@   cut R11 `let mut itoa_buf = itoa::Buffer::new();`
//@   sub R13 `for (nr_arg, arg) in args.enumerate() {` => `let mut vx_cnt: usize = 0; loop { let arg = match args.next() { Some(vx_a) => vx_a, None => { break; } }; let nr_arg = vx_cnt; if vx_cnt < usize::MAX { vx_cnt = vx_cnt + 1; }`
//@   sub R11 `text.push(' ');` => `vx_push_char(text, ' ');`
//@   sub R11 `text.push_str(itoa_buf.format(val));` => `vx_push_num(text, val);` *
//@   sub R11 `text.push_str(&s);` => `vx_push_cow(text, &s);` *
//@   sub R11 `text.push_str(_lit_);` => `vx_push_lit(text);` *
//@   sub R3 `arg.payload_raw.try_into().unwrap()` => `vx_to_array(arg.payload_raw)` *
//@   sub R11 `for (i, &c) in arg.payload_raw[0..arg.payload_raw.len()].iter().enumerate() { __ }` => `vx_write_hex(text, &arg.payload_raw[0..arg.payload_raw.len()])?;`
//@   sub R11 `write!(text, _lit_, __)?;` => `vx_write_args(text, ($1))?;` *
//@   sub R11 `write!(text, _lit_)?;` => `vx_write_lit(text)?;` *
//@   sub R11 `String::from_utf8_lossy(` => `vx_utf8_lossy(`
//@   sub R11 `WINDOWS_1252.decode_without_bom_handling(` => `vx_w1252_decode(`
//@   sub R11 `RE_NEW_LINE.replace_all(&s, " ")` => `vx_replace_newlines(&s)` *
//@   spec
//@|    requires args.wf(),
//@|    ensures true, // O:render.verbose_no_panic (for every payload: the arguments are what DltMessageArgIterator::next hands out)
//@   loop 1
//@|    invariant args.wf(),
//@|    decreases args.msg.payload@.len() + 0x20000 - args.index,
//@ end
}
// ---- end of units/verbarg/render.rs ----
