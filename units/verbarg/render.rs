// ---- units/verbarg/render.rs: C03/C18 - the verbose renderer DltMessage::process_msg_arg_iter, with its generic argument source instantiated
// by the message's own argument iterator (what payload_as_text passes): every index and conversion in it is justified by the contract of
// DltMessageArgIterator::next (a BOOL argument has one byte; the `match` on the length guards the fixed-width conversions). The formatting
// (itoa, write!, encoding_rs, regex) is behind stubs.
impl DltMessage {
//@ extract src/dlt/mod.rs DltMessage::process_msg_arg_iter
//@   sub R12 `fn process_msg_arg_iter<'a, I>( args: I, text: &mut String, ) -> Result<(), std::fmt::Error> where I: Iterator<Item = DltArg<'a>>,` => `fn process_msg_arg_iter<'a>(mut args: DltMessageArgIterator<'a>, text: &mut String) -> Result<(), std::fmt::Error>`
//@   cut R11 `let mut itoa_buf = itoa::Buffer::new();`
//@   sub R13 `for (nr_arg, arg) in args.enumerate() {` => `let mut vx_cnt: usize = 0; loop { let arg = match args.next() { Some(vx_a) => vx_a, None => { break; } }; let nr_arg = vx_cnt; if vx_cnt < usize::MAX { vx_cnt = vx_cnt + 1; }`
//@   sub R11 `text.push(' ');` => `vx_push_char(text, ' ');`
//@   sub R11 `text.push_str(itoa_buf.format(val));` => `vx_push_num(text, val);` *
//@   sub R11 `text.push_str(&s);` => `vx_push_cow(text, &s);` *
//@   sub R11 `text.push_str(_lit_);` => `vx_push_lit(text);` *
//@   sub R3 `arg.payload_raw.try_into().unwrap()` => `vx_to_array(arg.payload_raw)` ?
//@   sub R3 `_id_.try_into().unwrap()` => `vx_to_array($1)` ?
//@   sub R11 `for (i, &c) in arg.payload_raw[0..arg.payload_raw.len()].iter().enumerate() { __ }` => `vx_write_hex(text, &arg.payload_raw[0..arg.payload_raw.len()])?;`
//@   sub R11 `write!(text, _lit_, __)?;` => `vx_write_args(text, ($1))?;` *
//@   sub R11 `write!(text, _lit_)?;` => `vx_write_lit(text)?;` *
//@   sub R11 `String::from_utf8_lossy(` => `vx_utf8_lossy(`
//@   sub R11 `WINDOWS_1252.decode_without_bom_handling(` => `vx_w1252_decode(`
//@   sub R11 `RE_NEW_LINE.replace_all(&s, " ")` => `vx_replace_newlines(&s)` *
//@   spec
//@|    requires args.wf(),
//@|    ensures true, // O:render.verbose_no_panic (for every payload: the arguments are what DltMessageArgIterator::next hands out)
//@   loop 1
//@|    invariant args.wf(),
//@|    decreases args.msg.payload@.len() + 0x20000 - args.index,
//@ end
}
// ---- end of units/verbarg/render.rs ----
