//@ unit pluginnv
// C19 (decoder clause, the non-verbose plugin): NonVerbosePlugin::process_msg never rejects a message and changes nothing but the
// displayed text and a missing extended header.
#![allow(unused_imports, dead_code, unused_variables, unused_mut, non_upper_case_globals)]
use vstd::prelude::*;
verus! {
global size_of usize == 8;

//@ include prelude/std_specs.rs
//@ include units/dltcore/part.rs
//@ include units/verbarg/part.rs
//@ include units/lifecycle/helpers.rs

// R12 models: the FIBEX data (by ECU, by software version, frames by message id), the frame's argument iterator and the text
// renderer (DltMessage::process_msg_arg_iter over the frame's PDUs)
#[verifier::external_body]
pub struct VxPluginStateHandle { _p: u8 }
pub struct NVFrame { pub byte_length: u32, pub ext_header: Option<DltExtendedHeader> }
#[verifier::external_body]
pub struct VxFrameMap { _p: u8 }
impl VxFrameMap {
    #[verifier::external_body]
    pub fn get(&self, id: &u32) -> (r: Option<&NVFrame>) { unimplemented!() }
}
pub struct NonVerboseFibexData { pub frames_map_by_id: VxFrameMap }
#[verifier::external_body]
pub struct VxEcuMap { _p: u8 }
impl VxEcuMap {
    #[verifier::external_body]
    pub fn get(&self, ecu: &DltChar4) -> (r: Option<&Vec<(String, NonVerboseFibexData)>>) { unimplemented!() }
}
//@ extract src/plugins/non_verbose.rs struct NonVerbosePlugin
//@   sub R12 `Arc<RwLock<PluginState>>` => `VxPluginStateHandle`
//@   sub R12 `HashMap<DltChar4, Vec<(String, NonVerboseFibexData)>>` => `VxEcuMap`
//@ end
#[verifier::external_body]
pub struct NVArgsIterator { _p: u8 }
impl NVArgsIterator {
    // the iterator slices `byte_length` bytes out of the payload, PDU by PDU (NVArgsIterator::next): its caller has to hand it at least
    // that many (the frame's own consistency - the PDU lengths add up to byte_length - is ASSUMED, it comes from the FIBEX reader)
    #[verifier::external_body]
    pub fn new(frame: &NVFrame, is_big_endian: bool, msg_payload: &[u8]) -> (r: NVArgsIterator)
        requires msg_payload@.len() >= frame.byte_length, // O:nv.payload_covers_frame
    { unimplemented!() }
}
#[verifier::external_body]
pub struct VxFmtError { _p: u8 }
impl DltMessage {
    #[verifier::external_body]
    pub fn process_msg_arg_iter(args: NVArgsIterator, text: &mut String) -> (r: Result<(), VxFmtError>) { unimplemented!() }
}
#[verifier::external_body]
pub fn vx_string_with_capacity(n: usize) -> (r: String) { String::with_capacity(n) }
// `&a.payload_raw[4..]`
#[verifier::external_body]
pub fn vx_slice_from_4<'a>(s: &'a [u8]) -> (r: &'a [u8]) requires s@.len() >= 4, ensures r@ == s@.skip(4) { &s[4..] }
#[verifier::external_body]
pub fn vx_clone_ext_header(e: &DltExtendedHeader) -> (r: DltExtendedHeader) ensures r == *e { unimplemented!() }

// what the property lets a decoding plugin change: the displayed text, and an extended header where the message had none
pub open spec fn decoded_only(a: DltMessage, b: DltMessage) -> bool {
    &&& a.index == b.index && a.reception_time_us == b.reception_time_us && a.ecu == b.ecu && a.payload == b.payload && a.lifecycle == b.lifecycle
    &&& a.timestamp_dms == b.timestamp_dms && a.standard_header == b.standard_header
    &&& (a.extended_header is Some ==> b.extended_header == a.extended_header)
}
//@ extract src/plugins/non_verbose.rs <Plugin for NonVerbosePlugin>::process_msg
//@   rename nv_process_msg
//@   sub R12 `fn process_msg(&mut self, msg: &mut DltMessage) -> bool` => `fn process_msg(vx_self: &mut NonVerbosePlugin, msg: &mut DltMessage) -> bool`
//@   sub R12 `self` => `vx_self` *
//@   sub R3 `vx_u32_from_be_bytes(a.payload_raw.get(0..4).unwrap().try_into().unwrap())` => `vx_u32_from_be_slice(vx_slice_get_0_4(a.payload_raw).unwrap())`
//@   sub R3 `vx_u32_from_le_bytes(a.payload_raw.get(0..4).unwrap().try_into().unwrap())` => `vx_u32_from_le_slice(vx_slice_get_0_4(a.payload_raw).unwrap())`
//@   sub R11 `&a.payload_raw[4..]` => `vx_slice_from_4(a.payload_raw)`
//@   sub R11 `String::with_capacity(256)` => `vx_string_with_capacity(256)`
//@   sub R11 `ext_header.to_owned()` => `vx_clone_ext_header(ext_header)`
//@   spec
//@|    requires old(msg).payload@.len() + 0x20000 <= usize::MAX,
//@|    ensures
//@|        r, // O:nv.accepts (the non-verbose plugin never removes a message)
//@|        decoded_only(*old(msg), *final(msg)), // O:nv.frame (index, reception time, ECU, payload bytes, lifecycle, timestamp, standard header untouched; an existing extended header untouched: only the displayed text and a missing extended header may change)
//@ end

fn main() {}
} // verus!
