//@ unit anonmap
// C19 (anonymisation clause, ECU ids): AnonymizePlugin::ecu_anon maps equal ECU ids to equal pseudonyms, never changes a
// pseudonym once given, leaves everything else of the message untouched, and maps distinct ids to distinct pseudonyms as long
// as fewer than 999 ids have been seen (beyond that: known finding).
#![allow(unused_imports, dead_code, unused_variables, unused_mut, non_upper_case_globals)]
use vstd::prelude::*;
verus! {
global size_of usize == 8;

//@ include prelude/std_specs.rs
//@ include units/dltcore/part.rs

//@ extract src/plugins/anonymize.rs struct EcuData
//@ end

// `DltChar4::from_str(format!("E{:03}", n).as_str()).unwrap_or_else(..)`: the text "E" + n in decimal, padded to 3 digits, cut
// to its first 4 characters (DltChar4::from_str copies at most 4 bytes and never fails on ASCII): R11, documented behaviour of
// format! and of from_str. For n <= 999 the text has exactly 4 characters, so different n give different ids; from 1000 on the
// last digits are cut off.
pub uninterp spec fn spec_pseudo(prefix: u8, n: int) -> DltChar4;
pub broadcast axiom fn axiom_pseudo_injective(prefix: u8, a: int, b: int)
    requires 1 <= a <= 999, 1 <= b <= 999, #[trigger] spec_pseudo(prefix, a) == #[trigger] spec_pseudo(prefix, b),
    ensures a == b;
pub broadcast axiom fn axiom_pseudo_truncated(prefix: u8, n: int)
    requires n >= 1000,
    ensures #[trigger] spec_pseudo(prefix, n) == spec_pseudo(prefix, n / 10);
// the pieces of `DltChar4::from_str(format!("E{:03}", n).as_str()).unwrap_or_else(|_| ..)`, so that the number handed to format!
// stays the repository's expression
pub struct VxText { pub n: usize }
pub struct VxChar4Result { pub v: DltChar4 }
#[verifier::external_body]
pub fn vx_fmt_e03(n: usize) -> (r: VxText) ensures r.n == n { unimplemented!() }
impl VxText {
    pub fn as_str(&self) -> (r: &VxText) ensures r.n == self.n { self }
}
#[verifier::external_body]
pub fn vx_char4_from_text(t: &VxText) -> (r: VxChar4Result) ensures r.v == spec_pseudo(0x45, t.n as int) { unimplemented!() }
impl VxChar4Result {
    // from_str never fails on ASCII text: the fallback closure is dead code
    pub fn vx_or_fallback(self) -> (r: DltChar4) ensures r == self.v { self.v }
}

// std::collections::HashMap<DltChar4, EcuData> (`ecu_map`): assumed contract of the operations used (R12)
pub trait VEcuMap: Sized {
    spec fn m(&self) -> Map<DltChar4, DltChar4>;     // ECU id -> pseudonym
    fn contains_key(&self, k: &DltChar4) -> (r: bool) ensures r == self.m().dom().contains(*k);
    fn get(&self, k: &DltChar4) -> (r: Option<&EcuData>)
        ensures r is Some <==> self.m().dom().contains(*k), r is Some ==> r->Some_0.ecu == self.m()[*k];
    fn len(&self) -> (r: usize) requires self.m().dom().finite(), ensures r == self.m().dom().len();
    fn insert(&mut self, k: DltChar4, v: EcuData) ensures final(self).m() == old(self).m().insert(k, v.ecu);
}
// the pseudonyms handed out so far are pseudo(1) .. pseudo(len), one per id
pub open spec fn anon_wf<M: VEcuMap>(mp: &M) -> bool {
    &&& mp.m().dom().finite()
    &&& forall|k: DltChar4| mp.m().dom().contains(k) ==> exists|i: int| 1 <= i <= mp.m().dom().len() && #[trigger] spec_pseudo(0x45, i) == mp.m()[k]
}
pub open spec fn injective<M: VEcuMap>(mp: &M) -> bool {
    forall|a: DltChar4, b: DltChar4| mp.m().dom().contains(a) && mp.m().dom().contains(b) && #[trigger] mp.m()[a] == #[trigger] mp.m()[b] ==> a == b
}
pub open spec fn same_but_ecu(a: DltMessage, b: DltMessage) -> bool {
    a.index == b.index && a.reception_time_us == b.reception_time_us && a.timestamp_dms == b.timestamp_dms && a.standard_header == b.standard_header
        && a.extended_header == b.extended_header && a.payload == b.payload && a.payload_text == b.payload_text && a.lifecycle == b.lifecycle
}

//@ extract src/plugins/anonymize.rs region `if self.ecu_map.contains_key(&msg.ecu) {` .. `$end` in AnonymizePlugin::ecu_anon
//@   rules R1 R3 R4 R5
//@   sig pub fn ecu_anon<M: VEcuMap>(ecu_map: &mut M, msg: &mut DltMessage)
//@   sub R12 `self.ecu_map` => `ecu_map` *
//@   sub R3 `ecu_map .get(&msg.ecu) .unwrap() .ecu .clone_into(&mut msg.ecu);` => `msg.ecu = ecu_map.get(&msg.ecu).unwrap().ecu;`
//@   sub R11 `DltChar4::from_str(` => `vx_char4_from_text(`
//@   sub R11 `format!("E{:03}",` => `vx_fmt_e03(`
//@   sub R11 `.unwrap_or_else(|_| DltChar4::from_buf(b"E99A"))` => `.vx_or_fallback()`
//@   spec
//@|    requires
//@|        anon_wf(old(ecu_map)), injective(old(ecu_map)),
//@|        old(ecu_map).m().dom().len() < 0x1_0000_0000, // at most 2^32 different ids exist
//@|        old(ecu_map).m().dom().len() < 999, //@only:excl
//@|        // (strict variant: no bound on the number of different ids; anon.ecu.injective then fails: known finding) //@only:strict
//@|    ensures
//@|        anon_wf(final(ecu_map)), // O:anon.ecu.wf
//@|        final(ecu_map).m().dom().contains(old(msg).ecu) && final(msg).ecu == final(ecu_map).m()[old(msg).ecu], // O:anon.ecu.function (the pseudonym is a function of the id: equal ids, equal pseudonyms)
//@|        forall|k: DltChar4| old(ecu_map).m().dom().contains(k) ==> final(ecu_map).m().dom().contains(k) && final(ecu_map).m()[k] == old(ecu_map).m()[k], // O:anon.ecu.stable (a pseudonym once given never changes)
//@|        same_but_ecu(*final(msg), *old(msg)), // O:anon.ecu.frame (times and everything else untouched)
//@|        injective(final(ecu_map)), // O:anon.ecu.injective (distinct ids, distinct pseudonyms)
//@   hint start
//@|    broadcast use axiom_pseudo_injective, axiom_pseudo_truncated;
//@|    let ghost m0 = ecu_map.m();
//@|    let ghost k0 = msg.ecu;
//@ end

// ---- CTID pseudonyms: the statement `let new_ctid = if apid_data.ctid_map.contains_key(cur_ctid) { .. } else { .. };` of
// AnonymizePlugin::apid_ctid_anon (one map per ECU and APID; same numbering scheme with prefix "C") ----
pub trait VCtidMap: Sized {
    spec fn m(&self) -> Map<DltChar4, DltChar4>;     // CTID -> pseudonym
    fn contains_key(&self, k: &DltChar4) -> (r: bool) ensures r == self.m().dom().contains(*k);
    fn get(&self, k: &DltChar4) -> (r: Option<&DltChar4>)
        ensures r is Some <==> self.m().dom().contains(*k), r is Some ==> *r->Some_0 == self.m()[*k];
    fn len(&self) -> (r: usize) requires self.m().dom().finite(), ensures r == self.m().dom().len();
    fn insert(&mut self, k: DltChar4, v: DltChar4) ensures final(self).m() == old(self).m().insert(k, v);
}
pub open spec fn ctid_wf<M: VCtidMap>(mp: &M) -> bool {
    &&& mp.m().dom().finite()
    &&& forall|k: DltChar4| mp.m().dom().contains(k) ==> exists|i: int| 1 <= i <= mp.m().dom().len() && #[trigger] spec_pseudo(0x43, i) == mp.m()[k]
}
pub open spec fn ctid_injective<M: VCtidMap>(mp: &M) -> bool {
    forall|a: DltChar4, b: DltChar4| mp.m().dom().contains(a) && mp.m().dom().contains(b) && #[trigger] mp.m()[a] == #[trigger] mp.m()[b] ==> a == b
}
#[verifier::external_body]
pub fn vx_fmt_c03(n: usize) -> (r: VxText) ensures r.n == n { unimplemented!() }
#[verifier::external_body]
pub fn vx_ctid_from_text(t: &VxText) -> (r: VxChar4Result) ensures r.v == spec_pseudo(0x43, t.n as int) { unimplemented!() }
//@ extract src/plugins/anonymize.rs region `let new_ctid = if` .. `let new_ctid = if` in AnonymizePlugin::apid_ctid_anon
//@   rules R1 R3 R4 R5
//@   sig pub fn ctid_anon<M: VCtidMap>(ctid_map: &mut M, cur_ctid: &DltChar4) -> (r: DltChar4)
//@   tail `new_ctid`
//@   sub R12 `apid_data.ctid_map` => `ctid_map` *
//@   sub R11 `DltChar4::from_str(` => `vx_ctid_from_text(`
//@   sub R11 `format!("C{:03}",` => `vx_fmt_c03(`
//@   sub R11 `.unwrap_or_else(|_| DltChar4::from_buf(b"C99A"))` => `.vx_or_fallback()`
//@   spec
//@|    requires
//@|        ctid_wf(old(ctid_map)), ctid_injective(old(ctid_map)),
//@|        old(ctid_map).m().dom().len() < 0x1_0000_0000,
//@|        old(ctid_map).m().dom().len() < 999, //@only:excl
//@|    ensures
//@|        ctid_wf(final(ctid_map)), // O:anon.ctid.wf
//@|        final(ctid_map).m().dom().contains(*cur_ctid) && r == final(ctid_map).m()[*cur_ctid], // O:anon.ctid.function
//@|        forall|k: DltChar4| old(ctid_map).m().dom().contains(k) ==> final(ctid_map).m().dom().contains(k) && final(ctid_map).m()[k] == old(ctid_map).m()[k], // O:anon.ctid.stable
//@|        ctid_injective(final(ctid_map)), // O:anon.ctid.injective
//@   hint start
//@|    broadcast use axiom_pseudo_injective, axiom_pseudo_truncated;
//@ end

// ---- APID pseudonyms: the statement `if !apid_map.contains_key(cur_apid) { .. insert .. }` of apid_ctid_anon (one map per ECU;
// prefix "A"); `ApidData { apid, ctid_map: HashMap::new() }` is replaced by a stand-in carrying the pseudonym (R12) ----
pub struct VxApidData { pub apid: DltChar4 }
pub fn vx_new_apid_data(apid: DltChar4) -> (r: VxApidData) ensures r.apid == apid { VxApidData { apid } }
pub trait VApidMap: Sized {
    spec fn m(&self) -> Map<DltChar4, DltChar4>;     // APID -> pseudonym
    fn contains_key(&self, k: &DltChar4) -> (r: bool) ensures r == self.m().dom().contains(*k);
    fn len(&self) -> (r: usize) requires self.m().dom().finite(), ensures r == self.m().dom().len();
    fn insert(&mut self, k: DltChar4, v: VxApidData) ensures final(self).m() == old(self).m().insert(k, v.apid);
}
pub open spec fn apid_wf<M: VApidMap>(mp: &M) -> bool {
    &&& mp.m().dom().finite()
    &&& forall|k: DltChar4| mp.m().dom().contains(k) ==> exists|i: int| 1 <= i <= mp.m().dom().len() && #[trigger] spec_pseudo(0x41, i) == mp.m()[k]
}
pub open spec fn apid_injective<M: VApidMap>(mp: &M) -> bool {
    forall|a: DltChar4, b: DltChar4| mp.m().dom().contains(a) && mp.m().dom().contains(b) && #[trigger] mp.m()[a] == #[trigger] mp.m()[b] ==> a == b
}
#[verifier::external_body]
pub fn vx_fmt_a03(n: usize) -> (r: VxText) ensures r.n == n { unimplemented!() }
#[verifier::external_body]
pub fn vx_apid_from_text(t: &VxText) -> (r: VxChar4Result) ensures r.v == spec_pseudo(0x41, t.n as int) { unimplemented!() }
//@ extract src/plugins/anonymize.rs region `if !apid_map.contains_key(cur_apid) {` .. `if !apid_map.contains_key(cur_apid) {` in AnonymizePlugin::apid_ctid_anon
//@   rules R1 R3 R4 R5
//@   sig pub fn apid_anon<M: VApidMap>(apid_map: &mut M, cur_apid: &DltChar4)
//@   sub R11 `DltChar4::from_str(` => `vx_apid_from_text(`
//@   sub R11 `format!("A{:03}",` => `vx_fmt_a03(`
//@   sub R11 `.unwrap_or_else(|_| DltChar4::from_buf(b"A99A"))` => `.vx_or_fallback()`
//@   sub R12 `ApidData { apid: new_apid, ctid_map: HashMap::new(), }` => `vx_new_apid_data(new_apid)`
//@   spec
//@|    requires
//@|        apid_wf(old(apid_map)), apid_injective(old(apid_map)),
//@|        old(apid_map).m().dom().len() < 0x1_0000_0000,
//@|        old(apid_map).m().dom().len() < 999, //@only:excl
//@|    ensures
//@|        apid_wf(final(apid_map)), // O:anon.apid.wf
//@|        final(apid_map).m().dom().contains(*cur_apid), // O:anon.apid.present
//@|        forall|k: DltChar4| old(apid_map).m().dom().contains(k) ==> final(apid_map).m().dom().contains(k) && final(apid_map).m()[k] == old(apid_map).m()[k], // O:anon.apid.stable
//@|        apid_injective(final(apid_map)), // O:anon.apid.injective
//@   hint start
//@|    broadcast use axiom_pseudo_injective, axiom_pseudo_truncated;
//@ end

fn main() {}
} // verus!
