//@ unit anonmap
// C19 (anonymisation clause, ECU ids): AnonymizePlugin::ecu_anon maps equal ECU ids to equal pseudonyms, never changes a
// pseudonym once given, leaves everything else of the message untouched, and maps distinct ids to distinct pseudonyms as long
// as fewer than 999 ids have been seen (beyond that: known finding).
#![allow(unused_imports, dead_code, unused_variables, unused_mut, non_upper_case_globals)]
use vstd::prelude::*;
verus! {
global size_of usize == 8;

//@ include prelude/std_specs.rs
//@ include units/dltcore/part.rs

//@ extract src/plugins/anonymize.rs struct EcuData
//@ end

// `DltChar4::from_str(format!("E{:03}", n).as_str()).unwrap_or_else(..)`: the text "E" + n in decimal, padded to 3 digits, cut
// to its first 4 characters (DltChar4::from_str copies at most 4 bytes and never fails on ASCII): R11, documented behaviour of
// format! and of from_str. For n <= 999 the text has exactly 4 characters, so different n give different ids; from 1000 on the
// last digits are cut off.
pub uninterp spec fn spec_pseudo(prefix: u8, n: int) -> DltChar4;
pub broadcast axiom fn axiom_pseudo_injective(prefix: u8, a: int, b: int)
    requires 1 <= a <= 999, 1 <= b <= 999, #[trigger] spec_pseudo(prefix, a) == #[trigger] spec_pseudo(prefix, b),
    ensures a == b;
pub broadcast axiom fn axiom_pseudo_truncated(prefix: u8, n: int)
    requires n >= 1000,
    ensures #[trigger] spec_pseudo(prefix, n) == spec_pseudo(prefix, n / 10);
// the pieces of `DltChar4::from_str(format!("E{:03}", n).as_str()).unwrap_or_else(|_| ..)`, so that the number handed to format!
// stays the repository's expression
pub struct VxText { pub n: usize }
pub struct VxChar4Result { pub v: DltChar4 }
#[verifier::external_body]
pub fn vx_fmt_e03(n: usize) -> (r: VxText) ensures r.n == n { unimplemented!() }
impl VxText {
    pub fn as_str(&self) -> (r: &VxText) ensures r.n == self.n { self }
}
#[verifier::external_body]
pub fn vx_char4_from_text(t: &VxText) -> (r: VxChar4Result) ensures r.v == spec_pseudo(0x45, t.n as int) { unimplemented!() }
impl VxChar4Result {
    // from_str never fails on ASCII text: the fallback closure is dead code
    pub fn vx_or_fallback(self) -> (r: DltChar4) ensures r == self.v { self.v }
}

// std::collections::HashMap<DltChar4, EcuData> (`ecu_map`): assumed contract of the operations used (R12)
pub trait VEcuMap: Sized {
    spec fn m(&self) -> Map<DltChar4, DltChar4>;     // ECU id -> pseudonym
    fn contains_key(&self, k: &DltChar4) -> (r: bool) ensures r == self.m().dom().contains(*k);
    fn get(&self, k: &DltChar4) -> (r: Option<&EcuData>)
        ensures r is Some <==> self.m().dom().contains(*k), r is Some ==> r->Some_0.ecu == self.m()[*k];
    fn len(&self) -> (r: usize) requires self.m().dom().finite(), ensures r == self.m().dom().len();
    fn insert(&mut self, k: DltChar4, v: EcuData) ensures final(self).m() == old(self).m().insert(k, v.ecu);
}
// the pseudonyms handed out so far are pseudo(1) .. pseudo(len), one per id
pub open spec fn anon_wf<M: VEcuMap>(mp: &M) -> bool {
    &&& mp.m().dom().finite()
    &&& forall|k: DltChar4| mp.m().dom().contains(k) ==> exists|i: int| 1 <= i <= mp.m().dom().len() && #[trigger] spec_pseudo(0x45, i) == mp.m()[k]
}
pub open spec fn injective<M: VEcuMap>(mp: &M) -> bool {
    forall|a: DltChar4, b: DltChar4| mp.m().dom().contains(a) && mp.m().dom().contains(b) && #[trigger] mp.m()[a] == #[trigger] mp.m()[b] ==> a == b
}
pub open spec fn same_but_ecu(a: DltMessage, b: DltMessage) -> bool {
    a.index == b.index && a.reception_time_us == b.reception_time_us && a.timestamp_dms == b.timestamp_dms && a.standard_header == b.standard_header
        && a.extended_header == b.extended_header && a.payload == b.payload && a.payload_text == b.payload_text && a.lifecycle == b.lifecycle
}

//@ extract src/plugins/anonymize.rs region `if self.ecu_map.contains_key(&msg.ecu) {` .. `$end` in AnonymizePlugin::ecu_anon
//@   rules R1 R3 R4 R5
//@   sig pub fn ecu_anon<M: VEcuMap>(ecu_map: &mut M, msg: &mut DltMessage)
//@   sub R12 `self.ecu_map` => `ecu_map` *
//@   sub R3 `ecu_map .get(&msg.ecu) .unwrap() .ecu .clone_into(&mut msg.ecu);` => `msg.ecu = ecu_map.get(&msg.ecu).unwrap().ecu;`
//@   sub R11 `DltChar4::from_str(` => `vx_char4_from_text(`
//@   sub R11 `format!("E{:03}",` => `vx_fmt_e03(`
//@   sub R11 `.unwrap_or_else(|_| DltChar4::from_buf(b"E99A"))` => `.vx_or_fallback()`
//@   spec
//@|    requires
//@|        anon_wf(old(ecu_map)), injective(old(ecu_map)),
//@|        old(ecu_map).m().dom().len() < 0x1_0000_0000, // at most 2^32 different ids exist
//@|        old(ecu_map).m().dom().len() < 999, //@only:excl
//@|        // (strict variant: no bound on the number of different ids; anon.ecu.injective then fails: known finding) //@only:strict
//@|    ensures
//@|        anon_wf(final(ecu_map)), // O:anon.ecu.wf
//@|        final(ecu_map).m().dom().contains(old(msg).ecu) && final(msg).ecu == final(ecu_map).m()[old(msg).ecu], // O:anon.ecu.function (the pseudonym is a function of the id: equal ids, equal pseudonyms)
//@|        forall|k: DltChar4| old(ecu_map).m().dom().contains(k) ==> final(ecu_map).m().dom().contains(k) && final(ecu_map).m()[k] == old(ecu_map).m()[k], // O:anon.ecu.stable (a pseudonym once given never changes)
//@|        same_but_ecu(*final(msg), *old(msg)), // O:anon.ecu.frame (times and everything else untouched)
//@|        injective(final(ecu_map)), // O:anon.ecu.injective (distinct ids, distinct pseudonyms)
//@   hint start
//@|    broadcast use axiom_pseudo_injective, axiom_pseudo_truncated;
//@|    let ghost m0 = ecu_map.m();
//@|    let ghost k0 = msg.ecu;
//@ end

// the pieces of the CTID / APID numbering expressions (prefix "C" resp. "A"), as for the ECU map above
#[verifier::external_body]
pub fn vx_fmt_c03(n: usize) -> (r: VxText) ensures r.n == n { unimplemented!() }
#[verifier::external_body]
pub fn vx_ctid_from_text(t: &VxText) -> (r: VxChar4Result) ensures r.v == spec_pseudo(0x43, t.n as int) { unimplemented!() }
#[verifier::external_body]
pub fn vx_fmt_a03(n: usize) -> (r: VxText) ensures r.n == n { unimplemented!() }
#[verifier::external_body]
pub fn vx_apid_from_text(t: &VxText) -> (r: VxChar4Result) ensures r.v == spec_pseudo(0x41, t.n as int) { unimplemented!() }

// ---------- apid_ctid_anon as a whole: which maps are used, what is written back ----------
impl DltMessage {
//@ extract src/dlt/mod.rs DltMessage::apid
//@   spec
//@|    ensures r == (match self.extended_header { Some(e) => Some(&e.apid), None => None::<&DltChar4> }),
//@ end
//@ extract src/dlt/mod.rs DltMessage::ctid
//@   spec
//@|    ensures r == (match self.extended_header { Some(e) => Some(&e.ctid), None => None::<&DltChar4> }),
//@ end
}
// R12: the concrete map types of the plugin. ctid_map: HashMap<DltChar4, DltChar4>
#[verifier::external_body]
pub struct VxCtidMapC { _p: u8 }
impl VxCtidMapC {
    pub uninterp spec fn m(&self) -> Map<DltChar4, DltChar4>;
    #[verifier::external_body]
    pub fn new() -> (r: VxCtidMapC) ensures r.m() == Map::<DltChar4, DltChar4>::empty() { unimplemented!() }
    #[verifier::external_body]
    pub fn contains_key(&self, k: &DltChar4) -> (r: bool) ensures r == self.m().dom().contains(*k) { unimplemented!() }
    #[verifier::external_body]
    pub fn get(&self, k: &DltChar4) -> (r: Option<&DltChar4>) ensures r is Some <==> self.m().dom().contains(*k), r is Some ==> *r->Some_0 == self.m()[*k] { unimplemented!() }
    #[verifier::external_body]
    pub fn len(&self) -> (r: usize) requires self.m().dom().finite(), ensures r == self.m().dom().len() { unimplemented!() }
    #[verifier::external_body]
    pub fn insert(&mut self, k: DltChar4, v: DltChar4) ensures final(self).m() == old(self).m().insert(k, v) { unimplemented!() }
}
//@ extract src/plugins/anonymize.rs struct ApidData
//@   sub R12 `HashMap<DltChar4, DltChar4>` => `VxCtidMapC`
//@ end
// the abstract value of an ApidData: (pseudonym of the APID, CTID -> pseudonym)
pub type ApidV = (DltChar4, Map<DltChar4, DltChar4>);
pub open spec fn dv(d: ApidData) -> ApidV { (d.apid, d.ctid_map.m()) }
// HashMap<DltChar4, ApidData> (one per ECU)
#[verifier::external_body]
pub struct VxApidMapC { _p: u8 }
impl VxApidMapC {
    pub uninterp spec fn m(&self) -> Map<DltChar4, ApidV>;
    #[verifier::external_body]
    pub fn contains_key(&self, k: &DltChar4) -> (r: bool) ensures r == self.m().dom().contains(*k) { unimplemented!() }
    #[verifier::external_body]
    pub fn len(&self) -> (r: usize) requires self.m().dom().finite(), ensures r == self.m().dom().len() { unimplemented!() }
    #[verifier::external_body]
    pub fn insert(&mut self, k: DltChar4, v: ApidData) ensures final(self).m() == old(self).m().insert(k, dv(v)) { unimplemented!() }
    #[verifier::external_body]
    pub fn get_mut(&mut self, k: &DltChar4) -> (r: Option<&mut ApidData>)
        ensures
            r is Some <==> old(self).m().dom().contains(*k),
            r is Some ==> dv(*r->Some_0) == old(self).m()[*k] && final(self).m() == old(self).m().insert(*k, dv(*final(r->Some_0))),
            r is None ==> final(self).m() == old(self).m(),
    { unimplemented!() }
}
// HashMap<DltChar4, HashMap<DltChar4, ApidData>> (`apid_maps`): `.entry(ecu).or_default()`
#[verifier::external_body]
pub struct VxApidMaps { _p: u8 }
impl VxApidMaps {
    pub uninterp spec fn m(&self) -> Map<DltChar4, Map<DltChar4, ApidV>>;
    #[verifier::external_body]
    pub fn vx_entry_or_default(&mut self, k: DltChar4) -> (r: &mut VxApidMapC)
        ensures
            r.m() == (if old(self).m().dom().contains(k) { old(self).m()[k] } else { Map::<DltChar4, ApidV>::empty() }),
            final(self).m() == old(self).m().insert(k, final(r).m()),
    { unimplemented!() }
}
pub struct VxAnon { pub apid_maps: VxApidMaps }
// numbering well-formedness of one pseudonym map (prefix 'A' resp. 'C'), as for the ECU map above
pub open spec fn pm_wf(prefix: u8, m: Map<DltChar4, DltChar4>) -> bool {
    &&& m.dom().finite()
    &&& forall|k: DltChar4| m.dom().contains(k) ==> exists|i: int| 1 <= i <= m.dom().len() && #[trigger] spec_pseudo(prefix, i) == m[k]
}
pub open spec fn apid_proj(am: Map<DltChar4, ApidV>) -> Map<DltChar4, DltChar4> { Map::new(am.dom(), |k: DltChar4| am[k].0) }
pub open spec fn ecu_wf(am: Map<DltChar4, ApidV>) -> bool {
    &&& am.dom().finite() && pm_wf(0x41, apid_proj(am))
    &&& forall|a: DltChar4| am.dom().contains(a) ==> pm_wf(0x43, #[trigger] am[a].1)
}
// at most 2^32 different ids exist (ASSUMED as a bound on the map sizes, as in the statement-wise contracts above)
pub open spec fn maps_small(mm: Map<DltChar4, Map<DltChar4, ApidV>>) -> bool {
    forall|e: DltChar4| mm.dom().contains(e) ==> (#[trigger] mm[e]).dom().len() < 0x1_0000_0000 && forall|a: DltChar4| mm[e].dom().contains(a) ==> (#[trigger] mm[e][a]).1.dom().len() < 0x1_0000_0000
}
pub proof fn lemma_pm_insert(prefix: u8, m: Map<DltChar4, DltChar4>, k: DltChar4)
    requires pm_wf(prefix, m), !m.dom().contains(k),
    ensures pm_wf(prefix, m.insert(k, spec_pseudo(prefix, (m.dom().len() + 1) as int))),
{
    let m2 = m.insert(k, spec_pseudo(prefix, (m.dom().len() + 1) as int));
    assert(m2.dom() =~= m.dom().insert(k));
    assert(m2.dom().len() == (m.dom().len() + 1) as int);
    assert forall|q: DltChar4| m2.dom().contains(q) implies exists|i: int| 1 <= i <= m2.dom().len() && #[trigger] spec_pseudo(prefix, i) == m2[q] by {
        if q == k { assert(spec_pseudo(prefix, (m.dom().len() + 1) as int) == m2[q]); }
        else { let i = choose|i: int| 1 <= i <= m.dom().len() && #[trigger] spec_pseudo(prefix, i) == m[q]; assert(spec_pseudo(prefix, i) == m2[q]); }
    }
}
pub open spec fn pm_inj(m: Map<DltChar4, DltChar4>) -> bool {
    forall|a: DltChar4, b: DltChar4| m.dom().contains(a) && m.dom().contains(b) && #[trigger] m[a] == #[trigger] m[b] ==> a == b
}
pub open spec fn apids_inj(mm: Map<DltChar4, Map<DltChar4, ApidV>>) -> bool { forall|e: DltChar4| mm.dom().contains(e) ==> pm_inj(apid_proj(#[trigger] mm[e])) }
pub open spec fn ctids_inj(mm: Map<DltChar4, Map<DltChar4, ApidV>>) -> bool {
    forall|e: DltChar4, a: DltChar4| mm.dom().contains(e) && #[trigger] mm[e].dom().contains(a) ==> pm_inj(mm[e][a].1)
}
pub open spec fn maps_lt999(mm: Map<DltChar4, Map<DltChar4, ApidV>>) -> bool {
    forall|e: DltChar4| mm.dom().contains(e) ==> (#[trigger] mm[e]).dom().len() < 999 && forall|a: DltChar4| mm[e].dom().contains(a) ==> (#[trigger] mm[e][a]).1.dom().len() < 999
}
pub proof fn lemma_pm_insert_inj(prefix: u8, m: Map<DltChar4, DltChar4>, k: DltChar4)
    requires pm_wf(prefix, m), pm_inj(m), !m.dom().contains(k), m.dom().len() < 999,
    ensures pm_inj(m.insert(k, spec_pseudo(prefix, (m.dom().len() + 1) as int))),
{
    broadcast use axiom_pseudo_injective;
    let n = (m.dom().len() + 1) as int;
    let m2 = m.insert(k, spec_pseudo(prefix, n));
    assert forall|a: DltChar4, b: DltChar4| m2.dom().contains(a) && m2.dom().contains(b) && #[trigger] m2[a] == #[trigger] m2[b] implies a == b by {
        if a != k && b != k { assert(m[a] == m[b]); }
        else if a == k && b != k { let i = choose|i: int| 1 <= i <= m.dom().len() && #[trigger] spec_pseudo(prefix, i) == m[b]; assert(spec_pseudo(prefix, i) == spec_pseudo(prefix, n)); }
        else if b == k && a != k { let i = choose|i: int| 1 <= i <= m.dom().len() && #[trigger] spec_pseudo(prefix, i) == m[a]; assert(spec_pseudo(prefix, i) == spec_pseudo(prefix, n)); }
    }
}
pub proof fn lemma_ecu_wf_empty()
    ensures ecu_wf(Map::<DltChar4, ApidV>::empty()),
{
    assert(apid_proj(Map::<DltChar4, ApidV>::empty()).dom() =~= Set::<DltChar4>::empty());
}
pub open spec fn maps_wf(mm: Map<DltChar4, Map<DltChar4, ApidV>>) -> bool { forall|e: DltChar4| mm.dom().contains(e) ==> ecu_wf(#[trigger] mm[e]) }
// a pseudonym once given never changes (APID and CTID pseudonyms of every ECU)
pub open spec fn maps_stable(m0: Map<DltChar4, Map<DltChar4, ApidV>>, m1: Map<DltChar4, Map<DltChar4, ApidV>>) -> bool {
    forall|e: DltChar4, a: DltChar4| m0.dom().contains(e) && #[trigger] m0[e].dom().contains(a) ==> m1.dom().contains(e) && m1[e].dom().contains(a) && m1[e][a].0 == m0[e][a].0
        && forall|c: DltChar4| #[trigger] m0[e][a].1.dom().contains(c) ==> m1[e][a].1.dom().contains(c) && m1[e][a].1[c] == m0[e][a].1[c]
}
// everything of the message but the two ids in its extended header
pub open spec fn same_but_ids(a: DltMessage, b: DltMessage) -> bool {
    a.index == b.index && a.reception_time_us == b.reception_time_us && a.timestamp_dms == b.timestamp_dms && a.standard_header == b.standard_header && a.ecu == b.ecu
        && a.payload == b.payload && a.payload_text == b.payload_text && a.lifecycle == b.lifecycle
        && (a.extended_header is Some <==> b.extended_header is Some)
        && (a.extended_header is Some ==> a.extended_header->Some_0.verb_mstp_mtin == b.extended_header->Some_0.verb_mstp_mtin && a.extended_header->Some_0.noar == b.extended_header->Some_0.noar)
}
//@ extract src/plugins/anonymize.rs AnonymizePlugin::apid_ctid_anon
//@   rename apid_ctid_anon_whole
//@   rules R1 R2 R3 R4 R5
//@   sub R12 `fn apid_ctid_anon(&mut self, msg: &mut DltMessage)` => `fn apid_ctid_anon(vx_self: &mut VxAnon, msg: &mut DltMessage)`
//@   sub R12 `self` => `vx_self` *
//@   sub R12 `.entry(__).or_default()` => `.vx_entry_or_default($1)`
//@   sub R11 `DltChar4::from_str(format!("A{:03}",` => `vx_apid_from_text(vx_fmt_a03(` ?
//@   sub R11 `DltChar4::from_str(format!("C{:03}",` => `vx_ctid_from_text(vx_fmt_c03(` ?
//@   sub R11 `.unwrap_or_else(|_| DltChar4::from_buf(b"A99A"))` => `.vx_or_fallback()` ?
//@   sub R11 `.unwrap_or_else(|_| DltChar4::from_buf(b"C99A"))` => `.vx_or_fallback()` ?
//@   sub R12 `HashMap::new()` => `VxCtidMapC::new()` ?
//@   spec
//@|    requires
//@|        maps_wf(old(vx_self).apid_maps.m()), maps_small(old(vx_self).apid_maps.m()),
//@|        apids_inj(old(vx_self).apid_maps.m()), ctids_inj(old(vx_self).apid_maps.m()),
//@|        maps_lt999(old(vx_self).apid_maps.m()), //@only:excl
//@|        // (strict variant: no bound on the number of different ids; the two injectivity clauses then fail: known findings) //@only:strict
//@|    ensures
//@|        apids_inj(final(vx_self).apid_maps.m()), // O:anon.apid.injective (distinct APIDs of an ECU, distinct pseudonyms)
//@|        ctids_inj(final(vx_self).apid_maps.m()), // O:anon.ctid.injective (distinct CTIDs of an application, distinct pseudonyms)
//@|        maps_wf(final(vx_self).apid_maps.m()), // O:anon.ac.wf
//@|        maps_stable(old(vx_self).apid_maps.m(), final(vx_self).apid_maps.m()), // O:anon.ac.stable (APID and CTID pseudonyms once given never change)
//@|        same_but_ids(*old(msg), *final(msg)), // O:anon.ac.frame (times, ECU, payload, lifecycle and the rest of the extended header untouched)
//@|        old(msg).extended_header is Some ==> ({
//@|            let e = old(msg).ecu; let a = old(msg).extended_header->Some_0.apid; let c = old(msg).extended_header->Some_0.ctid; let mm = final(vx_self).apid_maps.m();
//@|            mm.dom().contains(e) && mm[e].dom().contains(a) && mm[e][a].1.dom().contains(c)
//@|            && final(msg).extended_header->Some_0.apid == mm[e][a].0 && final(msg).extended_header->Some_0.ctid == mm[e][a].1[c]
//@|        }), // O:anon.ac.function (the pseudonyms written into the message are the ones recorded for its ECU / APID / CTID: equal ids, equal pseudonyms)
//@|        old(msg).extended_header is None ==> final(vx_self).apid_maps.m() == old(vx_self).apid_maps.m(), // O:anon.ac.untouched
//@   hint start
//@|    let ghost mm0 = vx_self.apid_maps.m();
//@   hint after `let apid_map = vx_self.apid_maps.vx_entry_or_default(`
//@|    let ghost am0 = apid_map.m();
//@|    let ghost a = *cur_apid;
//@|    proof { lemma_ecu_wf_empty(); assert(ecu_wf(am0)); assert(am0.dom().len() < 0x1_0000_0000); assert(apid_proj(am0).dom() =~= am0.dom()); }
//@   hint before `let apid_data = apid_map.get_mut(cur_apid).unwrap();`
//@|    let ghost am1 = apid_map.m();
//@|    proof {
//@|        if !am0.dom().contains(a) {
//@|            lemma_pm_insert(0x41, apid_proj(am0), a);
//@|            if am0.dom().len() < 999 && pm_inj(apid_proj(am0)) { lemma_pm_insert_inj(0x41, apid_proj(am0), a); }
//@|            if am1.dom().contains(a) && am1[a].1 =~= Map::<DltChar4, DltChar4>::empty() && am1 == am0.insert(a, am1[a]) && am1[a].0 == spec_pseudo(0x41, (am0.dom().len() + 1) as int) {
//@|                assert(apid_proj(am1) =~= apid_proj(am0).insert(a, spec_pseudo(0x41, (am0.dom().len() + 1) as int)));
//@|                assert(am1.dom() =~= am0.dom().insert(a));
//@|            }
//@|        }
//@|        assert(am1.dom().contains(a) ==> pm_wf(0x43, am1[a].1));
//@|    }
//@   hint before `if let Some(extended_header) = msg.extended_header.as_mut() {`
//@|    proof {
//@|        let cm0 = am1[a].1;
//@|        let c = *cur_ctid;
//@|        if !cm0.dom().contains(c) { lemma_pm_insert(0x43, cm0, c); if cm0.dom().len() < 999 && pm_inj(cm0) { lemma_pm_insert_inj(0x43, cm0, c); } }
//@|        let amf = am1.insert(a, dv(*apid_data));
//@|        if dv(*apid_data).0 == am1[a].0 { assert(apid_proj(amf) =~= apid_proj(am1)); assert(amf.dom() =~= am1.dom()); }
//@|    }
//@ end

fn main() {}
} // verus!
