// ---- units/multiit/theorems.rs: verified clients (what `for msg in iterator` does) and oracle lemmas for C09 ----
pub open spec fn total_len(p: Seq<Seq<DltMessage>>) -> int
    decreases p.len()
{
    if p.len() == 0 { 0 } else { total_len(p.drop_last()) + p.last().len() }
}
pub open spec fn src_sorted(s: Seq<DltMessage>) -> bool {
    forall|a: int, b: int| 0 <= a <= b < s.len() ==> s[a].reception_time_us <= s[b].reception_time_us
}
pub open spec fn all_sorted(p: Seq<Seq<DltMessage>>) -> bool { forall|j: int| 0 <= j < p.len() ==> src_sorted(#[trigger] p[j]) }
pub open spec fn all_nonempty(p: Seq<Seq<DltMessage>>) -> bool { forall|j: int| 0 <= j < p.len() ==> (#[trigger] p[j]).len() > 0 }
// every message still pending is not earlier than t
pub open spec fn all_ge(p: Seq<Seq<DltMessage>>, t: u64) -> bool {
    forall|j: int, k: int| 0 <= j < p.len() && 0 <= k < (#[trigger] p[j]).len() ==> t <= (#[trigger] p[j][k]).reception_time_us
}

pub proof fn lemma_total_len_remove(p: Seq<Seq<DltMessage>>, i: int)
    requires 0 <= i < p.len(),
    ensures total_len(p.remove(i)) == total_len(p) - p[i].len(),
    decreases p.len(),
{
    if i == p.len() - 1 {
        assert(p.remove(i) =~= p.drop_last());
    } else {
        lemma_total_len_remove(p.drop_last(), i);
        assert(p.remove(i).drop_last() =~= p.drop_last().remove(i));
        assert(p.remove(i).last() == p.last());
    }
}
pub proof fn lemma_total_len_push(p: Seq<Seq<DltMessage>>, s: Seq<DltMessage>)
    ensures total_len(p.push(s)) == total_len(p) + s.len(),
{
    assert(p.push(s).drop_last() =~= p);
}
pub proof fn lemma_total_len_nonneg(p: Seq<Seq<DltMessage>>)
    ensures total_len(p) >= 0, all_nonempty(p) ==> total_len(p) >= p.len(),
    decreases p.len(),
{
    if p.len() > 0 {
        lemma_total_len_nonneg(p.drop_last());
        if all_nonempty(p) {
            assert forall|j: int| 0 <= j < p.drop_last().len() implies (#[trigger] p.drop_last()[j]).len() > 0 by { assert(p.drop_last()[j] == p[j]); }
        }
    }
}

// O:sort.drain -- merging: as many messages as all sources hold, numbered consecutively; ordered by reception time if every source is
pub fn drain_sorting<I: VMsgIter>(it: &mut SortingMultiReaderIterator<I>) -> (out: Vec<DltMessage>)
    requires
        old(it).index as int + total_len(old(it).pend()) < u32::MAX,
        all_nonempty(old(it).pend()),
    ensures
        out@.len() == total_len(old(it).pend()), // O:sort.drain.count (nothing lost, nothing duplicated)
        forall|k: int| 0 <= k < out@.len() ==> (#[trigger] out@[k]).index == old(it).index + k, // O:sort.drain.index
        all_sorted(old(it).pend()) ==> forall|a: int, b: int| 0 <= a <= b < out@.len() ==> out@[a].reception_time_us <= out@[b].reception_time_us, // O:sort.drain.sorted
        final(it).pend().len() == 0,
{
    let mut out: Vec<DltMessage> = Vec::new();
    let ghost p0 = it.pend();
    let ghost sorted0 = all_sorted(p0);
    proof { lemma_total_len_nonneg(it.pend()); }
    loop
        invariant_except_break
            out@.len() + total_len(it.pend()) == total_len(p0),
        invariant
            p0 == old(it).pend(), sorted0 == all_sorted(p0),
            all_nonempty(it.pend()),
            it.index == old(it).index + out@.len(),
            it.index as int + total_len(it.pend()) < u32::MAX,
            forall|k: int| 0 <= k < out@.len() ==> (#[trigger] out@[k]).index == old(it).index + k,
            sorted0 ==> all_sorted(it.pend()),
            sorted0 ==> forall|a: int, b: int| 0 <= a <= b < out@.len() ==> out@[a].reception_time_us <= out@[b].reception_time_us,
            sorted0 ==> forall|a: int| 0 <= a < out@.len() ==> all_ge(it.pend(), (#[trigger] out@[a]).reception_time_us),
        ensures
            out@.len() == total_len(p0), it.pend().len() == 0,
        decreases total_len(it.pend()),
    {
        let ghost p = it.pend();
        proof { lemma_total_len_nonneg(p); }
        match it.next() {
            Some(m) => {
                proof {
                    let i = choose|i: int| {
                        &&& 0 <= i < p.len()
                        &&& same_but_index(m, #[trigger] p[i][0]) && m.index == old(it).index + out@.len()
                        &&& (forall|j: int| 0 <= j < p.len() ==> p[i][0].reception_time_us <= (#[trigger] p[j])[0].reception_time_us)
                        &&& it.pend() == (if p[i].len() == 1 { p.remove(i) } else { p.remove(i).push(p[i].skip(1)) })
                    };
                    lemma_total_len_remove(p, i);
                    if p[i].len() > 1 { lemma_total_len_push(p.remove(i), p[i].skip(1)); }
                    lemma_total_len_nonneg(it.pend());
                    if sorted0 {
                        let t = m.reception_time_us;
                        // the head returned is the earliest of everything still pending
                        assert forall|j: int, k: int| 0 <= j < p.len() && 0 <= k < (#[trigger] p[j]).len() implies t <= (#[trigger] p[j][k]).reception_time_us by {
                            assert(src_sorted(p[j]));
                            assert(p[i][0].reception_time_us <= p[j][0].reception_time_us);
                        }
                        let q = it.pend();
                        assert forall|j: int| 0 <= j < q.len() implies src_sorted(#[trigger] q[j]) by {
                            if p[i].len() > 1 && j == q.len() - 1 {
                                assert(q[j] == p[i].skip(1));
                                assert(src_sorted(p[i]));
                                assert forall|a: int, b: int| 0 <= a <= b < q[j].len() implies q[j][a].reception_time_us <= q[j][b].reception_time_us by {
                                    assert(q[j][a] == p[i][a + 1] && q[j][b] == p[i][b + 1]);
                                }
                            } else {
                                let jj = if j < i { j } else { j + 1 };
                                assert(q[j] == p[jj]);
                            }
                        }
                        assert forall|j: int, k: int| 0 <= j < q.len() && 0 <= k < (#[trigger] q[j]).len() implies t <= (#[trigger] q[j][k]).reception_time_us by {
                            if p[i].len() > 1 && j == q.len() - 1 {
                                assert(q[j][k] == p[i][k + 1]);
                            } else {
                                let jj = if j < i { j } else { j + 1 };
                                assert(q[j] == p[jj]);
                            }
                        }
                        assert forall|a: int| 0 <= a < out@.len() implies all_ge(q, (#[trigger] out@[a]).reception_time_us) by {
                            assert(all_ge(p, out@[a].reception_time_us));
                            assert forall|j: int, k: int| 0 <= j < q.len() && 0 <= k < (#[trigger] q[j]).len() implies out@[a].reception_time_us <= (#[trigger] q[j][k]).reception_time_us by {
                                if p[i].len() > 1 && j == q.len() - 1 {
                                    assert(q[j][k] == p[i][k + 1]);
                                } else {
                                    let jj = if j < i { j } else { j + 1 };
                                    assert(q[j] == p[jj]);
                                }
                            }
                        }
                        assert forall|a: int| 0 <= a < out@.len() implies (#[trigger] out@[a]).reception_time_us <= t by {
                            assert(all_ge(p, out@[a].reception_time_us));
                            assert(p[i][0].reception_time_us == t);
                        }
                    }
                }
                out.push(m);
            }
            None => {
                proof { assert(p.len() == 0); assert(total_len(p) == 0); }
                break;
            }
        }
    }
    out
}

// O:seq.drain -- chaining: exactly the concatenation of the sources, numbered consecutively (empty sources included)
pub fn drain_sequential<I: VMsgIter, O: VSrcIter<I>>(it: &mut SequentialMultiIterator<I, O>) -> (out: Vec<DltMessage>)
    requires old(it).wf(), old(it).index as int + old(it).todo().len() < u32::MAX,
    ensures
        out@.len() == old(it).todo().len(), // O:seq.drain.count
        forall|k: int| 0 <= k < out@.len() ==> same_but_index(#[trigger] out@[k], old(it).todo()[k]) && out@[k].index == old(it).index + k, // O:seq.drain.concat
{
    let mut out: Vec<DltMessage> = Vec::new();
    let ghost t0 = it.todo();
    loop
        invariant_except_break
            t0 =~= Seq::new(out@.len(), |k: int| t0[k]) + it.todo(),
            out@.len() + it.todo().len() == t0.len(),
        invariant
            t0 == old(it).todo(), it.wf(),
            it.index == old(it).index + out@.len(),
            it.index as int + it.todo().len() < u32::MAX,
            forall|k: int| 0 <= k < out@.len() ==> same_but_index(#[trigger] out@[k], t0[k]) && out@[k].index == old(it).index + k,
        ensures out@.len() == t0.len(),
        decreases it.todo().len(),
    {
        let ghost t = it.todo();
        match it.next() {
            Some(m) => {
                proof { assert(t[0] == t0[out@.len() as int]); }
                out.push(m);
            }
            None => { break; }
        }
    }
    out
}
// ---- end of units/multiit/theorems.rs ----
