// ---- units/multiit/part.rs ----
// R12: Box<dyn Iterator<Item = DltMessage> + 'a> -> type parameter I: VMsgIter (a universally quantified message source)
pub trait VMsgIter: Sized {
    spec fn rem(&self) -> Seq<DltMessage>;     // the messages this source will still yield, in order
    fn next(&mut self) -> (r: Option<DltMessage>)
        ensures
            old(self).rem().len() == 0 ==> r is None && final(self).rem() == old(self).rem(),
            old(self).rem().len() > 0 ==> r == Some(old(self).rem()[0]) && final(self).rem() == old(self).rem().skip(1);
}

//@ extract src/utils/sorting_multi_readeriterator.rs struct MinHeapEntry
//@   sub R12 `MinHeapEntry<'a>` => `MinHeapEntry<I: VMsgIter>`
//@   sub R12 `Box<dyn Iterator<Item = DltMessage> + 'a>` => `I`
//@ end
//@ extract src/utils/sorting_multi_readeriterator.rs struct SortingMultiReaderIterator
//@   sub R12 `SortingMultiReaderIterator<'a>` => `SortingMultiReaderIterator<I: VMsgIter>`
//@   sub R12 `BinaryHeap<MinHeapEntry<'a>>` => `BinaryHeap<MinHeapEntry<I>>`
//@ end

// ---- BinaryHeap (std) as an external type with a multiset view; push/pop per its documentation (trusted) ----
#[verifier::external_type_specification]
#[verifier::external_body]
#[verifier::accept_recursive_types(T)]
#[verifier::reject_recursive_types(A)]
pub struct ExBinaryHeap<T, A: Allocator>(BinaryHeap<T, A>);
// the heap's contents as a sequence in an arbitrary but fixed order (the order carries no meaning)
pub uninterp spec fn heap_view<I: VMsgIter>(h: &BinaryHeap<MinHeapEntry<I>>) -> Seq<MinHeapEntry<I>>;
// the order BinaryHeap uses is MinHeapEntry's Ord::cmp, proved below to be the reversed comparison of reception times
pub open spec fn spec_entry_cmp<I: VMsgIter>(a: &MinHeapEntry<I>, b: &MinHeapEntry<I>) -> Ordering {
    if b.m.reception_time_us < a.m.reception_time_us { Ordering::Less }
    else if b.m.reception_time_us == a.m.reception_time_us { Ordering::Equal }
    else { Ordering::Greater }
}
#[verifier::external_body]
pub fn vx_heap_with_capacity<I: VMsgIter>(n: usize) -> (r: BinaryHeap<MinHeapEntry<I>>)
    ensures heap_view(&r).len() == 0,
{ unimplemented!() }
#[verifier::external_body]
pub fn vx_heap_push<I: VMsgIter>(h: &mut BinaryHeap<MinHeapEntry<I>>, e: MinHeapEntry<I>)
    ensures heap_view(final(h)) == heap_view(old(h)).push(e),
{ unimplemented!() }
// pop: a greatest element w.r.t. Ord (documented behaviour of a max-heap); which of several equal ones is unspecified
// (vx_pop_idx: the position, in the ghost view, of the element that pop takes)
pub uninterp spec fn vx_pop_idx<I: VMsgIter>(hv: Seq<MinHeapEntry<I>>) -> int;
#[verifier::external_body]
pub fn vx_heap_pop<I: VMsgIter>(h: &mut BinaryHeap<MinHeapEntry<I>>) -> (r: Option<MinHeapEntry<I>>)
    ensures
        r is None ==> heap_view(old(h)).len() == 0 && heap_view(final(h)) == heap_view(old(h)),
        r is Some ==> 0 <= vx_pop_idx(heap_view(old(h))) < heap_view(old(h)).len() && heap_view(old(h))[vx_pop_idx(heap_view(old(h)))] == r->Some_0
            && heap_view(final(h)) == heap_view(old(h)).remove(vx_pop_idx(heap_view(old(h)))),
        r is Some ==> forall|j: int| 0 <= j < heap_view(old(h)).len() ==> !(#[trigger] spec_entry_cmp(&heap_view(old(h))[j], &r->Some_0) is Greater),
{ unimplemented!() }

impl<I: VMsgIter> MinHeapEntry<I> {
    // everything this heap entry's source will still deliver: the head already read, then the rest
    pub open spec fn pending(&self) -> Seq<DltMessage> { seq![self.m] + self.it.rem() }
//@ extract src/utils/sorting_multi_readeriterator.rs <Ord for MinHeapEntry>::cmp
//@   spec
//@|    ensures r == spec_entry_cmp(self, other), // O:heap.cmp (smallest reception time = greatest element)
//@ end
}

pub open spec fn same_but_index(a: DltMessage, b: DltMessage) -> bool {
    a.reception_time_us == b.reception_time_us && a.ecu == b.ecu && a.timestamp_dms == b.timestamp_dms && a.standard_header == b.standard_header
        && a.extended_header == b.extended_header && a.payload == b.payload && a.payload_text == b.payload_text && a.lifecycle == b.lifecycle
}

// the pending message sequences of all sources that are not exhausted (what the merge still has to deliver)
pub open spec fn pendings<I: VMsgIter>(hv: Seq<MinHeapEntry<I>>) -> Seq<Seq<DltMessage>> { Seq::new(hv.len(), |i: int| hv[i].pending()) }
pub open spec fn nonempty(srcs: Seq<Seq<DltMessage>>) -> Seq<Seq<DltMessage>>
    decreases srcs.len()
{
    if srcs.len() == 0 { Seq::empty() }
    else if srcs.last().len() == 0 { nonempty(srcs.drop_last()) }
    else { nonempty(srcs.drop_last()).push(srcs.last()) }
}
pub open spec fn rems<I: VMsgIter>(its: Seq<I>) -> Seq<Seq<DltMessage>> { Seq::new(its.len(), |i: int| its[i].rem()) }

impl<I: VMsgIter> SortingMultiReaderIterator<I> {
    pub open spec fn pend(&self) -> Seq<Seq<DltMessage>> { pendings(heap_view(&self.min_heap)) }

//@ extract src/utils/sorting_multi_readeriterator.rs SortingMultiReaderIterator::new
//@   sub R12 `SortingMultiReaderIterator<'a>` => `SortingMultiReaderIterator<I>`
//@   sub R12 `Vec<Box<dyn Iterator<Item = DltMessage> + 'a>>` => `Vec<I>`
//@   sub R11 `BinaryHeap::with_capacity(its.len())` => `vx_heap_with_capacity(its.len())`
//@   sub R11 `min_heap.push(MinHeapEntry { m, it })` => `vx_heap_push(&mut min_heap, MinHeapEntry { m, it })`
//@   sub R13 `for mut it in its.into_iter() {` => `let mut vx_its = its; let ghost its0 = vx_its@; let ghost mut vx_k: int = 0; while vx_its.len() > 0 invariant 0 <= vx_k, vx_k + vx_its@.len() == its0.len(), vx_its@ =~= its0.subrange(vx_k, its0.len() as int), pendings(heap_view(&min_heap)) == nonempty(rems(its0.subrange(0, vx_k))) decreases vx_its@.len() { let ghost hv_it = heap_view(&min_heap); let mut it = vx_its.remove(0); proof { vx_k = vx_k + 1; let pre = rems(its0.subrange(0, vx_k)); assert(pre.drop_last() =~= rems(its0.subrange(0, vx_k - 1))); assert(pre.last() == its0[vx_k - 1].rem()); assert(it == its0[vx_k - 1]); } let ghost it_rem0 = it.rem();`
//@   spec
//@|    ensures
//@|        r.index == start_index,
//@|        r.pend() == nonempty(rems(its@)), // O:sort.new (one entry per non-empty source, holding all of its messages; no source is dropped)
//@   hint before `vx_heap_push(&mut min_heap`
//@|    let ghost e_new = MinHeapEntry { m, it };
//@   hint after `vx_heap_push(&mut min_heap`
//@|    proof {
//@|        assert(e_new.pending() =~= it_rem0);
//@|        assert(pendings(heap_view(&min_heap)) =~= pendings(hv_it).push(e_new.pending()));
//@|    }
//@   hint before `SortingMultiReaderIterator {`
//@|    proof { if vx_k == its0.len() { assert(its0.subrange(0, vx_k) =~= its0); } }   // (conditional: a loop that can be left early must fail O:sort.new, not this hint)
//@ end

//@ extract src/utils/sorting_multi_readeriterator.rs <Iterator for SortingMultiReaderIterator>::next
//@   sub R8 `Self::Item` => `DltMessage`
//@   sub R11 `self.min_heap.pop()` => `vx_heap_pop(&mut self.min_heap)`
//@   sub R11 `self.min_heap.push(MinHeapEntry { m, it })` => `vx_heap_push(&mut self.min_heap, MinHeapEntry { m, it })`
//@   spec
//@|    requires old(self).index < u32::MAX,
//@|    ensures
//@|        r is None <==> old(self).pend().len() == 0, // O:sort.next.none_only_when_empty
//@|        r is None ==> final(self).pend() == old(self).pend() && final(self).index == old(self).index,
//@|        r is Some ==> exists|i: int| {
//@|            &&& 0 <= i < old(self).pend().len()
//@|            &&& same_but_index(r->Some_0, #[trigger] old(self).pend()[i][0]) && r->Some_0.index == old(self).index     // the head of source i, unchanged, numbered with the current index
//@|            &&& (forall|j: int| 0 <= j < old(self).pend().len() ==> old(self).pend()[i][0].reception_time_us <= (#[trigger] old(self).pend()[j])[0].reception_time_us) // the earliest head
//@|            &&& final(self).pend() == (if old(self).pend()[i].len() == 1 { old(self).pend().remove(i) }                   // source exhausted: dropped
//@|                                      else { old(self).pend().remove(i).push(old(self).pend()[i].skip(1)) })                 // else the same source, advanced by exactly one message
//@|        }, // O:sort.next.step
//@|        r is Some ==> final(self).index == old(self).index + 1, // O:sort.next.index
//@|        forall|j: int| 0 <= j < final(self).pend().len() ==> (#[trigger] final(self).pend()[j]).len() > 0,
//@   hint before `let mut m = heap_entry.m;`
//@|    let ghost e0 = heap_entry;
//@|    let ghost hv0 = heap_view(&old(self).min_heap);
//@|    let ghost p0 = old(self).pend();
//@|    let ghost pi = vx_pop_idx(hv0);
//@   hint before `^Some(m)`
//@|    proof {
//@|        let hv1 = heap_view(&self.min_heap);
//@|        assert(e0.pending().skip(1) =~= e0.it.rem());
//@|        assert(p0[pi] == e0.pending());
//@|        assert forall|j: int| 0 <= j < p0.len() implies p0[pi][0].reception_time_us <= (#[trigger] p0[j])[0].reception_time_us by {
//@|            assert(!(spec_entry_cmp(&hv0[j], &e0) is Greater));
//@|            assert(p0[j] == hv0[j].pending());
//@|        }
//@|        if e0.it.rem().len() == 0 {
//@|            assert(self.pend() =~= p0.remove(pi));
//@|        } else {
//@|            assert(e0.it.rem() =~= seq![e0.it.rem()[0]] + e0.it.rem().skip(1));
//@|            assert(hv1.last().pending() =~= p0[pi].skip(1));
//@|            assert(self.pend() =~= p0.remove(pi).push(p0[pi].skip(1)));
//@|        }
//@|    }
//@ end
}

// ---- SequentialMultiIterator: chaining ----
// R12: the outer iterator O: Iterator<Item = Box<dyn Iterator<Item = DltMessage>>> -> O: VSrcIter<I>
pub trait VSrcIter<I: VMsgIter>: Sized {
    spec fn srcs(&self) -> Seq<I>;     // the sources not handed out yet, in order
    fn next(&mut self) -> (r: Option<I>)
        ensures
            old(self).srcs().len() == 0 ==> r is None && final(self).srcs() == old(self).srcs(),
            old(self).srcs().len() > 0 ==> r == Some(old(self).srcs()[0]) && final(self).srcs() == old(self).srcs().skip(1);
}
//@ extract src/utils/sorting_multi_readeriterator.rs struct SequentialMultiIterator
//@   sub R12 `SequentialMultiIterator<'a, O>` => `SequentialMultiIterator<I: VMsgIter, O: VSrcIter<I>>`
//@   sub R12 `Option<Box<dyn Iterator<Item = DltMessage> + 'a>>` => `Option<I>`
//@ end
pub open spec fn concat_rems<I: VMsgIter>(its: Seq<I>) -> Seq<DltMessage>
    decreases its.len()
{
    if its.len() == 0 { Seq::empty() } else { its[0].rem() + concat_rems(its.skip(1)) }
}
impl<I: VMsgIter, O: VSrcIter<I>> SequentialMultiIterator<I, O> {
    // everything the chain will still deliver: the rest of the current source, then all following sources
    pub open spec fn todo(&self) -> Seq<DltMessage> {
        (match self.cur_it { Some(c) => c.rem(), None => Seq::<DltMessage>::empty() }) + concat_rems(self.its.srcs())
    }
    pub open spec fn wf(&self) -> bool { self.cur_it is None ==> self.its.srcs().len() == 0 }

//@ extract src/utils/sorting_multi_readeriterator.rs SequentialMultiIterator::new
//@   sub R12 `SequentialMultiIterator<'a, O>` => `SequentialMultiIterator<I, O>`
//@   sub R12 `where O: Iterator<Item = Box<dyn Iterator<Item = DltMessage> + 'a>>,` => ``
//@   spec
//@|    ensures
//@|        r.wf() && r.index == start_index,
//@|        r.todo() == concat_rems(its.srcs()), // O:seq.new (the concatenation of all sources)
//@ end

//@ extract src/utils/sorting_multi_readeriterator.rs <Iterator for SequentialMultiIterator>::next
//@   sub R8 `Self::Item` => `DltMessage`
//@   spec
//@|    requires old(self).wf(), old(self).index < u32::MAX,
//@|    ensures
//@|        final(self).wf(),
//@|        r is None <==> old(self).todo().len() == 0, // O:seq.next.none_only_at_end (empty sources are skipped, not mistaken for the end)
//@|        r is Some ==> same_but_index(r->Some_0, old(self).todo()[0]) && r->Some_0.index == old(self).index, // O:seq.next.head
//@|        r is Some ==> final(self).todo() == old(self).todo().skip(1) && final(self).index == old(self).index + 1, // O:seq.next.advance
//@|        r is None ==> final(self).index == old(self).index && final(self).todo().len() == 0,
//@|    decreases old(self).its.srcs().len(), (if old(self).cur_it is Some { 1int } else { 0int }),
//@ end
}
// ---- end of units/multiit/part.rs ----
