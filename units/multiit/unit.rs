//@ unit multiit
// C09: SortingMultiReaderIterator / SequentialMultiIterator lose nothing, keep per-source order, number consecutively.
#![feature(allocator_api)]
#![allow(unused_imports, dead_code, unused_variables, unused_mut, non_upper_case_globals)]
use vstd::prelude::*;
use vstd::multiset::Multiset;
use std::collections::BinaryHeap;
use std::cmp::Ordering;
use std::alloc::Allocator;
verus! {
global size_of usize == 8;

//@ include prelude/std_specs.rs
//@ include units/dltcore/part.rs
//@ include units/multiit/part.rs
//@ include units/multiit/theorems.rs

fn main() {}
} // verus!
