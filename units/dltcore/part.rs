// ---- units/dltcore/part.rs: DLT byte-layout oracle + the real header/parser functions of src/dlt/mod.rs ----

// ---------- byte order (arithmetic definitions; the vx_* wrappers are the trusted link to std) ----------
pub open spec fn le32(b0: u8, b1: u8, b2: u8, b3: u8) -> int {
    b0 as int + 256 * (b1 as int) + 65536 * (b2 as int) + 16777216 * (b3 as int)
}
pub open spec fn be32(b0: u8, b1: u8, b2: u8, b3: u8) -> int { le32(b3, b2, b1, b0) }
pub open spec fn be16(b0: u8, b1: u8) -> int { 256 * (b0 as int) + b1 as int }

#[verifier::external_body]
pub fn vx_u32_from_le_bytes(b: [u8; 4]) -> (r: u32)
    ensures r as int == le32(b[0], b[1], b[2], b[3]),
{ u32::from_le_bytes(b) }
#[verifier::external_body]
pub fn vx_u32_from_be_bytes(b: [u8; 4]) -> (r: u32)
    ensures r as int == be32(b[0], b[1], b[2], b[3]),
{ u32::from_be_bytes(b) }
#[verifier::external_body]
pub fn vx_u16_from_be_bytes(b: [u8; 2]) -> (r: u16)
    ensures r as int == be16(b[0], b[1]),
{ u16::from_be_bytes(b) }
#[verifier::external_body]
pub fn vx_vec_from_slice(s: &[u8]) -> (r: Vec<u8>)
    ensures r@ == s@,
{ Vec::from(s) }

// ---------- oracle: frame markers ----------
pub open spec fn sh_pat(s: Seq<u8>, i: int) -> bool {
    0 <= i && i + 4 <= s.len() && s[i] == 0x44 && s[i + 1] == 0x4c && s[i + 2] == 0x54 && s[i + 3] == 0x01
}
pub open spec fn ser_pat(s: Seq<u8>, i: int) -> bool {
    0 <= i && i + 4 <= s.len() && s[i] == 0x44 && s[i + 1] == 0x4c && s[i + 2] == 0x53 && s[i + 3] == 0x01
}
pub proof fn lemma_le32_sh(b0: u8, b1: u8, b2: u8, b3: u8)
    ensures le32(b0, b1, b2, b3) == 0x01544c44 <==> (b0 == 0x44 && b1 == 0x4c && b2 == 0x54 && b3 == 0x01),
{}
pub proof fn lemma_le32_ser(b0: u8, b1: u8, b2: u8, b3: u8)
    ensures le32(b0, b1, b2, b3) == 0x01534c44 <==> (b0 == 0x44 && b1 == 0x4c && b2 == 0x53 && b3 == 0x01),
{}
pub broadcast proof fn lemma_sh_pat_suffix(d: Seq<u8>, i: int)
    requires 0 <= i <= d.len(),
    ensures #[trigger] sh_pat(d.subrange(i, d.len() as int), 0) == sh_pat(d, i),
{}
pub broadcast proof fn lemma_ser_pat_suffix(d: Seq<u8>, i: int)
    requires 0 <= i <= d.len(),
    ensures #[trigger] ser_pat(d.subrange(i, d.len() as int), 0) == ser_pat(d, i),
{}
// used by the parsers via `broadcast use` at the start of the body: no statement-level anchors needed

// ---------- oracle: header layout ----------
pub open spec fn hdr_size(htyp: u8) -> int {
    4 + (if htyp & 4 != 0 { 4int } else { 0 }) + (if htyp & 8 != 0 { 4int } else { 0 })
      + (if htyp & 16 != 0 { 4int } else { 0 }) + (if htyp & 1 != 0 { 10int } else { 0 })
}
pub struct AExt { pub verb_mstp_mtin: u8, pub noar: u8, pub apid: Seq<u8>, pub ctid: Seq<u8> }
// abstract message: what a reader must recover from the bytes
pub struct AMsg {
    pub index: int,
    pub reception_time_us: int,
    pub ecu: Seq<u8>,
    pub timestamp_dms: int,
    pub htyp: u8,
    pub mcnt: u8,
    pub len: int,
    pub ext: Option<AExt>,
    pub payload: Seq<u8>,
}
// message whose standard header starts at `off` of d; sh_* come from the storage header (or the serial constants)
pub open spec fn spec_msg_at(d: Seq<u8>, off: int, index: int, rtime: int, sh_ecu: Seq<u8>) -> AMsg {
    let htyp = d[off];
    let h = hdr_size(htyp);
    let l = be16(d[off + 2], d[off + 3]);
    let ts_off = off + 4 + (if htyp & 4 != 0 { 4int } else { 0 }) + (if htyp & 8 != 0 { 4int } else { 0 });
    AMsg {
        index: index,
        reception_time_us: rtime,
        ecu: if htyp & 4 != 0 { d.subrange(off + 4, off + 8) } else { sh_ecu },
        timestamp_dms: if htyp & 16 != 0 { be32(d[ts_off], d[ts_off + 1], d[ts_off + 2], d[ts_off + 3]) } else { 0 },
        htyp: htyp,
        mcnt: d[off + 1],
        len: l,
        ext: if htyp & 1 != 0 {
            Some(AExt { verb_mstp_mtin: d[off + h - 10], noar: d[off + h - 9],
                        apid: d.subrange(off + h - 8, off + h - 4), ctid: d.subrange(off + h - 4, off + h) })
        } else { None },
        payload: d.subrange(off + h, off + l),
    }
}
pub enum SParse { Msg(int, AMsg), Invalid, NotEnough }

pub open spec fn inner_sh(d: Seq<u8>, n: int) -> bool { exists|i: int| 5 <= i < n && #[trigger] sh_pat(d, i) }
pub open spec fn inner_ser(d: Seq<u8>, n: int) -> bool { exists|i: int| 5 <= i < n && #[trigger] ser_pat(d, i) }

pub open spec fn storage_rtime(d: Seq<u8>) -> int {
    le32(d[4], d[5], d[6], d[7]) * 1_000_000 + le32(d[8], d[9], d[10], d[11])
}
// total oracle of the storage-header parser (incl. the next-marker plausibility heuristic)
// opaque: callers such as DltMessageIterator::next only need what the lemmas say about it (keeps their SMT queries small and stable)
#[verifier::opaque]
pub open spec fn spec_parse_storage(d: Seq<u8>, index: int) -> SParse {
    if d.len() < 20 { SParse::NotEnough }
    else if !sh_pat(d, 0) { SParse::Invalid }
    else {
        let l = be16(d[18], d[19]);
        let h = hdr_size(d[16]);
        if l < h { SParse::Invalid }
        else if d.len() - 16 < l { SParse::NotEnough }
        else {
            let n = 16 + l;
            if d.len() - n >= 4 && !sh_pat(d, n) && inner_sh(d, n) { SParse::Invalid }
            else { SParse::Msg(n, spec_msg_at(d, 16, index, storage_rtime(d), d.subrange(12, 16))) }
        }
    }
}
// every reception time produced by the two parsers is below 2^53 us (the bound unit lifecycle assumes for its time arithmetic)
pub proof fn lemma_parsed_reception_time_bounded(d: Seq<u8>)
    requires d.len() >= 12,
    ensures 0 <= storage_rtime(d) < 0x20_0000_0000_0000, 0 <= serial_rtime() < 0x20_0000_0000_0000, // O:parsed.rtime_bound
{}
pub open spec fn serial_ecu() -> Seq<u8> { seq![0x44u8, 0x4cu8, 0x53u8, 0u8] }
pub open spec fn serial_rtime() -> int { 1671408000int * 1_000_000int }
#[verifier::opaque]
pub open spec fn spec_parse_serial(d: Seq<u8>, index: int) -> SParse {
    if d.len() < 8 { SParse::NotEnough }
    else if !ser_pat(d, 0) { SParse::Invalid }
    else {
        let l = be16(d[6], d[7]);
        let h = hdr_size(d[4]);
        if l < h { SParse::Invalid }
        else if d.len() - 4 < l { SParse::Invalid }
        else {
            let n = 4 + l;
            if d.len() - n >= 4 && !ser_pat(d, n) && inner_ser(d, n) { SParse::Invalid }
            else { SParse::Msg(n, spec_msg_at(d, 4, index, serial_rtime(), serial_ecu())) }
        }
    }
}

// ---------- real types ----------
//@ extract src/dlt/mod.rs struct DltChar4
//@ end
//@ extract src/dlt/mod.rs struct DltStorageHeader
//@ end
//@ extract src/dlt/mod.rs struct DltStandardHeader
//@ end
//@ extract src/dlt/mod.rs struct DltExtendedHeader
//@ end
//@ extract src/dlt/mod.rs type DltMessageIndexType
//@ end
//@ extract src/dlt/mod.rs struct DltMessage
//@   sub R2 `crate::lifecycle::LifecycleId` => `u32`
//@ end
//@ extract src/dlt/mod.rs struct Error
//@ end
//@ extract src/dlt/mod.rs enum ErrorKind
//@ end
//@ extract src/dlt/mod.rs const DLT_STORAGE_HEADER_PATTERN
//@ end
//@ extract src/dlt/mod.rs const DLT_STORAGE_HEADER_SIZE
//@ end
//@ extract src/dlt/mod.rs const DLT_SERIAL_HEADER_PATTERN
//@ end
//@ extract src/dlt/mod.rs const DLT_SERIAL_HEADER_SIZE
//@ end
//@ extract src/dlt/mod.rs const DLT_MAX_STORAGE_MSG_SIZE
//@ end
//@ extract src/dlt/mod.rs const DLT_MIN_STD_HEADER_SIZE
//@ end
//@ extract src/dlt/mod.rs const MIN_DLT_MSG_SIZE
//@ end
//@ extract src/dlt/mod.rs const DLT_EXT_HEADER_SIZE
//@ end
//@ extract src/dlt/mod.rs const DLT_STD_HDR_HAS_EXT_HDR
//@ end
//@ extract src/dlt/mod.rs const DLT_STD_HDR_BIG_ENDIAN
//@ end
//@ extract src/dlt/mod.rs const DLT_STD_HDR_HAS_ECU_ID
//@ end
//@ extract src/dlt/mod.rs const DLT_STD_HDR_HAS_SESSION_ID
//@ end
//@ extract src/dlt/mod.rs const DLT_STD_HDR_HAS_TIMESTAMP
//@ end
//@ extract src/dlt/mod.rs const DLT_STD_HDR_VERSION
//@ end
//@ extract src/utils/mod.rs const US_PER_SEC
//@ end

pub proof fn lemma_flag_consts()
    ensures (1u8 << 1) == 2u8, (1u8 << 2) == 4u8, (1u8 << 3) == 8u8, (1u8 << 4) == 16u8, (0x1u8 << 5) == 32u8,
{
    assert((1u8 << 1) == 2u8 && (1u8 << 2) == 4u8 && (1u8 << 3) == 8u8 && (1u8 << 4) == 16u8 && (0x1u8 << 5) == 32u8) by(bit_vector);
}
pub proof fn lemma_flag_test(h: u8, m: u8)
    ensures ((h & m) > 0) == (h & m != 0),
{
    assert(((h & m) > 0) == (h & m != 0)) by(bit_vector);
}

impl DltChar4 {
//@ extract src/dlt/mod.rs DltChar4::from_buf
//@   spec
//@|    requires buf@.len() == 4, // the assert_eq! of from_buf: callers must pass exactly 4 bytes
//@|    ensures r.char4@ == buf@, // O:char4.from_buf
//@ end
}

impl DltStorageHeader {
    pub open spec fn rtime(&self) -> int { self.secs as int * 1_000_000 + self.micros as int }
//@ extract src/dlt/mod.rs DltStorageHeader::from_buf
//@   spec
//@|    ensures
//@|        r is Some <==> (buf@.len() >= 16 && sh_pat(buf@, 0)), // O:sh.from_buf.some
//@|        r is Some ==> r->Some_0.secs as int == le32(buf@[4], buf@[5], buf@[6], buf@[7])
//@|            && r->Some_0.micros as int == le32(buf@[8], buf@[9], buf@[10], buf@[11])
//@|            && r->Some_0.ecu.char4@ == buf@.subrange(12, 16), // O:sh.from_buf.fields
//@   hint before `if pat != DLT_STORAGE_HEADER_PATTERN {`
//@|    proof { lemma_le32_sh(buf[0], buf[1], buf[2], buf[3]); }
//@ end
//@ extract src/dlt/mod.rs DltStorageHeader::reception_time_us
//@   spec
//@|    ensures r as int == self.rtime(), // O:sh.rtime
//@ end
}

impl DltStandardHeader {
//@ extract src/dlt/mod.rs DltStandardHeader::from_buf
//@   spec
//@|    ensures
//@|        r is Some <==> buf@.len() >= 4, // O:stdh.from_buf.some
//@|        r is Some ==> r->Some_0.htyp == buf@[0] && r->Some_0.mcnt == buf@[1] && r->Some_0.len as int == be16(buf@[2], buf@[3]), // O:stdh.from_buf.fields
//@ end
//@ extract src/dlt/mod.rs DltStandardHeader::has_ext_hdr
//@   spec
//@|    ensures r == (self.htyp & 1 != 0),
//@   hint before `(self.htyp &`
//@|    proof { lemma_flag_consts(); lemma_flag_test(self.htyp, 1); }
//@ end
//@ extract src/dlt/mod.rs DltStandardHeader::is_big_endian
//@   spec
//@|    ensures r == (self.htyp & 2 != 0),
//@   hint before `(self.htyp &`
//@|    proof { lemma_flag_consts(); lemma_flag_test(self.htyp, 2); }
//@ end
//@ extract src/dlt/mod.rs DltStandardHeader::has_ecu_id
//@   spec
//@|    ensures r == (self.htyp & 4 != 0),
//@   hint before `(self.htyp &`
//@|    proof { lemma_flag_consts(); lemma_flag_test(self.htyp, 4); }
//@ end
//@ extract src/dlt/mod.rs DltStandardHeader::has_session_id
//@   spec
//@|    ensures r == (self.htyp & 8 != 0),
//@   hint before `(self.htyp &`
//@|    proof { lemma_flag_consts(); lemma_flag_test(self.htyp, 8); }
//@ end
//@ extract src/dlt/mod.rs DltStandardHeader::has_timestamp
//@   spec
//@|    ensures r == (self.htyp & 16 != 0),
//@   hint before `(self.htyp &`
//@|    proof { lemma_flag_consts(); lemma_flag_test(self.htyp, 16); }
//@ end
//@ extract src/dlt/mod.rs DltStandardHeader::std_ext_header_size
//@   spec
//@|    ensures r as int == hdr_size(self.htyp), 4 <= r <= 26, // O:stdh.hdr_size
//@ end
//@ extract src/dlt/mod.rs DltStandardHeader::ecu
//@   spec
//@|    requires self.htyp & 4 != 0 ==> add_header_buf@.len() >= 4,
//@|    ensures
//@|        r is Some <==> self.htyp & 4 != 0,
//@|        r is Some ==> r->Some_0.char4@ == add_header_buf@.subrange(0, 4), // O:stdh.ecu
//@ end
//@ extract src/dlt/mod.rs DltStandardHeader::timestamp_dms
//@   spec
//@|    requires add_header_buf@.len() == hdr_size(self.htyp) - 4,
//@|    ensures r as int == (if self.htyp & 16 != 0 {
//@|            let o = (if self.htyp & 4 != 0 { 4int } else { 0 }) + (if self.htyp & 8 != 0 { 4int } else { 0 });
//@|            be32(add_header_buf@[o], add_header_buf@[o + 1], add_header_buf@[o + 2], add_header_buf@[o + 3])
//@|        } else { 0 }), // O:stdh.timestamp
//@ end
}

impl DltExtendedHeader {
    pub open spec fn view(&self) -> AExt {
        AExt { verb_mstp_mtin: self.verb_mstp_mtin, noar: self.noar, apid: self.apid.char4@, ctid: self.ctid.char4@ }
    }
//@ extract src/dlt/mod.rs DltExtendedHeader::from_buf
//@   spec
//@|    ensures
//@|        r is Some <==> buf@.len() >= 10,
//@|        r is Some ==> r->Some_0@ == (AExt { verb_mstp_mtin: buf@[0], noar: buf@[1], apid: buf@.subrange(2, 6), ctid: buf@.subrange(6, 10) }), // O:exth.from_buf
//@ end
}

impl DltMessage {
    pub open spec fn view(&self) -> AMsg {
        AMsg {
            index: self.index as int,
            reception_time_us: self.reception_time_us as int,
            ecu: self.ecu.char4@,
            timestamp_dms: self.timestamp_dms as int,
            htyp: self.standard_header.htyp,
            mcnt: self.standard_header.mcnt,
            len: self.standard_header.len as int,
            ext: match self.extended_header { Some(e) => Some(e@), None => None },
            payload: self.payload@,
        }
    }
    pub open spec fn fresh(&self) -> bool { self.payload_text is None && self.lifecycle == 0 }
//@ extract src/dlt/mod.rs DltMessage::from_headers
//@   spec
//@|    requires add_header_buf@.len() == hdr_size(standard_header.htyp) - 4,
//@|    ensures
//@|        r.fresh(),
//@|        r@.index == index && r@.reception_time_us == storage_header.rtime() && r@.payload == payload@,
//@|        r@.htyp == standard_header.htyp && r@.mcnt == standard_header.mcnt && r@.len == standard_header.len,
//@|        r@.ecu == (if standard_header.htyp & 4 != 0 { add_header_buf@.subrange(0, 4) } else { storage_header.ecu.char4@ }), // O:from_headers.ecu
//@|        r@.timestamp_dms == (if standard_header.htyp & 16 != 0 {
//@|            let o = (if standard_header.htyp & 4 != 0 { 4int } else { 0 }) + (if standard_header.htyp & 8 != 0 { 4int } else { 0 });
//@|            be32(add_header_buf@[o], add_header_buf@[o + 1], add_header_buf@[o + 2], add_header_buf@[o + 3])
//@|        } else { 0 }), // O:from_headers.timestamp
//@|        r@.ext == (if standard_header.htyp & 1 != 0 {
//@|            let b = add_header_buf@.subrange(add_header_buf@.len() - 10, add_header_buf@.len() as int);
//@|            Some(AExt { verb_mstp_mtin: b[0], noar: b[1], apid: b.subrange(2, 6), ctid: b.subrange(6, 10) })
//@|        } else { None }), // O:from_headers.ext
//@ end
}

impl Error {
//@ extract src/dlt/mod.rs Error::new
//@   spec
//@|    ensures r.kind == kind,
//@ end
//@ extract src/dlt/mod.rs Error::kind
//@   spec
//@|    ensures *r == self.kind,
//@ end
}

//@ extract src/dlt/mod.rs fn is_storage_header_pattern
//@   spec
//@|    ensures r == sh_pat(buf@, 0), // O:is_sh_pat
//@   hint before `pat == DLT_STORAGE_HEADER_PATTERN`
//@|    proof { lemma_le32_sh(buf[0], buf[1], buf[2], buf[3]); }
//@ end
//@ extract src/dlt/mod.rs fn is_serial_header_pattern
//@   spec
//@|    ensures r == ser_pat(buf@, 0), // O:is_ser_pat
//@   hint before `pat == DLT_SERIAL_HEADER_PATTERN`
//@|    proof { lemma_le32_ser(buf[0], buf[1], buf[2], buf[3]); }
//@ end

// result of a real parser call vs. the oracle (the text inside InvalidData / the byte count inside NotEnoughData are not compared)
pub open spec fn parse_agrees(res: Result<(usize, DltMessage), Error>, o: SParse) -> bool {
    match o {
        SParse::Msg(n, m) => res is Ok && res->Ok_0.0 as int == n && res->Ok_0.1@ == m && res->Ok_0.1.fresh(),
        SParse::Invalid => res is Err && res->Err_0.kind is InvalidData,
        SParse::NotEnough => res is Err && res->Err_0.kind is NotEnoughData,
    }
}

//@ extract src/dlt/mod.rs fn parse_dlt_with_storage_header
//@   sub R3 `Vec::from(` => `vx_vec_from_slice(`
//@   ret res
//@   spec
//@|    ensures
//@|        parse_agrees(res, spec_parse_storage(data@, index as int)), // O:parse_storage.eq
//@|        res is Ok ==> 20 <= res->Ok_0.0 <= data@.len(), // O:parse_storage.consumed
//@   hint start
//@|    broadcast use lemma_sh_pat_suffix;
//@|    reveal(spec_parse_storage);
//@   hint loopstart 1
//@|    broadcast use lemma_sh_pat_suffix;
//@|    reveal(spec_parse_storage);
//@   loop 1
//@|    invariant
//@|        to_consume <= data@.len(),
//@|        forall|j: int| 5 <= j < i ==> !sh_pat(data@, j), // O:parse_storage.scan
//@|        spec_parse_storage(data@, index as int) == (if inner_sh(data@, to_consume as int) { SParse::Invalid } else {
//@|            SParse::Msg(to_consume as int, spec_msg_at(data@, 16, index as int, storage_rtime(data@), data@.subrange(12, 16))) }), // O:parse_storage.heuristic
//@   hint before `let payload = vx_vec_from_slice(`
//@|    assert(!(data@.len() - to_consume >= 4 && !sh_pat(data@, to_consume as int) && inner_sh(data@, to_consume as int))); // O:parse_storage.accept
//@   hint before `Ok((to_consume, msg))`
//@|    proof {
//@|        let d = data@;
//@|        let ah = d.subrange(20, payload_offset as int);
//@|        assert(msg@.ecu =~= spec_msg_at(d, 16, index as int, storage_rtime(d), d.subrange(12, 16)).ecu);
//@|        assert(msg@.payload =~= spec_msg_at(d, 16, index as int, storage_rtime(d), d.subrange(12, 16)).payload);
//@|        let hh = hdr_size(d[16]);
//@|        let b = ah.subrange(ah.len() - 10, ah.len() as int);
//@|        if d[16] & 1 != 0 {
//@|            assert(b.subrange(2, 6) =~= d.subrange(16 + hh - 8, 16 + hh - 4));
//@|            assert(b.subrange(6, 10) =~= d.subrange(16 + hh - 4, 16 + hh));
//@|        }
//@|        assert(msg@.ext == spec_msg_at(d, 16, index as int, storage_rtime(d), d.subrange(12, 16)).ext);
//@|    }
//@ end

//@ extract src/dlt/mod.rs fn parse_dlt_with_serial_header
//@   sub R3 `Vec::from(` => `vx_vec_from_slice(`
//@   ret res
//@   spec
//@|    ensures
//@|        parse_agrees(res, spec_parse_serial(data@, index as int)), // O:parse_serial.eq
//@|        res is Ok ==> 8 <= res->Ok_0.0 <= data@.len(), // O:parse_serial.consumed
//@   hint start
//@|    broadcast use lemma_ser_pat_suffix;
//@|    reveal(spec_parse_serial);
//@   hint loopstart 1
//@|    broadcast use lemma_ser_pat_suffix;
//@|    reveal(spec_parse_serial);
//@   loop 1
//@|    invariant
//@|        to_consume <= data@.len(),
//@|        forall|j: int| 5 <= j < i ==> !ser_pat(data@, j), // O:parse_serial.scan
//@|        spec_parse_serial(data@, index as int) == (if inner_ser(data@, to_consume as int) { SParse::Invalid } else {
//@|            SParse::Msg(to_consume as int, spec_msg_at(data@, 4, index as int, serial_rtime(), serial_ecu())) }), // O:parse_serial.heuristic
//@   hint before `let payload =`
//@|    assert(!(data@.len() - to_consume >= 4 && !ser_pat(data@, to_consume as int) && inner_ser(data@, to_consume as int))); // O:parse_serial.accept
//@   hint before `Ok((to_consume, msg))`
//@|    proof {
//@|        let d = data@;
//@|        let ah = d.subrange(8, payload_offset as int);
//@|        assert(msg@.ecu =~= spec_msg_at(d, 4, index as int, serial_rtime(), serial_ecu()).ecu);
//@|        assert(msg@.payload =~= spec_msg_at(d, 4, index as int, serial_rtime(), serial_ecu()).payload);
//@|        let hh = hdr_size(d[4]);
//@|        let b = ah.subrange(ah.len() - 10, ah.len() as int);
//@|        if d[4] & 1 != 0 {
//@|            assert(b.subrange(2, 6) =~= d.subrange(4 + hh - 8, 4 + hh - 4));
//@|            assert(b.subrange(6, 10) =~= d.subrange(4 + hh - 4, 4 + hh));
//@|        }
//@|        assert(msg@.ext == spec_msg_at(d, 4, index as int, serial_rtime(), serial_ecu()).ext);
//@|    }
//@ end
// ---- end of units/dltcore/part.rs ----
