//@ unit dltcore
// C01/C02/C03: header decoding and both frame parsers of src/dlt/mod.rs against a byte-layout oracle.
#![allow(unused_imports, dead_code, unused_variables, unused_mut, non_upper_case_globals)]
use vstd::prelude::*;
verus! {
global size_of usize == 8;

//@ include prelude/std_specs.rs
//@ include units/dltcore/part.rs

fn main() {}
} // verus!
