//@ unit exportcfg
// C15 (the `open` command hands the client's plugin configurations to the plugins' from_json): the two statements of ExportPlugin::from_json
// that turn the configured recording-time window (ms, as a JSON number or as a decimal string ending in 'n') into microseconds. A panic there
// resets the connection instead of answering the command.
#![allow(unused_imports, dead_code, unused_variables, unused_mut, non_upper_case_globals)]
use vstd::prelude::*;
verus! {
global size_of usize == 8;

//@ include prelude/std_specs.rs

// R12: serde_json::Value reduced to the shapes the statements distinguish; serde_json::Number::as_u64 and the parse of the decimal text are
// opaque (any value / none). `n[..n.len() - 1]` of a text that ends with the one-byte character 'n' is not modelled (part of the stub).
#[verifier::external_body]
pub struct VxNumber { _p: u8 }
impl VxNumber {
    #[verifier::external_body]
    pub fn as_u64(&self) -> (r: Option<u64>) { unimplemented!() }
}
pub enum VxJson { Null, Bool(bool), Number(VxNumber), String(String), Other }
#[verifier::external_body]
pub struct VxConfig { _p: u8 }
impl VxConfig {
    #[verifier::external_body]
    pub fn get(&self, key: &str) -> (r: Option<&VxJson>) { unimplemented!() }
}
#[verifier::external_body]
pub fn vx_ends_with_n(s: &String) -> (r: bool) { s.ends_with('n') }
#[verifier::external_body]
pub fn vx_parse_u64_without_last(s: &String) -> (r: u64) { s[..s.len() - 1].parse::<u64>().unwrap_or(0) }

//@ extract src/plugins/export.rs region `let recorded_time_from = match &config.get("recordedTimeFromMs") {` .. `let recorded_time_to = match &config.get("recordedTimeToMs") {` in ExportPlugin::from_json
//@   sig pub fn export_time_window(config: &VxConfig) -> (r: (Option<u64>, Option<u64>))
//@   tail `(recorded_time_from, recorded_time_to)`
//@   sub R12 `serde_json::Value::` => `VxJson::` *
//@   sub R12 `match &config.get(__) {` => `match config.get($1) {` *
//@   sub R11 `n.ends_with('n')` => `vx_ends_with_n(n)` *
//@   sub R11 `n[..n.len() - 1].parse::<u64>().unwrap_or(0)` => `vx_parse_u64_without_last(n)` *
//@   sub R11 `n[..n.len() - 1] .parse::<u64>() .unwrap_or(0)` => `vx_parse_u64_without_last(n)` ?
//@   spec
//@|    ensures true, // O:export.cfg.time_window_no_overflow (for every number a client can send)
//@ end

fn main() {}
} // verus!
