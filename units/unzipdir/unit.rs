//@ unit unzipdir
// C20 (extraction clause, zip members): the loop of extract_to_dir that writes the members of a zip archive into the target directory.
#![allow(unused_imports, dead_code, unused_variables, unused_mut, non_upper_case_globals)]
use vstd::prelude::*;
verus! {
global size_of usize == 8;

//@ include prelude/std_specs.rs

// ---------- R12 models (ASSUMED, from the documentation of std::path, std::fs and the zip crate) ----------
// a path is its text. `enclosed(n)`: n is a relative path that does not lead outside the directory it is joined onto - what
// zip::read::ZipFile::enclosed_name() guarantees for the names it returns ("ensures the path is safe to use as a relative path").
pub uninterp spec fn spec_enclosed(n: Seq<char>) -> bool;
pub uninterp spec fn spec_join(dir: Seq<char>, name: Seq<char>) -> Seq<char>;
#[verifier::external_body]
pub struct VxPath { _p: u8 }
pub trait VxPathText { spec fn t(&self) -> Seq<char>; }
impl VxPathText for VxPath { open spec fn t(&self) -> Seq<char> { self.text() } }
impl VxPathText for String { open spec fn t(&self) -> Seq<char> { self@ } }
impl VxPathText for str { open spec fn t(&self) -> Seq<char> { self@ } }
impl<T: VxPathText + ?Sized> VxPathText for &T { open spec fn t(&self) -> Seq<char> { (**self).t() } }
pub type PathBuf = VxPath;
// Path::to_string_lossy(): the text (Cow<str>)
#[verifier::external_body]
pub struct VxCow { _p: u8 }
impl VxCow {
    pub uninterp spec fn text(&self) -> Seq<char>;
    #[verifier::external_body]
    pub fn into_owned(self) -> (r: String) ensures r@ == self.text() { unimplemented!() }
    #[verifier::external_body]
    pub fn to_string(&self) -> (r: String) ensures r@ == self.text() { unimplemented!() }
    #[verifier::external_body]
    pub fn as_ref(&self) -> (r: &str) ensures r@ == self.text() { unimplemented!() }
}
impl VxPath {
    pub uninterp spec fn text(&self) -> Seq<char>;
    #[verifier::external_body]
    pub fn join<T: VxPathText>(&self, name: T) -> (r: VxPath) ensures r.text() == spec_join(self.text(), name.t()) { unimplemented!() }
    #[verifier::external_body]
    pub fn parent(&self) -> (r: Option<VxPath>) { unimplemented!() }
    // PathBuf::from(text)
    #[verifier::external_body]
    pub fn from<T: VxPathText>(s: T) -> (r: VxPath) ensures r.text() == s.t() { unimplemented!() }
    #[verifier::external_body]
    pub fn to_string_lossy(&self) -> (r: VxCow) ensures r.text() == self.text() { unimplemented!() }
    // Path::ends_with / starts_with: component-wise suffix / prefix tests - NOT equality
    #[verifier::external_body]
    pub fn ends_with<T: VxPathText>(&self, s: T) -> (r: bool) { unimplemented!() }
    #[verifier::external_body]
    pub fn starts_with<T: VxPathText>(&self, s: T) -> (r: bool) { unimplemented!() }
    // has_root / is_absolute / is_relative: say nothing about `..` components further in
    #[verifier::external_body]
    pub fn has_root(&self) -> (r: bool) { unimplemented!() }
    #[verifier::external_body]
    pub fn is_absolute(&self) -> (r: bool) { unimplemented!() }
    #[verifier::external_body]
    pub fn is_relative(&self) -> (r: bool) { unimplemented!() }
}
// a member of the archive: its recorded name, its bytes, its kind
pub struct VxMember { pub name: Seq<char>, pub bytes: Seq<u8> }
#[verifier::external_body]
pub struct VxZipErr { _p: u8 }
#[verifier::external_body]
pub struct VxZip { _p: u8 }
#[verifier::external_body]
pub struct VxZipFile { _p: u8 }
impl VxZip {
    pub uninterp spec fn members(&self) -> Seq<VxMember>;
    #[verifier::external_body]
    pub fn len(&self) -> (r: usize) ensures r == self.members().len() { unimplemented!() }
    #[verifier::external_body]
    pub fn by_index(&mut self, i: usize) -> (r: Result<VxZipFile, VxZipErr>)
        ensures final(self).members() == old(self).members(), r is Ok ==> i < old(self).members().len() && r->Ok_0.member() == old(self).members()[i as int],
    { unimplemented!() }
}
impl VxZipFile {
    pub uninterp spec fn member(&self) -> VxMember;
    // ZipFile::enclosed_name(): the recorded name if it is safe as a relative path
    #[verifier::external_body]
    pub fn enclosed_name(&self) -> (r: Option<VxPath>) ensures r is Some ==> spec_enclosed(r->Some_0.text()) && r->Some_0.text() == self.member().name { unimplemented!() }
    // ZipFile::name() / mangled_name(): the recorded name as it is (no such guarantee) - not used by the text as it stands
    #[verifier::external_body]
    pub fn name(&self) -> (r: &str) ensures r@ == self.member().name { unimplemented!() }
    #[verifier::external_body]
    pub fn mangled_name(&self) -> (r: VxPath) { unimplemented!() }
    #[verifier::external_body]
    pub fn is_dir(&self) -> (r: bool) { unimplemented!() }
    #[verifier::external_body]
    pub fn is_file(&self) -> (r: bool) { unimplemented!() }
}
// the file system: every file created and filled in this call (path, bytes)
pub struct VxWrite { pub path: Seq<char>, pub data: Seq<u8> }
#[verifier::external_body]
pub struct VxFile { _p: u8 }
impl VxFile { pub uninterp spec fn path(&self) -> Seq<char>; }
#[verifier::external_body]
pub struct VxFs { _p: u8 }
impl VxFs {
    pub uninterp spec fn writes(&self) -> Seq<VxWrite>;
    #[verifier::external_body]
    pub fn create_dir_all<T: VxPathText>(&mut self, q: T) -> (r: Result<(), std::io::Error>) ensures final(self).writes() == old(self).writes() { unimplemented!() }
    // std::fs::File::create
    #[verifier::external_body]
    pub fn create(&mut self, p: VxPath) -> (r: Result<VxFile, std::io::Error>)
        ensures final(self).writes() == old(self).writes(), r is Ok ==> r->Ok_0.path() == p.text(),
    { unimplemented!() }
    // cancelable_copy(&mut member, &mut file, cancel) (a copy loop over an uninitialised buffer, `unsafe`: not under contract): Ok = every
    // byte of the member has been written to the file
    #[verifier::external_body]
    pub fn copy_into(&mut self, src: &mut VxZipFile, dst: &mut VxFile, cancel: &VxCancel) -> (r: Result<u64, std::io::Error>)
        ensures
            final(src).member() == old(src).member(), final(dst).path() == old(dst).path(),
            r is Ok ==> final(self).writes() == old(self).writes().push(VxWrite { path: old(dst).path(), data: old(src).member().bytes }),
            r is Err ==> final(self).writes().len() <= old(self).writes().len() + 1 && final(self).writes().take(old(self).writes().len() as int) == old(self).writes(),
    { unimplemented!() }
}
#[verifier::external_body]
pub struct VxCancel { _p: u8 }
pub enum VxOrdering { Relaxed }
impl VxCancel {
    #[verifier::external_body]
    pub fn load(&self, o: VxOrdering) -> (r: bool) { unimplemented!() }
}
// rename_map: HashMap<String, String> (member name -> name to extract it under); files_filter: the member names wanted
#[verifier::external_body]
pub struct VxRenameMap { _p: u8 }
impl VxRenameMap {
    pub uninterp spec fn m(&self) -> Map<Seq<char>, Seq<char>>;
    #[verifier::external_body]
    pub fn get<K: VxPathText>(&self, name: K) -> (r: Option<&String>)
        ensures r is Some <==> self.m().dom().contains(name.t()), r is Some ==> r->Some_0@ == self.m()[name.t()],
    { unimplemented!() }
}
pub open spec fn filter_has(files: Seq<String>, n: Seq<char>) -> bool { exists|j: int| 0 <= j < files.len() && (#[trigger] files[j])@ == n }
// `files.iter().any(|f| *f == <the member's name as text>)`
#[verifier::external_body]
pub fn vx_filter_has<T: VxPathText>(files: &Vec<String>, name: T) -> (r: bool) ensures r == filter_has(files@, name.t()) { unimplemented!() }

// ---------- what the loop may do ----------
// every file written in this call: inside the target directory, with the bytes of a member of the archive whose recorded name is safe
// and wanted, and it is reported under the name it was written under
pub open spec fn write_ok(w: VxWrite, dir: Seq<char>, zip: Seq<VxMember>, filter: Option<Vec<String>>, rm: Map<Seq<char>, Seq<char>>, reported: Seq<char>) -> bool {
    exists|i: int| 0 <= i < zip.len() && #[trigger] spec_enclosed(zip[i].name)
        && w.data == zip[i].bytes                                                                   // the member's bytes
        && (filter is Some ==> filter_has(filter->Some_0@, zip[i].name))                           // wanted
        && reported == (if rm.dom().contains(zip[i].name) { rm[zip[i].name] } else { zip[i].name }) // reported under the (re)name
        && spec_enclosed(reported) && w.path == spec_join(dir, reported)                            // inside the target directory
}
pub open spec fn extract_ok(fs0: Seq<VxWrite>, fs1: Seq<VxWrite>, ex0: Seq<VxPath>, ex1: Seq<VxPath>, dir: Seq<char>, zip: Seq<VxMember>, filter: Option<Vec<String>>, rm: Map<Seq<char>, Seq<char>>) -> bool {
    &&& fs1.len() - fs0.len() == ex1.len() - ex0.len() && fs1.len() >= fs0.len()
    &&& fs1.take(fs0.len() as int) =~= fs0 && ex1.take(ex0.len() as int) =~= ex0
    &&& forall|k: int| 0 <= k < fs1.len() - fs0.len() ==> write_ok(#[trigger] fs1[fs0.len() + k], dir, zip, filter, rm, ex1[ex0.len() + k].text())
}
pub proof fn lemma_extract_push(fs0: Seq<VxWrite>, fs_a: Seq<VxWrite>, ex0: Seq<VxPath>, ex_a: Seq<VxPath>, dir: Seq<char>, zip: Seq<VxMember>, filter: Option<Vec<String>>, rm: Map<Seq<char>, Seq<char>>, w: VxWrite, p: VxPath)
    requires extract_ok(fs0, fs_a, ex0, ex_a, dir, zip, filter, rm), write_ok(w, dir, zip, filter, rm, p.text()),
    ensures extract_ok(fs0, fs_a.push(w), ex0, ex_a.push(p), dir, zip, filter, rm),
{
    let fs1 = fs_a.push(w);
    let ex1 = ex_a.push(p);
    assert(fs1.take(fs0.len() as int) =~= fs_a.take(fs0.len() as int));
    assert(ex1.take(ex0.len() as int) =~= ex_a.take(ex0.len() as int));
    assert forall|k: int| 0 <= k < fs1.len() - fs0.len() implies write_ok(#[trigger] fs1[fs0.len() + k], dir, zip, filter, rm, ex1[ex0.len() + k].text()) by {
        if k < fs_a.len() - fs0.len() { assert(fs1[fs0.len() + k] == fs_a[fs0.len() + k]); assert(ex1[ex0.len() + k] == ex_a[ex0.len() + k]); }
    }
}
//@ extract src/utils/unzip.rs region `for i in 0..zip_archive.len() {` .. `for i in 0..zip_archive.len() {` in fn extract_to_dir
//@   sig #[verifier::loop_isolation(false)] pub fn extract_zip_members(zip_archive: &mut VxZip, files_filter: Option<Vec<String>>, rename_map: &VxRenameMap, target_dir: &VxPath, shall_cancel: &VxCancel, vx_fs: &mut VxFs, mut extracted: Vec<VxPath>) -> (r: Result<Vec<VxPath>, std::io::Error>)
//@   tail `Ok(extracted)`
//@   sub R13 `for i in 0..zip_archive.len() {` => `let mut vx_i: usize = 0; let vx_n: usize = zip_archive.len(); while vx_i < vx_n { let i = vx_i; vx_i += 1; let ghost fs_a = vx_fs.writes(); let ghost ex_a = extracted@;`
//@   sub R12 `Ordering::Relaxed` => `VxOrdering::Relaxed`
//@   sub R11 `_id_.iter().any(|_id_| *_id_ == _id_.to_string_lossy())` => `vx_filter_has($1, &$4)` ?
//@   sub R11 `_id_.iter().any(|_id_| *_id_ == _id_)` => `vx_filter_has($1, &$4)` ?
//@   sub R12 `std::fs::create_dir_all(__)?` => `vx_fs.create_dir_all($1)?` *
//@   sub R12 `std::fs::File::create(__)?` => `vx_fs.create($1)?` ?
//@   sub R12 `cancelable_copy(__)?` => `vx_fs.copy_into($1)?` ?
//@   spec
//@|    requires
//@|        forall|k: Seq<char>| old(zip_archive).members().len() >= 0 && #[trigger] rename_map.m().dom().contains(k) ==> spec_enclosed(rename_map.m()[k]), // the rename map is built by the caller from names it chose
//@|    ensures
//@|        r is Ok ==> extract_ok(old(vx_fs).writes(), final(vx_fs).writes(), extracted@, r->Ok_0@, target_dir.text(), old(zip_archive).members(), files_filter, rename_map.m()), // O:extract.confined_exact (every file written: inside the target directory, the bytes of a wanted member with a safe name, reported under the name it was written under; reported <=> written)
//@   hint start
//@|    let ghost fs0 = vx_fs.writes();
//@|    let ghost ex0 = extracted@;
//@|    let ghost zip0 = zip_archive.members();
//@|    let ghost dir0 = target_dir.text();   // (`target_dir` is shadowed further down)
//@   hint loopend 1
//@|    proof {
//@|        // (conditional: a body that writes something else gets no help from the lemma and fails the tagged invariant itself)
//@|        if vx_fs.writes().len() == fs_a.len() + 1 && vx_fs.writes() == fs_a.push(vx_fs.writes().last()) && extracted@ == ex_a.push(extracted@.last())
//@|            && write_ok(vx_fs.writes().last(), dir0, zip0, files_filter, rename_map.m(), extracted@.last().text()) {
//@|            lemma_extract_push(fs0, fs_a, ex0, ex_a, dir0, zip0, files_filter, rename_map.m(), vx_fs.writes().last(), extracted@.last());
//@|        }
//@|    }
//@   loop inner `zip_archive.by_index(i)`
//@|    invariant
//@|        zip_archive.members() == zip0, vx_i <= vx_n,
//@|        extract_ok(fs0, vx_fs.writes(), ex0, extracted@, dir0, zip0, files_filter, rename_map.m()), // O:extract.inv
//@|    decreases vx_n - vx_i,
//@ end

fn main() {}
} // verus!
