//@ unit logcattime
// C03 (text converters, time arithmetic): parse_time_str (logcat) and parse_signed_time_str (CAN .asc) cannot overflow whatever
// digits the line contains, and the reception time handed on for a logcat monotonic-format line is computed without overflow.
#![allow(unused_imports, dead_code, unused_variables, unused_mut, non_upper_case_globals)]
use vstd::prelude::*;
verus! {
global size_of usize == 8;

//@ include prelude/std_specs.rs

//@ extract src/utils/mod.rs const US_PER_SEC
//@ end

// &str operations of parse_time_str (R11): positions and lengths behave as documented; the parsed numbers are arbitrary except
// that a text of at most 6 digits is below 10^len (parse::<u64>() of the regex capture `\d+`; 0 on any parse error)
pub uninterp spec fn str_len(s: &str) -> nat;
pub open spec fn pow10(n: nat) -> nat decreases n { if n == 0 { 1 } else { 10 * pow10((n - 1) as nat) } }
#[verifier::external_body]
pub fn vx_str_len(s: &str) -> (r: usize) ensures r == str_len(s) { s.len() }
#[verifier::external_body]
pub fn vx_find_dot_or_len(s: &str) -> (r: usize) ensures r <= str_len(s), str_len(s) - r <= frac_digits(s) + 1 { s.find('.').unwrap_or(s.len()) }
// the number of characters after the first '.' of the text (0 if there is none)
pub uninterp spec fn frac_digits(s: &str) -> nat;
#[verifier::external_body]
pub fn vx_parse_u64_prefix(s: &str, end: usize) -> (r: u64) requires end <= str_len(s) { s[0..end].parse::<u64>().unwrap_or_default() }
#[verifier::external_body]
pub fn vx_str_from<'a>(s: &'a str, start: usize) -> (r: &'a str) requires start <= str_len(s), ensures str_len(r) == str_len(s) - start { &s[start..] }
#[verifier::external_body]
pub fn vx_parse_u64(s: &str) -> (r: u64) ensures str_len(s) <= 6 ==> r < pow10(str_len(s)), str_len(s) <= 18 ==> r < 1_000_000_000_000_000_000 { s.parse::<u64>().unwrap_or_default() }
pub proof fn lemma_pow10()
    ensures pow10(0) == 1, pow10(1) == 10, pow10(2) == 100, pow10(3) == 1000, pow10(4) == 10000, pow10(5) == 100000, pow10(6) == 1000000,
{
    reveal_with_fuel(pow10, 8);
}

//@ extract src/utils/logcat2dltmsgiterator.rs fn parse_time_str
//@   sub R11 `timestamp.find('.').unwrap_or(timestamp.len())` => `vx_find_dot_or_len(timestamp)`
//@   sub R11 `timestamp[0..dot_idx].parse::<u64>().unwrap_or_default()` => `vx_parse_u64_prefix(timestamp, dot_idx)`
//@   sub R11 `timestamp.len()` => `vx_str_len(timestamp)`
//@   sub R11 `&timestamp[dot_idx + 1..]` => `vx_str_from(timestamp, dot_idx + 1)`
//@   sub R11 `timestamp_fraction_str.len()` => `vx_str_len(timestamp_fraction_str)`
//@   sub R11 `timestamp_fraction_str.parse::<u64>().unwrap_or_default()` => `vx_parse_u64(timestamp_fraction_str)`
//@   spec
//@|    ensures true, // O:logcat.time.no_panic (the obligations are the overflow / bounds obligations of the body)
//@   hint start
//@|    proof { lemma_pow10(); }
//@   loop 1
//@|    invariant len_fraction <= 6 ==> timestamp_fraction_us < pow10(len_fraction as nat),
//@|    decreases 6 - len_fraction,
//@   hint loopstart 1
//@|    proof {
//@|        lemma_pow10();
//@|        let n = len_fraction as nat;
//@|        assert(n == 0 || n == 1 || n == 2 || n == 3 || n == 4 || n == 5);
//@|        assert(pow10(n) <= 100000);
//@|        assert(pow10((n + 1) as nat) == 10 * pow10(n));
//@|    }
//@   loop 2
//@|    invariant true,
//@|    decreases len_fraction,
//@ end

// ---- CAN .asc converter: parse_signed_time_str (same shape with i64 and an optional sign) ----
#[verifier::external_body]
pub fn vx_starts_with_minus(s: &str) -> (r: bool) ensures r ==> str_len(s) >= 1 { s.starts_with('-') }
#[verifier::external_body]
pub fn vx_parse_i64_range(s: &str, start: usize, end: usize) -> (r: i64) requires end <= str_len(s), ensures r >= 0 /* digits only: the sign was skipped */ { if start <= end { s[start..end].parse::<i64>().unwrap_or_default() } else { 0 } }
// i64 / 10 (Verus has no signed division): never overflows, the result is between 0 and the operand (R3)
#[verifier::external_body]
pub fn vx_div10_i64(x: i64) -> (r: i64) ensures (x >= 0 ==> 0 <= r <= x), (x < 0 ==> x <= r <= 0) { x / 10 }
//@ extract src/utils/asc2dltmsgiterator.rs fn parse_signed_time_str
//@   sub R3 `timestamp_fraction_us /= 10;` => `timestamp_fraction_us = vx_div10_i64(timestamp_fraction_us);`
//@   sub R11 `timestamp.starts_with('-')` => `vx_starts_with_minus(timestamp)`
//@   sub R11 `timestamp.find('.').unwrap_or(timestamp.len())` => `vx_find_dot_or_len(timestamp)`
//@   sub R11 `timestamp[offset_timestamp..dot_idx] .parse::<i64>() .unwrap_or_default()` => `vx_parse_i64_range(timestamp, offset_timestamp, dot_idx)`
//@   sub R11 `timestamp.len()` => `vx_str_len(timestamp)`
//@   sub R11 `&timestamp[dot_idx + 1..]` => `vx_str_from(timestamp, dot_idx + 1)`
//@   sub R11 `timestamp_fraction_str.len()` => `vx_str_len(timestamp_fraction_str)`
//@   sub R11 `timestamp_fraction_str.parse::<u64>().unwrap_or_default()` => `vx_parse_u64(timestamp_fraction_str)`
//@   spec
//@|    requires frac_digits(timestamp) <= 18, // the regexes of the converter capture `-?\d+\.\d{6}`: 6 digits after the dot (any number before it)
//@|    ensures true, // O:asc.time.no_panic
//@|        r > i64::MIN, // O:asc.time.range (the result can be negated: timestamp_dms_from does)
//@   hint start
//@|    proof { lemma_pow10(); }
//@   loop 1
//@|    invariant 0 <= timestamp_fraction_us, len_fraction <= 6 ==> timestamp_fraction_us < pow10(len_fraction as nat),
//@|    decreases 6 - len_fraction,
//@   hint loopstart 1
//@|    proof {
//@|        lemma_pow10();
//@|        let n = len_fraction as nat;
//@|        assert(n == 0 || n == 1 || n == 2 || n == 3 || n == 4 || n == 5);
//@|        assert(pow10(n) <= 100000);
//@|        assert(pow10((n + 1) as nat) == 10 * pow10(n));
//@|    }
//@   loop 2
//@|    invariant 0 <= timestamp_fraction_us,
//@|    decreases len_fraction,
//@ end

// the reception time handed to get_apid_info_msg for a line in monotonic format (third argument of the first call in
// Iterator::next): recorded start time + parsed time stamp; the same expression is the message's reception_time_us a few lines
// below (a struct field, not extracted)
//@ extract src/utils/logcat2dltmsgiterator.rs callarg `self.get_apid_info_msg` in <Iterator for LogCat2DltMsgIterator>::next#1 arg 3
//@   sig pub fn monotonic_reception_time(recorded_start_time_us: u64, timestamp_us: u64) -> (r: u64)
//@   sub R12 `self.recorded_start_time_us` => `recorded_start_time_us`
//@   spec
//@|    ensures true, // O:logcat.reception.no_panic
//@ end

fn main() {}
} // verus!
