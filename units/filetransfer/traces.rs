// ---- units/filetransfer/traces.rs: C17 (reassembly clause) over event traces of the spec state machine ----
// The real add_flda / check_finished are proved to implement step_flda / step_check / step_flfi (part.rs); these theorems are
// inductions over arbitrary finite sequences of data packages.

pub struct Ev { pub nr: int, pub bytes: Seq<u8> }
pub open spec fn run(s: TS, tr: Seq<Ev>) -> TS
    decreases tr.len()
{
    if tr.len() == 0 { s } else { step_flda(run(s, tr.drop_last()), tr.last().nr, tr.last().bytes) }
}
// the original file, split into packages by the sender
pub open spec fn flat(p: Seq<Seq<u8>>, n: int) -> Seq<u8>
    decreases n
{
    if n <= 0 { Seq::empty() } else { flat(p, n - 1) + p[n - 1] }
}
pub open spec fn split_ok(p: Seq<Seq<u8>>, bsize: int) -> bool {
    &&& p.len() >= 1 && bsize >= 1
    &&& forall|k: int| 0 <= k < p.len() - 1 ==> (#[trigger] p[k]).len() == bsize
    &&& 0 < p[p.len() - 1].len() <= bsize
}
// state right after a well-formed announcement (FLST) when data is kept
pub open spec fn announced(p: Seq<Seq<u8>>, bsize: int, fsize: int) -> TS {
    TS { state: TState::Started, next: 1, recvd: 0, payload_len: 0, data: Seq::empty(), nr: p.len() as int, bsize, fsize, storing: true }
}
// every data package that claims a number in 1..nr carries that package's original bytes (drops, duplicates, swaps allowed)
pub open spec fn faithful(tr: Seq<Ev>, p: Seq<Seq<u8>>) -> bool {
    forall|i: int| 0 <= i < tr.len() && 1 <= (#[trigger] tr[i]).nr <= p.len() ==> tr[i].bytes == p[tr[i].nr - 1]
}
pub open spec fn inv(s: TS, p: Seq<Seq<u8>>, bsize: int, fsize0: int) -> bool {
    &&& s.nr == p.len() && s.bsize == bsize && s.storing
    &&& 1 <= s.next <= p.len() + 1
    &&& s.next <= s.recvd + 1
    &&& (is_open(s) ==> s.next <= p.len())
    &&& s.data == flat(p, s.next - 1)
    &&& s.payload_len == s.data.len()
    &&& !(s.state is MissingStart)
    &&& (s.state is Complete ==> s.next == p.len() + 1 && (fsize0 == 0 || fsize0 == s.payload_len))
    &&& (!(s.state is Complete) ==> s.fsize == fsize0)
}

// O:ft.inv -- whatever arrives (any numbers, any sizes, any bytes for other numbers), the kept data is always the
// in-order concatenation of the original packages 1..next-1, as long as packages carry their original bytes
pub proof fn lemma_inv(p: Seq<Seq<u8>>, bsize: int, fsize0: int, tr: Seq<Ev>)
    requires split_ok(p, bsize), faithful(tr, p), fsize0 >= 0,
    ensures inv(run(announced(p, bsize, fsize0), tr), p, bsize, fsize0), // O:ft.inv
    decreases tr.len(),
{
    let s0 = announced(p, bsize, fsize0);
    if tr.len() == 0 {
        assert(flat(p, 0) =~= Seq::<u8>::empty());
    } else {
        let pre = tr.drop_last();
        assert(faithful(pre, p)) by {
            assert forall|i: int| 0 <= i < pre.len() && 1 <= (#[trigger] pre[i]).nr <= p.len() implies pre[i].bytes == p[pre[i].nr - 1] by {
                assert(pre[i] == tr[i]);
            }
        }
        lemma_inv(p, bsize, fsize0, pre);
        let s = run(s0, pre);
        let e = tr.last();
        assert(e == tr[tr.len() - 1]);
        if is_open(s) && e.nr == s.next && s.next <= p.len() {
            assert(e.bytes == p[s.next - 1]);
            assert(flat(p, s.next) =~= flat(p, s.next - 1) + p[s.next - 1]);
        }
    }
}

// O:ft.exact -- a transfer that is reported complete holds exactly the original file
pub proof fn theorem_complete_is_exact(p: Seq<Seq<u8>>, bsize: int, fsize0: int, tr: Seq<Ev>)
    requires split_ok(p, bsize), faithful(tr, p), fsize0 >= 0, run(announced(p, bsize, fsize0), tr).state is Complete,
    ensures
        run(announced(p, bsize, fsize0), tr).data == flat(p, p.len() as int), // O:ft.exact.data
        run(announced(p, bsize, fsize0), tr).fsize == flat(p, p.len() as int).len(), // O:ft.exact.size
{
    lemma_inv(p, bsize, fsize0, tr);
    let s0 = announced(p, bsize, fsize0);
    // Complete is only entered through step_check, which records the accepted size
    lemma_complete_size(s0, tr);
}
pub proof fn lemma_complete_size(s0: TS, tr: Seq<Ev>)
    requires !(s0.state is Complete),
    ensures run(s0, tr).state is Complete ==> run(s0, tr).fsize == run(s0, tr).payload_len,
    decreases tr.len(),
{
    if tr.len() > 0 { lemma_complete_size(s0, tr.drop_last()); }
}

// O:ft.missing -- if some package number never arrives, the transfer is never reported complete
pub proof fn theorem_missing_never_complete(p: Seq<Seq<u8>>, bsize: int, fsize0: int, tr: Seq<Ev>, k: int)
    requires split_ok(p, bsize), 1 <= k <= p.len(), forall|i: int| 0 <= i < tr.len() ==> (#[trigger] tr[i]).nr != k,
    ensures
        run(announced(p, bsize, fsize0), tr).next <= k, // O:ft.missing.stuck
        !(run(announced(p, bsize, fsize0), tr).state is Complete), // O:ft.missing.never_complete
        run(announced(p, bsize, fsize0), tr).nr == p.len() && !(run(announced(p, bsize, fsize0), tr).state is MissingStart),
    decreases tr.len(),
{
    if tr.len() > 0 {
        let pre = tr.drop_last();
        assert forall|i: int| 0 <= i < pre.len() implies (#[trigger] pre[i]).nr != k by { assert(pre[i] == tr[i]); }
        theorem_missing_never_complete(p, bsize, fsize0, pre, k);
        assert(tr.last() == tr[tr.len() - 1]);
    }
}

// O:ft.wrong_size -- whatever the packages contain (resized, corrupted numbers), a transfer with an announced size is
// only reported complete with exactly that many bytes, all package numbers accepted in order
pub proof fn theorem_never_wrong_size(s0: TS, tr: Seq<Ev>)
    requires s0.state is Started, s0.fsize > 0, s0.next == 1, s0.payload_len == 0, s0.nr >= 1, s0.recvd == 0,
    ensures ({
        let s = run(s0, tr);
        &&& s.nr == s0.nr
        &&& (s.state is Complete ==> s.next == s0.nr + 1 && s.payload_len == s0.fsize) // O:ft.wrong_size
        &&& (!(s.state is Complete) ==> s.fsize == s0.fsize)
        &&& !(s.state is MissingStart) && s.next <= s0.nr + 1 && s.next <= s.recvd + 1 && (is_open(s) ==> s.next <= s0.nr)
    }),
    decreases tr.len(),
{
    if tr.len() > 0 { theorem_never_wrong_size(s0, tr.drop_last()); }
}

// O:ft.inorder -- all packages in order, each once: reported complete, with the original file
pub open spec fn inorder(p: Seq<Seq<u8>>, n: int) -> Seq<Ev> { Seq::new(n as nat, |i: int| Ev { nr: i + 1, bytes: p[i] }) }
pub proof fn lemma_inorder_prefix(p: Seq<Seq<u8>>, bsize: int, fsize0: int, j: int)
    requires split_ok(p, bsize), 0 <= j <= p.len(), fsize0 == 0 || fsize0 == flat(p, p.len() as int).len(),
    ensures ({
        let s = run(announced(p, bsize, fsize0), inorder(p, j));
        &&& s.next == j + 1 && s.recvd == j && s.data == flat(p, j) && s.payload_len == s.data.len()
        &&& s.nr == p.len() && s.bsize == bsize && s.storing
        &&& (if j == p.len() { s.state is Complete } else { s.state is Started && s.fsize == fsize0 })
    }),
    decreases j,
{
    if j == 0 {
        assert(flat(p, 0) =~= Seq::<u8>::empty());
        assert(inorder(p, 0) =~= Seq::<Ev>::empty());
    } else {
        lemma_inorder_prefix(p, bsize, fsize0, j - 1);
        assert(inorder(p, j).drop_last() =~= inorder(p, j - 1));
        assert(inorder(p, j).last() == (Ev { nr: j, bytes: p[j - 1] }));
        assert(flat(p, j) =~= flat(p, j - 1) + p[j - 1]);
    }
}
pub proof fn theorem_inorder_complete(p: Seq<Seq<u8>>, bsize: int, fsize0: int)
    requires split_ok(p, bsize), fsize0 == 0 || fsize0 == flat(p, p.len() as int).len(),
    ensures
        run(announced(p, bsize, fsize0), inorder(p, p.len() as int)).state is Complete, // O:ft.inorder.complete
        run(announced(p, bsize, fsize0), inorder(p, p.len() as int)).data == flat(p, p.len() as int), // O:ft.inorder.data
{
    lemma_inorder_prefix(p, bsize, fsize0, p.len() as int);
}

// O:ft.dup_ok -- duplicates are tolerated: a data package whose number was already accepted changes nothing, so it can be
// deleted from any trace without changing the outcome (finding F5, fixed in /repo: duplicates used to be counted as
// received packages and turned the transfer Incomplete)
pub proof fn lemma_run_concat(s: TS, a: Seq<Ev>, b: Seq<Ev>)
    ensures run(s, a + b) == run(run(s, a), b),
    decreases b.len(),
{
    if b.len() == 0 {
        assert(a + b =~= a);
    } else {
        lemma_run_concat(s, a, b.drop_last());
        assert((a + b).drop_last() =~= a + b.drop_last());
        assert((a + b).last() == b.last());
    }
}
pub proof fn theorem_duplicate_is_ignored(s0: TS, before: Seq<Ev>, dup: Ev, after: Seq<Ev>)
    requires
        dup.nr < run(s0, before).next,                          // its number was already accepted
        !(dup.nr == 1 && run(s0, before).bsize == 0),           // (package size already known)
    ensures run(s0, before + seq![dup] + after) == run(s0, before + after), // O:ft.dup_ok
{
    let s = run(s0, before);
    lemma_run_concat(s0, before + seq![dup], after);
    lemma_run_concat(s0, before, seq![dup]);
    lemma_run_concat(s0, before, after);
    assert(seq![dup].drop_last() =~= Seq::<Ev>::empty());
    assert(run(s, seq![dup]) == step_flda(run(s, seq![dup].drop_last()), dup.nr, dup.bytes));
    assert(run(s, seq![dup]) == s);
}
// concrete instance: 3 packages of 1 byte arriving as 1, 1, 2, 3
pub proof fn dup_example()
    ensures ({
        let p = seq![seq![7u8], seq![8u8], seq![9u8]];
        let tr = seq![Ev { nr: 1, bytes: p[0] }, Ev { nr: 1, bytes: p[0] }, Ev { nr: 2, bytes: p[1] }, Ev { nr: 3, bytes: p[2] }];
        run(announced(p, 1, 3), tr).state is Complete // O:ft.dup_example
    }),
{
    let p = seq![seq![7u8], seq![8u8], seq![9u8]];
    let tr = seq![Ev { nr: 1, bytes: p[0] }, Ev { nr: 1, bytes: p[0] }, Ev { nr: 2, bytes: p[1] }, Ev { nr: 3, bytes: p[2] }];
    let t3 = tr.drop_last(); let t2 = t3.drop_last(); let t1 = t2.drop_last(); let t0 = t1.drop_last();
    assert(t0 =~= Seq::<Ev>::empty());
    let s0 = announced(p, 1, 3);
    assert(run(s0, t0) == s0);
    assert(run(s0, t1) == step_flda(s0, 1, p[0]));
    assert(run(s0, t2) == step_flda(run(s0, t1), 1, p[0]));
    assert(run(s0, t3) == step_flda(run(s0, t2), 2, p[1]));
    assert(run(s0, tr) == step_flda(run(s0, t3), 3, p[2]));
}
// ---- end of units/filetransfer/traces.rs ----
