// ---- units/filetransfer/part.rs ----
//@ extract src/dlt/mod.rs struct DltChar4
//@ end
//@ extract src/dlt/mod.rs struct DltArg
//@ end
//@ extract src/plugins/file_transfer.rs enum FileTransferState
//@   derive PartialEq => PartialEq, Eq, Structural
//@ end
//@ extract src/plugins/file_transfer.rs struct FileTransfer
//@ end

// Vec::capacity is used by FileTransfer as the "keep the data" flag; std guarantees capacity >= len and that
// extend_from_slice never shrinks it (trusted wrappers)
pub uninterp spec fn spec_capacity(v: &Vec<u8>) -> usize;
#[verifier::external_body]
pub fn vx_capacity(v: &Vec<u8>) -> (r: usize)
    ensures r == spec_capacity(v), r >= v@.len(),
{ v.capacity() }
#[verifier::external_body]
pub fn vx_extend_from_slice(v: &mut Vec<u8>, s: &[u8])
    ensures final(v)@ == old(v)@ + s@, spec_capacity(final(v)) >= spec_capacity(old(v)),
{ v.extend_from_slice(s) }

// ---------- spec state machine, written from the property ----------
pub enum TState { MissingStart, Started, Complete, Incomplete }
pub struct TS {
    pub state: TState,
    pub next: int,          // next expected package number (packages start with 1)
    pub recvd: int,         // number of data packages seen while the transfer was open
    pub payload_len: int,   // bytes accepted
    pub data: Seq<u8>,      // bytes kept (only when storing)
    pub nr: int,            // announced number of packages
    pub bsize: int,         // announced package size (0: learn from package 1)
    pub fsize: int,         // announced file size (0: unknown)
    pub storing: bool,
}
pub open spec fn is_open(s: TS) -> bool { s.state is Started || s.state is MissingStart }
// end-of-data check after a data package: complete only when all packages were appended and the size matches
pub open spec fn step_check(s: TS) -> TS {
    if s.next > s.nr && (s.fsize == 0 || s.fsize == s.payload_len) { TS { state: TState::Complete, fsize: s.payload_len, ..s } }
    else if s.recvd >= s.nr { TS { state: TState::Incomplete, ..s } }
    else { s }
}
pub open spec fn accepts(s: TS, nr_pkg: int, len: int) -> bool {
    nr_pkg == s.next && (len == s.bsize || (s.next == s.nr && len < s.bsize))
}
pub open spec fn step_flda(s: TS, nr_pkg: int, bytes: Seq<u8>) -> TS {
    let s1 = if nr_pkg == 1 && s.bsize == 0 { TS { bsize: bytes.len() as int, ..s } } else { s };
    if !is_open(s1) { s1 }
    else if nr_pkg < s1.next { s1 }   // duplicate of an already accepted package: tolerated, ignored
    else {
        let s2 = TS { recvd: s1.recvd + 1, ..s1 };
        let s3 = if accepts(s2, nr_pkg, bytes.len() as int) {
            TS { next: s2.next + 1, payload_len: s2.payload_len + bytes.len(), data: if s2.storing { s2.data + bytes } else { s2.data }, ..s2 }
        } else { s2 };
        step_check(s3)
    }
}
// end marker (FLFI)
pub open spec fn step_flfi(s: TS) -> TS {
    if s.recvd == s.next - 1 {
        if s.state is MissingStart { TS { state: TState::Complete, fsize: if s.fsize == 0 { s.payload_len } else { s.fsize }, ..s } } else { s }
    } else { TS { state: TState::Incomplete, ..s } }
}

impl FileTransfer {
    pub open spec fn view(&self) -> TS {
        TS {
            state: match self.state { FileTransferState::MissingStart => TState::MissingStart, FileTransferState::Started => TState::Started,
                                      FileTransferState::Complete => TState::Complete, FileTransferState::Incomplete => TState::Incomplete },
            next: self.next_package as int, recvd: self.recvd_packages as int, payload_len: self.recvd_payload as int,
            data: self.file_data@, nr: self.nr_packages as int, bsize: self.buffer_size as int, fsize: self.file_size as int,
            storing: spec_capacity(&self.file_data) > 0,
        }
    }
    pub open spec fn wf(&self) -> bool {
        &&& 1 <= self.next_package <= self.recvd_packages + 1
    }
    pub open spec fn other_fields_same(&self, o: &FileTransfer) -> bool {
        self.ecu == o.ecu && self.lifecycle == o.lifecycle && self.serial == o.serial && self.file_name == o.file_name
            && self.file_creation_date == o.file_creation_date && self.auto_saved_to == o.auto_saved_to
    }

//@ extract src/plugins/file_transfer.rs FileTransfer::check_finished
//@   spec
//@|    requires old(self).wf(),
//@|    ensures
//@|        final(self).wf(), // O:fin.wf
//@|        final(self)@ == (if from_flfi { step_flfi(old(self)@) } else { step_check(old(self)@) }), // O:fin.step
//@|        r == (if from_flfi { old(self)@.recvd != old(self)@.next - 1 || old(self)@.state is MissingStart }
//@|              else { (old(self)@.next > old(self)@.nr && (old(self)@.fsize == 0 || old(self)@.fsize == old(self)@.payload_len)) || old(self)@.recvd >= old(self)@.nr }), // O:fin.changed
//@|        final(self).other_fields_same(old(self)),
//@ end

//@ extract src/plugins/file_transfer.rs FileTransfer::add_flda
//@   sub R11 `self.file_data.capacity()` => `vx_capacity(&self.file_data)`
//@   sub R11 `self.file_data.extend_from_slice(arg.payload_raw)` => `vx_extend_from_slice(&mut self.file_data, arg.payload_raw)`
//@   spec
//@|    requires
//@|        old(self).wf(),
//@|        old(self).recvd_packages < u64::MAX - 1, // fewer than 2^64 - 2 data packages per transfer
//@|        old(self).recvd_payload + arg.payload_raw@.len() <= usize::MAX, // fewer than 2^64 bytes per transfer
//@|    ensures
//@|        final(self).wf(), // O:flda.wf
//@|        final(self)@ == step_flda(old(self)@, package_nr as int, arg.payload_raw@), // O:flda.step
//@|        final(self).other_fields_same(old(self)),
//@ end
}
// ---- end of units/filetransfer/part.rs ----
