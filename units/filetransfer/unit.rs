//@ unit filetransfer
// C17 (reassembly clause) / C03: FileTransfer::{add_flda, check_finished} against a spec state machine; trace theorems.
#![allow(unused_imports, dead_code, unused_variables, unused_mut, non_upper_case_globals)]
use vstd::prelude::*;
verus! {
global size_of usize == 8;

//@ include prelude/std_specs.rs
//@ include units/filetransfer/part.rs
//@ include units/filetransfer/traces.rs
//@ include units/filetransfer/argnum.rs

fn main() {}
} // verus!
