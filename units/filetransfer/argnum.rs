// ---- units/filetransfer/argnum.rs: arg_as_uint (C03: no panic for any argument; C17: numeric decoding) ----
//@ extract src/dlt/mod.rs const DLT_TYPE_INFO_UINT
//@ end
//@ extract src/dlt/mod.rs const DLT_TYPE_INFO_SINT
//@ end
pub uninterp spec fn spec_u16_be(s: Seq<u8>) -> u16;
#[verifier::external_body]
pub fn vx_u16_from_be_slice(s: &[u8]) -> (r: u16)
    requires s@.len() == 2, // <[u8; 2]>::try_from(slice).unwrap() panics otherwise
    ensures r == spec_u16_be(s@),
{ u16::from_be_bytes(s.try_into().unwrap()) }
pub uninterp spec fn spec_u16_le(s: Seq<u8>) -> u16;
#[verifier::external_body]
pub fn vx_u16_from_le_slice(s: &[u8]) -> (r: u16)
    requires s@.len() == 2, // <[u8; 2]>::try_from(slice).unwrap() panics otherwise
    ensures r == spec_u16_le(s@),
{ u16::from_le_bytes(s.try_into().unwrap()) }
pub uninterp spec fn spec_u32_be(s: Seq<u8>) -> u32;
#[verifier::external_body]
pub fn vx_u32_from_be_slice(s: &[u8]) -> (r: u32)
    requires s@.len() == 4, // <[u8; 4]>::try_from(slice).unwrap() panics otherwise
    ensures r == spec_u32_be(s@),
{ u32::from_be_bytes(s.try_into().unwrap()) }
pub uninterp spec fn spec_u32_le(s: Seq<u8>) -> u32;
#[verifier::external_body]
pub fn vx_u32_from_le_slice(s: &[u8]) -> (r: u32)
    requires s@.len() == 4, // <[u8; 4]>::try_from(slice).unwrap() panics otherwise
    ensures r == spec_u32_le(s@),
{ u32::from_le_bytes(s.try_into().unwrap()) }
pub uninterp spec fn spec_u64_be(s: Seq<u8>) -> u64;
#[verifier::external_body]
pub fn vx_u64_from_be_slice(s: &[u8]) -> (r: u64)
    requires s@.len() == 8, // <[u8; 8]>::try_from(slice).unwrap() panics otherwise
    ensures r == spec_u64_be(s@),
{ u64::from_be_bytes(s.try_into().unwrap()) }
pub uninterp spec fn spec_u64_le(s: Seq<u8>) -> u64;
#[verifier::external_body]
pub fn vx_u64_from_le_slice(s: &[u8]) -> (r: u64)
    requires s@.len() == 8, // <[u8; 8]>::try_from(slice).unwrap() panics otherwise
    ensures r == spec_u64_le(s@),
{ u64::from_le_bytes(s.try_into().unwrap()) }
pub uninterp spec fn spec_i16_be(s: Seq<u8>) -> i16;
#[verifier::external_body]
pub fn vx_i16_from_be_slice(s: &[u8]) -> (r: i16)
    requires s@.len() == 2, // <[u8; 2]>::try_from(slice).unwrap() panics otherwise
    ensures r == spec_i16_be(s@),
{ i16::from_be_bytes(s.try_into().unwrap()) }
pub uninterp spec fn spec_i16_le(s: Seq<u8>) -> i16;
#[verifier::external_body]
pub fn vx_i16_from_le_slice(s: &[u8]) -> (r: i16)
    requires s@.len() == 2, // <[u8; 2]>::try_from(slice).unwrap() panics otherwise
    ensures r == spec_i16_le(s@),
{ i16::from_le_bytes(s.try_into().unwrap()) }
pub uninterp spec fn spec_i32_be(s: Seq<u8>) -> i32;
#[verifier::external_body]
pub fn vx_i32_from_be_slice(s: &[u8]) -> (r: i32)
    requires s@.len() == 4, // <[u8; 4]>::try_from(slice).unwrap() panics otherwise
    ensures r == spec_i32_be(s@),
{ i32::from_be_bytes(s.try_into().unwrap()) }
pub uninterp spec fn spec_i32_le(s: Seq<u8>) -> i32;
#[verifier::external_body]
pub fn vx_i32_from_le_slice(s: &[u8]) -> (r: i32)
    requires s@.len() == 4, // <[u8; 4]>::try_from(slice).unwrap() panics otherwise
    ensures r == spec_i32_le(s@),
{ i32::from_le_bytes(s.try_into().unwrap()) }
pub uninterp spec fn spec_i64_be(s: Seq<u8>) -> i64;
#[verifier::external_body]
pub fn vx_i64_from_be_slice(s: &[u8]) -> (r: i64)
    requires s@.len() == 8, // <[u8; 8]>::try_from(slice).unwrap() panics otherwise
    ensures r == spec_i64_be(s@),
{ i64::from_be_bytes(s.try_into().unwrap()) }
pub uninterp spec fn spec_i64_le(s: Seq<u8>) -> i64;
#[verifier::external_body]
pub fn vx_i64_from_le_slice(s: &[u8]) -> (r: i64)
    requires s@.len() == 8, // <[u8; 8]>::try_from(slice).unwrap() panics otherwise
    ensures r == spec_i64_le(s@),
{ i64::from_le_bytes(s.try_into().unwrap()) }

//@ extract src/plugins/file_transfer.rs fn arg_as_uint
//@   sub R2 `crate::dlt::DltArg` => `DltArg`
//@   sub R3 `vx_u16_from_be_bytes(arg.payload_raw.try_into().unwrap())` => `vx_u16_from_be_slice(arg.payload_raw)`
//@   sub R3 `vx_u16_from_le_bytes(arg.payload_raw.try_into().unwrap())` => `vx_u16_from_le_slice(arg.payload_raw)`
//@   sub R3 `vx_u32_from_be_bytes(arg.payload_raw.try_into().unwrap())` => `vx_u32_from_be_slice(arg.payload_raw)`
//@   sub R3 `vx_u32_from_le_bytes(arg.payload_raw.try_into().unwrap())` => `vx_u32_from_le_slice(arg.payload_raw)`
//@   sub R3 `vx_u64_from_be_bytes(arg.payload_raw.try_into().unwrap())` => `vx_u64_from_be_slice(arg.payload_raw)`
//@   sub R3 `vx_u64_from_le_bytes(arg.payload_raw.try_into().unwrap())` => `vx_u64_from_le_slice(arg.payload_raw)`
//@   sub R3 `vx_i16_from_be_bytes(arg.payload_raw.try_into().unwrap())` => `vx_i16_from_be_slice(arg.payload_raw)`
//@   sub R3 `vx_i16_from_le_bytes(arg.payload_raw.try_into().unwrap())` => `vx_i16_from_le_slice(arg.payload_raw)`
//@   sub R3 `vx_i32_from_be_bytes(arg.payload_raw.try_into().unwrap())` => `vx_i32_from_be_slice(arg.payload_raw)`
//@   sub R3 `vx_i32_from_le_bytes(arg.payload_raw.try_into().unwrap())` => `vx_i32_from_le_slice(arg.payload_raw)`
//@   sub R3 `vx_i64_from_be_bytes(arg.payload_raw.try_into().unwrap())` => `vx_i64_from_be_slice(arg.payload_raw)`
//@   sub R3 `vx_i64_from_le_bytes(arg.payload_raw.try_into().unwrap())` => `vx_i64_from_le_slice(arg.payload_raw)`
//@   spec
//@|    ensures
//@|        // unsigned argument of 1/2/4/8 bytes: its value in the argument's byte order
//@|        arg.type_info & 0x00000040 > 0 ==> ({
//@|            let n = arg.payload_raw@.len();
//@|            if n == 1 { r == Ok::<u64, ()>(arg.payload_raw@[0] as u64) }
//@|            else if n == 2 { r == Ok::<u64, ()>((if arg.is_big_endian { spec_u16_be(arg.payload_raw@) } else { spec_u16_le(arg.payload_raw@) }) as u64) }
//@|            else if n == 4 { r == Ok::<u64, ()>((if arg.is_big_endian { spec_u32_be(arg.payload_raw@) } else { spec_u32_le(arg.payload_raw@) }) as u64) }
//@|            else if n == 8 { r == Ok::<u64, ()>(if arg.is_big_endian { spec_u64_be(arg.payload_raw@) } else { spec_u64_le(arg.payload_raw@) }) }
//@|            else { r is Err }
//@|        }), // O:arg_as_uint.unsigned
//@|        // signed argument: only non-negative values
//@|        arg.type_info & 0x00000040 == 0 && arg.type_info & 0x00000020 > 0 && arg.payload_raw@.len() == 4 ==>
//@|            r == (if (if arg.is_big_endian { spec_i32_be(arg.payload_raw@) } else { spec_i32_le(arg.payload_raw@) }) >= 0 {
//@|                Ok::<u64, ()>((if arg.is_big_endian { spec_i32_be(arg.payload_raw@) } else { spec_i32_le(arg.payload_raw@) }) as u64) } else { Err::<u64, ()>(()) }), // O:arg_as_uint.signed32
//@|        arg.type_info & 0x00000040 == 0 && arg.type_info & 0x00000020 == 0 ==> r is Err, // O:arg_as_uint.other
//@ end

// ---- C03 (allocation clause): the buffer pre-allocated for an announced transfer (FLST) ----
// the argument of Vec::with_capacity in FileTransferPlugin::process_msg (the function itself is outside the Verus subset)
//@ extract src/plugins/file_transfer.rs const MAX_INITIAL_FILE_DATA_CAPACITY
//@   optional
//@ end
//@ extract src/plugins/file_transfer.rs callarg `Vec::with_capacity` in FileTransferPlugin::process_msg#1
//@   sub R3 `std::cmp::min(` => `vx_min_u64(` ?
//@   sig pub fn flst_prealloc(keep_data: bool, nr_packages: u64, buffer_size: u64) -> (r: usize)
//@   spec
//@|    requires nr_packages > 0 && buffer_size > 0, // the enclosing `if nr_packages > 0 && buffer_size > 0`
//@|    ensures
//@|        r <= 0x10_0000, // O:flst.prealloc_bounded (never an allocation unrelated to the input: at most 1 MiB up front)
//@|        keep_data ==> r > 0, // O:flst.prealloc_flag (capacity > 0 is the plugin's "keep the data" flag)
//@   hint start
//@|    assert(nr_packages as int * buffer_size as int >= 1) by(nonlinear_arith) requires nr_packages >= 1, buffer_size >= 1;
//@ end
// ---- end of units/filetransfer/argnum.rs ----
