//@ unit filterkeep
// C12 (callers clause): the three places that build the filter set handed to match_filters / filter logic keep enabled filters only.
#![allow(unused_imports, dead_code, unused_variables, unused_mut, non_upper_case_globals)]
use vstd::prelude::*;
verus! {
global size_of usize == 8;

//@ include prelude/std_specs.rs
//@ include units/dltcore/part.rs
//@ include units/filter/char4eq.rs
//@ include units/filter/part.rs
//@ include units/filterset/part.rs
//@ include units/filterkeep/part.rs

fn main() {}
} // verus!
