// ---- units/filterkeep/part.rs ----
pub open spec fn all_enabled(c: &FilterKindContainer<Vec<Filter>>) -> bool {
    forall|k: int, i: int| 0 <= k < 4 && 0 <= i < c.e[k]@.len() ==> (#[trigger] c.e[k]@[i]).enabled
}
pub open spec fn kind_pos(kind: FilterKind) -> int {
    match kind { FilterKind::Positive => 0, FilterKind::Negative => 1, FilterKind::Marker => 2, FilterKind::Event => 3 }
}
// R8: `filters[kind].push(f)` (IndexMut<FilterKind> of FilterKindContainer, then Vec::push): appends f to the list of its kind
#[verifier::external_body]
pub fn vx_push_kind(filters: &mut FilterKindContainer<Vec<Filter>>, kind: FilterKind, f: Filter)
    ensures
        forall|k: int| 0 <= k < 4 && k != kind_pos(kind) ==> (#[trigger] final(filters).e[k]) == old(filters).e[k],
        final(filters).e[kind_pos(kind)]@ == old(filters).e[kind_pos(kind)]@.push(f),
{ unimplemented!() }

// the three call sites: the statement that decides whether a parsed filter enters the set
//@ extract src/utils/remote_utils.rs region `>>let filter_struct = Filter::from_json` .. `$end` in StreamContext::from
//@   sig pub fn keep_stream_filter(filters: &mut FilterKindContainer<Vec<Filter>>, filter_struct: Filter)
//@   sub R8 `filters[filter_struct.kind].push(filter_struct)` => `vx_push_kind(filters, filter_struct.kind, filter_struct)`
//@   spec
//@|    requires all_enabled(old(filters)),
//@|    ensures
//@|        all_enabled(final(filters)), // O:keep.stream.enabled_only (a disabled filter never enters the set)
//@|        filter_struct.enabled ==> final(filters).e[kind_pos(filter_struct.kind)]@ == old(filters).e[kind_pos(filter_struct.kind)]@.push(filter_struct), // O:keep.stream.kept (an enabled filter is appended to the list of its kind)
//@|        !filter_struct.enabled ==> *final(filters) == *old(filters),
//@ end
//@ extract src/bin/adlt/remote.rs region `>>let filter_struct = Filter::from_json` .. `$end` in fn process_stream_search_params
//@   sig pub fn keep_search_filter(filters: &mut FilterKindContainer<Vec<Filter>>, filter_struct: Filter)
//@   sub R8 `filters[filter_struct.kind].push(filter_struct)` => `vx_push_kind(filters, filter_struct.kind, filter_struct)`
//@   spec
//@|    requires all_enabled(old(filters)),
//@|    ensures
//@|        all_enabled(final(filters)), // O:keep.search.enabled_only
//@|        filter_struct.enabled ==> final(filters).e[kind_pos(filter_struct.kind)]@ == old(filters).e[kind_pos(filter_struct.kind)]@.push(filter_struct), // O:keep.search.kept
//@|        !filter_struct.enabled ==> *final(filters) == *old(filters),
//@ end
//@ extract src/plugins/export.rs region `>>let filter = match Filter::from_json` .. `$end` in ExportPlugin::from_json
//@   sig pub fn keep_export_filter(filters: &mut FilterKindContainer<Vec<Filter>>, filter: Filter)
//@   sub R8 `filters[filter.kind].push(filter)` => `vx_push_kind(filters, filter.kind, filter)`
//@   spec
//@|    requires all_enabled(old(filters)),
//@|    ensures
//@|        all_enabled(final(filters)), // O:keep.export.enabled_only
//@|        filter.enabled ==> final(filters).e[kind_pos(filter.kind)]@ == old(filters).e[kind_pos(filter.kind)]@.push(filter), // O:keep.export.kept
//@|        !filter.enabled ==> *final(filters) == *old(filters),
//@ end
// ---- end of units/filterkeep/part.rs ----
