//@ unit eacstats
// C03: collecting ECU/APID/CTID statistics - EacStats::add_msg as a whole: no unwrap on None, no slice out of range, no counter overflow
// for any message (any payload, any header combination).
#![allow(unused_imports, dead_code, unused_variables, unused_mut, non_upper_case_globals)]
use vstd::prelude::*;
verus! {
global size_of usize == 8;

//@ include prelude/std_specs.rs
//@ include units/dltcore/part.rs
//@ include units/verbarg/part.rs
//@ include units/lifecycle/helpers.rs

//@ extract src/dlt/mod.rs const SERVICE_ID_GET_LOG_INFO
//@ end
//@ extract src/dlt/control_msgs.rs struct ContextIdsInfoType
//@ end
//@ extract src/dlt/control_msgs.rs struct AppIdsType
//@ end

// proved in unit ctrlmsgs (contract `requires true`, there with its body); here only "returns"
#[verifier::external_body]
pub fn parse_ctrl_log_info_payload(status: u8, is_big_endian: bool, payload: &[u8]) -> (r: Vec<AppIdsType>)
{ unimplemented!() }
#[verifier::external_body]
pub fn vx_empty_slice<'a>() -> (r: &'a [u8])
    ensures r@.len() == 0,
{ &[] }

impl DltMessage {
//@ extract src/dlt/mod.rs DltMessage::is_ctrl_response
//@ end
//@ extract src/dlt/mod.rs DltMessage::apid
//@   spec
//@|    ensures r is Some <==> self.extended_header is Some, // O:eac.apid_iff_ext
//@ end
//@ extract src/dlt/mod.rs DltMessage::ctid
//@   spec
//@|    ensures r is Some <==> self.extended_header is Some, // O:eac.ctid_iff_ext
//@ end
}

// R12: the three nested `HashMap<DltChar4, _, NoHashHasher>` as opaque maps; `MAP.entry(k).or_default()` hands out a mutable reference to the
// value stored under k (inserting `Default::default()` first if absent).
// ASSUMED (not an inductive invariant here): every counter stored in the maps is at most the number of messages added so far, `vx_n_msgs()`.
pub uninterp spec fn vx_n_msgs() -> nat;
#[verifier::external_body]
pub struct VxCtidMap { _p: u8 }
#[verifier::external_body]
pub struct VxApidMap { _p: u8 }
#[verifier::external_body]
pub struct VxEcuMap { _p: u8 }
pub struct CtidStats { pub nr_msgs: DltMessageIndexType, pub desc: Option<String> }
pub struct ApidStats { pub ctids: VxCtidMap, pub desc: Option<String> }
pub struct EcuStats { pub nr_msgs: DltMessageIndexType, pub apids: VxApidMap }
pub struct EacStats { pub ecu_map: VxEcuMap }
impl VxEcuMap {
    #[verifier::external_body]
    pub fn vx_entry_or_default(&mut self, k: DltChar4) -> (r: &mut EcuStats)
        ensures r.nr_msgs as nat <= vx_n_msgs(),
    { unimplemented!() }
}
impl VxApidMap {
    #[verifier::external_body]
    pub fn vx_entry_or_default(&mut self, k: DltChar4) -> (r: &mut ApidStats)
    { unimplemented!() }
}
impl VxCtidMap {
    #[verifier::external_body]
    pub fn vx_entry_or_default(&mut self, k: DltChar4) -> (r: &mut CtidStats)
        ensures r.nr_msgs as nat <= vx_n_msgs(),
    { unimplemented!() }
}
// <&[u8] as TryInto<[u8; 4]>>::try_into: Ok iff the slice has four bytes
#[verifier::external_body]
pub fn vx_to_array4(s: &[u8]) -> (r: [u8; 4])
    requires s@.len() == 4,
{ s.try_into().unwrap() }
#[verifier::external_body]
pub fn vx_to_array4_or_default(s: &[u8]) -> (r: [u8; 4]) { s.try_into().unwrap_or_default() }
// <[u8]>::split_first
#[verifier::external_body]
pub fn vx_split_first<'a>(s: &'a [u8]) -> (r: Option<(&'a u8, &'a [u8])>)
    ensures r is Some <==> s@.len() >= 1, r is Some ==> *r->Some_0.0 == s@[0] && r->Some_0.1@ == s@.subrange(1, s@.len() as int),
{ s.split_first() }
// Option<String>::as_deref
#[verifier::external_body]
pub fn vx_as_deref<'a>(o: &'a Option<String>) -> (r: Option<&'a str>)
    ensures r is Some <==> o is Some,
{ o.as_deref() }
impl EcuStats {
    // EcuStats::add_desc: two `entry().or_default()` and two assignments of an owned copy of the text; no arithmetic, no index (not under contract)
    #[verifier::external_body]
    pub fn add_desc(&mut self, desc: &str, apid: &DltChar4, ctid: Option<&DltChar4>)
        ensures final(self).nr_msgs == old(self).nr_msgs,
    { unimplemented!() }
}

impl EacStats {
//@ extract src/utils/eac_stats.rs EacStats::add_msg
//@   sub R12 `self.ecu_map.entry(__).or_default()` => `self.ecu_map.vx_entry_or_default($1)`
//@   sub R12 `_id_.apids.entry(__).or_default()` => `$1.apids.vx_entry_or_default($2)`
//@   sub R12 `_id_ .ctids .entry(__) .or_default()` => `$1.ctids.vx_entry_or_default($2)`
//@   sub R3 `vx_u32_from_be_bytes(a.payload_raw.get(0..4).unwrap().try_into().unwrap(),)` => `vx_u32_from_be_slice(vx_slice_get_0_4(a.payload_raw).unwrap())` ?
//@   sub R3 `vx_u32_from_le_bytes(a.payload_raw.get(0..4).unwrap().try_into().unwrap(),)` => `vx_u32_from_le_slice(vx_slice_get_0_4(a.payload_raw).unwrap())` ?
//@   sub R3 `vx_u32_from_be_bytes(a.payload_raw.get(0..4).unwrap().try_into().unwrap())` => `vx_u32_from_be_slice(vx_slice_get_0_4(a.payload_raw).unwrap())` ?
//@   sub R3 `vx_u32_from_le_bytes(a.payload_raw.get(0..4).unwrap().try_into().unwrap())` => `vx_u32_from_le_slice(vx_slice_get_0_4(a.payload_raw).unwrap())` ?
//@   sub R3 `_id_.payload_raw.get(0..4).unwrap().try_into().unwrap()` => `vx_to_array4(vx_slice_get_0_4($1.payload_raw).unwrap())` ?
//@   sub R3 `_id_.payload_raw.try_into().unwrap_or_default()` => `vx_to_array4_or_default($1.payload_raw)` ?
//@   sub R3 `_id_.payload_raw.try_into().unwrap()` => `vx_to_array4($1.payload_raw)` ?
//@   sub R11 `_id_.split_first()` => `vx_split_first($1)` ?
//@   sub R11 `_id_.desc.as_deref()` => `vx_as_deref(&$1.desc)` *
//@   sub R16 `(&[] as &[u8], false)` => `(vx_empty_slice(), false)`
//@   spec
//@|    requires vx_n_msgs() < u32::MAX, // fewer than 2^32 messages (DltMessageIndexType; ASSUMED)
//@|        msg.payload@.len() + 0x20000 <= usize::MAX,
//@|    ensures true, // O:eac.add_msg.no_panic (ctid().unwrap() behind apid() is Some; get(0..4) behind len == 4; first()/[1..] behind !is_empty())
//@ end
}

fn main() {}
} // verus!
