//@ unit plugintails
// C19 (decoder clause, the writing end of the CAN, SOME/IP and Muniic decoders): the statements with which these plugins hand their
// result to the message change nothing but the displayed text. (The decoding in front of them reads the message only through shared
// references; it is not under contract.)
#![allow(unused_imports, dead_code, unused_variables, unused_mut, non_upper_case_globals)]
use vstd::prelude::*;
verus! {
global size_of usize == 8;

//@ include prelude/std_specs.rs
//@ include units/dltcore/part.rs

impl DltMessage {
//@ extract src/dlt/mod.rs DltMessage::set_payload_text
//@   spec
//@|    ensures
//@|        final(self).payload_text == Some(text), // O:tail.set_text
//@|        text_only(*old(self), *final(self)), // O:tail.set_text.frame
//@ end
}
// what the writing end of a decoder may change: the displayed text
pub open spec fn text_only(a: DltMessage, b: DltMessage) -> bool {
    a.index == b.index && a.reception_time_us == b.reception_time_us && a.ecu == b.ecu && a.payload == b.payload && a.lifecycle == b.lifecycle
        && a.timestamp_dms == b.timestamp_dms && a.standard_header == b.standard_header && a.extended_header == b.extended_header
}
#[verifier::external_body]
pub struct FibexError { _p: u8 }

// CanPlugin::process_msg: `if let Some(Ok(text)) = decoded_header { .. } else if msg.payload_text.is_none() { .. }`
//@ extract src/plugins/can.rs region `if let Some(Ok(text)) = decoded_header {` .. `if let Some(Ok(text)) = decoded_header {` in <Plugin for CanPlugin>::process_msg
//@   sig pub fn can_tail(msg: &mut DltMessage, decoded_header: Option<Result<String, FibexError>>) -> (r: bool)
//@   tail `true`
//@   spec
//@|    ensures text_only(*old(msg), *final(msg)), // O:tail.can.frame
//@|        r, // O:tail.can.accepts (handing over the result never rejects the message)
//@ end

//@ extract src/plugins/someip.rs enum SegmentedType
//@   derive PartialEq => PartialEq, Eq, Structural
//@ end
// SomeipPlugin::process_msg: `if segmented_type != SegmentedType::None { if let Some(Ok(text)) = decoded_header { .. } else { .. } }`
//@ extract src/plugins/someip.rs region `if segmented_type != SegmentedType::None {` .. `if segmented_type != SegmentedType::None {` in <Plugin for SomeipPlugin>::process_msg
//@   sig pub fn someip_tail(msg: &mut DltMessage, segmented_type: SegmentedType, decoded_header: Option<Result<String, FibexError>>) -> (r: bool)
//@   tail `true`
//@   spec
//@|    ensures
//@|        r, // O:tail.someip.accepts
//@|        text_only(*old(msg), *final(msg)), // O:tail.someip.frame
//@|        segmented_type == SegmentedType::None ==> *final(msg) == *old(msg), // O:tail.someip.untouched (a message that is no SOME/IP message is left alone)
//@ end

// MuniicPlugin::process_msg: `if DltMessage::process_msg_arg_iter(args, &mut text).is_ok() { .. msg.set_payload_text(text); }`
#[verifier::external_body]
pub struct VxScanArgs { _p: u8 }
#[verifier::external_body]
pub struct VxFmtError { _p: u8 }
impl DltMessage {
    #[verifier::external_body]
    pub fn process_msg_arg_iter(args: VxScanArgs, text: &mut String) -> (r: Result<(), VxFmtError>) { unimplemented!() }
}
#[verifier::external_body]
pub fn vx_push_str(s: &mut String, t: &str) { unimplemented!() }
//@ extract src/plugins/muniic.rs region `if DltMessage::process_msg_arg_iter(args, &mut text).is_ok() {` .. `if DltMessage::process_msg_arg_iter(args, &mut text).is_ok() {` in <Plugin for MuniicPlugin>::process_msg
//@   sig pub fn muniic_tail(msg: &mut DltMessage, args: VxScanArgs, mut text: String, new_payload_text: String) -> (r: bool)
//@   tail `true`
//@   sub R11 `text += " ";` => `vx_push_str(&mut text, " ");` ?
//@   sub R11 `text += new_payload_text.as_str();` => `vx_push_str(&mut text, new_payload_text.as_str());` ?
//@   spec
//@|    ensures text_only(*old(msg), *final(msg)), // O:tail.muniic.frame
//@|        r, // O:tail.muniic.accepts
//@ end

fn main() {}
} // verus!
