//@ unit lowiter
// C04 (schedule independence): LowMarkBufReader's proven contract implies the reader contract DltMessageIterator::next
// relies on, provided low_mark >= DLT_MAX_STORAGE_MSG_SIZE + 4; the low marks passed at the real call sites are checked.
#![allow(unused_imports, dead_code, unused_variables, unused_mut, non_upper_case_globals)]
use vstd::prelude::*;
use std::io::SeekFrom;
verus! {
global size_of usize == 8;

//@ include prelude/std_specs.rs
//@ include prelude/vread.rs
//@ include units/dltcore/part.rs
//@ include units/dltiter/part.rs
//@ include units/lowmark/part.rs

pub open spec fn decisive_len() -> int { 16int + 65535 + 4 }   // DLT_MAX_STORAGE_MSG_SIZE + 4

pub proof fn lemma_pat_prefix(p: Seq<u8>, u: Seq<u8>, i: int)
    requires p.is_prefix_of(u), 0 <= i, i + 4 <= p.len(),
    ensures sh_pat(p, i) == sh_pat(u, i), ser_pat(p, i) == ser_pat(u, i),
{}

pub proof fn lemma_msg_prefix(p: Seq<u8>, u: Seq<u8>, off: int, index: int, rt: int, e: Seq<u8>)
    requires p.is_prefix_of(u), 0 <= off, off + 4 <= p.len(),
        hdr_size(u[off]) <= be16(u[off + 2], u[off + 3]), off + be16(u[off + 2], u[off + 3]) <= p.len(),
    ensures spec_msg_at(p, off, index, rt, e) == spec_msg_at(u, off, index, rt, e),
{
    let h = hdr_size(u[off]);
    lemma_hdr_size_bounds(u[off]);
    let a = spec_msg_at(p, off, index, rt, e);
    let b = spec_msg_at(u, off, index, rt, e);
    assert(p[off] == u[off] && p[off + 1] == u[off + 1] && p[off + 2] == u[off + 2] && p[off + 3] == u[off + 3]);
    assert(a.payload =~= b.payload);
    if u[off] & 4 != 0 { assert(u.subrange(off + 4, off + 8) =~= p.subrange(off + 4, off + 8)); }
    if u[off] & 1 != 0 {
        assert(u.subrange(off + h - 8, off + h - 4) =~= p.subrange(off + h - 8, off + h - 4));
        assert(u.subrange(off + h - 4, off + h) =~= p.subrange(off + h - 4, off + h));
    }
    assert(a.ecu == b.ecu);
    assert(a.ext == b.ext);
    assert(a.timestamp_dms == b.timestamp_dms);
}

// O:lemma.prefix_decides -- a visible prefix that is the whole rest of the stream, or at least DLT_MAX_STORAGE_MSG_SIZE + 4
// bytes long, decides both parsers (incl. the next-marker heuristic, which looks 4 bytes past the message)
pub proof fn lemma_prefix_decides(p: Seq<u8>, u: Seq<u8>, index: int)
    requires p.is_prefix_of(u), p.len() == u.len() || p.len() >= decisive_len(),
    ensures
        spec_parse_storage(p, index) == spec_parse_storage(u, index), // O:lemma.prefix_decides.storage
        spec_parse_serial(p, index) == spec_parse_serial(u, index), // O:lemma.prefix_decides.serial
        sh_pat(p, 0) == sh_pat(u, 0),
{
    reveal(spec_parse_storage); reveal(spec_parse_serial);
    if p.len() == u.len() {
        assert(p =~= u);
    } else {
        lemma_pat_prefix(p, u, 0);
        // storage
        if sh_pat(u, 0) {
            let l = be16(u[18], u[19]);
            let h = hdr_size(u[16]);
            assert(p[18] == u[18] && p[19] == u[19] && p[16] == u[16]);
            if l >= h {
                let n = 16 + l;
                assert(n + 4 <= p.len());
                lemma_pat_prefix(p, u, n);
                assert(inner_sh(p, n) == inner_sh(u, n)) by {
                    if inner_sh(p, n) { let i = choose|i: int| 5 <= i < n && #[trigger] sh_pat(p, i); lemma_pat_prefix(p, u, i); assert(sh_pat(u, i)); }
                    if inner_sh(u, n) { let i = choose|i: int| 5 <= i < n && #[trigger] sh_pat(u, i); lemma_pat_prefix(p, u, i); assert(sh_pat(p, i)); }
                }
                lemma_msg_prefix(p, u, 16, index, storage_rtime(u), u.subrange(12, 16));
                assert(p.subrange(12, 16) =~= u.subrange(12, 16));
                assert(storage_rtime(p) == storage_rtime(u));
            }
        }
        // serial
        if ser_pat(u, 0) {
            let l = be16(u[6], u[7]);
            let h = hdr_size(u[4]);
            assert(p[6] == u[6] && p[7] == u[7] && p[4] == u[4]);
            if l >= h {
                let n = 4 + l;
                assert(n + 4 <= p.len());
                lemma_pat_prefix(p, u, n);
                assert(inner_ser(p, n) == inner_ser(u, n)) by {
                    if inner_ser(p, n) { let i = choose|i: int| 5 <= i < n && #[trigger] ser_pat(p, i); lemma_pat_prefix(p, u, i); assert(ser_pat(u, i)); }
                    if inner_ser(u, n) { let i = choose|i: int| 5 <= i < n && #[trigger] ser_pat(u, i); lemma_pat_prefix(p, u, i); assert(ser_pat(p, i)); }
                }
                lemma_msg_prefix(p, u, 4, index, serial_rtime(), serial_ecu());
            }
        }
    }
}

// O:lowmark.implements_bufread -- the glue: LowMarkBufReader (real fill_buf / consume, contracts proved in unit lowmark)
// satisfies the reader contract assumed by DltMessageIterator::next, for every inner reader behaviour (short reads).
impl<R: VRead> VBufRead for LowMarkBufReader<R> {
    open spec fn unread(&self) -> Seq<u8> { self.buffered() + self.inner.rest() }
    open spec fn avail(&self) -> int { self.cap - self.pos }
    open spec fn inv(&self) -> bool { self.wf() && self.low_mark >= decisive_len() && self.inner.never_fails() }
    fn fill_buf(&mut self) -> (r: std::io::Result<&[u8]>)
    {
        let ghost u = self.unread();
        let r = LowMarkBufReader::fill_buf(self);
        proof {
            let p = r->Ok_0@;
            assert(p.is_prefix_of(u)) by { assert(p =~= u.subrange(0, p.len() as int)); }
            assert forall|index: int| #[trigger] spec_parse_storage(p, index) == spec_parse_storage(u, index) by { lemma_prefix_decides(p, u, index); }
            assert forall|index: int| #[trigger] spec_parse_serial(p, index) == spec_parse_serial(u, index) by { lemma_prefix_decides(p, u, index); }
            lemma_prefix_decides(p, u, 0);
        }
        r
    }
    fn consume(&mut self, amt: usize)
    {
        LowMarkBufReader::consume(self, amt)
    }
}

// the iterator over a LowMarkBufReader: one verified instantiation (what `adlt convert` / `adlt remote` build)
pub fn next_over_lowmark<'a, R: VRead>(it: &mut DltMessageIterator<'a, LowMarkBufReader<R>>) -> (ret: Option<DltMessage>)
    requires old(it).wf(), old(it).index < u32::MAX,
    ensures
        ({
            // the result is spec_next of the unread bytes: no argument for read sizes, buffer capacity, or what was read before
            let s = spec_next(old(it).reader.unread(), old(it).detected_storage_header, old(it).detected_serial_header, old(it).index as int);
            &&& (ret is Some <==> s.msg is Some)
            &&& (ret is Some ==> ret->Some_0@ == s.msg->Some_0) // O:next.schedule_free
            &&& final(it).reader.unread() == old(it).reader.unread().skip(s.consumed)
        }),
{
    it.next()
}

// ---- side condition checked against the real call sites (third argument of LowMarkBufReader::new outside test modules) ----
//@ callsite src/bin/adlt/convert.rs LowMarkBufReader::new arg 3 name VX_LOWMARK_CONVERT type usize ensure `$v >= decisive_len() && $v + 4096 <= 512 * 1024`
//@ callsite src/bin/adlt/remote.rs LowMarkBufReader::new arg 3 name VX_LOWMARK_REMOTE type usize ensure `$v >= decisive_len() && $v + 4096 <= 512 * 1024`

fn main() {}
} // verus!
