//@ unit sendhelper
// C13 (helper clause): the blocking-send helper either enqueues the message exactly once or hands it back.
#![allow(unused_imports, dead_code, unused_variables, unused_mut, non_upper_case_globals)]
use vstd::prelude::*;
use std::sync::mpsc::{SendError, TrySendError};
verus! {
global size_of usize == 8;

//@ include prelude/std_specs.rs

// std::sync::mpsc::{TrySendError, SendError}: plain data carriers
#[verifier::external_type_specification]
#[verifier::reject_recursive_types(T)]
pub struct ExTrySendError<T>(TrySendError<T>);
#[verifier::external_type_specification]
#[verifier::reject_recursive_types(T)]
pub struct ExSendError<T>(SendError<T>);

// R12: std::sync::mpsc::SyncSender<T> -> the ASSUMED contract of a bounded channel's sending side. `queued()` is everything that
// was ever accepted by the channel, in order (what the receiver gets or will get). try_send never blocks: it accepts the message,
// or hands it back because the channel is full, or hands it back because the receiver is gone. send blocks until there is room
// (not modelled: time) and accepts the message, or hands it back because the receiver is gone.
pub trait VSyncSender<T>: Sized {
    spec fn queued(&self) -> Seq<T>;
    spec fn disconnected(&self) -> bool;   // the receiver is gone
    fn try_send(&mut self, m: T) -> (r: Result<(), TrySendError<T>>)
        ensures
            r is Ok ==> final(self).queued() == old(self).queued().push(m),
            r is Err ==> final(self).queued() == old(self).queued() && (match r->Err_0 { TrySendError::Full(x) => x == m, TrySendError::Disconnected(x) => x == m && final(self).disconnected() });
    fn send(&mut self, m: T) -> (r: Result<(), SendError<T>>)
        ensures
            r is Ok ==> final(self).queued() == old(self).queued().push(m),
            r is Err ==> final(self).queued() == old(self).queued() && r->Err_0.0 == m && final(self).disconnected();
}

//@ extract src/utils/mod.rs fn sync_sender_send_delay_if_full
//@   sub R12 `sync_sender_send_delay_if_full<T>` => `sync_sender_send_delay_if_full<T, S: VSyncSender<T>>`
//@   sub R12 `tx: &SyncSender<T>` => `tx: &mut S`
//@   cut R5 `std::thread::sleep(`
//@   spec
//@|    ensures
//@|        // delivered: enqueued exactly once, behind everything enqueued before (never dropped, duplicated or reordered)
//@|        r is Ok ==> final(tx).queued() == old(tx).queued().push(m), // O:send.once
//@|        // not delivered (the receiver is gone): nothing was enqueued and the caller gets the message back
//@|        r is Err ==> final(tx).queued() == old(tx).queued() && r->Err_0.0 == m, // O:send.handed_back
//@|        // a full channel only delays: an error is reported only when the receiver is gone
//@|        r is Err ==> final(tx).disconnected(), // O:send.err_only_if_gone
//@ end

fn main() {}
} // verus!
