//@ unit lcstream
//@ rlimit 800
// C05 (forwarding clause, composition), C06 (publication before delivery), C07 (counts), C03 (internal assert):
// parse_lifecycles_buffered_from_stream as a whole, against models of HashMap / VecDeque / HashSet / evmap / the channels.
#![allow(unused_imports, dead_code, unused_variables, unused_mut, non_upper_case_globals, unused_assignments)]
use vstd::prelude::*;
verus! {
global size_of usize == 8;

//@ include prelude/std_specs.rs
//@ include units/dltcore/part.rs
//@ include units/verbarg/part.rs
//@ include units/lifecycle/helpers.rs
//@ include units/lifecycle/part.rs
//@ include units/filter/char4eq.rs
//@ include units/lcqueue/models.rs
//@ include units/lcstream/part.rs

fn main() {}
} // verus!
