// ---- units/lcstream/part.rs ----
// R12 models with concrete (opaque) carrier types, since the function creates these objects itself
#[derive(Debug)]
pub struct VxRecvError;
pub trait VRecv: Sized {
    spec fn rem(&self) -> Seq<DltMessage>;
    fn recv(&mut self) -> (r: Result<DltMessage, VxRecvError>)
        ensures
            old(self).rem().len() == 0 ==> r is Err && final(self).rem() == old(self).rem(),
            old(self).rem().len() > 0 ==> r == Ok::<DltMessage, VxRecvError>(old(self).rem()[0]) && final(self).rem() == old(self).rem().skip(1);
}
#[verifier::external_body]
pub struct VxDeque { q: std::collections::VecDeque<DltMessage> }
impl VxDeque {
    #[verifier::external_body]
    pub fn vx_new() -> (r: VxDeque) ensures r.q() == Seq::<DltMessage>::empty() { unimplemented!() }
}
impl VQueue for VxDeque {
    uninterp spec fn q(&self) -> Seq<DltMessage>;
    #[verifier::external_body] fn is_empty(&self) -> (r: bool) { unimplemented!() }
    #[verifier::external_body] fn len(&self) -> (r: usize) { unimplemented!() }
    #[verifier::external_body] fn pop_front(&mut self) -> (r: Option<DltMessage>) { unimplemented!() }
    #[verifier::external_body] fn push_back(&mut self, m: DltMessage) { unimplemented!() }
    #[verifier::external_body] fn pop_back(&mut self) -> (r: Option<DltMessage>) { unimplemented!() }
    #[verifier::external_body] fn push_front(&mut self, m: DltMessage) { unimplemented!() }
    #[verifier::external_body] fn vx_first(&self) -> (r: &DltMessage) { unimplemented!() }
}
#[verifier::external_body]
pub struct VxIdSet { s: std::collections::HashSet<u32> }
impl VxIdSet {
    #[verifier::external_body]
    pub fn vx_new() -> (r: VxIdSet) ensures r.ids() == Set::<u32>::empty() { unimplemented!() }
    #[verifier::external_body]
    pub fn insert(&mut self, id: u32) -> (r: bool) ensures final(self).ids() == old(self).ids().insert(id) { unimplemented!() }
}
impl VIdSet for VxIdSet {
    uninterp spec fn ids(&self) -> Set<u32>;
    #[verifier::external_body] fn contains(&self, id: &u32) -> (r: bool) { unimplemented!() }
    #[verifier::external_body] fn remove(&mut self, id: &u32) -> (r: bool) { unimplemented!() }
    #[verifier::external_body] fn is_empty(&self) -> (r: bool) { unimplemented!() }
    #[verifier::external_body] fn len(&self) -> (r: usize) { unimplemented!() }
}
// std::collections::HashMap<DltChar4, Vec<Lifecycle>> (`ecu_map`): assumed contract of the operations used.
// m(): the map; keys(): the keys in the (unspecified) iteration order of `values()`.
#[verifier::external_body]
pub struct VxEcuMap { m: std::collections::HashMap<u32, Vec<Lifecycle>> }
impl VxEcuMap {
    pub uninterp spec fn m(&self) -> Map<DltChar4, Seq<Lifecycle>>;
    pub uninterp spec fn keys(&self) -> Seq<DltChar4>;
    // the sum of nr_msgs over all lifecycles of all keys (a finite sum over the map: changes only by the entry that changes)
    pub uninterp spec fn total(&self) -> nat;
    #[verifier::external_body]
    pub fn vx_new() -> (r: VxEcuMap) ensures r.m() == Map::<DltChar4, Seq<Lifecycle>>::empty(), r.total() == 0 { unimplemented!() }
    // entry(k).or_default()
    #[verifier::external_body]
    pub fn vx_entry_or_default(&mut self, k: DltChar4) -> (r: &mut Vec<Lifecycle>)
        ensures
            r@ == (if old(self).m().dom().contains(k) { old(self).m()[k] } else { Seq::<Lifecycle>::empty() }),
            final(self).m() == old(self).m().insert(k, final(r)@),
            seq_total(r@) <= old(self).total(),
            final(self).total() == old(self).total() - seq_total(r@) + seq_total(final(r)@),
    { unimplemented!() }
    // values(): visits every value once
    #[verifier::external_body]
    pub fn vx_nr_values(&self) -> (r: usize)
        ensures r == self.keys().len(),
    { unimplemented!() }
    #[verifier::external_body]
    pub fn vx_value_at(&self, i: usize) -> (r: &Vec<Lifecycle>)
        requires i < self.keys().len(),
        ensures self.m().dom().contains(self.keys()[i as int]), r@ == self.m()[self.keys()[i as int]], seq_total(r@) <= self.total(),
    { unimplemented!() }
}
// <[T]>::split_last_mut().unwrap() on a non-empty Vec, <[T]>::last_mut().unwrap()
#[verifier::external_body]
pub fn vx_split_last_mut(v: &mut Vec<Lifecycle>) -> (r: (&mut Lifecycle, &mut [Lifecycle]))
    requires old(v).len() > 0,
    ensures *r.0 == old(v)@.last(), r.1@ == old(v)@.drop_last(), final(v)@ == final(r.1)@.push(*final(r.0)),
{ unimplemented!() }
#[verifier::external_body]
pub fn vx_last_mut(v: &mut [Lifecycle]) -> (r: &mut Lifecycle)
    requires old(v)@.len() > 0,
    ensures *r == old(v)@.last(), final(v)@ == old(v)@.update(old(v)@.len() - 1, *final(r)), final(v)@ == old(v)@.drop_last().push(*final(r)),
{ unimplemented!() }

pub open spec fn lc_ok(e: DltChar4, lc: Lifecycle) -> bool { lc.wf() && lc.ecu == e && lc.nr_control_req_msgs <= lc.nr_msgs }
pub open spec fn list_ok(e: DltChar4, s: Seq<Lifecycle>) -> bool { forall|i: int| 0 <= i < s.len() ==> lc_ok(e, #[trigger] s[i]) }
pub open spec fn map_ok(m: Map<DltChar4, Seq<Lifecycle>>) -> bool { forall|e: DltChar4| m.dom().contains(e) ==> list_ok(e, #[trigger] m[e]) }
pub open spec fn seq_total(s: Seq<Lifecycle>) -> nat
    decreases s.len(),
{ if s.len() == 0 { 0 } else { seq_total(s.drop_last()) + s.last().nr_msgs as nat } }
pub proof fn lemma_total_push(s: Seq<Lifecycle>, x: Lifecycle)
    ensures seq_total(s.push(x)) == seq_total(s) + x.nr_msgs,
{ assert(s.push(x).drop_last() =~= s); }
pub proof fn lemma_total_empty()
    ensures seq_total(Seq::<Lifecycle>::empty()) == 0,
{}
pub open spec fn msg_in_ok(m: DltMessage) -> bool { m.reception_time_us <= T_MAX() && m.payload@.len() + 0x20000 <= usize::MAX }
// the forwarding clause: `all` (delivered ++ queued) is the old log followed by the received messages, each once, in the order
// received, unchanged except for the lifecycle id, which is not 0
pub open spec fn fwd_ok(all: Seq<DltMessage>, log0: Seq<DltMessage>, rcv: Seq<DltMessage>) -> bool {
    &&& all.len() == log0.len() + rcv.len()
    &&& forall|i: int| 0 <= i < log0.len() ==> #[trigger] all[i] == log0[i]
    &&& forall|j: int| 0 <= j < rcv.len() ==> (#[trigger] all[log0.len() + j]).same_but_lifecycle(&rcv[j]) && all[log0.len() + j].lifecycle != 0
}

pub open spec fn relabel(m: DltMessage, from: u32, to: u32) -> DltMessage {
    if m.lifecycle == from { DltMessage { lifecycle: to, ..m } } else { m }
}
// buffered_msgs.iter_mut().for_each(closure): the closure is applied to every element in place
#[verifier::external_body]
pub fn vx_relabel_all(q: &mut VxDeque, from: u32, to: u32) -> (r: usize)
    ensures final(q).q().len() == old(q).q().len(),
        forall|i: int| 0 <= i < old(q).q().len() ==> #[trigger] final(q).q()[i] == relabel(old(q).q()[i], from, to),
{ unimplemented!() }
#[verifier::external_body]
pub fn vx_count_lc(q: &VxDeque, id: u32) -> (r: usize)
    ensures r < usize::MAX,
{ unimplemented!() }
pub proof fn lemma_total_2(r: Seq<Lifecycle>, a: Lifecycle, b: Lifecycle)
    ensures seq_total(r.push(a).push(b)) == seq_total(r) + a.nr_msgs + b.nr_msgs,
{ lemma_total_push(r, a); lemma_total_push(r.push(a), b); }
pub proof fn lemma_list_ok_push(e: DltChar4, s: Seq<Lifecycle>, x: Lifecycle)
    requires list_ok(e, s), lc_ok(e, x),
    ensures list_ok(e, s.push(x)),
{
    assert forall|i: int| 0 <= i < s.push(x).len() implies lc_ok(e, #[trigger] s.push(x)[i]) by { if i < s.len() { assert(s.push(x)[i] == s[i]); } }
}
pub proof fn lemma_list_ok_drop(e: DltChar4, s: Seq<Lifecycle>)
    requires list_ok(e, s), s.len() > 0,
    ensures list_ok(e, s.drop_last()), lc_ok(e, s.last()),
{
    assert forall|i: int| 0 <= i < s.drop_last().len() implies lc_ok(e, #[trigger] s.drop_last()[i]) by { assert(s.drop_last()[i] == s[i]); }
}
pub proof fn lemma_fwd_relabel(log: Seq<DltMessage>, q: Seq<DltMessage>, q2: Seq<DltMessage>, log0: Seq<DltMessage>, rcv: Seq<DltMessage>, from: u32, to: u32)
    requires
        fwd_ok(log + q, log0, rcv), to != 0, log.len() >= log0.len(), q2.len() == q.len(),
        forall|i: int| 0 <= i < q.len() ==> #[trigger] q2[i] == relabel(q[i], from, to),
    ensures fwd_ok(log + q2, log0, rcv),
{
    let a = log + q;
    let b = log + q2;
    assert forall|i: int| 0 <= i < log0.len() implies #[trigger] b[i] == log0[i] by { assert(b[i] == a[i]); }
    assert forall|j: int| 0 <= j < rcv.len() implies (#[trigger] b[log0.len() + j]).same_but_lifecycle(&rcv[j]) && b[log0.len() + j].lifecycle != 0 by {
        let x = log0.len() + j;
        assert(a[x].same_but_lifecycle(&rcv[j]) && a[x].lifecycle != 0);
        if x < log.len() { assert(b[x] == a[x]); } else { assert(b[x] == q2[x - log.len()]); assert(a[x] == q[x - log.len()]); }
    }
}
pub proof fn lemma_fwd_push(all: Seq<DltMessage>, log0: Seq<DltMessage>, rcv: Seq<DltMessage>, m: DltMessage, m_in: DltMessage)
    requires fwd_ok(all, log0, rcv), m.same_but_lifecycle(&m_in), m.lifecycle != 0,
    ensures fwd_ok(all.push(m), log0, rcv.push(m_in)),
{
    let b = all.push(m);
    let r2 = rcv.push(m_in);
    assert forall|i: int| 0 <= i < log0.len() implies #[trigger] b[i] == log0[i] by { assert(b[i] == all[i]); }
    assert forall|j: int| 0 <= j < r2.len() implies (#[trigger] b[log0.len() + j]).same_but_lifecycle(&r2[j]) && b[log0.len() + j].lifecycle != 0 by {
        if j < rcv.len() { assert(b[log0.len() + j] == all[log0.len() + j]); assert(r2[j] == rcv[j]); }
    }
}

#[verifier::external_body]
pub fn vx_prepopulate<T: VLcTable>(mp: &mut VxEcuMap, t: &T)
    requires old(mp).m() == Map::<DltChar4, Seq<Lifecycle>>::empty(),
    ensures map_ok(final(mp).m()), final(mp).total() == t.visible_msgs(),
{ unimplemented!() }
#[verifier::external_body]
pub fn vx_bump(x: &mut u32)
{ unimplemented!() }
#[verifier::external_body]
pub fn vx_mark_lc_id_to_refresh(id: u32, v: &mut Vec<u32>)
{ unimplemented!() }
#[verifier::external_body]
pub fn vx_check_regular_refresh<T: VLcTable>(last_regular_refresh_index: &mut u32, last_msg_index: u32, force_refresh: bool, lcs_to_refresh: &mut Vec<u32>, lcs_w: &mut T, ecu_map: &VxEcuMap, last_lcw_refresh_index: &mut u32)
{ unimplemented!() }

//@ extract src/lifecycle/mod.rs fn parse_lifecycles_buffered_from_stream
//@   sub R19 `pub fn parse_lifecycles_buffered_from_stream` => `#[verifier::loop_isolation(false)] #[verifier::allow_complex_invariants] pub fn parse_lifecycles_buffered_from_stream`
//@   sub R12 `<M, S, F: Fn(DltMessage) -> SendMsgFnReturnType>` => `<T: VLcTable, I: VRecv, K: VSink>`
//@   sub R12 `mut lcs_w: evmap::WriteHandle<LifecycleId, LifecycleItem, M, S>,` => `mut lcs_w: T,`
//@   sub R12 `inflow: Receiver<DltMessage>` => `mut inflow: I`
//@   sub R12 `outflow: &F` => `outflow: &mut K`
//@   sub R12 `-> evmap::WriteHandle<LifecycleId, LifecycleItem, M, S>` => `-> T`
//@   sub R12 `where S: std::hash::BuildHasher + Clone, M: 'static + Clone,` => ``
//@   sub R11 `std::collections::HashMap::with_capacity_and_hasher(__)` => `VxEcuMap::vx_new()`
//@   sub R11 `if let Some(lci) = lcs_w.read() { __ }` => `vx_prepopulate(&mut ecu_map, &lcs_w);`
//@   sub R11 `std::collections::VecDeque<DltMessage>` => `VxDeque`
//@   sub R11 `std::collections::VecDeque::with_capacity(10_000_000)` => `VxDeque::vx_new()`
//@   sub R11 `std::collections::HashSet::with_hasher(__)` => `VxIdSet::vx_new()`
//@   cut R11 `let mark_lc_id_to_refresh =`
//@   cut R11 `let mut check_regular_refresh =`
//@   sub R11 `mark_lc_id_to_refresh(` => `vx_mark_lc_id_to_refresh(` *
//@   sub R11 `check_regular_refresh(` => `vx_check_regular_refresh(&mut last_regular_refresh_index,` *
//@   sub R13 `for mut msg in inflow {` => `loop { let mut msg = match inflow.recv() { Ok(vx_m) => vx_m, Err(_) => break };`
//@   sub R11 `ecu_map.entry(msg.ecu).or_default()` => `ecu_map.vx_entry_or_default(msg.ecu)`
//@   sub R11 `ecu_lcs.as_mut_slice().split_last_mut().unwrap()` => `vx_split_last_mut(ecu_lcs)`
//@   sub R11 `rest_lcs.last_mut().unwrap()` => `vx_last_mut(rest_lcs)`
//@   sub R11 `buffered_msgs.iter_mut().for_each(__);` => `let vx_moved = vx_relabel_all(&mut buffered_msgs, lc2.id, prev_lc.id);` x2
//@   sub R11 `buffered_msgs .iter() .filter(|m| m.lifecycle == lc2.id) .count()` => `vx_count_lc(&buffered_msgs, lc2.id)`
//@   sub R13 `for ecu_lcs in ecu_map.values() {` => `let vx_nv = ecu_map.vx_nr_values(); let mut vx_vi: usize = 0; while vx_vi < vx_nv { let ecu_lcs = ecu_map.vx_value_at(vx_vi); vx_vi += 1;`
//@   sub R13 `for vs in ecu_map.values() {` => `let vx_nv = ecu_map.vx_nr_values(); let mut vx_vi: usize = 0; while vx_vi < vx_nv { let vs = ecu_map.vx_value_at(vx_vi); vx_vi += 1;`
//@   sub R13 `for lc in ecu_lcs.iter().rev() {` => `let mut vx_lj: usize = ecu_lcs.len(); while vx_lj > 0 { vx_lj -= 1; let lc = &ecu_lcs[vx_lj];`
//@   sub R13 `for lc in vs.iter().rev() {` => `let mut vx_lj: usize = vs.len(); while vx_lj > 0 { vx_lj -= 1; let lc = &vs[vx_lj];`
//@   sub R12 `lcs_w.update(lc.id, new_lifecycle_item(lc, last_lcw_refresh_index))` => `lcs_w.vx_update(lc.id)` x2
//@   sub R11 `last_lcw_refresh_index += 1;` => `vx_bump(&mut last_lcw_refresh_index);` x2
//@   sub R8 `buffered_msgs[0].lifecycle` => `buffered_msgs.vx_first().lifecycle`
//@   sub R13 `for m in buffered_msgs.into_iter() {` => `loop { let m = match buffered_msgs.pop_front() { Some(vx_m) => vx_m, None => break };`
//@   sub R4 `assert(buffered_lcs.contains(&lc2.id));` => `assert(buffered_lcs.ids().contains(lc2.id)); // O:stream.assert_buffered`
//@   sub R12 `outflow(msg)` => `outflow.send(msg)` *
//@   sub R12 `outflow(m)` => `outflow.send(m)` *
//@   spec
//@|    requires
//@|        forall|i: int| 0 <= i < inflow.rem().len() ==> msg_in_ok(#[trigger] inflow.rem()[i]),
//@|        lcs_w.visible_msgs() + inflow.rem().len() <= u32::MAX,
//@|    ensures
//@|        // every received message is forwarded exactly once, in the order received, unchanged except for a non-zero lifecycle id
//@|        old(outflow).never_fails() ==> fwd_ok(final(outflow).log(), old(outflow).log(), inflow.rem()), // O:stream.forward
//@   hint after `let mut last_lcw_refresh_index: DltMessageIndexType = 1;`
//@|    let ghost ms0 = inflow.rem();
//@|    let ghost log0 = outflow.log();
//@|    let ghost nf = outflow.never_fails();
//@|    let ghost mut k: int = 0;
//@|    let ghost mut all_b: Seq<DltMessage> = Seq::empty();
//@|    let ghost mut l_fin: Seq<Lifecycle> = Seq::empty();
//@|    proof { assert(outflow.log() + buffered_msgs.q() =~= log0); assert(ms0.take(0) =~= Seq::<DltMessage>::empty()); }
//@   hint before `last_msg_index = msg.index;`
//@|    let ghost m_in = msg;
//@|    let ghost map0 = ecu_map.m();
//@|    let ghost tot0 = ecu_map.total();
//@|    proof {
//@|        assert(m_in == ms0[k]);
//@|        assert(ms0.skip(k).skip(1) =~= ms0.skip(k + 1));
//@|        assert(ms0.take(k + 1) =~= ms0.take(k).push(ms0[k]));
//@|        assert(msg_in_ok(ms0[k]));
//@|        k = k + 1;
//@|    }
//@|    let ghost l0 = if map0.dom().contains(m_in.ecu) { map0[m_in.ecu] } else { Seq::<Lifecycle>::empty() };
//@   hint after `let ecu_lcs_len = ecu_lcs.len();`
//@|    proof { assert(l0 == ecu_lcs@); assert(list_ok(m_in.ecu, l0)); if l0.len() > 0 { lemma_list_ok_drop(m_in.ecu, l0); assert(l0 =~= l0.drop_last().push(l0.last())); lemma_total_push(l0.drop_last(), l0.last()); } }
//@   hint after `let mut remove_last_lc = false;`
//@|    let ghost lc2_0 = *lc2;
//@|    let ghost rest0 = rest_lcs@;
//@|    let ghost mut g_lc2 = *lc2;
//@|    let ghost mut g_prev = *lc2;
//@|    let ghost mut g_new = *lc2;
//@|    let ghost mut arm: int = 0;
//@|    let ghost log_a = outflow.log();
//@|    let ghost q_a = buffered_msgs.q();
//@|    proof { assert(rest0 == l0.drop_last() && lc2_0 == l0.last()); assert(lc_ok(m_in.ecu, lc2_0)); assert(lc2_0.nr_msgs <= seq_total(l0)); }
//@   hint before `if ecu_lcs_len > 1 {`
//@|    proof { g_lc2 = *lc2; arm = 1; }
//@   hint after 1 `prev_lc.merge(lc2);`
//@|    proof { g_prev = *prev_lc; g_lc2 = *lc2; arm = 2; }
//@   hint after 2 `prev_lc.merge(lc2);`
//@|    proof { g_prev = *prev_lc; g_lc2 = *lc2; arm = 2; }
//@   hint before `let is_buffered = buffered_lcs.contains(&prev_lc.id)`
//@|    proof {
//@|        assert(rest0.len() > 0);
//@|        lemma_list_ok_drop(m_in.ecu, rest0);
//@|        assert(rest0 =~= rest0.drop_last().push(rest0.last()));
//@|        lemma_total_2(rest0.drop_last(), rest0.last(), lc2_0);
//@|        assert(l0 =~= rest0.drop_last().push(rest0.last()).push(lc2_0));
//@|    }
//@   hint before `buffered_lcs.insert(new_lc.id);`
//@|    proof { g_new = new_lc; g_lc2 = *lc2; arm = 3; }
//@   hint before `ecu_lcs.push(new_lc);`
//@|    proof { assert(buffered_lcs.ids().contains(g_new.id)); }
//@   hint before `if remove_last_lc {`
//@|    proof {
//@|        l_fin = ecu_lcs@;
//@|        assert(msg.same_but_lifecycle(&m_in) && msg.lifecycle != 0); // O:stream.assigned (the message is unchanged except for a non-zero lifecycle id)
//@|        assert(arm == 1 || arm == 2 || arm == 3);
//@|        assert(remove_last_lc <==> arm == 2);
//@|        if arm == 1 {
//@|            assert(l_fin == rest0.push(g_lc2));
//@|            lemma_total_push(rest0, g_lc2);
//@|            lemma_list_ok_push(m_in.ecu, rest0, g_lc2);
//@|        } else if arm == 2 {
//@|            assert(l_fin == rest0.drop_last().push(g_prev).push(g_lc2));
//@|            assert(l_fin.drop_last() =~= rest0.drop_last().push(g_prev));
//@|            lemma_total_push(rest0.drop_last(), g_prev);
//@|            lemma_list_ok_push(m_in.ecu, rest0.drop_last(), g_prev);
//@|        } else {
//@|            assert(l_fin == rest0.push(g_lc2).push(g_new));
//@|            lemma_total_2(rest0, g_lc2, g_new);
//@|            lemma_list_ok_push(m_in.ecu, rest0, g_lc2);
//@|            lemma_list_ok_push(m_in.ecu, rest0.push(g_lc2), g_new);
//@|        }
//@|        assert(!remove_last_lc ==> list_ok(m_in.ecu, l_fin) && seq_total(l_fin) == seq_total(l0) + 1); // O:stream.lcs.count
//@|        assert(remove_last_lc ==> l_fin.len() == ecu_lcs_len && list_ok(m_in.ecu, l_fin.drop_last()) && seq_total(l_fin.drop_last()) == seq_total(l0) + 1); // O:stream.lcs.merge_count
//@|        if nf && arm == 2 { lemma_fwd_relabel(log_a, q_a, buffered_msgs.q(), log0, ms0.take(k - 1), g_lc2.id, g_prev.id); }
//@|        assert(nf ==> fwd_ok(outflow.log() + buffered_msgs.q(), log0, ms0.take(k - 1))); // O:stream.relabel.fifo
//@|    }
//@   hint after `let _removed = ecu_lcs.remove(`
//@|    proof { assert(ecu_lcs@ =~= l_fin.drop_last()); l_fin = ecu_lcs@; all_b = outflow.log() + buffered_msgs.q(); }
//@   hint after `ecu_lcs.push(lc);`
//@|    proof { assert(buffered_lcs.ids().contains(lc.id)); l_fin = ecu_lcs@; lemma_total_push(l0, lc); assert(l_fin == l0.push(lc)); lemma_list_ok_push(m_in.ecu, l0, lc); }
//@   hint before `if next_buffer_check_time < msg_reception_time_us {`
//@|    proof {
//@|        assert(ecu_map.m() == map0.insert(m_in.ecu, l_fin));
//@|        assert(list_ok(m_in.ecu, l_fin) && seq_total(l_fin) == seq_total(l0) + 1);
//@|        assert(map_ok(ecu_map.m())) by { assert forall|e: DltChar4| ecu_map.m().dom().contains(e) implies list_ok(e, #[trigger] ecu_map.m()[e]) by { if e != m_in.ecu { assert(map0.dom().contains(e)); assert(ecu_map.m()[e] == map0[e]); } } }
//@|        assert(ecu_map.total() == tot0 + 1);
//@|        assert(msg.same_but_lifecycle(&m_in) && msg.lifecycle != 0);
//@|        assert(nf ==> fwd_ok(outflow.log() + buffered_msgs.q(), log0, ms0.take(k - 1)));
//@|        assert(nf ==> queue_inv(&buffered_lcs, &buffered_msgs)); // O:stream.mid.queue
//@|        all_b = outflow.log() + buffered_msgs.q();
//@|    }
//@   hint before `if !buffered_lcs.is_empty() {`
//@|    proof {
//@|        assert(nf ==> outflow.log() + buffered_msgs.q() == all_b);
//@|        if nf {
//@|            lemma_fwd_push(all_b, log0, ms0.take(k - 1), msg, m_in);
//@|            assert((outflow.log() + buffered_msgs.q()).push(msg) =~= outflow.log() + buffered_msgs.q().push(msg));
//@|            if buffered_msgs.q().len() == 0 { assert((outflow.log() + buffered_msgs.q()).push(msg) =~= outflow.log().push(msg) + buffered_msgs.q()); }
//@|        }
//@|    }
//@   hint after 2 `vx_bump(&mut last_lcw_refresh_index);`
//@|    let ghost all_e = outflow.log() + buffered_msgs.q();
//@   hint before `^lcs_w`
//@|    proof { if nf { assert(ms0.take(k) =~= ms0); assert(outflow.log() + buffered_msgs.q() =~= outflow.log()); } }
//@   loop @1 `loop` has `inflow.recv()`
//@|    invariant
//@|        0 <= k <= ms0.len(), inflow.rem() == ms0.skip(k), max_buffering_delay_us == 60_000_000,
//@|        forall|i: int| 0 <= i < ms0.len() ==> msg_in_ok(#[trigger] ms0[i]),
//@|        outflow.never_fails() == nf,
//@|        nf ==> fwd_ok(outflow.log() + buffered_msgs.q(), log0, ms0.take(k)), // O:stream.inv.fifo
//@|        nf ==> queue_inv(&buffered_lcs, &buffered_msgs), // O:stream.inv.queue
//@|        map_ok(ecu_map.m()), // O:stream.inv.map
//@|        ecu_map.total() + (ms0.len() - k) <= u32::MAX, // O:stream.inv.budget
//@|        outflow.log().len() >= log0.len(),
//@|    ensures
//@|        nf ==> k == ms0.len(),
//@|    decreases ms0.len() - k,
//@   loop @1 `while !buffered_msgs.is_empty()` has `last_lc_id`
//@|    invariant
//@|        outflow.never_fails() == nf,
//@|        nf ==> outflow.log() + buffered_msgs.q() == all_b, // O:stream.flush.fifo
//@|        outflow.log().len() >= log0.len(),
//@|    ensures
//@|        nf ==> buffered_msgs.q().len() == 0,
//@|    decreases buffered_msgs.q().len(),
//@   loop @1 `while vx_vi < vx_nv` has `prune_lc_id`
//@|    invariant
//@|        vx_vi <= vx_nv, outflow.never_fails() == nf,
//@|        nf ==> outflow.log() + buffered_msgs.q() == all_b, // O:stream.confirm.fifo
//@|        outflow.log().len() >= log0.len(),
//@|        nf ==> queue_inv(&buffered_lcs, &buffered_msgs), // O:stream.confirm.queue
//@|    decreases vx_nv - vx_vi,
//@   loop @1 `while vx_lj > 0` has `prune_lc_id`
//@|    invariant
//@|        vx_lj <= ecu_lcs.len(), outflow.never_fails() == nf,
//@|        nf ==> outflow.log() + buffered_msgs.q() == all_b, // O:stream.confirm.inner.fifo
//@|        outflow.log().len() >= log0.len(),
//@|        nf ==> queue_inv(&buffered_lcs, &buffered_msgs), // O:stream.confirm.inner.queue
//@|    decreases vx_lj,
//@   loop @1 `while !buffered_msgs.is_empty()` has `prune_lc_id`
//@|    invariant
//@|        outflow.never_fails() == nf,
//@|        nf ==> outflow.log() + buffered_msgs.q() == all_b, // O:stream.prune.fifo
//@|        outflow.log().len() >= log0.len(),
//@|    ensures
//@|        nf ==> queue_inv(&buffered_lcs, &buffered_msgs), // O:stream.prune.queue
//@|    decreases buffered_msgs.q().len(),
//@   loop @1 `while vx_vi < vx_nv` has `nr_lcs_to_update`
//@|    invariant
//@|        vx_vi <= vx_nv,
//@|    decreases vx_nv - vx_vi,
//@   loop @1 `while vx_lj > 0` has `nr_lcs_to_update`
//@|    invariant_except_break
//@|        nr_lcs_to_update > 0,
//@|    invariant
//@|        vx_lj <= vs.len(),
//@|    decreases vx_lj,
//@   loop @1 `loop` has `buffered_msgs.pop_front() { Some(vx_m)`
//@|    invariant
//@|        outflow.never_fails() == nf,
//@|        nf ==> outflow.log() + buffered_msgs.q() == all_e, // O:stream.final.fifo
//@|        outflow.log().len() >= log0.len(),
//@|    ensures
//@|        nf ==> buffered_msgs.q().len() == 0,
//@|    decreases buffered_msgs.q().len(),
//@ end
// ---- end of units/lcstream/part.rs ----
