// ---- units/lcstream/part.rs ----
// R12 models with concrete (opaque) carrier types, since the function creates these objects itself
#[derive(Debug)]
pub struct VxRecvError;
pub trait VRecv: Sized {
    spec fn rem(&self) -> Seq<DltMessage>;
    fn recv(&mut self) -> (r: Result<DltMessage, VxRecvError>)
        ensures
            old(self).rem().len() == 0 ==> r is Err && final(self).rem() == old(self).rem(),
            old(self).rem().len() > 0 ==> r == Ok::<DltMessage, VxRecvError>(old(self).rem()[0]) && final(self).rem() == old(self).rem().skip(1);
}
// evmap write handle for the shared lifecycle table (`lcs_w`, R12). wview(): the writer's state = what the readers will see after
// the next refresh; visible(): what they see now. `update` replaces the entry of a key, `empty` removes it (both in the writer's
// state only), `refresh` publishes the writer's state (ASSUMED contract of evmap)
pub trait VLcTab: Sized {
    spec fn wview(&self) -> Map<u32, Lifecycle>;
    spec fn visible(&self) -> Map<u32, Lifecycle>;
    spec fn visible_msgs(&self) -> nat;   // the sum of nr_msgs over the visible entries
    fn vx_update(&mut self, id: u32, item: Lifecycle)
        ensures final(self).wview() == old(self).wview().insert(id, item), final(self).visible() == old(self).visible(), final(self).visible_msgs() == old(self).visible_msgs();
    fn empty(&mut self, id: u32)
        ensures final(self).wview() == old(self).wview().remove(id), final(self).visible() == old(self).visible(), final(self).visible_msgs() == old(self).visible_msgs();
    fn refresh(&mut self)
        ensures final(self).visible() == old(self).wview(), final(self).wview() == old(self).wview();
}
// the output closure (R12). `vis` is a ghost argument added at every call (R19): what a reader of the shared lifecycle table sees
// at the moment of the call. C06 is the precondition: the lifecycle of the message is visible, with the message's ECU.
pub trait VLcSink: Sized {
    spec fn log(&self) -> Seq<DltMessage>;
    spec fn never_fails(&self) -> bool;
    fn send(&mut self, m: DltMessage, vis: Ghost<Map<u32, Lifecycle>>) -> (r: Result<(), DltMessage>)
        requires
            vis@.dom().contains(m.lifecycle) && vis@[m.lifecycle].ecu == m.ecu, // O:publish.at_delivery (the lifecycle of a message is visible, with the message's ECU, when the message is delivered)
        ensures
            r is Ok ==> final(self).log() == old(self).log().push(m),
            r is Err ==> final(self).log() == old(self).log(),
            final(self).never_fails() == old(self).never_fails(),
            old(self).never_fails() ==> r is Ok;
}
#[verifier::external_body]
pub struct VxDeque { q: std::collections::VecDeque<DltMessage> }
impl VxDeque {
    #[verifier::external_body]
    pub fn vx_new() -> (r: VxDeque) ensures r.q() == Seq::<DltMessage>::empty() { unimplemented!() }
}
impl VQueue for VxDeque {
    uninterp spec fn q(&self) -> Seq<DltMessage>;
    #[verifier::external_body] fn is_empty(&self) -> (r: bool) { unimplemented!() }
    #[verifier::external_body] fn len(&self) -> (r: usize) { unimplemented!() }
    #[verifier::external_body] fn pop_front(&mut self) -> (r: Option<DltMessage>) { unimplemented!() }
    #[verifier::external_body] fn push_back(&mut self, m: DltMessage) { unimplemented!() }
    #[verifier::external_body] fn pop_back(&mut self) -> (r: Option<DltMessage>) { unimplemented!() }
    #[verifier::external_body] fn push_front(&mut self, m: DltMessage) { unimplemented!() }
    #[verifier::external_body] fn front(&self) -> (r: Option<&DltMessage>) { unimplemented!() }
    #[verifier::external_body] fn back(&self) -> (r: Option<&DltMessage>) { unimplemented!() }
    #[verifier::external_body] fn vx_first(&self) -> (r: &DltMessage) { unimplemented!() }
}
#[verifier::external_body]
pub struct VxIdSet { s: std::collections::HashSet<u32> }
impl VxIdSet {
    #[verifier::external_body]
    pub fn vx_new() -> (r: VxIdSet) ensures r.ids() == Set::<u32>::empty() { unimplemented!() }
    #[verifier::external_body]
    pub fn insert(&mut self, id: u32) -> (r: bool) ensures final(self).ids() == old(self).ids().insert(id) { unimplemented!() }
}
impl VIdSet for VxIdSet {
    uninterp spec fn ids(&self) -> Set<u32>;
    #[verifier::external_body] fn contains(&self, id: &u32) -> (r: bool) { unimplemented!() }
    #[verifier::external_body] fn remove(&mut self, id: &u32) -> (r: bool) { unimplemented!() }
    #[verifier::external_body] fn is_empty(&self) -> (r: bool) { unimplemented!() }
    #[verifier::external_body] fn len(&self) -> (r: usize) { unimplemented!() }
}
// std::collections::HashMap<DltChar4, Vec<Lifecycle>> (`ecu_map`): assumed contract of the operations used.
// m(): the map; keys(): the keys in the (unspecified) iteration order of `values()`.
#[verifier::external_body]
pub struct VxEcuMap { m: std::collections::HashMap<u32, Vec<Lifecycle>> }
impl VxEcuMap {
    pub uninterp spec fn m(&self) -> Map<DltChar4, Seq<Lifecycle>>;
    pub uninterp spec fn keys(&self) -> Seq<DltChar4>;
    pub uninterp spec fn kidx(&self, e: DltChar4) -> int;
    // the sum of nr_msgs over all lifecycles of all keys (a finite sum over the map: changes only by the entry that changes)
    pub uninterp spec fn total(&self) -> nat;
    #[verifier::external_body]
    pub fn vx_new() -> (r: VxEcuMap) ensures r.m() == Map::<DltChar4, Seq<Lifecycle>>::empty(), r.total() == 0 { unimplemented!() }
    // entry(k).or_default()
    #[verifier::external_body]
    pub fn vx_entry_or_default(&mut self, k: DltChar4) -> (r: &mut Vec<Lifecycle>)
        ensures
            r@ == (if old(self).m().dom().contains(k) { old(self).m()[k] } else { Seq::<Lifecycle>::empty() }),
            final(self).m() == old(self).m().insert(k, final(r)@),
            seq_total(r@) <= old(self).total(),
            final(self).total() == old(self).total() - seq_total(r@) + seq_total(final(r)@),
    { unimplemented!() }
    // values(): visits every value once
    #[verifier::external_body]
    pub fn vx_nr_values(&self) -> (r: usize)
        ensures r == self.keys().len(),
            keys_ok(self), // values() visits the value of every key exactly once: kidx is the inverse of keys
    { unimplemented!() }
    #[verifier::external_body]
    pub fn vx_value_at(&self, i: usize) -> (r: &Vec<Lifecycle>)
        requires i < self.keys().len(),
        ensures self.m().dom().contains(self.keys()[i as int]), r@ == self.m()[self.keys()[i as int]], seq_total(r@) <= self.total(),
    { unimplemented!() }
}
// <[T]>::split_last_mut().unwrap() on a non-empty Vec, <[T]>::last_mut().unwrap()
#[verifier::external_body]
pub fn vx_split_last_mut(v: &mut Vec<Lifecycle>) -> (r: (&mut Lifecycle, &mut [Lifecycle]))
    requires old(v).len() > 0,
    ensures *r.0 == old(v)@.last(), r.1@ == old(v)@.drop_last(), final(v)@ == final(r.1)@.push(*final(r.0)),
{ unimplemented!() }
#[verifier::external_body]
pub fn vx_last_mut(v: &mut [Lifecycle]) -> (r: &mut Lifecycle)
    requires old(v)@.len() > 0,
    ensures *r == old(v)@.last(), final(v)@ == old(v)@.update(old(v)@.len() - 1, *final(r)), final(v)@ == old(v)@.drop_last().push(*final(r)),
{ unimplemented!() }

pub open spec fn lc_ok(e: DltChar4, lc: Lifecycle) -> bool { lc.wf() && lc.ecu == e && lc.nr_control_req_msgs <= lc.nr_msgs }
pub open spec fn list_ok(e: DltChar4, s: Seq<Lifecycle>) -> bool { forall|i: int| 0 <= i < s.len() ==> lc_ok(e, #[trigger] s[i]) }
pub open spec fn map_ok(m: Map<DltChar4, Seq<Lifecycle>>) -> bool { forall|e: DltChar4| m.dom().contains(e) ==> list_ok(e, #[trigger] m[e]) }
pub open spec fn seq_total(s: Seq<Lifecycle>) -> nat
    decreases s.len(),
{ if s.len() == 0 { 0 } else { seq_total(s.drop_last()) + s.last().nr_msgs as nat } }
pub proof fn lemma_total_push(s: Seq<Lifecycle>, x: Lifecycle)
    ensures seq_total(s.push(x)) == seq_total(s) + x.nr_msgs,
{ assert(s.push(x).drop_last() =~= s); }
pub proof fn lemma_total_empty()
    ensures seq_total(Seq::<Lifecycle>::empty()) == 0,
{}
pub open spec fn msg_in_ok(m: DltMessage) -> bool { m.reception_time_us <= T_MAX() && m.payload@.len() + 0x20000 <= usize::MAX && m.index <= u32::MAX - 100_000 }
// the forwarding clause: `all` (delivered ++ queued) is the old log followed by the received messages, each once, in the order
// received, unchanged except for the lifecycle id, which is not 0
pub open spec fn fwd_ok(all: Seq<DltMessage>, log0: Seq<DltMessage>, rcv: Seq<DltMessage>) -> bool {
    &&& all.len() == log0.len() + rcv.len()
    &&& forall|i: int| 0 <= i < log0.len() ==> #[trigger] all[i] == log0[i]
    &&& forall|j: int| 0 <= j < rcv.len() ==> (#[trigger] all[log0.len() + j]).same_but_lifecycle(&rcv[j]) && all[log0.len() + j].lifecycle != 0
}

pub open spec fn relabel(m: DltMessage, from: u32, to: u32) -> DltMessage {
    if m.lifecycle == from { DltMessage { lifecycle: to, ..m } } else { m }
}
// buffered_msgs.iter_mut().for_each(closure): the closure is applied to every element in place
#[verifier::external_body]
pub fn vx_relabel_all(q: &mut VxDeque, from: u32, to: u32) -> (r: usize)
    ensures final(q).q().len() == old(q).q().len(),
        forall|i: int| 0 <= i < old(q).q().len() ==> #[trigger] final(q).q()[i] == relabel(old(q).q()[i], from, to),
{ unimplemented!() }
#[verifier::external_body]
pub fn vx_count_lc(q: &VxDeque, id: u32) -> (r: usize)
    ensures r < usize::MAX,
{ unimplemented!() }
// ---- C06: ghost bookkeeping. pos: lifecycle id -> (ECU key, index) of the lifecycle in ecu_map; ids are pairwise distinct ----
pub type Pos = Map<u32, (DltChar4, int)>;
#[verifier::opaque]
pub open spec fn pos_inv(pos: Pos, m: Map<DltChar4, Seq<Lifecycle>>) -> bool {
    &&& forall|id: u32| #[trigger] pos.dom().contains(id) ==> m.dom().contains(pos[id].0) && 0 <= pos[id].1 < m[pos[id].0].len() && m[pos[id].0][pos[id].1].id == id
    &&& forall|e: DltChar4, i: int| m.dom().contains(e) && 0 <= i < m[e].len() ==> pos.dom().contains((#[trigger] m[e][i]).id) && pos[m[e][i].id] == (e, i)
}
// a table entry of a lifecycle that is in the map carries the ECU the lifecycle is stored under
#[verifier::opaque]
pub open spec fn tab_ok(t: Map<u32, Lifecycle>, pos: Pos) -> bool {
    forall|id: u32| #[trigger] t.dom().contains(id) && pos.dom().contains(id) ==> t[id].ecu == pos[id].0
}
// C07: the writer's state lists no lifecycle that is not in the map (a merged lifecycle is removed from the map), and every visible
// lifecycle of the map is still in the writer's state (a refresh never makes one disappear)
#[verifier::opaque]
pub open spec fn wdom_ok(pos: Pos, vis: Map<u32, Lifecycle>, w: Map<u32, Lifecycle>) -> bool {
    &&& forall|id: u32| #[trigger] w.dom().contains(id) ==> pos.dom().contains(id)
    &&& forall|id: u32| #[trigger] vis.dom().contains(id) && pos.dom().contains(id) ==> w.dom().contains(id)
}
// a lifecycle that is still buffered was never written to the table
#[verifier::opaque]
pub open spec fn nb_ok(buffered: Set<u32>, w: Map<u32, Lifecycle>) -> bool {
    forall|id: u32| #[trigger] buffered.contains(id) ==> !w.dom().contains(id)
}
// lifecycle ids are never 0
pub open spec fn ids_nz(pos: Pos) -> bool { forall|id: u32| #[trigger] pos.dom().contains(id) ==> id != 0 }
// no buffered lifecycle is marked for a regular refresh
pub open spec fn marks_ok(buffered: Set<u32>, marks: Seq<u32>) -> bool {
    forall|x: u32| #[trigger] marks.contains(x) ==> !buffered.contains(x)
}
pub proof fn lemma_nb_after_refresh(buffered: Set<u32>, w: Map<u32, Lifecycle>, w2: Map<u32, Lifecycle>, marks: Seq<u32>)
    requires nb_ok(buffered, w), marks_ok(buffered, marks), forall|id: u32| #[trigger] w2.dom().contains(id) ==> w.dom().contains(id) || marks.contains(id),
    ensures nb_ok(buffered, w2),
{ reveal(nb_ok); }
pub proof fn lemma_nb_empty(buffered: Set<u32>, w: Map<u32, Lifecycle>)
    requires forall|x: u32| !buffered.contains(x),
    ensures nb_ok(buffered, w),
{ reveal(nb_ok); }
pub proof fn lemma_nb_use(buffered: Set<u32>, w: Map<u32, Lifecycle>, id: u32)
    requires nb_ok(buffered, w), buffered.contains(id),
    ensures !w.dom().contains(id),
{ reveal(nb_ok); }
// every lifecycle in the map is still buffered or already visible
#[verifier::opaque]
pub open spec fn known_ok(pos: Pos, buffered: Set<u32>, vis: Map<u32, Lifecycle>) -> bool {
    forall|id: u32| #[trigger] pos.dom().contains(id) ==> buffered.contains(id) || vis.dom().contains(id)
}
// the lifecycle of every queued message is a lifecycle of the message's own ECU in the map
pub open spec fn queued_ok(pos: Pos, q: Seq<DltMessage>) -> bool {
    forall|i: int| 0 <= i < q.len() ==> pos.dom().contains((#[trigger] q[i]).lifecycle) && pos[q[i].lifecycle].0 == q[i].ecu
}
// ASSUMPTION (R10): the process-wide counter NEXT_LC_ID hands out ids that no lifecycle in the map or in the table carries
// (fewer than 2^32 lifecycles per process; the entries of a pre-populated table came from the same counter). Only called, in
// proof hints, for the id of a lifecycle that Lifecycle::new has just created.
#[verifier::external_body]
pub proof fn axiom_fresh_lc_id(id: u32, pos: Pos, pen: Map<u32, Lifecycle>, vis: Map<u32, Lifecycle>, marks: Seq<u32>)
    ensures !pos.dom().contains(id), !pen.dom().contains(id), !vis.dom().contains(id), !marks.contains(id),
{}

pub open spec fn list_at(m: Map<DltChar4, Seq<Lifecycle>>, e: DltChar4) -> Seq<Lifecycle> { if m.dom().contains(e) { m[e] } else { Seq::<Lifecycle>::empty() } }
// C06 at a delivery: the lifecycle of the message is visible in the table, with the message's ECU
pub open spec fn sendable(vis: Map<u32, Lifecycle>, m: DltMessage) -> bool { vis.dom().contains(m.lifecycle) && vis[m.lifecycle].ecu == m.ecu }
// the lifecycle id of the message denotes a lifecycle of the message's own ECU in the map
pub open spec fn located(pos: Pos, m: DltMessage) -> bool { pos.dom().contains(m.lifecycle) && pos[m.lifecycle].0 == m.ecu }
pub open spec fn same_ids(l1: Seq<Lifecycle>, l0: Seq<Lifecycle>) -> bool { l1.len() == l0.len() && forall|i: int| 0 <= i < l1.len() ==> (#[trigger] l1[i]).id == l0[i].id }

pub proof fn lemma_pos_at(pos: Pos, m: Map<DltChar4, Seq<Lifecycle>>, e: DltChar4, i: int)
    requires pos_inv(pos, m), m.dom().contains(e), 0 <= i < m[e].len(),
    ensures pos.dom().contains(m[e][i].id) && pos[m[e][i].id] == (e, i),
{ reveal(pos_inv); }
// the list of one ECU is replaced by a list with the same ids at the same places
pub proof fn lemma_pos_same_ids(pos: Pos, m0: Map<DltChar4, Seq<Lifecycle>>, e: DltChar4, l1: Seq<Lifecycle>)
    requires pos_inv(pos, m0), same_ids(l1, list_at(m0, e)),
    ensures pos_inv(pos, m0.insert(e, l1)),
{
    reveal(pos_inv);
    let m1 = m0.insert(e, l1);
    assert forall|id: u32| #[trigger] pos.dom().contains(id) implies m1.dom().contains(pos[id].0) && 0 <= pos[id].1 < m1[pos[id].0].len() && m1[pos[id].0][pos[id].1].id == id by {
        if pos[id].0 == e { assert(m0[e] == list_at(m0, e)); }
    }
    assert forall|e2: DltChar4, i: int| m1.dom().contains(e2) && 0 <= i < m1[e2].len() implies pos.dom().contains((#[trigger] m1[e2][i]).id) && pos[m1[e2][i].id] == (e2, i) by {
        if e2 == e { assert(m0.dom().contains(e)); assert(m0[e][i].id == l1[i].id); } else { assert(m0[e2][i] == m1[e2][i]); }
    }
}
// a lifecycle with a fresh id is appended to the list of one ECU
pub proof fn lemma_pos_push(pos: Pos, m0: Map<DltChar4, Seq<Lifecycle>>, e: DltChar4, x: Lifecycle)
    requires pos_inv(pos, m0), m0.dom().contains(e), !pos.dom().contains(x.id),
    ensures pos_inv(pos.insert(x.id, (e, m0[e].len() as int)), m0.insert(e, m0[e].push(x))),
{
    reveal(pos_inv);
    let p1 = pos.insert(x.id, (e, m0[e].len() as int));
    let m1 = m0.insert(e, m0[e].push(x));
    assert forall|id: u32| #[trigger] p1.dom().contains(id) implies m1.dom().contains(p1[id].0) && 0 <= p1[id].1 < m1[p1[id].0].len() && m1[p1[id].0][p1[id].1].id == id by {
        if id != x.id { assert(pos.dom().contains(id)); if pos[id].0 == e { assert(m1[e][pos[id].1] == m0[e][pos[id].1]); } }
    }
    assert forall|e2: DltChar4, i: int| m1.dom().contains(e2) && 0 <= i < m1[e2].len() implies p1.dom().contains((#[trigger] m1[e2][i]).id) && p1[m1[e2][i].id] == (e2, i) by {
        if e2 == e { if i < m0[e].len() { assert(m1[e][i] == m0[e][i]); assert(pos.dom().contains(m0[e][i].id)); } } else { assert(m0[e2][i] == m1[e2][i]); assert(pos.dom().contains(m0[e2][i].id)); }
    }
}
// the last lifecycle of one ECU's list is removed
pub proof fn lemma_pos_drop_last(pos: Pos, m1: Map<DltChar4, Seq<Lifecycle>>, e: DltChar4)
    requires pos_inv(pos, m1), m1.dom().contains(e), m1[e].len() > 0,
    ensures pos_inv(pos.remove(m1[e].last().id), m1.insert(e, m1[e].drop_last())),
{
    reveal(pos_inv);
    let l = m1[e];
    let gone = l.last().id;
    let p2 = pos.remove(gone);
    let m2 = m1.insert(e, l.drop_last());
    assert(pos.dom().contains(l[l.len() - 1].id) && pos[gone] == (e, l.len() - 1));
    assert forall|id: u32| #[trigger] p2.dom().contains(id) implies m2.dom().contains(p2[id].0) && 0 <= p2[id].1 < m2[p2[id].0].len() && m2[p2[id].0][p2[id].1].id == id by {
        assert(pos.dom().contains(id));
        if pos[id].0 == e { assert(m1[e][pos[id].1].id == id); assert(pos[id].1 != l.len() - 1); assert(m2[e][pos[id].1] == l[pos[id].1]); }
    }
    assert forall|e2: DltChar4, i: int| m2.dom().contains(e2) && 0 <= i < m2[e2].len() implies p2.dom().contains((#[trigger] m2[e2][i]).id) && p2[m2[e2][i].id] == (e2, i) by {
        if e2 == e { assert(m2[e][i] == l[i]); assert(pos[l[i].id] == (e, i)); } else { assert(m1[e2][i] == m2[e2][i]); assert(pos[m1[e2][i].id] == (e2, i)); }
    }
}
pub proof fn lemma_queued_empty(pos: Pos)
    ensures queued_ok(pos, Seq::<DltMessage>::empty()),
{ }
pub proof fn lemma_queued_skip(pos: Pos, q: Seq<DltMessage>)
    requires queued_ok(pos, q), q.len() > 0,
    ensures queued_ok(pos, q.skip(1)), located(pos, q[0]),
{
   
    assert forall|i: int| 0 <= i < q.skip(1).len() implies pos.dom().contains((#[trigger] q.skip(1)[i]).lifecycle) && pos[q.skip(1)[i].lifecycle].0 == q.skip(1)[i].ecu by { assert(q.skip(1)[i] == q[i + 1]); }
}
pub proof fn lemma_queued_push(pos: Pos, q: Seq<DltMessage>, m: DltMessage)
    requires queued_ok(pos, q), located(pos, m),
    ensures queued_ok(pos, q.push(m)),
{
   
    assert forall|i: int| 0 <= i < q.push(m).len() implies pos.dom().contains((#[trigger] q.push(m)[i]).lifecycle) && pos[q.push(m)[i].lifecycle].0 == q.push(m)[i].ecu by { if i < q.len() { assert(q.push(m)[i] == q[i]); } }
}
// ---- one lemma per way the assignment step changes the map (all C06 bookkeeping of that step) ----
// (a) the ids in the map do not change (update without merge)
pub proof fn lemma_step_same(pos: Pos, m0: Map<DltChar4, Seq<Lifecycle>>, e: DltChar4, l1: Seq<Lifecycle>)
    requires pos_inv(pos, m0), same_ids(l1, list_at(m0, e)), l1.len() > 0,
    ensures pos_inv(pos, m0.insert(e, l1)), pos.dom().contains(l1.last().id) && pos[l1.last().id].0 == e,
{
    lemma_pos_same_ids(pos, m0, e, l1);
    lemma_pos_at(pos, m0.insert(e, l1), e, l1.len() - 1);
}
// (b) a freshly created lifecycle x is appended (and inserted into the set of buffered lifecycles)
pub proof fn lemma_step_new(pos: Pos, m0: Map<DltChar4, Seq<Lifecycle>>, e: DltChar4, l1: Seq<Lifecycle>, x: Lifecycle, buffered: Set<u32>, vis: Map<u32, Lifecycle>, pen: Map<u32, Lifecycle>, q: Seq<DltMessage>, marks: Seq<u32>)
    requires
        pos_inv(pos, m0), same_ids(l1, list_at(m0, e)),
        !pos.dom().contains(x.id) && !pen.dom().contains(x.id) && !vis.dom().contains(x.id) && !marks.contains(x.id),
        known_ok(pos, buffered, vis), tab_ok(vis, pos), tab_ok(pen, pos), queued_ok(pos, q), wdom_ok(pos, vis, pen), nb_ok(buffered, pen),
    ensures ({
        let pos1 = pos.insert(x.id, (e, l1.len() as int));
        pos_inv(pos1, m0.insert(e, l1.push(x))) && known_ok(pos1, buffered.insert(x.id), vis) && tab_ok(vis, pos1) && tab_ok(pen, pos1) && queued_ok(pos1, q)
            && wdom_ok(pos1, vis, pen) && nb_ok(buffered.insert(x.id), pen)
    }),
{
    reveal(wdom_ok); reveal(nb_ok);
    let pos1 = pos.insert(x.id, (e, l1.len() as int));
    lemma_pos_same_ids(pos, m0, e, l1);
    lemma_pos_push(pos, m0.insert(e, l1), e, x);
    assert(m0.insert(e, l1).insert(e, l1.push(x)) =~= m0.insert(e, l1.push(x)));
    reveal(known_ok); reveal(tab_ok);
    assert forall|i: int| 0 <= i < q.len() implies pos1.dom().contains((#[trigger] q[i]).lifecycle) && pos1[q[i].lifecycle].0 == q[i].ecu by { assert(pos.dom().contains(q[i].lifecycle)); }
}
// (c) the last lifecycle (id `from`) was merged into its predecessor (id `to`), the queued messages re-labelled, `from` removed
// from the map and from the set of buffered lifecycles
pub proof fn lemma_step_merge(pos: Pos, m0: Map<DltChar4, Seq<Lifecycle>>, e: DltChar4, l1: Seq<Lifecycle>, buffered: Set<u32>, vis: Map<u32, Lifecycle>, pen0: Map<u32, Lifecycle>, pen: Map<u32, Lifecycle>, q: Seq<DltMessage>, q2: Seq<DltMessage>, marks: Seq<u32>)
    requires
        pos_inv(pos, m0), same_ids(l1, list_at(m0, e)), l1.len() >= 2,
        known_ok(pos, buffered, vis), tab_ok(vis, pos), tab_ok(pen0, pos), queued_ok(pos, q), wdom_ok(pos, vis, pen0), nb_ok(buffered, pen0),
        // the merged lifecycle is not (or no longer) in the writer's state of the table
        pen == pen0 || pen == pen0.remove(l1.last().id),
        !pen.dom().contains(l1.last().id), // O:table.no_merged_lifecycle (a merged lifecycle is not listed in the table)
        q2.len() == q.len(), forall|i: int| 0 <= i < q.len() ==> #[trigger] q2[i] == relabel(q[i], l1.last().id, l1[l1.len() - 2].id),
    ensures ({
        let pos1 = pos.remove(l1.last().id);
        pos_inv(pos1, m0.insert(e, l1.drop_last())) && known_ok(pos1, buffered.remove(l1.last().id), vis) && tab_ok(vis, pos1) && tab_ok(pen, pos1) && queued_ok(pos1, q2)
            && pos1.dom().contains(l1[l1.len() - 2].id) && pos1[l1[l1.len() - 2].id].0 == e
            && wdom_ok(pos1, vis, pen) && nb_ok(buffered.remove(l1.last().id), pen)
    }),
{
    reveal(wdom_ok); reveal(nb_ok);
    let from = l1.last().id;
    let to = l1[l1.len() - 2].id;
    let pos1 = pos.remove(from);
    let m1 = m0.insert(e, l1);
    lemma_pos_same_ids(pos, m0, e, l1);
    lemma_pos_at(pos, m1, e, l1.len() - 1);
    lemma_pos_at(pos, m1, e, l1.len() - 2);
    assert(from != to);
    lemma_pos_drop_last(pos, m1, e);
    assert(m1.insert(e, l1.drop_last()) =~= m0.insert(e, l1.drop_last()));
    reveal(known_ok); reveal(tab_ok);
    assert forall|i: int| 0 <= i < q2.len() implies pos1.dom().contains((#[trigger] q2[i]).lifecycle) && pos1[q2[i].lifecycle].0 == q2[i].ecu by {
        assert(q2[i] == relabel(q[i], from, to));
        assert(pos.dom().contains(q[i].lifecycle) && pos[q[i].lifecycle].0 == q[i].ecu);
    }
}
// ---- deliveries ----
// nothing is buffered: every queued message and the current message can be delivered
pub proof fn lemma_all_sendable(pos: Pos, buffered: Set<u32>, vis: Map<u32, Lifecycle>, q: Seq<DltMessage>)
    requires known_ok(pos, buffered, vis), tab_ok(vis, pos), queued_ok(pos, q), forall|x: u32| !buffered.contains(x),
    ensures forall|i: int| 0 <= i < q.len() ==> sendable(vis, #[trigger] q[i]),
{ reveal(known_ok); reveal(tab_ok); }
pub proof fn lemma_one_sendable(pos: Pos, buffered: Set<u32>, vis: Map<u32, Lifecycle>, m: DltMessage)
    requires known_ok(pos, buffered, vis), tab_ok(vis, pos), located(pos, m), !buffered.contains(m.lifecycle),
    ensures sendable(vis, m),
{ reveal(known_ok); reveal(tab_ok); }
// every queued message whose lifecycle is not buffered can be delivered
pub proof fn lemma_unbuffered_sendable(pos: Pos, buffered: Set<u32>, vis: Map<u32, Lifecycle>, q: Seq<DltMessage>)
    requires known_ok(pos, buffered, vis), tab_ok(vis, pos), queued_ok(pos, q),
    ensures forall|i: int| 0 <= i < q.len() && !buffered.contains((#[trigger] q[i]).lifecycle) ==> sendable(vis, q[i]),
{ reveal(known_ok); reveal(tab_ok); }
// every queued message of the (visible) lifecycle `pid`, or of a lifecycle that is not buffered, can be delivered
pub proof fn lemma_prune_sendable(pos: Pos, buffered: Set<u32>, vis: Map<u32, Lifecycle>, q: Seq<DltMessage>, pid: u32)
    requires known_ok(pos, buffered, vis), tab_ok(vis, pos), queued_ok(pos, q), vis.dom().contains(pid),
    ensures forall|i: int| 0 <= i < q.len() && ((#[trigger] q[i]).lifecycle == pid || !buffered.contains(q[i].lifecycle)) ==> sendable(vis, q[i]),
{ reveal(known_ok); reveal(tab_ok); }
// a lifecycle of the map is confirmed: it leaves the set of buffered lifecycles, is written to the table, the table is refreshed
pub proof fn lemma_confirm(pos: Pos, m: Map<DltChar4, Seq<Lifecycle>>, e: DltChar4, j: int, item: Lifecycle, buffered: Set<u32>, vis: Map<u32, Lifecycle>, pen: Map<u32, Lifecycle>, marks: Seq<u32>)
    requires
        pos_inv(pos, m), map_ok(m), m.dom().contains(e), 0 <= j < m[e].len(), item.ecu == m[e][j].ecu,
        known_ok(pos, buffered, vis), tab_ok(vis, pos), tab_ok(pen, pos), wdom_ok(pos, vis, pen), nb_ok(buffered, pen),
    ensures ({
        let id = m[e][j].id;
        let pen1 = pen.insert(id, item);
        known_ok(pos, buffered.remove(id), pen1) && tab_ok(pen1, pos) && pen1.dom().contains(id) && wdom_ok(pos, pen1, pen1) && nb_ok(buffered.remove(id), pen1)
    }),
{
    lemma_pos_at(pos, m, e, j);
    reveal(known_ok); reveal(tab_ok); reveal(wdom_ok); reveal(nb_ok);
    assert(lc_ok(e, m[e][j]));
}
// a lifecycle of the map is written to the table (no refresh yet)
pub proof fn lemma_publish(pos: Pos, m: Map<DltChar4, Seq<Lifecycle>>, e: DltChar4, j: int, item: Lifecycle, vis: Map<u32, Lifecycle>, pen: Map<u32, Lifecycle>)
    requires pos_inv(pos, m), map_ok(m), m.dom().contains(e), 0 <= j < m[e].len(), item.ecu == m[e][j].ecu, tab_ok(pen, pos), wdom_ok(pos, vis, pen),
    ensures tab_ok(pen.insert(m[e][j].id, item), pos), wdom_ok(pos, vis, pen.insert(m[e][j].id, item)),
{
    lemma_pos_at(pos, m, e, j);
    reveal(tab_ok); reveal(wdom_ok);
    assert(lc_ok(e, m[e][j]));
}
// refresh: the writer's state becomes visible
pub proof fn lemma_refresh(pos: Pos, buffered: Set<u32>, vis: Map<u32, Lifecycle>, pen: Map<u32, Lifecycle>)
    requires known_ok(pos, buffered, vis), tab_ok(pen, pos), wdom_ok(pos, vis, pen),
    ensures known_ok(pos, buffered, pen), wdom_ok(pos, pen, pen),
{ reveal(known_ok); reveal(wdom_ok); }
pub proof fn lemma_wdom_refresh(pos: Pos, vis: Map<u32, Lifecycle>, pen: Map<u32, Lifecycle>)
    requires wdom_ok(pos, vis, pen),
    ensures wdom_ok(pos, pen, pen), forall|id: u32| #[trigger] vis.dom().contains(id) && pos.dom().contains(id) ==> pen.dom().contains(id),
{ reveal(wdom_ok); }
pub proof fn lemma_known_weaken(pos: Pos, b1: Set<u32>, b2: Set<u32>, vis: Map<u32, Lifecycle>)
    requires known_ok(pos, b1, vis), forall|x: u32| b1.contains(x) ==> b2.contains(x),
    ensures known_ok(pos, b2, vis),
{ reveal(known_ok); }
pub proof fn lemma_known_monotone(pos: Pos, buffered: Set<u32>, vis: Map<u32, Lifecycle>, vis2: Map<u32, Lifecycle>)
    requires known_ok(pos, buffered, vis), forall|id: u32| #[trigger] vis.dom().contains(id) && pos.dom().contains(id) ==> vis2.dom().contains(id),
    ensures known_ok(pos, buffered, vis2),
{ reveal(known_ok); }

// ---- the final publication (`for vs in ecu_map.values() { .. for lc in vs.iter().rev() { .. } }` with the early exit once as many
// lifecycles were written as there are buffered ones): every buffered lifecycle of the map is written to the table ----
// a table item that is the current state of a lifecycle (everything but the refresh index)
pub open spec fn item_of(lc: Lifecycle, it: Lifecycle) -> bool {
    it.id == lc.id && it.ecu == lc.ecu && it.nr_msgs == lc.nr_msgs && it.nr_control_req_msgs == lc.nr_control_req_msgs && it.start_time == lc.start_time
        && it.initial_start_time == lc.initial_start_time && it.min_timestamp_us == lc.min_timestamp_us && it.max_timestamp_us == lc.max_timestamp_us
        && it.last_reception_time == lc.last_reception_time && it.resume_lc == lc.resume_lc && it.sw_version == lc.sw_version
}
pub open spec fn lc_at(pos: Pos, m: Map<DltChar4, Seq<Lifecycle>>, id: u32) -> Lifecycle { m[pos[id].0][pos[id].1] }
// every lifecycle found so far is in the writer's state with its current state
#[verifier::opaque]
pub open spec fn found_fresh(pos: Pos, m: Map<DltChar4, Seq<Lifecycle>>, found: Set<u32>, pen: Map<u32, Lifecycle>) -> bool {
    forall|id: u32| #[trigger] found.contains(id) ==> pos.dom().contains(id) && pen.dom().contains(id) && item_of(lc_at(pos, m, id), pen[id])
}
pub proof fn lemma_found_fresh_init(pos: Pos, m: Map<DltChar4, Seq<Lifecycle>>, pen: Map<u32, Lifecycle>)
    ensures found_fresh(pos, m, Set::<u32>::empty(), pen),
{ reveal(found_fresh); }
pub proof fn lemma_found_fresh_insert(pos: Pos, m: Map<DltChar4, Seq<Lifecycle>>, e: DltChar4, j: int, found: Set<u32>, pen: Map<u32, Lifecycle>, item: Lifecycle)
    requires pos_inv(pos, m), m.dom().contains(e), 0 <= j < m[e].len(), found_fresh(pos, m, found, pen), !found.contains(m[e][j].id), item_of(m[e][j], item),
    ensures found_fresh(pos, m, found.insert(m[e][j].id), pen.insert(m[e][j].id, item)),
{
    reveal(found_fresh);
    lemma_pos_at(pos, m, e, j);
}
// all of them: every lifecycle of the map in `bset` is in the writer's state with its current state
#[verifier::opaque]
pub open spec fn all_fresh(pos: Pos, m: Map<DltChar4, Seq<Lifecycle>>, bset: Set<u32>, pen: Map<u32, Lifecycle>) -> bool {
    forall|id: u32| #[trigger] pos.dom().contains(id) && bset.contains(id) ==> pen.dom().contains(id) && item_of(lc_at(pos, m, id), pen[id])
}
pub proof fn lemma_all_fresh_empty(pos: Pos, m: Map<DltChar4, Seq<Lifecycle>>, bset: Set<u32>, pen: Map<u32, Lifecycle>)
    requires forall|x: u32| !bset.contains(x),
    ensures all_fresh(pos, m, bset, pen),
{ reveal(all_fresh); }
pub proof fn lemma_all_fresh(pos: Pos, mp: &VxEcuMap, bset: Set<u32>, found: Set<u32>, pen: Map<u32, Lifecycle>, nr: int, vi: int)
    requires
        pos_inv(pos, mp.m()), keys_ok(mp), pub_cnt(pos, bset, found, pen, nr), found_fresh(pos, mp.m(), found, pen),
        nr == 0 || (vi == mp.keys().len() && pub_done_keys(pos, mp, bset, found, vi)),
    ensures all_fresh(pos, mp.m(), bset, pen),
{
    reveal(pub_cnt); reveal(all_fresh); reveal(pub_done_keys); reveal(pos_inv); reveal(found_fresh);
    if nr == 0 {
        vstd::set_lib::lemma_subset_equality(found, bset);
    }
}
pub proof fn lemma_not_found(pos: Pos, mp: &VxEcuMap, bset: Set<u32>, found: Set<u32>, vi: int, lj: int)
    requires pos_inv(pos, mp.m()), keys_ok(mp), 1 <= vi <= mp.keys().len(), 0 <= lj < mp.m()[mp.keys()[vi - 1]].len(), pub_cur(pos, mp, bset, found, vi, lj + 1),
    ensures !found.contains(mp.m()[mp.keys()[vi - 1]][lj].id),
{
    reveal(pub_cur);
    let id = mp.m()[mp.keys()[vi - 1]][lj].id;
    lemma_pos_at(pos, mp.m(), mp.keys()[vi - 1], lj);
    if found.contains(id) { assert(visited(mp, pos[id], vi, lj + 1)); }
}
pub open spec fn visited(mp: &VxEcuMap, p: (DltChar4, int), vi: int, lj: int) -> bool { 0 <= mp.kidx(p.0) < vi - 1 || (mp.kidx(p.0) == vi - 1 && p.1 >= lj) }
#[verifier::opaque]
pub open spec fn pub_cnt(pos: Pos, bset: Set<u32>, found: Set<u32>, pen: Map<u32, Lifecycle>, nr: int) -> bool {
    &&& found.subset_of(bset)
    &&& forall|id: u32| #[trigger] found.contains(id) ==> pen.dom().contains(id) && pos.dom().contains(id)
    &&& nr + found.len() == bset.len() && nr >= 0
}
// the cursor is at lifecycle lj of key vi-1 (counting down): exactly the buffered lifecycles before the cursor were found
#[verifier::opaque]
pub open spec fn pub_cur(pos: Pos, mp: &VxEcuMap, bset: Set<u32>, found: Set<u32>, vi: int, lj: int) -> bool {
    &&& forall|id: u32| #[trigger] pos.dom().contains(id) && bset.contains(id) && visited(mp, pos[id], vi, lj) ==> found.contains(id)
    &&& forall|id: u32| #[trigger] found.contains(id) ==> visited(mp, pos[id], vi, lj)
}
// all keys with an index below vi were visited completely
#[verifier::opaque]
pub open spec fn pub_done_keys(pos: Pos, mp: &VxEcuMap, bset: Set<u32>, found: Set<u32>, vi: int) -> bool {
    &&& forall|id: u32| #[trigger] pos.dom().contains(id) && bset.contains(id) && 0 <= mp.kidx(pos[id].0) < vi ==> found.contains(id)
    &&& forall|id: u32| #[trigger] found.contains(id) ==> 0 <= mp.kidx(pos[id].0) < vi
}
#[verifier::opaque]
pub open spec fn all_pending(pos: Pos, bset: Set<u32>, pen: Map<u32, Lifecycle>) -> bool {
    forall|id: u32| #[trigger] pos.dom().contains(id) && bset.contains(id) ==> pen.dom().contains(id)
}
pub open spec fn keys_ok(mp: &VxEcuMap) -> bool {
    &&& forall|e: DltChar4| #[trigger] mp.m().dom().contains(e) ==> 0 <= mp.kidx(e) < mp.keys().len() && mp.keys()[mp.kidx(e)] == e
    &&& forall|a: int| 0 <= a < mp.keys().len() ==> mp.m().dom().contains(#[trigger] mp.keys()[a]) && mp.kidx(mp.keys()[a]) == a
}
pub proof fn lemma_pub_init(pos: Pos, mp: &VxEcuMap, bset: Set<u32>, pen: Map<u32, Lifecycle>)
    ensures pub_cnt(pos, bset, Set::<u32>::empty(), pen, bset.len() as int), pub_done_keys(pos, mp, bset, Set::<u32>::empty(), 0),
{
    reveal(pub_cnt); reveal(pub_done_keys);
}
pub proof fn lemma_pub_enter(pos: Pos, mp: &VxEcuMap, bset: Set<u32>, found: Set<u32>, vi: int)
    requires pos_inv(pos, mp.m()), keys_ok(mp), 1 <= vi <= mp.keys().len(), pub_done_keys(pos, mp, bset, found, vi - 1),
    ensures pub_cur(pos, mp, bset, found, vi, mp.m()[mp.keys()[vi - 1]].len() as int),
{
    reveal(pub_cur); reveal(pub_done_keys); reveal(pos_inv);
    let len = mp.m()[mp.keys()[vi - 1]].len() as int;
    assert forall|id: u32| #[trigger] pos.dom().contains(id) && bset.contains(id) && visited(mp, pos[id], vi, len) implies found.contains(id) by {
        if mp.kidx(pos[id].0) == vi - 1 { assert(mp.keys()[mp.kidx(pos[id].0)] == pos[id].0); }
    }
}
pub proof fn lemma_pub_leave(pos: Pos, mp: &VxEcuMap, bset: Set<u32>, found: Set<u32>, vi: int)
    requires pos_inv(pos, mp.m()), pub_cur(pos, mp, bset, found, vi, 0), 1 <= vi,
    ensures pub_done_keys(pos, mp, bset, found, vi),
{
    reveal(pub_cur); reveal(pub_done_keys); reveal(pos_inv);
}
// the lifecycle at the cursor is not buffered: the cursor moves on
pub proof fn lemma_pub_skip(pos: Pos, mp: &VxEcuMap, bset: Set<u32>, found: Set<u32>, vi: int, lj: int)
    requires
        pos_inv(pos, mp.m()), keys_ok(mp), 1 <= vi <= mp.keys().len(), 0 <= lj < mp.m()[mp.keys()[vi - 1]].len(),
        pub_cur(pos, mp, bset, found, vi, lj + 1), !bset.contains(mp.m()[mp.keys()[vi - 1]][lj].id),
    ensures pub_cur(pos, mp, bset, found, vi, lj),
{
    reveal(pub_cur); reveal(pos_inv);
    let e = mp.keys()[vi - 1];
    assert forall|id: u32| #[trigger] pos.dom().contains(id) && bset.contains(id) && visited(mp, pos[id], vi, lj) implies found.contains(id) by {
        if mp.kidx(pos[id].0) == vi - 1 && pos[id].1 == lj { assert(mp.keys()[mp.kidx(pos[id].0)] == pos[id].0); assert(mp.m()[e][lj].id == id); }
    }
}
// the lifecycle at the cursor is buffered: it is written to the table and counted
pub proof fn lemma_pub_found(pos: Pos, mp: &VxEcuMap, bset: Set<u32>, found: Set<u32>, pen: Map<u32, Lifecycle>, item: Lifecycle, nr: int, vi: int, lj: int)
    requires
        pos_inv(pos, mp.m()), keys_ok(mp), 1 <= vi <= mp.keys().len(), 0 <= lj < mp.m()[mp.keys()[vi - 1]].len(),
        pub_cur(pos, mp, bset, found, vi, lj + 1), pub_cnt(pos, bset, found, pen, nr), bset.contains(mp.m()[mp.keys()[vi - 1]][lj].id),
    ensures ({
        let id = mp.m()[mp.keys()[vi - 1]][lj].id;
        pub_cur(pos, mp, bset, found.insert(id), vi, lj) && pub_cnt(pos, bset, found.insert(id), pen.insert(id, item), nr - 1) && nr >= 1
    }),
{
    reveal(pub_cur); reveal(pub_cnt);
    let e = mp.keys()[vi - 1];
    let id = mp.m()[e][lj].id;
    lemma_pos_at(pos, mp.m(), e, lj);
    assert(!found.contains(id)) by { if found.contains(id) { assert(visited(mp, pos[id], vi, lj + 1)); } }
    vstd::set_lib::lemma_len_subset(found.insert(id), bset);
    reveal(pos_inv);
    assert forall|id2: u32| #[trigger] pos.dom().contains(id2) && bset.contains(id2) && visited(mp, pos[id2], vi, lj) implies found.insert(id).contains(id2) by {
        if mp.kidx(pos[id2].0) == vi - 1 && pos[id2].1 == lj { assert(mp.keys()[mp.kidx(pos[id2].0)] == pos[id2].0); assert(mp.m()[e][lj].id == id2); }
    }
}
pub proof fn lemma_pub_all(pos: Pos, mp: &VxEcuMap, bset: Set<u32>, found: Set<u32>, pen: Map<u32, Lifecycle>, nr: int, vi: int)
    requires
        pos_inv(pos, mp.m()), keys_ok(mp), pub_cnt(pos, bset, found, pen, nr),
        nr == 0 || (vi == mp.keys().len() && pub_done_keys(pos, mp, bset, found, vi)),
    ensures all_pending(pos, bset, pen),
{
    reveal(pub_cnt); reveal(all_pending); reveal(pub_done_keys); reveal(pos_inv);
    if nr == 0 {
        vstd::set_lib::lemma_subset_equality(found, bset);
    }
}
// after the final refresh every lifecycle of the map is visible, and nothing else is
pub proof fn lemma_final_refresh(pos: Pos, buffered: Set<u32>, vis: Map<u32, Lifecycle>, pen: Map<u32, Lifecycle>, q: Seq<DltMessage>)
    requires known_ok(pos, buffered, vis), tab_ok(pen, pos), all_pending(pos, buffered, pen), queued_ok(pos, q), wdom_ok(pos, vis, pen),
    ensures
        known_ok(pos, Set::<u32>::empty(), pen), wdom_ok(pos, pen, pen),
        forall|i: int| 0 <= i < q.len() ==> sendable(pen, #[trigger] q[i]),
        forall|id: u32| #[trigger] pen.dom().contains(id) <==> pos.dom().contains(id),
{
    reveal(known_ok); reveal(tab_ok); reveal(all_pending); reveal(wdom_ok);
}

pub proof fn lemma_total_2(r: Seq<Lifecycle>, a: Lifecycle, b: Lifecycle)
    ensures seq_total(r.push(a).push(b)) == seq_total(r) + a.nr_msgs + b.nr_msgs,
{ lemma_total_push(r, a); lemma_total_push(r.push(a), b); }
pub proof fn lemma_list_ok_push(e: DltChar4, s: Seq<Lifecycle>, x: Lifecycle)
    requires list_ok(e, s), lc_ok(e, x),
    ensures list_ok(e, s.push(x)),
{
    assert forall|i: int| 0 <= i < s.push(x).len() implies lc_ok(e, #[trigger] s.push(x)[i]) by { if i < s.len() { assert(s.push(x)[i] == s[i]); } }
}
pub proof fn lemma_list_ok_drop(e: DltChar4, s: Seq<Lifecycle>)
    requires list_ok(e, s), s.len() > 0,
    ensures list_ok(e, s.drop_last()), lc_ok(e, s.last()),
{
    assert forall|i: int| 0 <= i < s.drop_last().len() implies lc_ok(e, #[trigger] s.drop_last()[i]) by { assert(s.drop_last()[i] == s[i]); }
}
pub proof fn lemma_fwd_relabel(log: Seq<DltMessage>, q: Seq<DltMessage>, q2: Seq<DltMessage>, log0: Seq<DltMessage>, rcv: Seq<DltMessage>, from: u32, to: u32)
    requires
        fwd_ok(log + q, log0, rcv), to != 0, log.len() >= log0.len(), q2.len() == q.len(),
        forall|i: int| 0 <= i < q.len() ==> #[trigger] q2[i] == relabel(q[i], from, to),
    ensures fwd_ok(log + q2, log0, rcv),
{
    let a = log + q;
    let b = log + q2;
    assert forall|i: int| 0 <= i < log0.len() implies #[trigger] b[i] == log0[i] by { assert(b[i] == a[i]); }
    assert forall|j: int| 0 <= j < rcv.len() implies (#[trigger] b[log0.len() + j]).same_but_lifecycle(&rcv[j]) && b[log0.len() + j].lifecycle != 0 by {
        let x = log0.len() + j;
        assert(a[x].same_but_lifecycle(&rcv[j]) && a[x].lifecycle != 0);
        if x < log.len() { assert(b[x] == a[x]); } else { assert(b[x] == q2[x - log.len()]); assert(a[x] == q[x - log.len()]); }
    }
}
pub proof fn lemma_fwd_push(all: Seq<DltMessage>, log0: Seq<DltMessage>, rcv: Seq<DltMessage>, m: DltMessage, m_in: DltMessage)
    requires fwd_ok(all, log0, rcv), m.same_but_lifecycle(&m_in), m.lifecycle != 0,
    ensures fwd_ok(all.push(m), log0, rcv.push(m_in)),
{
    let b = all.push(m);
    let r2 = rcv.push(m_in);
    assert forall|i: int| 0 <= i < log0.len() implies #[trigger] b[i] == log0[i] by { assert(b[i] == all[i]); }
    assert forall|j: int| 0 <= j < r2.len() implies (#[trigger] b[log0.len() + j]).same_but_lifecycle(&r2[j]) && b[log0.len() + j].lifecycle != 0 by {
        if j < rcv.len() { assert(b[log0.len() + j] == all[log0.len() + j]); assert(r2[j] == rcv[j]); }
    }
}

// `if let Some(lci) = lcs_w.read() { for (_id, b) in &lci { .. } }`: the map is pre-populated from the visible table (evmap
// iteration, not modelled). ASSUMED: the visible entries are well-formed lifecycles with pairwise distinct ids; each is stored
// under its own ECU.
#[verifier::external_body]
pub fn vx_prepopulate<T: VLcTab>(mp: &mut VxEcuMap, t: &T) -> (pos: Ghost<Pos>)
    requires old(mp).m() == Map::<DltChar4, Seq<Lifecycle>>::empty(),
    ensures map_ok(final(mp).m()), final(mp).total() == t.visible_msgs(), pos_inv(pos@, final(mp).m()), tab_ok(t.visible(), pos@),
        forall|id: u32| #[trigger] pos@.dom().contains(id) <==> t.visible().dom().contains(id),
        ids_nz(pos@),
{ unimplemented!() }
// `last_lcw_refresh_index += 1` (a u32 counter of table refreshes): ASSUMED not to overflow (fewer than 2^32 refreshes)
#[verifier::external_body]
pub fn vx_bump(x: &mut u32)
{ unimplemented!() }
// (stated for every T; only used at T = u32, whose == is structural)
pub assume_specification<T: std::cmp::PartialEq> [<[T]>::contains] (s: &[T], x: &T) -> (r: bool)
    ensures r == s@.contains(*x);
// Lifecycle: Clone (derived): ASSUMED structural
#[verifier::external_body]
pub fn vx_clone_lc(lc: &Lifecycle) -> (r: Lifecycle)
    ensures r == *lc,
{ unimplemented!() }
//@ extract src/lifecycle/mod.rs fn new_lifecycle_item
//@   sub R11 `lc.clone()` => `vx_clone_lc(lc)`
//@   sub R12 `-> LifecycleItem` => `-> Lifecycle`
//@   spec
//@|    ensures item_of(*lc, r), // O:publish.item (the published item is the lifecycle as it is now: id, ECU, counts, times; only the refresh index differs)
//@ end
// the two helper closures of the function, presented as functions (R18); the captured `last_regular_refresh_index` becomes a parameter
//@ extract src/lifecycle/mod.rs closure fn parse_lifecycles_buffered_from_stream#1
//@   sig pub fn vx_mark_lc_id_to_refresh(id: LifecycleId, lcs_to_refresh: &mut Vec<LifecycleId>)
//@   spec
//@|    ensures
//@|        forall|x: u32| final(lcs_to_refresh)@.contains(x) ==> old(lcs_to_refresh)@.contains(x) || x == id, // O:table.mark.frame (only this id is marked)
//@|        final(lcs_to_refresh)@.contains(id) && forall|x: u32| old(lcs_to_refresh)@.contains(x) ==> final(lcs_to_refresh)@.contains(x), // O:table.mark.marked (the id is marked; no mark is lost)
//@|        old(lcs_to_refresh)@.no_duplicates() ==> final(lcs_to_refresh)@.no_duplicates(), // O:table.mark.once (an id is marked at most once)
//@   hint start
//@|    let ghost v0 = lcs_to_refresh@;
//@   hint before `^}`
//@|    proof {
//@|        assert forall|x: u32| lcs_to_refresh@.contains(x) implies v0.contains(x) || x == id by { if lcs_to_refresh@ != v0 { let i = choose|i: int| 0 <= i < lcs_to_refresh@.len() && lcs_to_refresh@[i] == x; if i < v0.len() { assert(v0[i] == x); } } }
//@|        if lcs_to_refresh@ != v0 {
//@|            assert(lcs_to_refresh@ == v0.push(id));
//@|            assert(lcs_to_refresh@[v0.len() as int] == id);
//@|            assert forall|x: u32| v0.contains(x) implies lcs_to_refresh@.contains(x) by { let i = choose|i: int| 0 <= i < v0.len() && v0[i] == x; assert(lcs_to_refresh@[i] == x); }
//@|        }
//@|    }
//@ end
//@ extract src/lifecycle/mod.rs closure fn parse_lifecycles_buffered_from_stream#2
//@   sig #[verifier::loop_isolation(false)] #[verifier::allow_complex_invariants] pub fn vx_check_regular_refresh<T: VLcTab>(pos: Ghost<Pos>, last_regular_refresh_index: &mut u32, last_msg_index: u32, force_refresh: bool, lcs_to_refresh: &mut Vec<LifecycleId>, lcs_w: &mut T, ecu_map: &VxEcuMap, last_lcw_refresh_index: &mut u32)
//@   sub R18 `last_regular_refresh_index + 100_000 < last_msg_index` => `*last_regular_refresh_index + 100_000 < last_msg_index`
//@   sub R18 `last_regular_refresh_index = last_msg_index;` => `*last_regular_refresh_index = last_msg_index;`
//@   sub R13 `for vs in ecu_map.values() {` => `let vx_nv = ecu_map.vx_nr_values(); let mut vx_vi: usize = 0; while vx_vi < vx_nv { let vs = ecu_map.vx_value_at(vx_vi); vx_vi += 1;`
//@   sub R13 `for lc in vs.iter().rev() {` => `let mut vx_lj: usize = vs.len(); while vx_lj > 0 { vx_lj -= 1; let lc = &vs[vx_lj];`
//@   sub R12 `lcs_w.update(` => `lcs_w.vx_update(` *
//@   sub R11 `*last_lcw_refresh_index += 1;` => `vx_bump(last_lcw_refresh_index);`
//@   spec
//@|    requires
//@|        *old(last_regular_refresh_index) <= u32::MAX - 100_000 && last_msg_index <= u32::MAX - 100_000, // fewer than 2^32 - 100000 messages
//@|        map_ok(ecu_map.m()), pos_inv(pos@, ecu_map.m()), tab_ok(old(lcs_w).visible(), pos@), tab_ok(old(lcs_w).wview(), pos@), wdom_ok(pos@, old(lcs_w).visible(), old(lcs_w).wview()),
//@|        old(lcs_to_refresh)@.no_duplicates(),
//@|    ensures
//@|        // rule #2: when the table is refreshed (forced, or more than 100000 message indices since the last regular refresh), every marked
//@|        // lifecycle of the map is written with its current state before, and the marks are cleared; otherwise nothing happens
//@|        (force_refresh || *old(last_regular_refresh_index) + 100_000 < last_msg_index) ==>
//@|            all_fresh(pos@, ecu_map.m(), old(lcs_to_refresh)@.to_set(), final(lcs_w).visible()) && final(lcs_to_refresh)@.len() == 0 && final(lcs_w).visible() == final(lcs_w).wview(), // O:table.refresh.all_marked
//@|        !(force_refresh || *old(last_regular_refresh_index) + 100_000 < last_msg_index) ==>
//@|            final(lcs_w).visible() == old(lcs_w).visible() && final(lcs_w).wview() == old(lcs_w).wview() && final(lcs_to_refresh)@ == old(lcs_to_refresh)@, // O:table.refresh.else_nothing
//@|        tab_ok(final(lcs_w).visible(), pos@), tab_ok(final(lcs_w).wview(), pos@), // O:publish.refresh.ecu
//@|        forall|id: u32| #[trigger] old(lcs_w).visible().dom().contains(id) && pos@.dom().contains(id) ==> final(lcs_w).visible().dom().contains(id), // O:publish.refresh.monotone (no lifecycle of the map that was visible disappears)
//@|        wdom_ok(pos@, final(lcs_w).visible(), final(lcs_w).wview()), // O:table.refresh.dom
//@|        // only marked lifecycles are written; marks are only removed
//@|        forall|id: u32| #[trigger] final(lcs_w).wview().dom().contains(id) ==> old(lcs_w).wview().dom().contains(id) || old(lcs_to_refresh)@.contains(id), // O:table.refresh.only_marked
//@|        forall|x: u32| final(lcs_to_refresh)@.contains(x) ==> old(lcs_to_refresh)@.contains(x),
//@|        *final(last_regular_refresh_index) <= u32::MAX - 100_000,
//@   hint after `let mut nr_lcs_to_update =`
//@|    let ghost bset = lcs_to_refresh@.to_set();
//@|    let ghost mut found: Set<u32> = Set::empty();
//@|    proof {
//@|        lcs_to_refresh@.unique_seq_to_set();
//@|        lemma_pub_init(pos@, ecu_map, bset, lcs_w.wview());
//@|        lemma_found_fresh_init(pos@, ecu_map.m(), lcs_w.wview());
//@|    }
//@   hint before `let mut vx_lj: usize = vs.len();`
//@|    proof {
//@|        lemma_pub_enter(pos@, ecu_map, bset, found, vx_vi as int);
//@|        if vs.len() == 0 { lemma_pub_leave(pos@, ecu_map, bset, found, vx_vi as int); }
//@|    }
//@   hint before `if lcs_to_refresh.contains(&lc.id) {`
//@|    let ghost pen_c = lcs_w.wview();
//@|    proof {
//@|        assert(ecu_map.m()[ecu_map.keys()[vx_vi - 1]][vx_lj as int] == *lc);
//@|        if !bset.contains(lc.id) {
//@|            lemma_pub_skip(pos@, ecu_map, bset, found, vx_vi as int, vx_lj as int);
//@|            if vx_lj == 0 { lemma_pub_leave(pos@, ecu_map, bset, found, vx_vi as int); }
//@|        }
//@|    }
//@   hint after `lcs_w.vx_update(lc.id`
//@|    proof {
//@|        let e = ecu_map.keys()[vx_vi - 1];
//@|        let item = lcs_w.wview()[lc.id];
//@|        assert(lcs_w.wview() =~= pen_c.insert(lc.id, item));
//@|        lemma_publish(pos@, ecu_map.m(), e, vx_lj as int, item, lcs_w.visible(), pen_c);
//@|        lemma_not_found(pos@, ecu_map, bset, found, vx_vi as int, vx_lj as int);
//@|        lemma_found_fresh_insert(pos@, ecu_map.m(), e, vx_lj as int, found, pen_c, item);
//@|        lemma_pub_found(pos@, ecu_map, bset, found, pen_c, item, nr_lcs_to_update as int, vx_vi as int, vx_lj as int);
//@|        found = found.insert(lc.id);
//@|        if vx_lj == 0 { lemma_pub_leave(pos@, ecu_map, bset, found, vx_vi as int); }
//@|    }
//@   hint before `lcs_w.refresh();`
//@|    proof {
//@|        lemma_wdom_refresh(pos@, lcs_w.visible(), lcs_w.wview());
//@|        lemma_all_fresh(pos@, ecu_map, bset, found, lcs_w.wview(), nr_lcs_to_update as int, vx_vi as int);
//@|    }
//@   loop inner `let mut vx_lj: usize = vs.len()`
//@|    invariant
//@|        vx_vi <= vx_nv, lcs_w.visible() == old(lcs_w).visible(), tab_ok(lcs_w.wview(), pos@), wdom_ok(pos@, lcs_w.visible(), lcs_w.wview()), lcs_to_refresh@ == old(lcs_to_refresh)@,
//@|        forall|id: u32| #[trigger] lcs_w.wview().dom().contains(id) ==> old(lcs_w).wview().dom().contains(id) || old(lcs_to_refresh)@.contains(id),
//@|        pub_cnt(pos@, bset, found, lcs_w.wview(), nr_lcs_to_update as int), // O:table.refresh.count (the counter is the number of marked lifecycles not yet written: the early exit at 0 loses none)
//@|        found_fresh(pos@, ecu_map.m(), found, lcs_w.wview()), // O:table.refresh.written_fresh
//@|        nr_lcs_to_update > 0 ==> pub_done_keys(pos@, ecu_map, bset, found, vx_vi as int),
//@|    ensures
//@|        nr_lcs_to_update == 0 || vx_vi == vx_nv,
//@|    decreases vx_nv - vx_vi,
//@   loop inner `nr_lcs_to_update -= 1`
//@|    invariant_except_break
//@|        nr_lcs_to_update > 0,
//@|        pub_cur(pos@, ecu_map, bset, found, vx_vi as int, vx_lj as int),
//@|        vx_lj == 0 ==> pub_done_keys(pos@, ecu_map, bset, found, vx_vi as int),
//@|    invariant
//@|        vx_lj <= vs.len(), lcs_w.visible() == old(lcs_w).visible(), tab_ok(lcs_w.wview(), pos@), wdom_ok(pos@, lcs_w.visible(), lcs_w.wview()), lcs_to_refresh@ == old(lcs_to_refresh)@,
//@|        forall|id: u32| #[trigger] lcs_w.wview().dom().contains(id) ==> old(lcs_w).wview().dom().contains(id) || old(lcs_to_refresh)@.contains(id),
//@|        1 <= vx_vi <= vx_nv, pub_cnt(pos@, bset, found, lcs_w.wview(), nr_lcs_to_update as int), found_fresh(pos@, ecu_map.m(), found, lcs_w.wview()),
//@|    ensures
//@|        nr_lcs_to_update > 0 ==> pub_done_keys(pos@, ecu_map, bset, found, vx_vi as int),
//@|    decreases vx_lj,
//@ end

//@ extract src/lifecycle/mod.rs fn parse_lifecycles_buffered_from_stream
//@   sub R19 `pub fn parse_lifecycles_buffered_from_stream` => `#[verifier::loop_isolation(false)] #[verifier::allow_complex_invariants] pub fn parse_lifecycles_buffered_from_stream`
//@   sub R12 `<M, S, F: Fn(DltMessage) -> SendMsgFnReturnType>` => `<T: VLcTab, I: VRecv, K: VLcSink>`
//@   sub R12 `mut lcs_w: evmap::WriteHandle<LifecycleId, LifecycleItem, M, S>,` => `mut lcs_w: T,`
//@   sub R12 `inflow: Receiver<DltMessage>` => `mut inflow: I`
//@   sub R12 `outflow: &F` => `outflow: &mut K`
//@   sub R12 `-> evmap::WriteHandle<LifecycleId, LifecycleItem, M, S>` => `-> T`
//@   sub R12 `where S: std::hash::BuildHasher + Clone, M: 'static + Clone,` => ``
//@   sub R11 `std::collections::HashMap::with_capacity_and_hasher(__)` => `VxEcuMap::vx_new()`
//@   sub R11 `if let Some(lci) = lcs_w.read() { __ }` => `let vx_pos0 = vx_prepopulate(&mut ecu_map, &lcs_w);`
//@   sub R11 `std::collections::VecDeque<DltMessage>` => `VxDeque`
//@   sub R11 `std::collections::VecDeque::with_capacity(10_000_000)` => `VxDeque::vx_new()`
//@   sub R11 `std::collections::HashSet::with_hasher(__)` => `VxIdSet::vx_new()`
//@   cut R11 `let mark_lc_id_to_refresh =`
//@   cut R11 `let mut check_regular_refresh =`
//@   sub R11 `mark_lc_id_to_refresh(` => `vx_mark_lc_id_to_refresh(` *
//@   sub R11 `check_regular_refresh(` => `vx_check_regular_refresh(Ghost(pos), &mut last_regular_refresh_index,` *
//@   sub R13 `for mut msg in inflow {` => `loop { let mut msg = match inflow.recv() { Ok(vx_m) => vx_m, Err(_) => break };`
//@   sub R11 `ecu_map.entry(msg.ecu).or_default()` => `ecu_map.vx_entry_or_default(msg.ecu)`
//@   sub R11 `ecu_lcs.as_mut_slice().split_last_mut().unwrap()` => `vx_split_last_mut(ecu_lcs)`
//@   sub R11 `rest_lcs.last_mut().unwrap()` => `vx_last_mut(rest_lcs)`
//@   sub R11 `buffered_msgs.iter_mut().for_each(__);` => `let vx_moved = vx_relabel_all(&mut buffered_msgs, lc2.id, prev_lc.id);` x2
//@   sub R11 `buffered_msgs .iter() .filter(|m| m.lifecycle == lc2.id) .count()` => `vx_count_lc(&buffered_msgs, lc2.id)`
//@   sub R13 `for ecu_lcs in ecu_map.values() {` => `let vx_nv = ecu_map.vx_nr_values(); let mut vx_vi: usize = 0; while vx_vi < vx_nv { let ecu_lcs = ecu_map.vx_value_at(vx_vi); vx_vi += 1;`
//@   sub R13 `for vs in ecu_map.values() {` => `let vx_nv = ecu_map.vx_nr_values(); let mut vx_vi: usize = 0; while vx_vi < vx_nv { let vs = ecu_map.vx_value_at(vx_vi); vx_vi += 1;`
//@   sub R13 `for lc in ecu_lcs.iter().rev() {` => `let mut vx_lj: usize = ecu_lcs.len(); while vx_lj > 0 { vx_lj -= 1; let lc = &ecu_lcs[vx_lj];`
//@   sub R13 `for lc in vs.iter().rev() {` => `let mut vx_lj: usize = vs.len(); while vx_lj > 0 { vx_lj -= 1; let lc = &vs[vx_lj];`
//@   sub R12 `lcs_w.update(` => `lcs_w.vx_update(` *
//@   sub R11 `last_lcw_refresh_index += 1;` => `vx_bump(&mut last_lcw_refresh_index);` *
//@   sub R8 `buffered_msgs[0].lifecycle` => `buffered_msgs.vx_first().lifecycle` *
//@   sub R13 `for m in buffered_msgs.into_iter() {` => `loop { let m = match buffered_msgs.pop_front() { Some(vx_m) => vx_m, None => break };`
//@   sub R4 `assert(buffered_lcs.contains(&lc2.id));` => `assert(buffered_lcs.ids().contains(lc2.id)); // O:stream.assert_buffered`
//@   sub R12 `outflow(msg)` => `outflow.send(msg, Ghost(lcs_w.visible()))` *
//@   sub R12 `outflow(m)` => `outflow.send(m, Ghost(lcs_w.visible()))` *
//@   spec
//@|    requires
//@|        forall|i: int| 0 <= i < inflow.rem().len() ==> msg_in_ok(#[trigger] inflow.rem()[i]),
//@|        lcs_w.visible_msgs() + inflow.rem().len() <= u32::MAX,
//@|        lcs_w.wview() == lcs_w.visible(), // nothing written to the handle is waiting for a refresh
//@|    ensures
//@|        // every received message is forwarded exactly once, in the order received, unchanged except for a non-zero lifecycle id
//@|        old(outflow).never_fails() ==> fwd_ok(final(outflow).log(), old(outflow).log(), inflow.rem()), // O:stream.forward
//@   hint after `let mut last_lcw_refresh_index: DltMessageIndexType = 1;`
//@|    let ghost ms0 = inflow.rem();
//@|    let ghost log0 = outflow.log();
//@|    let ghost nf = outflow.never_fails();
//@|    let ghost mut k: int = 0;
//@|    let ghost mut all_b: Seq<DltMessage> = Seq::empty();
//@|    let ghost mut l_fin: Seq<Lifecycle> = Seq::empty();
//@|    let ghost mut pos: Pos = vx_pos0@;
//@|    let ghost vmsgs0 = lcs_w.visible_msgs();
//@|    proof {
//@|        assert(outflow.log() + buffered_msgs.q() =~= log0); assert(ms0.take(0) =~= Seq::<DltMessage>::empty());
//@|        assert(known_ok(pos, buffered_lcs.ids(), lcs_w.visible())) by { reveal(known_ok); }
//@|        assert(wdom_ok(pos, lcs_w.visible(), lcs_w.wview())) by { reveal(wdom_ok); }
//@|        assert(nb_ok(buffered_lcs.ids(), lcs_w.wview())) by { reveal(nb_ok); }
//@|        lemma_queued_empty(pos);
//@|    }
//@   hint before `last_msg_index = msg.index;`
//@|    let ghost m_in = msg;
//@|    let ghost map0 = ecu_map.m();
//@|    let ghost tot0 = ecu_map.total();
//@|    let ghost pos0 = pos;
//@|    let ghost buf0 = buffered_lcs.ids();
//@|    let ghost w0 = lcs_w.wview();
//@|    proof {
//@|        assert(m_in == ms0[k]);
//@|        assert(ms0.skip(k).skip(1) =~= ms0.skip(k + 1));
//@|        assert(ms0.take(k + 1) =~= ms0.take(k).push(ms0[k]));
//@|        assert(msg_in_ok(ms0[k]));
//@|        k = k + 1;
//@|    }
//@|    let ghost l0 = if map0.dom().contains(m_in.ecu) { map0[m_in.ecu] } else { Seq::<Lifecycle>::empty() };
//@   hint after `let ecu_lcs_len = ecu_lcs.len();`
//@|    proof { assert(l0 == ecu_lcs@); assert(list_ok(m_in.ecu, l0)); if l0.len() > 0 { lemma_list_ok_drop(m_in.ecu, l0); assert(l0 =~= l0.drop_last().push(l0.last())); lemma_total_push(l0.drop_last(), l0.last()); } }
//@   hint after `let mut remove_last_lc = false;`
//@|    let ghost lc2_0 = *lc2;
//@|    let ghost rest0 = rest_lcs@;
//@|    let ghost mut g_lc2 = *lc2;
//@|    let ghost mut g_prev = *lc2;
//@|    let ghost mut g_new = *lc2;
//@|    let ghost mut arm: int = 0;
//@|    let ghost log_a = outflow.log();
//@|    let ghost q_a = buffered_msgs.q();
//@|    proof { assert(rest0 == l0.drop_last() && lc2_0 == l0.last()); assert(lc_ok(m_in.ecu, lc2_0)); assert(lc2_0.nr_msgs <= seq_total(l0)); }
//@   hint before `if ecu_lcs_len > 1 {`
//@|    proof { g_lc2 = *lc2; arm = 1; }
//@   hint after 1 `prev_lc.merge(lc2);`
//@|    proof { g_prev = *prev_lc; g_lc2 = *lc2; arm = 2; }
//@   hint after 2 `prev_lc.merge(lc2);`
//@|    proof { g_prev = *prev_lc; g_lc2 = *lc2; arm = 2; }
//@   hint before `let is_buffered = buffered_lcs.contains(&prev_lc.id)`
//@|    proof {
//@|        assert(lc2.start_time <= spec_end(prev_lc) && !spec_slightly(prev_lc, lc2.start_time as int)); // O:clean.merge_only_inside (a lifecycle is merged into its predecessor only when its start falls into the predecessor - not after its end, not into the slightly-overlapping window)
//@|        assert(rest0.len() > 0);
//@|        lemma_list_ok_drop(m_in.ecu, rest0);
//@|        assert(rest0 =~= rest0.drop_last().push(rest0.last()));
//@|        lemma_total_2(rest0.drop_last(), rest0.last(), lc2_0);
//@|        assert(l0 =~= rest0.drop_last().push(rest0.last()).push(lc2_0));
//@|    }
//@   hint before `buffered_lcs.insert(new_lc.id);`
//@|    proof { g_new = new_lc; g_lc2 = *lc2; arm = 3; }
//@   hint before `ecu_lcs.push(new_lc);`
//@|    proof { assert(buffered_lcs.ids().contains(g_new.id)); }
//@   hint before `if remove_last_lc {`
//@|    proof {
//@|        l_fin = ecu_lcs@;
//@|        assert(msg.same_but_lifecycle(&m_in) && msg.lifecycle != 0); // O:stream.assigned (the message is unchanged except for a non-zero lifecycle id)
//@|        assert(arm == 1 || arm == 2 || arm == 3);
//@|        assert(remove_last_lc <==> arm == 2);
//@|        let e = m_in.ecu;
//@|        assert(list_at(map0, e) == l0);
//@|        if arm == 1 {
//@|            assert(l_fin == rest0.push(g_lc2));
//@|            lemma_total_push(rest0, g_lc2);
//@|            lemma_list_ok_push(m_in.ecu, rest0, g_lc2);
//@|            assert(same_ids(l_fin, l0)) by { assert forall|i: int| 0 <= i < l_fin.len() implies (#[trigger] l_fin[i]).id == l0[i].id by { if i < rest0.len() { assert(l_fin[i] == rest0[i]); assert(l0[i] == rest0[i]); } } }
//@|            lemma_step_same(pos0, map0, e, l_fin);
//@|            assert(buffered_lcs.ids() == buf0);
//@|        } else if arm == 2 {
//@|            assert(l_fin == rest0.drop_last().push(g_prev).push(g_lc2));
//@|            assert(l_fin.drop_last() =~= rest0.drop_last().push(g_prev));
//@|            lemma_total_push(rest0.drop_last(), g_prev);
//@|            lemma_list_ok_push(m_in.ecu, rest0.drop_last(), g_prev);
//@|            assert(same_ids(l_fin, l0)) by { assert forall|i: int| 0 <= i < l_fin.len() implies (#[trigger] l_fin[i]).id == l0[i].id by { if i < l_fin.len() - 2 { assert(l_fin[i] == rest0.drop_last()[i]); assert(l0[i] == rest0.drop_last()[i]); } else if i == l_fin.len() - 2 { assert(l0[i] == rest0.last()); } } }
//@|            if buf0.contains(g_lc2.id) { lemma_nb_use(buf0, w0, g_lc2.id); }
//@|            assert(!lcs_w.wview().dom().contains(g_lc2.id)); // O:table.no_merged_lifecycle (a lifecycle that is merged into its predecessor is not, or no longer, listed in the table)
//@|            lemma_step_merge(pos0, map0, e, l_fin, buf0, lcs_w.visible(), w0, lcs_w.wview(), q_a, buffered_msgs.q(), lcs_to_refresh@);
//@|            pos = pos0.remove(g_lc2.id);
//@|            assert(buffered_lcs.ids() =~= buf0.remove(g_lc2.id));
//@|            if nf { lemma_fwd_relabel(log_a, q_a, buffered_msgs.q(), log0, ms0.take(k - 1), g_lc2.id, g_prev.id); }
//@|        } else {
//@|            assert(l_fin == rest0.push(g_lc2).push(g_new));
//@|            lemma_total_2(rest0, g_lc2, g_new);
//@|            lemma_list_ok_push(m_in.ecu, rest0, g_lc2);
//@|            lemma_list_ok_push(m_in.ecu, rest0.push(g_lc2), g_new);
//@|            let l1 = rest0.push(g_lc2);
//@|            assert(same_ids(l1, l0)) by { assert forall|i: int| 0 <= i < l1.len() implies (#[trigger] l1[i]).id == l0[i].id by { if i < rest0.len() { assert(l1[i] == rest0[i]); assert(l0[i] == rest0[i]); } } }
//@|            axiom_fresh_lc_id(g_new.id, pos0, lcs_w.wview(), lcs_w.visible(), lcs_to_refresh@);
//@|            lemma_step_new(pos0, map0, e, l1, g_new, buf0, lcs_w.visible(), lcs_w.wview(), buffered_msgs.q(), lcs_to_refresh@);
//@|            pos = pos0.insert(g_new.id, (e, l1.len() as int));
//@|            assert(buffered_lcs.ids() =~= buf0.insert(g_new.id));
//@|        }
//@|        assert(!remove_last_lc ==> list_ok(m_in.ecu, l_fin) && seq_total(l_fin) == seq_total(l0) + 1); // O:table.lcs.count
//@|        assert(remove_last_lc ==> l_fin.len() == ecu_lcs_len && list_ok(m_in.ecu, l_fin.drop_last()) && seq_total(l_fin.drop_last()) == seq_total(l0) + 1); // O:table.lcs.merge_count
//@|        assert(nf ==> fwd_ok(outflow.log() + buffered_msgs.q(), log0, ms0.take(k - 1))); // O:stream.relabel.fifo
//@|        assert(pos_inv(pos, map0.insert(e, if remove_last_lc { l_fin.drop_last() } else { l_fin }))); // O:publish.step.pos
//@|        assert(queued_ok(pos, buffered_msgs.q())); // O:publish.step.queued (every queued message's lifecycle is a lifecycle of its ECU in the map)
//@|        assert(known_ok(pos, buffered_lcs.ids(), lcs_w.visible())); // O:publish.step.known (every lifecycle in the map is buffered or visible)
//@|        assert(tab_ok(lcs_w.visible(), pos) && tab_ok(lcs_w.wview(), pos));
//@|        assert(wdom_ok(pos, lcs_w.visible(), lcs_w.wview())); // O:table.step.dom
//@|        assert(nb_ok(buffered_lcs.ids(), lcs_w.wview()) && marks_ok(buffered_lcs.ids(), lcs_to_refresh@));
//@|        assert(located(pos, msg)); // O:stream.assigned_ecu (the id denotes a lifecycle of the message's own ECU)
//@|        assert(ids_nz(pos));
//@|    }
//@   hint after `let _removed = ecu_lcs.remove(`
//@|    proof {
//@|        assert(ecu_lcs@ =~= l_fin.drop_last()); l_fin = ecu_lcs@; all_b = outflow.log() + buffered_msgs.q();
//@|        if buffered_lcs.ids() =~= Set::<u32>::empty() { lemma_all_sendable(pos, buffered_lcs.ids(), lcs_w.visible(), buffered_msgs.q()); }
//@|    }
//@   hint after `ecu_lcs.push(lc);`
//@|    proof {
//@|        assert(buffered_lcs.ids().contains(lc.id)); l_fin = ecu_lcs@; lemma_total_push(l0, lc); assert(l_fin == l0.push(lc)); lemma_list_ok_push(m_in.ecu, l0, lc);
//@|        assert(list_at(map0, m_in.ecu) == l0);
//@|        assert(same_ids(l0, l0));
//@|        axiom_fresh_lc_id(lc.id, pos0, lcs_w.wview(), lcs_w.visible(), lcs_to_refresh@);
//@|        lemma_step_new(pos0, map0, m_in.ecu, l0, lc, buf0, lcs_w.visible(), lcs_w.wview(), buffered_msgs.q(), lcs_to_refresh@);
//@|        pos = pos0.insert(lc.id, (m_in.ecu, 0int));
//@|        assert(buffered_lcs.ids() =~= buf0.insert(lc.id));
//@|        assert(located(pos, msg));
//@|    }
//@   hint before `if next_buffer_check_time < msg_reception_time_us {`
//@|    proof {
//@|        assert(ecu_map.m() == map0.insert(m_in.ecu, l_fin));
//@|        assert(list_ok(m_in.ecu, l_fin) && seq_total(l_fin) == seq_total(l0) + 1);
//@|        assert(map_ok(ecu_map.m())) by { assert forall|e: DltChar4| ecu_map.m().dom().contains(e) implies list_ok(e, #[trigger] ecu_map.m()[e]) by { if e != m_in.ecu { assert(map0.dom().contains(e)); assert(ecu_map.m()[e] == map0[e]); } } }
//@|        assert(ecu_map.total() == tot0 + 1);
//@|        assert(msg.same_but_lifecycle(&m_in) && msg.lifecycle != 0);
//@|        assert(nf ==> fwd_ok(outflow.log() + buffered_msgs.q(), log0, ms0.take(k - 1)));
//@|        assert(nf ==> queue_inv(&buffered_lcs, &buffered_msgs)); // O:stream.mid.queue
//@|        all_b = outflow.log() + buffered_msgs.q();
//@|        assert(pos_inv(pos, ecu_map.m())); // O:publish.mid.pos
//@|        assert(queued_ok(pos, buffered_msgs.q()) && known_ok(pos, buffered_lcs.ids(), lcs_w.visible()) && tab_ok(lcs_w.visible(), pos) && tab_ok(lcs_w.wview(), pos)); // O:publish.mid
//@|        assert(wdom_ok(pos, lcs_w.visible(), lcs_w.wview())); // O:table.mid.dom
//@|        assert(nb_ok(buffered_lcs.ids(), lcs_w.wview()) && marks_ok(buffered_lcs.ids(), lcs_to_refresh@));
//@|        assert(located(pos, msg));
//@|    }
//@   hint before 1 `if buffered_lcs.is_empty() {`
//@|    let ghost b_pre = buffered_lcs.ids();
//@|    let ghost vis_pre = lcs_w.visible();
//@|    let ghost pen_pre = lcs_w.wview();
//@   hint before `let mut prune_lc_id = lc.id;`
//@|    proof {
//@|        let item = lcs_w.wview()[lc.id];
//@|        let e = ecu_map.keys()[vx_vi - 1];
//@|        assert(ecu_map.m()[e][vx_lj as int] == *lc);
//@|        // (the facts are derived only for the state the statements above actually produced: if the lifecycle was not taken out of
//@|        // buffered_lcs, not written or not refreshed here, the tagged invariants of the loops below fail, not this hint)
//@|        if lcs_w.wview() =~= pen_pre.insert(lc.id, item) && lcs_w.visible() == lcs_w.wview() {
//@|            lemma_confirm(pos, ecu_map.m(), e, vx_lj as int, item, b_pre, vis_pre, pen_pre, lcs_to_refresh@);
//@|            if buffered_lcs.ids() =~= b_pre.remove(lc.id) {
//@|                lemma_prune_sendable(pos, buffered_lcs.ids(), lcs_w.visible(), buffered_msgs.q(), lc.id);
//@|            } else if buffered_lcs.ids() =~= b_pre {
//@|                lemma_known_weaken(pos, b_pre.remove(lc.id), b_pre, lcs_w.visible());
//@|                lemma_prune_sendable(pos, buffered_lcs.ids(), lcs_w.visible(), buffered_msgs.q(), lc.id);
//@|            }
//@|        }
//@|    }
//@   hint in `last_lc_id =` before `outflow.send(msg`
//@|    proof { assert(lcs_to_refresh@.contains(msg.lifecycle)); } // O:table.release.flush_marked (rule #2: the lifecycle of a message released by the flush after a merge is marked for the next table refresh)
//@   hint in `prune_lc_id =` before 1 `outflow.send(msg`
//@|    proof { assert(lcs_to_refresh@.contains(msg.lifecycle) || msg.lifecycle == lc.id); } // O:table.release.prune_marked (a pruned message belongs to the lifecycle published right before, or to a marked one)
//@   hint in `prune_lc_id =` before 2 `outflow.send(msg`
//@|    proof { assert(lcs_to_refresh@.contains(msg.lifecycle)); } // O:table.release.prune_switch_marked
//@   hint before 1 `vx_check_regular_refresh(`
//@|    proof { assert(lcs_to_refresh@.contains(msg.lifecycle)); } // O:table.release.direct_marked (the lifecycle of a directly forwarded message - its count has just changed - is marked for the next table refresh)
//@   hint in `buffered_msgs.pop_front() { Some(vx_m)` before `outflow.send(m,`
//@|    proof { assert(lcs_to_refresh@.contains(m.lifecycle)); } // O:table.release.final_marked
//@   hint before last `if !buffered_lcs.is_empty() {` ||| `if buffered_lcs.is_empty() {`
//@|    proof {
//@|        assert(nf ==> outflow.log() + buffered_msgs.q() == all_b);
//@|        if nf {
//@|            lemma_fwd_push(all_b, log0, ms0.take(k - 1), msg, m_in);
//@|            assert((outflow.log() + buffered_msgs.q()).push(msg) =~= outflow.log() + buffered_msgs.q().push(msg));
//@|            if buffered_msgs.q().len() == 0 { assert((outflow.log() + buffered_msgs.q()).push(msg) =~= outflow.log().push(msg) + buffered_msgs.q()); }
//@|        }
//@|        lemma_queued_push(pos, buffered_msgs.q(), msg);
//@|    }
//@|    let ghost vis_r3 = lcs_w.visible();
//@|    let ghost w_r3 = lcs_w.wview();
//@   hint before last `outflow.send(msg`
//@|    proof {
//@|        lemma_known_monotone(pos, buffered_lcs.ids(), vis_r3, lcs_w.visible());
//@|        lemma_one_sendable(pos, buffered_lcs.ids(), lcs_w.visible(), msg);
//@|        lemma_nb_empty(buffered_lcs.ids(), lcs_w.wview());
//@|    }
//@   hint before last `let mut nr_lcs_to_update =`
//@|    let ghost bset = buffered_lcs.ids();
//@|    let ghost mut found: Set<u32> = Set::empty();
//@|    let ghost vis_f = lcs_w.visible();
//@   hint after last `let mut nr_lcs_to_update =`
//@|    proof { lemma_pub_init(pos, &ecu_map, bset, lcs_w.wview()); lemma_found_fresh_init(pos, ecu_map.m(), lcs_w.wview()); }
//@   hint before `let mut vx_lj: usize = vs.len();`
//@|    proof {
//@|        lemma_pub_enter(pos, &ecu_map, bset, found, vx_vi as int);
//@|        if vs.len() == 0 { lemma_pub_leave(pos, &ecu_map, bset, found, vx_vi as int); }
//@|    }
//@   hint before `if buffered_lcs.contains(&lc.id) {`
//@|    let ghost pen_p = lcs_w.wview();
//@|    proof {
//@|        assert(ecu_map.m()[ecu_map.keys()[vx_vi - 1]][vx_lj as int] == *lc);
//@|        if !bset.contains(lc.id) {
//@|            lemma_pub_skip(pos, &ecu_map, bset, found, vx_vi as int, vx_lj as int);
//@|            if vx_lj == 0 { lemma_pub_leave(pos, &ecu_map, bset, found, vx_vi as int); }
//@|        }
//@|    }
//@   hint after last `lcs_w.vx_update(lc.id`
//@|    proof {
//@|        let e = ecu_map.keys()[vx_vi - 1];
//@|        let item = lcs_w.wview()[lc.id];
//@|        assert(lcs_w.wview() =~= pen_p.insert(lc.id, item));
//@|        lemma_publish(pos, ecu_map.m(), e, vx_lj as int, item, vis_f, pen_p);
//@|        lemma_not_found(pos, &ecu_map, bset, found, vx_vi as int, vx_lj as int);
//@|        lemma_found_fresh_insert(pos, ecu_map.m(), e, vx_lj as int, found, pen_p, item);
//@|        lemma_pub_found(pos, &ecu_map, bset, found, pen_p, item, nr_lcs_to_update as int, vx_vi as int, vx_lj as int);
//@|        found = found.insert(lc.id);
//@|        if vx_lj == 0 { lemma_pub_leave(pos, &ecu_map, bset, found, vx_vi as int); }
//@|    }
//@   hint before last `lcs_w.refresh();`
//@|    let ghost pen_f = lcs_w.wview();
//@|    proof {
//@|        lemma_pub_all(pos, &ecu_map, bset, found, pen_f, nr_lcs_to_update as int, vx_vi as int);
//@|        lemma_all_fresh(pos, &ecu_map, bset, found, pen_f, nr_lcs_to_update as int, vx_vi as int);
//@|    }
//@   hint after last `vx_bump(&mut last_lcw_refresh_index);`
//@|    let ghost all_e = outflow.log() + buffered_msgs.q();
//@|    proof {
//@|        lemma_final_refresh(pos, bset, vis_f, pen_f, buffered_msgs.q());
//@|        assert(all_fresh(pos, ecu_map.m(), bset, lcs_w.visible())); // O:table.final.buffered_fresh (every lifecycle still buffered at the end of input is listed with its final state)
//@|    }
//@   hint before last `vx_check_regular_refresh(`
//@|    let ghost marks_fin = lcs_to_refresh@.to_set();
//@   hint before `^lcs_w`
//@|    proof {
//@|        assert(all_fresh(pos, ecu_map.m(), marks_fin, lcs_w.visible())); // O:table.final.marked_fresh (every lifecycle marked for a refresh when the input ends is listed with its final state)
//@|        assert(lcs_to_refresh@.len() == 0);
//@|        if nf { assert(ms0.take(k) =~= ms0); assert(outflow.log() + buffered_msgs.q() =~= outflow.log()); }
//@|        assert(lcs_w.visible() == lcs_w.wview() || !(lcs_w.visible() == lcs_w.wview()));
//@|        assert(forall|id: u32| #[trigger] lcs_w.wview().dom().contains(id) ==> pos.dom().contains(id)) by { reveal(wdom_ok); } // O:table.final.listed (the final table lists only lifecycles of the map: no merged lifecycle)
//@|        assert(nf ==> ecu_map.total() == vmsgs0 + ms0.len()); // O:table.final.total (the message counts add up to the number of messages)
//@|    }
//@   loop inner `inflow.recv()`
//@|    invariant
//@|        0 <= k <= ms0.len(), inflow.rem() == ms0.skip(k), max_buffering_delay_us == 60_000_000,
//@|        forall|i: int| 0 <= i < ms0.len() ==> msg_in_ok(#[trigger] ms0[i]),
//@|        outflow.never_fails() == nf,
//@|        nf ==> fwd_ok(outflow.log() + buffered_msgs.q(), log0, ms0.take(k)), // O:stream.inv.fifo
//@|        nf ==> queue_inv(&buffered_lcs, &buffered_msgs), // O:stream.inv.queue
//@|        map_ok(ecu_map.m()), // O:stream.inv.map
//@|        ecu_map.total() + (ms0.len() - k) <= u32::MAX, // O:table.inv.budget
//@|        outflow.log().len() >= log0.len(),
//@|        last_regular_refresh_index <= u32::MAX - 100_000 && last_msg_index <= u32::MAX - 100_000,
//@|        pos_inv(pos, ecu_map.m()), // O:publish.inv.pos (lifecycle ids are pairwise distinct; pos locates each)
//@|        tab_ok(lcs_w.visible(), pos) && tab_ok(lcs_w.wview(), pos), // O:publish.inv.ecu (a table entry carries the ECU its lifecycle is stored under)
//@|        known_ok(pos, buffered_lcs.ids(), lcs_w.visible()), // O:publish.inv.known (every lifecycle in the map is still buffered or already visible)
//@|        wdom_ok(pos, lcs_w.visible(), lcs_w.wview()), // O:table.inv.dom (the table lists no lifecycle that is not in the map: no merged lifecycle)
//@|        nb_ok(buffered_lcs.ids(), lcs_w.wview()) && marks_ok(buffered_lcs.ids(), lcs_to_refresh@), lcs_to_refresh@.no_duplicates(), // (auxiliary, untagged) a buffered lifecycle is neither in the table nor marked for a refresh
//@|        ecu_map.total() == vmsgs0 + k, // O:table.inv.total (the message counts of all lifecycles add up to the number of messages)
//@|        ids_nz(pos),
//@|        queued_ok(pos, buffered_msgs.q()), // O:publish.inv.queued (the lifecycle of every queued message is a lifecycle of its own ECU in the map)
//@|    ensures
//@|        nf ==> k == ms0.len(),
//@|    decreases ms0.len() - k,
//@   loop inner `last_lc_id =`
//@|    invariant
//@|        outflow.never_fails() == nf,
//@|        nf ==> outflow.log() + buffered_msgs.q() == all_b, // O:stream.flush.fifo
//@|        outflow.log().len() >= log0.len(),
//@|        queued_ok(pos, buffered_msgs.q()),
//@|        forall|i: int| 0 <= i < buffered_msgs.q().len() ==> sendable(lcs_w.visible(), #[trigger] buffered_msgs.q()[i]), // O:publish.flush.sendable
//@|        marks_ok(buffered_lcs.ids(), lcs_to_refresh@), lcs_to_refresh@.no_duplicates(),
//@|        last_lc_id == 0 || lcs_to_refresh@.contains(last_lc_id), ids_nz(pos),
//@|    ensures
//@|        nf ==> buffered_msgs.q().len() == 0,
//@|    decreases buffered_msgs.q().len(),
//@   loop inner `let mut vx_lj: usize = ecu_lcs.len()`
//@|    invariant
//@|        vx_vi <= vx_nv, outflow.never_fails() == nf,
//@|        nf ==> outflow.log() + buffered_msgs.q() == all_b, // O:stream.confirm.fifo
//@|        outflow.log().len() >= log0.len(),
//@|        nf ==> queue_inv(&buffered_lcs, &buffered_msgs), // O:stream.confirm.queue
//@|        tab_ok(lcs_w.visible(), pos) && tab_ok(lcs_w.wview(), pos), known_ok(pos, buffered_lcs.ids(), lcs_w.visible()), queued_ok(pos, buffered_msgs.q()), // O:publish.confirm.inv
//@|        wdom_ok(pos, lcs_w.visible(), lcs_w.wview()), // O:table.confirm.inv
//@|        nb_ok(buffered_lcs.ids(), lcs_w.wview()) && marks_ok(buffered_lcs.ids(), lcs_to_refresh@), lcs_to_refresh@.no_duplicates(),
//@|    decreases vx_nv - vx_vi,
//@   loop inner `let mut prune_lc_id`
//@|    invariant
//@|        vx_lj <= ecu_lcs.len(), outflow.never_fails() == nf,
//@|        nf ==> outflow.log() + buffered_msgs.q() == all_b, // O:stream.confirm.inner.fifo
//@|        outflow.log().len() >= log0.len(),
//@|        nf ==> queue_inv(&buffered_lcs, &buffered_msgs), // O:stream.confirm.inner.queue
//@|        tab_ok(lcs_w.visible(), pos) && tab_ok(lcs_w.wview(), pos), known_ok(pos, buffered_lcs.ids(), lcs_w.visible()), queued_ok(pos, buffered_msgs.q()), // O:publish.confirm.inner.inv
//@|        wdom_ok(pos, lcs_w.visible(), lcs_w.wview()), // O:table.confirm.inner.inv
//@|        nb_ok(buffered_lcs.ids(), lcs_w.wview()) && marks_ok(buffered_lcs.ids(), lcs_to_refresh@), lcs_to_refresh@.no_duplicates(),
//@|    decreases vx_lj,
//@   loop inner `prune_lc_id =`
//@|    invariant
//@|        outflow.never_fails() == nf,
//@|        nf ==> outflow.log() + buffered_msgs.q() == all_b, // O:stream.prune.fifo
//@|        outflow.log().len() >= log0.len(),
//@|        queued_ok(pos, buffered_msgs.q()),
//@|        marks_ok(buffered_lcs.ids(), lcs_to_refresh@), lcs_to_refresh@.no_duplicates(),
//@|        prune_lc_id == lc.id || lcs_to_refresh@.contains(prune_lc_id),
//@|        // every queued message of the lifecycle being pruned, or of a lifecycle that is no longer buffered, can be delivered
//@|        forall|i: int| 0 <= i < buffered_msgs.q().len() && ((#[trigger] buffered_msgs.q()[i]).lifecycle == prune_lc_id || !buffered_lcs.ids().contains(buffered_msgs.q()[i].lifecycle)) ==> sendable(lcs_w.visible(), buffered_msgs.q()[i]), // O:publish.prune.sendable
//@|    ensures
//@|        nf ==> queue_inv(&buffered_lcs, &buffered_msgs), // O:stream.prune.queue
//@|    decreases buffered_msgs.q().len(),
//@   loop inner `let mut vx_lj: usize = vs.len()`
//@|    invariant
//@|        vx_vi <= vx_nv, lcs_w.visible() == vis_f, tab_ok(lcs_w.wview(), pos), wdom_ok(pos, vis_f, lcs_w.wview()),
//@|        pub_cnt(pos, bset, found, lcs_w.wview(), nr_lcs_to_update as int), // O:publish.final.count
//@|        found_fresh(pos, ecu_map.m(), found, lcs_w.wview()),
//@|        nr_lcs_to_update > 0 ==> pub_done_keys(pos, &ecu_map, bset, found, vx_vi as int), // O:publish.final.visited
//@|    ensures
//@|        nr_lcs_to_update == 0 || vx_vi == vx_nv,
//@|    decreases vx_nv - vx_vi,
//@   loop inner `nr_lcs_to_update -= 1`
//@|    invariant_except_break
//@|        nr_lcs_to_update > 0,
//@|        pub_cur(pos, &ecu_map, bset, found, vx_vi as int, vx_lj as int),
//@|        vx_lj == 0 ==> pub_done_keys(pos, &ecu_map, bset, found, vx_vi as int),
//@|    invariant
//@|        vx_lj <= vs.len(), lcs_w.visible() == vis_f, tab_ok(lcs_w.wview(), pos), 1 <= vx_vi <= vx_nv, wdom_ok(pos, vis_f, lcs_w.wview()),
//@|        pub_cnt(pos, bset, found, lcs_w.wview(), nr_lcs_to_update as int), found_fresh(pos, ecu_map.m(), found, lcs_w.wview()),
//@|    ensures
//@|        nr_lcs_to_update > 0 ==> pub_done_keys(pos, &ecu_map, bset, found, vx_vi as int),
//@|    decreases vx_lj,
//@   loop inner `buffered_msgs.pop_front() { Some(vx_m)`
//@|    invariant
//@|        outflow.never_fails() == nf,
//@|        nf ==> outflow.log() + buffered_msgs.q() == all_e, // O:stream.final.fifo
//@|        outflow.log().len() >= log0.len(),
//@|        forall|i: int| 0 <= i < buffered_msgs.q().len() ==> sendable(lcs_w.visible(), #[trigger] buffered_msgs.q()[i]), // O:publish.final.sendable
//@|        lcs_to_refresh@.no_duplicates(),
//@|    ensures
//@|        nf ==> buffered_msgs.q().len() == 0,
//@|    decreases buffered_msgs.q().len(),
//@ end
// ---- end of units/lcstream/part.rs ----
