// ---- units/plugindriver/part.rs ----
// R7/R12 models (as in units filterstream / timesort): the inflow Receiver and the outflow closure
#[derive(Debug)]
pub struct VxRecvError;
pub trait VRecv: Sized {
    spec fn rem(&self) -> Seq<DltMessage>;
    fn recv(&mut self) -> (r: Result<DltMessage, VxRecvError>)
        ensures
            old(self).rem().len() == 0 ==> r is Err && final(self).rem() == old(self).rem(),
            old(self).rem().len() > 0 ==> r == Ok::<DltMessage, VxRecvError>(old(self).rem()[0]) && final(self).rem() == old(self).rem().skip(1);
}
pub trait VSink: Sized {
    spec fn log(&self) -> Seq<DltMessage>;
    fn send(&mut self, m: DltMessage) -> (r: Result<(), DltMessage>)
        ensures
            r is Ok ==> final(self).log() == old(self).log().push(m),
            r is Err ==> final(self).log() == old(self).log();
}
// what the property says no decoding plugin may touch: index, reception time, ECU, payload bytes, lifecycle
pub open spec fn core_same(a: DltMessage, b: DltMessage) -> bool {
    a.index == b.index && a.reception_time_us == b.reception_time_us && a.ecu == b.ecu && a.payload == b.payload && a.lifecycle == b.lifecycle
}
// R12: `Box<dyn Plugin + Send>` -> a type parameter with the ASSUMED contract of Plugin::process_msg for the plugins the property
// speaks about: a plugin may rewrite the message but keeps its core; `always_accepts` marks a plugin that never returns false
// (the decoding plugins). Whether the individual plugins honour this contract is NOT decided here.
pub trait VPlugin: Sized {
    spec fn always_accepts(&self) -> bool;
    fn process_msg(&mut self, msg: &mut DltMessage) -> (r: bool)
        ensures
            core_same(*old(msg), *final(msg)),
            final(self).always_accepts() == old(self).always_accepts(),
            old(self).always_accepts() ==> r;
}
pub open spec fn all_accept<P: VPlugin>(ps: Seq<P>) -> bool { forall|i: int| 0 <= i < ps.len() ==> (#[trigger] ps[i]).always_accepts() }
// `outs` are the forwarded messages: a subsequence of the received ones (sel[i]: message i was forwarded), cores unchanged
pub open spec fn picks(sel: Seq<bool>, n: int) -> int
    decreases n
{
    if n <= 0 { 0 } else { picks(sel, n - 1) + (if sel[n - 1] { 1int } else { 0int }) }
}
pub open spec fn forwarded_ok(ms: Seq<DltMessage>, sel: Seq<bool>, outs: Seq<DltMessage>, n: int) -> bool {
    &&& sel.len() == n
    &&& outs.len() == picks(sel, n)
    &&& forall|i: int| 0 <= i < n && sel[i] ==> core_same(ms[i], #[trigger] outs[picks(sel, i)])
}

pub proof fn lemma_picks_push(sel: Seq<bool>, b: bool, i: int)
    requires 0 <= i <= sel.len(),
    ensures picks(sel.push(b), i) == picks(sel, i),
    decreases i,
{
    if i > 0 { lemma_picks_push(sel, b, i - 1); assert(sel.push(b)[i - 1] == sel[i - 1]); }
}
pub proof fn lemma_picks_le(sel: Seq<bool>, i: int, n: int)
    requires 0 <= i <= n <= sel.len(),
    ensures 0 <= picks(sel, i) <= picks(sel, n) <= n, picks(sel, i) <= i,
    decreases n,
{
    if n > i { lemma_picks_le(sel, i, n - 1); } else if i > 0 { lemma_picks_le(sel, i - 1, n - 1); }
}
// message k (accepted or not) is appended to a run of k messages
pub proof fn lemma_forward_step(ms: Seq<DltMessage>, sel: Seq<bool>, outs: Seq<DltMessage>, k: int, fwd: bool, m: DltMessage)
    requires 0 <= k < ms.len(), forwarded_ok(ms, sel, outs, k), fwd ==> core_same(ms[k], m),
    ensures forwarded_ok(ms, sel.push(fwd), if fwd { outs.push(m) } else { outs }, k + 1),
{
    let sel2 = sel.push(fwd);
    let outs2 = if fwd { outs.push(m) } else { outs };
    lemma_picks_push(sel, fwd, k);
    assert(sel2[k] == fwd);
    assert(picks(sel2, k + 1) == picks(sel, k) + (if fwd { 1int } else { 0int }));
    assert forall|i: int| 0 <= i < k + 1 && sel2[i] implies core_same(ms[i], #[trigger] outs2[picks(sel2, i)]) by {
        lemma_picks_push(sel, fwd, i);
        if i < k {
            assert(sel2[i] == sel[i]);
            lemma_picks_le(sel, i + 1, k);
            assert(picks(sel, i + 1) == picks(sel, i) + 1);
            assert(outs2[picks(sel, i)] == outs[picks(sel, i)]);
        }
    }
}

//@ extract src/plugins/mod.rs fn plugins_process_msgs
//@   sub R12 `<F: Fn(DltMessage) -> SendMsgFnReturnType>` => `<I: VRecv, S: VSink, P: VPlugin>`
//@   sub R12 `inflow: Receiver<DltMessage>` => `mut inflow: I`
//@   sub R12 `outflow: &F` => `outflow: &mut S`
//@   sub R12 `mut plugins_active: Vec<Box<dyn Plugin + Send>>` => `mut plugins_active: Vec<P>`
//@   sub R12 `Result<Vec<Box<dyn Plugin + Send>>, SendError<DltMessage>>` => `Result<Vec<P>, DltMessage>`
//@   sub R13 `for mut msg in inflow {` => `loop { let mut msg = match inflow.recv() { Ok(vx_m) => vx_m, Err(_) => break };`
//@   sub R12 `let plugin = plugin.as_mut();` => ``
//@   sub R12 `outflow(_id_)` => `outflow.send($1)` *
//@   r13 2
//@   spec
//@|    ensures
//@|        // never duplicates, reorders or alters the core of a message: the forwarded messages are a subsequence of the received ones
//@|        r is Ok ==> exists|sel: Seq<bool>, outs: Seq<DltMessage>| final(outflow).log() == old(outflow).log() + outs && #[trigger] forwarded_ok(inflow.rem(), sel, outs, inflow.rem().len() as int), // O:driver.subsequence
//@|        // never removes a message unless a plugin returned false
//@|        r is Ok && all_accept(plugins_active@) ==> final(outflow).log().len() == old(outflow).log().len() + inflow.rem().len(), // O:driver.nothing_removed
//@   hint before `^loop`
//@|    let ghost ms0 = inflow.rem();
//@|    let ghost log0 = outflow.log();
//@|    let ghost acc = all_accept(plugins_active@);
//@|    let ghost mut k: int = 0;                     // messages accounted for
//@|    let ghost mut sel: Seq<bool> = Seq::empty();
//@|    let ghost mut outs: Seq<DltMessage> = Seq::empty();
//@|    // the message of the previous iteration is accounted for at the start of the next one (or after the loop): the proof then
//@|    // does not depend on how the end of the body is written (`if forward_msg { send }`, `if !forward_msg { continue; } send`)
//@|    let ghost mut pend: bool = false;
//@|    let ghost mut fw_p: bool = false;
//@|    let ghost mut m_p: DltMessage = arbitrary();
//@|    let ghost mut lg_p: Seq<DltMessage> = Seq::empty();
//@|    proof { assert(outflow.log() =~= log0 + outs); }
//@   loop 1 `loop`
//@|    invariant
//@|        0 <= k, k + (if pend { 1int } else { 0int }) <= ms0.len(), inflow.rem() == ms0.skip(k + (if pend { 1int } else { 0int })), log0 == old(outflow).log(),
//@|        !pend ==> outflow.log() == log0 + outs, // O:driver.inv.log
//@|        pend ==> lg_p == log0 + outs && core_same(ms0[k], m_p) && (fw_p ==> outflow.log() == lg_p.push(m_p)) && (!fw_p ==> outflow.log() == lg_p), // O:driver.inv.once (the current message was forwarded at most once, as it left the plugins)
//@|        forwarded_ok(ms0, sel, outs, k), // O:driver.inv.subsequence
//@|        acc ==> all_accept(plugins_active@) && outs.len() == k && (pend ==> fw_p), // O:driver.inv.nothing_removed
//@|    ensures
//@|        k + (if pend { 1int } else { 0int }) == ms0.len(),
//@|    decreases ms0.len() - (k + (if pend { 1int } else { 0int })),
//@   hint loopstart 1
//@|    proof {
//@|        if pend {
//@|            if fw_p { assert(outflow.log() =~= log0 + outs.push(m_p)); }
//@|            lemma_forward_step(ms0, sel, outs, k, fw_p, m_p);
//@|            sel = sel.push(fw_p);
//@|            if fw_p { outs = outs.push(m_p); }
//@|            k = k + 1;
//@|            pend = false;
//@|        }
//@|    }
//@|    let ghost m_in = msg;
//@|    let ghost mut rejected: bool = false;   // some plugin returned false for this message
//@|    proof {
//@|        assert(m_in == ms0[k]);
//@|        assert(ms0.skip(k).skip(1) =~= ms0.skip(k + 1));
//@|    }
//@   hint before `forward_msg = false;`
//@|    proof { rejected = true; }
//@   loop 2 `plugins_active`
//@|    invariant
//@|        vx_i <= plugins_active@.len(),
//@|        core_same(m_in, msg), // O:driver.inv.core
//@|        acc ==> all_accept(plugins_active@),
//@|        acc ==> forward_msg, // O:driver.inv.kept (no plugin of an all-accepting chain makes the driver drop the message)
//@|        !forward_msg ==> rejected, // O:driver.inv.dropped_only_if_rejected (a message is dropped only because one of its plugins returned false for it)
//@|    ensures
//@|        core_same(m_in, msg), acc ==> all_accept(plugins_active@) && forward_msg, !forward_msg ==> rejected,
//@|    decreases plugins_active@.len() - vx_i,
//@   hint before `forward_msg {`
//@|    proof {
//@|        pend = true;
//@|        fw_p = forward_msg;
//@|        m_p = msg;
//@|        lg_p = outflow.log();
//@|    }
//@   hint before `^Ok(plugins_active)`
//@|    proof {
//@|        if pend {
//@|            if fw_p { assert(outflow.log() =~= log0 + outs.push(m_p)); }
//@|            lemma_forward_step(ms0, sel, outs, k, fw_p, m_p);
//@|            sel = sel.push(fw_p);
//@|            if fw_p { outs = outs.push(m_p); }
//@|            k = k + 1;
//@|            pend = false;
//@|        }
//@|        assert(k == ms0.len());
//@|    }
//@ end
// ---- end of units/plugindriver/part.rs ----
