//@ unit plugindriver
// C19 (driver clause): plugins_process_msgs forwards the messages every active plugin accepted, each once, in the order received.
#![allow(unused_imports, dead_code, unused_variables, unused_mut, non_upper_case_globals)]
use vstd::prelude::*;
verus! {
global size_of usize == 8;

//@ include prelude/std_specs.rs
//@ include units/dltcore/part.rs
//@ include units/plugindriver/part.rs
//@ include units/plugindriver/rewrite.rs

fn main() {}
} // verus!
