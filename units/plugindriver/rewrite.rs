// ---- units/plugindriver/rewrite.rs ----
// C19 (decoder clause, one plugin): RewritePlugin::process_msg honours the contract the driver proof assumes of a plugin - it never
// rejects a message and touches nothing but the displayed text and the timestamp.
// R12 models: the filter (Filter::matches is under contract in unit filter, C11; here: it reads the message), fancy_regex (captures,
// capture names), the float conversion of the captured time stamp
#[verifier::external_body]
pub struct Filter { _p: u8 }
impl Filter {
    #[verifier::external_body]
    pub fn matches(&self, msg: &DltMessage) -> (r: bool) { unimplemented!() }
}
#[verifier::external_body]
pub struct VxRegex { _p: u8 }
#[verifier::external_body]
pub struct VxCaptures { _p: u8 }
#[verifier::external_body]
pub struct VxMatch { _p: u8 }
#[verifier::external_body]
pub struct VxRwErr { _p: u8 }
impl VxRegex {
    #[verifier::external_body]
    pub fn captures(&self, text: &String) -> (r: Result<Option<VxCaptures>, VxRwErr>) { unimplemented!() }
    #[verifier::external_body]
    pub fn capture_names(&self) -> (r: VxNameIter) { unimplemented!() }
}
impl VxCaptures {
    #[verifier::external_body]
    pub fn get(&self, i: usize) -> (r: Option<VxMatch>) { unimplemented!() }
}
#[verifier::external_body]
pub fn vx_match_text(m: VxMatch) -> (r: String) { unimplemented!() }
// floating point is not modelled: `v.as_str().parse::<f64>()` and `(v * 10000.0).round() as u32` are opaque functions of their operand
#[derive(Clone, Copy)]
pub struct VxF64 { pub _p: u8 }
#[verifier::external_body]
pub fn vx_parse_f64(m: &VxMatch) -> (r: Result<VxF64, VxRwErr>) { unimplemented!() }
#[verifier::external_body]
pub fn vx_f64_to_dms(v: VxF64) -> (r: u32) { unimplemented!() }
#[verifier::external_body]
pub struct VxNameIter { _p: u8 }
impl VxNameIter {
    pub uninterp spec fn rem(&self) -> nat;
    #[verifier::external_body]
    pub fn next(&mut self) -> (r: Option<Option<&'static str>>)
        ensures old(self).rem() == 0 ==> r is None && final(self).rem() == 0, old(self).rem() > 0 ==> r is Some && final(self).rem() == old(self).rem() - 1,
    { unimplemented!() }
}
#[verifier::external_body]
pub fn vx_payload_as_text_owned(msg: &DltMessage) -> (r: Result<String, VxRwErr>) { unimplemented!() }
#[verifier::external_body]
pub struct VxPluginStateHandle { _p: u8 }
//@ extract src/plugins/rewrite.rs struct RewriteConfig
//@   sub R12 `payload_regex: Regex` => `payload_regex: VxRegex`
//@ end
//@ extract src/plugins/rewrite.rs struct RewritePlugin
//@   sub R12 `Arc<RwLock<PluginState>>` => `VxPluginStateHandle`
//@ end
// everything the property lets the rewrite plugin change: the displayed text and the timestamp
pub open spec fn same_but_text_and_timestamp(a: DltMessage, b: DltMessage) -> bool {
    core_same(a, b) && a.standard_header == b.standard_header && a.extended_header == b.extended_header
}
//@ extract src/plugins/rewrite.rs <Plugin for RewritePlugin>::process_msg
//@   rename rewrite_process_msg
//@   sub R12 `fn process_msg(&mut self, msg: &mut DltMessage) -> bool` => `fn process_msg(vx_self: &mut RewritePlugin, msg: &mut DltMessage) -> bool`
//@   sub R12 `self` => `vx_self` *
//@   sub R11 `msg.payload_as_text().map(|s| s.into_owned())` => `vx_payload_as_text_owned(msg)`
//@   sub R13 `for (idx, capt_name) in r.payload_regex.capture_names().enumerate() {` => `let mut vx_names = r.payload_regex.capture_names(); let mut vx_j: usize = 0; loop { let capt_name = match vx_names.next() { Some(vx_n) => vx_n, None => break }; let idx = vx_j; if vx_j < usize::MAX { vx_j += 1; }`
//@   sub R11 `v.as_str().to_owned()` => `vx_match_text(v)` ?
//@   sub R11 `v.as_str().parse::<f64>()` => `vx_parse_f64(&v)` ?
//@   sub R11 `(v * 10000.0).round() as u32` => `vx_f64_to_dms(v)` ?
//@   r13 1
//@   spec
//@|    ensures
//@|        r, // O:rewrite.accepts (the rewrite plugin never removes a message)
//@|        same_but_text_and_timestamp(*old(msg), *final(msg)), // O:rewrite.frame (index, reception time, ECU, payload bytes, lifecycle and both headers untouched: only the displayed text and the timestamp may change)
//@   loop inner `r.filter.matches(msg)`
//@|    invariant same_but_text_and_timestamp(*old(msg), *msg), // O:rewrite.inv.frame
//@|    decreases vx_self.rewrites.len() - vx_i,
//@   loop inner `vx_names.next()`
//@|    invariant same_but_text_and_timestamp(*old(msg), *msg), // O:rewrite.inv.frame.captures
//@|    decreases vx_names.rem(),
//@ end
// ---- end of units/plugindriver/rewrite.rs ----
