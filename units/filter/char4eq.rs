// ---- units/filter/char4eq.rs ----
// DltChar4's own PartialEq (src/dlt/mod.rs: compares the 4 bytes as one u32): the REAL eq body is verified against
// "equality of the 4 bytes" (eq_spec); only u32::from_ne_bytes is a trusted wrapper (host order = little endian)
#[verifier::external_body]
pub fn vx_u32_from_ne_bytes(b: [u8; 4]) -> (r: u32)
    ensures r as int == le32(b[0], b[1], b[2], b[3]),
{ u32::from_ne_bytes(b) }
pub proof fn lemma_le32_inj(a0: u8, a1: u8, a2: u8, a3: u8, b0: u8, b1: u8, b2: u8, b3: u8)
    requires le32(a0, a1, a2, a3) == le32(b0, b1, b2, b3),
    ensures a0 == b0 && a1 == b1 && a2 == b2 && a3 == b3,
{
    let x: u32 = (a0 as u32 + 256 * (a1 as u32) + 65536 * (a2 as u32) + 16777216 * (a3 as u32)) as u32;
    let y: u32 = (b0 as u32 + 256 * (b1 as u32) + 65536 * (b2 as u32) + 16777216 * (b3 as u32)) as u32;
    assert(x == y);
    assert(a0 == (x % 256) as u8 && a1 == ((x / 256) % 256) as u8 && a2 == ((x / 65536) % 256) as u8 && a3 == ((x / 16777216) % 256) as u8) by(bit_vector)
        requires x == (a0 as u32 + 256 * (a1 as u32) + 65536 * (a2 as u32) + 16777216 * (a3 as u32)) as u32;
    assert(b0 == (y % 256) as u8 && b1 == ((y / 256) % 256) as u8 && b2 == ((y / 65536) % 256) as u8 && b3 == ((y / 16777216) % 256) as u8) by(bit_vector)
        requires y == (b0 as u32 + 256 * (b1 as u32) + 65536 * (b2 as u32) + 16777216 * (b3 as u32)) as u32;
}
impl vstd::std_specs::cmp::PartialEqSpecImpl for DltChar4 {
    open spec fn obeys_eq_spec() -> bool { true }
    open spec fn eq_spec(&self, other: &DltChar4) -> bool { self.char4@ == other.char4@ }
}
impl PartialEq for DltChar4 {
//@ extract src/dlt/mod.rs <PartialEq for DltChar4>::eq
//@   rules R1 R3 R4 R5 R6
//@   hint start
//@|    proof {
//@|        if le32(self.char4[0], self.char4[1], self.char4[2], self.char4[3]) == le32(other.char4[0], other.char4[1], other.char4[2], other.char4[3]) {
//@|            lemma_le32_inj(self.char4[0], self.char4[1], self.char4[2], self.char4[3], other.char4[0], other.char4[1], other.char4[2], other.char4[3]);
//@|            assert(self.char4@ =~= other.char4@);
//@|        }
//@|    }
//@ end
}
// ---- end of units/filter/char4eq.rs ----
