//@ unit filter
// C11 (matching clause): Filter::matches == enabled && (conjunction of the specified criteria != negate_match).
#![allow(unused_imports, dead_code, unused_variables, unused_mut, non_upper_case_globals)]
use vstd::prelude::*;
verus! {
global size_of usize == 8;

//@ include prelude/std_specs.rs
//@ include units/dltcore/part.rs
//@ include units/filter/char4eq.rs
//@ include units/filter/part.rs

fn main() {}
} // verus!
