// ---- units/filter/part.rs ----
impl DltChar4 {
//@ extract src/dlt/mod.rs DltChar4::as_buf
//@   spec
//@|    ensures r@ == self.char4@,
//@ end
}

// std items without a vstd specification (trusted, documented behaviour)
pub assume_specification<T, E> [std::result::Result::<T, E>::unwrap_or] (res: std::result::Result<T, E>, d: T) -> (r: T)
    where E: std::marker::Destruct, T: std::marker::Destruct,
    ensures r == (match res { Ok(v) => v, Err(_) => d });
// (stated for every T; only used at T = u32, whose == is structural)
pub assume_specification<T: std::cmp::PartialEq> [<[T]>::contains] (s: &[T], x: &T) -> (r: bool)
    ensures r == s@.contains(*x);

// ---- opaque dependencies (R11): regex engines and the text rendering of a payload, as uninterpreted functions ----
#[verifier::external_body]
pub struct VxBytesRegex { _p: u8 }      // regex::bytes::Regex
#[verifier::external_body]
pub struct VxFancyRegex { _p: u8 }      // fancy_regex::Regex
#[verifier::external_body]
pub struct VxStrRegex { _p: u8 }        // regex::Regex
#[verifier::external_body]
pub struct VxText { _p: u8 }            // Cow<str> returned by payload_as_text
#[verifier::external_body]
pub struct VxFmtError { _p: u8 }
pub uninterp spec fn bre_match(r: &VxBytesRegex, b: Seq<u8>) -> bool;
pub uninterp spec fn fancy_match(r: &VxFancyRegex, t: &VxText) -> Result<bool, VxFmtError>;
pub uninterp spec fn sre_match(r: &VxStrRegex, t: &VxText) -> bool;
pub uninterp spec fn text_contains(t: &VxText, p: &String) -> bool;
pub uninterp spec fn spec_payload_text(m: &DltMessage) -> Result<VxText, VxFmtError>;
impl VxBytesRegex {
    #[verifier::external_body]
    pub fn is_match(&self, b: &[u8; 4]) -> (r: bool) ensures r == bre_match(self, b@) { unimplemented!() }
}
impl VxFancyRegex {
    #[verifier::external_body]
    pub fn is_match(&self, t: &VxText) -> (r: Result<bool, VxFmtError>) ensures r == fancy_match(self, t) { unimplemented!() }
}
impl VxStrRegex {
    #[verifier::external_body]
    pub fn is_match(&self, t: &VxText) -> (r: bool) ensures r == sre_match(self, t) { unimplemented!() }
}
impl VxText {
    #[verifier::external_body]
    pub fn contains(&self, p: &String) -> (r: bool) ensures r == text_contains(self, p) { unimplemented!() }
}
impl DltMessage {
    #[verifier::external_body]
    pub fn payload_as_text(&self) -> (r: Result<VxText, VxFmtError>) ensures r == spec_payload_text(self) { unimplemented!() }
//@ extract src/dlt/mod.rs DltMessage::apid
//@   spec
//@|    ensures r == (match self.extended_header { Some(e) => Some(&e.apid), None => None::<&DltChar4> }),
//@ end
//@ extract src/dlt/mod.rs DltMessage::ctid
//@   spec
//@|    ensures r == (match self.extended_header { Some(e) => Some(&e.ctid), None => None::<&DltChar4> }),
//@ end
//@ extract src/dlt/mod.rs DltMessage::verb_mstp_mtin
//@   sub R17 `|e| e.verb_mstp_mtin` => `|e: &DltExtendedHeader| -> (x: u8) ensures x == e.verb_mstp_mtin { e.verb_mstp_mtin }`
//@   spec
//@|    ensures r == (match self.extended_header { Some(e) => Some(e.verb_mstp_mtin), None => None::<u8> }),
//@ end
}

//@ extract src/filter/filter_impl.rs enum FilterKind
//@   derive Copy, Clone, PartialEq, Eq => Clone, Copy, PartialEq, Eq, Structural
//@ end
//@ extract src/filter/filter_impl.rs enum Char4OrRegex
//@   sub R11 `regex::bytes::Regex` => `VxBytesRegex`
//@ end
//@ extract src/filter/filter_impl.rs struct Filter
//@   sub R11 `Option<Regex>` => `Option<VxFancyRegex>`
//@   sub R11 `Option<regex::Regex>` => `Option<VxStrRegex>`
//@ end

// ---------- oracle: the property's sentence, criterion by criterion ----------
pub open spec fn id_ok(c: Option<Char4OrRegex>, id: Seq<u8>) -> bool {
    match c { None => true, Some(Char4OrRegex::DltChar4(x)) => x.char4@ == id, Some(Char4OrRegex::Regex(r)) => bre_match(&r, id) }
}
pub open spec fn ext_id_ok(c: Option<Char4OrRegex>, id: Option<Seq<u8>>) -> bool {
    match c { None => true, Some(_) => id is Some && id_ok(c, id->Some_0) }   // never holds without extended header
}
pub open spec fn spec_all_criteria(f: &Filter, m: &DltMessage) -> bool {
    let vmm: Option<u8> = match m.extended_header { Some(e) => Some(e.verb_mstp_mtin), None => None };
    &&& id_ok(f.ecu, m.ecu.char4@)
    &&& ext_id_ok(f.apid, match m.extended_header { Some(e) => Some(e.apid.char4@), None => None })
    &&& ext_id_ok(f.ctid, match m.extended_header { Some(e) => Some(e.ctid.char4@), None => None })
    &&& (match f.verb_mstp_mtin { None => true, Some(vm) => vmm is Some && (vmm->Some_0 & vm.1) == vm.0 })
    &&& (match f.loglevel_min { None => true, Some(l) => vmm is Some && ((vmm->Some_0 >> 1) & 0x07u8) == 0 && ((vmm->Some_0 >> 4) & 0x0fu8) >= l })
    &&& (match f.loglevel_max { None => true, Some(l) => vmm is Some && ((vmm->Some_0 >> 1) & 0x07u8) == 0 && ((vmm->Some_0 >> 4) & 0x0fu8) <= l })
    &&& (if f.payload_regex is Some { spec_payload_text(m) is Ok && fancy_match(&f.payload_regex->Some_0, &spec_payload_text(m)->Ok_0) == Ok::<bool, VxFmtError>(true) }
         else if f.payload_as_regex is Some { spec_payload_text(m) is Ok && sre_match(&f.payload_as_regex->Some_0, &spec_payload_text(m)->Ok_0) }
         else if f.payload is Some { spec_payload_text(m) is Ok && text_contains(&spec_payload_text(m)->Ok_0, &f.payload->Some_0) }
         else { true })
    &&& (match f.lifecycles { None => true, Some(l) => l@.len() == 0 || l@.contains(m.lifecycle) })
}
pub open spec fn spec_matches(f: &Filter, m: &DltMessage) -> bool {
    f.enabled && (spec_all_criteria(f, m) != f.negate_match)
}

impl Filter {
//@ extract src/filter/filter_impl.rs Filter::matches
//@   sub R16 `(msg_vmm & mask)` => `(msg_vmm & *mask)`
//@   spec
//@|    ensures r == spec_matches(self, msg), // O:matches.eq
//@ end
}

// ---- front-end: dlt-convert APID/CTID list (C11), panic freedom on every byte string (C03) ----
pub trait VReadAll: Sized {
    spec fn content(&self) -> Seq<u8>;
    fn read_to_end(&mut self, buf: &mut Vec<u8>) -> (r: std::io::Result<usize>)
        ensures r is Ok ==> final(buf)@ == old(buf)@ + old(self).content() && r->Ok_0 == old(self).content().len();
}
impl Char4OrRegex {
//@ extract src/filter/filter_impl.rs Char4OrRegex::from_buf
//@   sub R2 `dlt::Error` => `Error`
//@   spec
//@|    ensures
//@|        r is Ok <==> buf@.len() == 4,
//@|        r is Ok ==> (r->Ok_0 matches Char4OrRegex::DltChar4(c) && c.char4@ == buf@), // O:char4orregex.from_buf
//@ end
}
impl Filter {
    pub open spec fn plain(&self, kind: FilterKind) -> bool {
        self.kind == kind && self.enabled && !self.at_load_time && !self.negate_match && self.ecu is None && self.verb_mstp_mtin is None
            && self.payload is None && self.payload_regex is None && !self.ignore_case_payload && self.payload_as_regex is None
            && self.loglevel_min is None && self.loglevel_max is None && self.lifecycles is None
    }
//@ extract src/filter/filter_impl.rs Filter::new
//@   spec
//@|    ensures r.plain(kind) && r.apid is None && r.ctid is None, // O:filter.new
//@ end
}
// id field of the dlt-convert format: the bytes up to the first '-' (at most 4), padded with 0
pub open spec fn conv_id_len(d: Seq<u8>, off: int, n: int) -> int
    decreases 4 - n
{
    if n >= 4 || d[off + n] == 0x2d { n } else { conv_id_len(d, off, n + 1) }
}
pub open spec fn conv_id(d: Seq<u8>, off: int) -> Seq<u8> {
    let l = conv_id_len(d, off, 0);
    Seq::new(4, |i: int| if i < l { d[off + i] } else { 0u8 })
}
pub open spec fn is_lit(c: Option<Char4OrRegex>, id: Seq<u8>) -> bool {
    c matches Some(Char4OrRegex::DltChar4(x)) && x.char4@ == id
}

//@ extract src/filter/functions.rs fn filters_from_convert_format
//@   sub R7 `<B: std::io::BufRead>` => `<B: VReadAll>`
//@   spec
//@|    requires reader.content().len() + 10 <= usize::MAX, // true for every Vec (allocations are at most isize::MAX bytes)
//@|    ensures
//@|        r is Ok ==> r->Ok_0@.len() == reader.content().len() / 10, // O:convert_format.count
//@|        r is Ok ==> forall|k: int| 0 <= k < r->Ok_0@.len() ==> (#[trigger] r->Ok_0@[k]).plain(FilterKind::Positive)
//@|            && is_lit(r->Ok_0@[k].apid, conv_id(reader.content(), 10 * k)) && is_lit(r->Ok_0@[k].ctid, conv_id(reader.content(), 10 * k + 5)), // O:convert_format.filters
//@   hint before `let res = reader.read_to_end`
//@|    let ghost d = reader.content();
//@   hint before `let mut offset = 0;`
//@|    assert(buf@ =~= d);
//@   loop 1 `offset + 10`
//@|    invariant
//@|        buf@ == d, res == d.len(), offset % 10 == 0, offset <= res, res + 10 <= usize::MAX,
//@|        filters@.len() == offset / 10,
//@|        forall|k: int| 0 <= k < filters@.len() ==> (#[trigger] filters@[k]).plain(FilterKind::Positive)
//@|            && is_lit(filters@[k].apid, conv_id(d, 10 * k)) && is_lit(filters@[k].ctid, conv_id(d, 10 * k + 5)), // O:convert_format.inv
//@|    decreases res - offset,
//@   loop 2 `char4_len < 4`
//@|    invariant
//@|        buf@ == d, res == d.len(), offset + 10 <= res, char4_len <= 4,
//@|        conv_id_len(d, offset as int, 0) == conv_id_len(d, offset as int, char4_len as int),
//@|        forall|i: int| 0 <= i < 4 ==> char4_buf@[i] == (if i < char4_len { d[offset + i] } else { 0u8 }),
//@|    decreases 4 - char4_len,
//@   loop 3 `char4_len < 4`
//@|    invariant
//@|        buf@ == d, res == d.len(), offset + 5 <= res, char4_len <= 4,
//@|        conv_id_len(d, offset as int, 0) == conv_id_len(d, offset as int, char4_len as int),
//@|        forall|i: int| 0 <= i < 4 ==> char4_buf@[i] == (if i < char4_len { d[offset + i] } else { 0u8 }),
//@|    decreases 4 - char4_len,
//@   hint before 1 `offset += 5;`
//@|    assert(char4_buf@ =~= conv_id(d, offset as int));
//@   hint before 2 `offset += 5;`
//@|    assert(char4_buf@ =~= conv_id(d, offset as int));
//@ end
// ---- end of units/filter/part.rs ----
