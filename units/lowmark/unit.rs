//@ unit lowmark
// C04 (reader clause): LowMarkBufReader hands out exactly the source's bytes, once and in order, keeps at least
// low_mark bytes of look-ahead until the source is exhausted and never signals end-of-data early.
#![allow(unused_imports, dead_code, unused_variables, unused_mut)]
use vstd::prelude::*;
use std::io::SeekFrom;
verus! {
global size_of usize == 8;

//@ include prelude/std_specs.rs
//@ include prelude/vread.rs

//@ include units/lowmark/part.rs

fn main() {}
} // verus!
