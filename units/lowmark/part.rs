// ---- units/lowmark/part.rs: LowMarkBufReader against the unread-stream view ----
#[verifier::external_body]
pub fn vx_boxed_zeroed(n: usize) -> (r: Box<[u8]>)
    ensures r@.len() == n,
{
    vec![0u8; n].into_boxed_slice()
}

// <&[u8] as std::io::Read>::read : copies min(len) bytes, advances the slice, never fails
#[verifier::external_body]
pub fn vx_slice_read<'a>(rem: &mut &'a [u8], buf: &mut [u8]) -> (r: std::io::Result<usize>)
    ensures
        r is Ok,
        final(buf)@.len() == old(buf)@.len(),
        ({
            let n = r->Ok_0 as int;
            &&& n == (if old(rem)@.len() <= old(buf)@.len() { old(rem)@.len() } else { old(buf)@.len() })
            &&& final(buf)@.subrange(0, n) == old(rem)@.subrange(0, n)
            &&& final(buf)@.subrange(n, old(buf)@.len() as int) == old(buf)@.subrange(n, old(buf)@.len() as int)
            &&& final(rem)@ == old(rem)@.skip(n)
        }),
{
    std::io::Read::read(rem, buf)
}

//@ extract src/utils/lowmarkbufreader.rs struct LowMarkBufReader
//@ end

//@ extract src/utils/lowmarkbufreader.rs const CACHE_LINE_SIZE
//@ end

// appending `read` bytes of the rest of the source behind a valid window gives a valid, longer window
pub proof fn lemma_refill_window(buf2: Seq<u8>, b1: Seq<u8>, r1: Seq<u8>, t: Seq<u8>, abs: int, cap: int, read: int)
    requires
        0 <= abs, 0 <= cap, 0 <= read <= r1.len(), cap + read <= buf2.len(), b1.len() == buf2.len(), abs + cap <= t.len(),
        r1 == t.skip(abs + cap),
        b1.subrange(0, cap) == t.subrange(abs, abs + cap),
        buf2.subrange(0, cap) == b1.subrange(0, cap),
        buf2.subrange(cap, cap + read) == r1.subrange(0, read),
    ensures
        buf2.subrange(0, cap + read) == t.subrange(abs, abs + cap + read),
        buf2.subrange(0, cap) == t.subrange(abs, abs + cap),
        r1.skip(read) == t.skip(abs + cap + read),
{
    assert forall|i: int| 0 <= i < cap + read implies #[trigger] buf2.subrange(0, cap + read)[i] == t.subrange(abs, abs + cap + read)[i] by {
        if i < cap {
            assert(buf2.subrange(0, cap)[i] == b1.subrange(0, cap)[i]);
            assert(b1.subrange(0, cap)[i] == t.subrange(abs, abs + cap)[i]);
        } else {
            assert(buf2.subrange(cap, cap + read)[i - cap] == r1.subrange(0, read)[i - cap]);
            assert(r1[i - cap] == t.skip(abs + cap)[i - cap]);
            assert(buf2.subrange(0, cap + read)[i] == buf2[i] && buf2.subrange(cap, cap + read)[i - cap] == buf2[i]);
        }
    }
    assert(buf2.subrange(0, cap + read) =~= t.subrange(abs, abs + cap + read));
    assert(r1.skip(read) =~= t.skip(abs + cap + read));
}

impl<R: VRead> LowMarkBufReader<R> {
    pub open spec fn buffered(&self) -> Seq<u8> { self.buf@.subrange(self.pos as int, self.cap as int) }
    pub open spec fn unread(&self) -> Seq<u8> { self.buffered() + self.inner.rest() }
    pub open spec fn wf(&self) -> bool {
        &&& self.pos <= self.cap <= self.buf@.len()
        &&& 0 < self.low_mark
        &&& self.low_mark + 4096 <= self.buf@.len()
        &&& (self.empty_last_read ==> self.inner.rest().len() == 0)
        &&& self.abs_pos + self.cap + self.inner.rest().len() <= usize::MAX
        // the source has delivered exactly the bytes before abs_pos + cap
        &&& self.abs_pos + self.cap <= self.inner.total().len()
        &&& self.inner.rest() == self.inner.total().skip(self.abs_pos + self.cap)
        // window validity: everything between the start of the buffer and cap (all of it can be handed out: the part from pos on
        // by fill_buf/read, the part before pos after a backward seek) holds the source's bytes at abs_pos ..
        &&& self.buf@.subrange(0, self.cap as int) == self.inner.total().subrange(self.abs_pos as int, self.abs_pos + self.cap)
    }
    // absolute stream position of the next unread byte
    pub open spec fn stream_pos(&self) -> int { self.abs_pos + self.pos }

//@ extract src/utils/lowmarkbufreader.rs LowMarkBufReader::new
//@   sub R3 `vec![0u8; capacity].into_boxed_slice()` => `vx_boxed_zeroed(capacity)`
//@   spec
//@|    requires
//@|        low_mark + 4096 <= capacity, // the two assert!s of new(): an inadmissible capacity panics by design
//@|        low_mark > 0,
//@|        inner.rest().len() <= usize::MAX,
//@|        inner.rest() == inner.total(), // a fresh source
//@|    ensures
//@|        r.wf(), // O:new.wf
//@|        r.unread() == inner.rest(), // O:new.unread
//@|        r.stream_pos() == 0,
//@|        r.low_mark == low_mark && r.buf@.len() == capacity,
//@   hint before `LowMarkBufReader {`
//@|    proof {
//@|        assert(inner.total().skip(0) =~= inner.total());
//@|        assert(buf@.subrange(0, 0) =~= inner.total().subrange(0, 0));
//@|    }
//@ end

//@ extract src/utils/lowmarkbufreader.rs LowMarkBufReader::buffer
//@   spec
//@|    requires self.wf(),
//@|    ensures r@ == self.buffered(), // O:buffer.eq
//@ end

//@ extract src/utils/lowmarkbufreader.rs LowMarkBufReader::capacity
//@   spec
//@|    ensures r == self.buf@.len(),
//@ end

//@ extract src/utils/lowmarkbufreader.rs LowMarkBufReader::fill_buf
//@   spec
//@|    requires old(self).wf(),
//@|    ensures
//@|        final(self).wf(), // O:fill.wf
//@|        final(self).unread() == old(self).unread(), // O:fill.frame
//@|        final(self).stream_pos() == old(self).stream_pos(), // O:fill.pos
//@|        final(self).low_mark == old(self).low_mark && final(self).buf@.len() == old(self).buf@.len(),
//@|        r is Ok ==> r->Ok_0@ == final(self).buffered(), // O:fill.prefix
//@|        r is Ok ==> (r->Ok_0@.len() >= old(self).low_mark || r->Ok_0@.len() == old(self).unread().len()), // O:fill.lowmark
//@|        r is Ok ==> (r->Ok_0@.len() == 0 ==> old(self).unread().len() == 0), // O:fill.eof
//@|        final(self).inner.never_fails() == old(self).inner.never_fails(),
//@|        final(self).inner.total() == old(self).inner.total(),
//@|        old(self).inner.never_fails() ==> r is Ok, // O:fill.no_spurious_error
//@   sub R14 `let read = self.inner.read(&mut self.buf[self.cap..` => `let vx_s: &mut [u8] = &mut *self.buf; let read = self.inner.read(&mut vx_s[self.cap..`
//@   hint before `let in_buf = self.cap - self.pos;`
//@|    let ghost bf0 = self.buffered();
//@|    let ghost t = self.inner.total();
//@|    let ghost (bufL, absL, capL) = (self.buf@, self.abs_pos as int, self.cap as int);
//@   hint before `let vx_s: &mut [u8]`
//@|    assert(self.buffered() =~= bf0); // O:fill.compact.frame
//@|    // after moving the data to the front the buffer still starts with the source's bytes at abs_pos
//@|    assert forall|i: int| 0 <= i < self.cap implies self.buf@[i] == t[self.abs_pos + i] by { // O:fill.compact.window
//@|        let j = i + (self.abs_pos - absL);
//@|        assert(bufL.subrange(0, capL)[j] == t.subrange(absL, absL + capL)[j]);
//@|    }
//@|    assert(self.buf@.subrange(0, self.cap as int) =~= t.subrange(self.abs_pos as int, self.abs_pos + self.cap));
//@|    let ghost b1 = self.buf@;
//@|    let ghost r1 = self.inner.rest();
//@   hint before `if read == 0 {`
//@|    assert(self.buf@.subrange(self.pos as int, self.cap as int + read as int) =~= b1.subrange(self.pos as int, self.cap as int) + r1.subrange(0, read as int)); // O:fill.refill.append
//@|    assert(r1 =~= r1.subrange(0, read as int) + r1.skip(read as int));
//@|    assert(self.buf@.subrange(0, self.cap as int) =~= b1.subrange(0, self.cap as int));
//@|    assert(self.buf@.subrange(self.cap as int, self.cap as int + read as int) =~= r1.subrange(0, read as int));
//@|    proof { lemma_refill_window(self.buf@, b1, r1, t, self.abs_pos as int, self.cap as int, read as int); }
//@|    assert(self.buf@.subrange(0, self.cap as int + read as int) == t.subrange(self.abs_pos as int, self.abs_pos + self.cap + read)); // O:fill.refill.window
//@   loop 1
//@|    invariant_except_break
//@|        !self.empty_last_read,
//@|    invariant
//@|        self.wf(), // O:fill.inv.wf
//@|        self.unread() == old(self).unread(), // O:fill.inv.frame
//@|        self.stream_pos() == old(self).stream_pos(), // O:fill.inv.pos
//@|        self.low_mark == old(self).low_mark && self.buf@.len() == old(self).buf@.len(),
//@|        self.inner.never_fails() == old(self).inner.never_fails(),
//@|        self.inner.total() == old(self).inner.total(),
//@|    ensures
//@|        self.buffered().len() >= self.low_mark || self.inner.rest().len() == 0, // O:fill.inv.lowmark
//@|    decreases self.inner.rest().len(),
//@ end

//@ extract src/utils/lowmarkbufreader.rs LowMarkBufReader::consume
//@   sub R3 `std::cmp::min(` => `vx_min_usize(`
//@   spec
//@|    requires
//@|        old(self).wf(),
//@|        old(self).pos + amt <= usize::MAX, // BufRead::consume: amt must not exceed what fill_buf returned
//@|    ensures
//@|        final(self).wf(), // O:consume.wf
//@|        final(self).unread() == old(self).unread().skip(if amt <= old(self).buffered().len() { amt as int } else { old(self).buffered().len() as int }), // O:consume.skip
//@|        final(self).stream_pos() == old(self).stream_pos() + (if amt <= old(self).buffered().len() { amt as int } else { old(self).buffered().len() as int }), // O:consume.pos
//@|        final(self).low_mark == old(self).low_mark && final(self).buf@.len() == old(self).buf@.len(),
//@|        final(self).inner == old(self).inner,
//@ end

//@ extract src/utils/lowmarkbufreader.rs LowMarkBufReader::read
//@   sub R3 `rem.read(buf)?` => `vx_slice_read(&mut rem, buf)?`
//@   spec
//@|    requires old(self).wf(),
//@|    ensures
//@|        final(self).wf(), // O:read.wf
//@|        final(buf)@.len() == old(buf)@.len(),
//@|        r is Ok ==> r->Ok_0 <= old(buf)@.len() && r->Ok_0 <= old(self).unread().len(), // O:read.len
//@|        r is Ok ==> final(buf)@.subrange(0, r->Ok_0 as int) == old(self).unread().subrange(0, r->Ok_0 as int), // O:read.data
//@|        r is Ok ==> final(self).unread() == old(self).unread().skip(r->Ok_0 as int), // O:read.once_in_order
//@|        r is Ok ==> final(self).stream_pos() == old(self).stream_pos() + r->Ok_0, // O:read.pos
//@|        r is Ok ==> (r->Ok_0 == 0 ==> old(buf)@.len() == 0 || old(self).unread().len() == 0), // O:read.eof
//@|        r is Err ==> final(self).unread() == old(self).unread(), // O:read.err_frame
//@|        final(self).inner.never_fails() == old(self).inner.never_fails(),
//@|        final(self).inner.total() == old(self).inner.total(),
//@|        old(self).inner.never_fails() ==> r is Ok,
//@ end

//@ extract src/utils/lowmarkbufreader.rs LowMarkBufReader::seek
//@   spec
//@|    requires old(self).wf(),
//@|    ensures
//@|        final(self).wf(), // O:seek.wf
//@|        r is Ok ==> final(self).stream_pos() == r->Ok_0, // O:seek.pos
//@|        // seeking never touches the source or the buffered window (apart from the initial fill when nothing was buffered)
//@|        old(self).cap != 0 ==> final(self).buf@ == old(self).buf@ && final(self).cap == old(self).cap && final(self).abs_pos == old(self).abs_pos && final(self).inner.rest() == old(self).inner.rest(), // O:seek.frame
//@|        r is Err && old(self).cap != 0 ==> final(self).pos == old(self).pos, // O:seek.err_frame
//@|        pos matches SeekFrom::Start(n) ==> (r is Ok ==> r->Ok_0 == n && final(self).abs_pos <= n <= final(self).abs_pos + final(self).cap), // O:seek.start
//@|        r is Ok ==> final(self).unread() == final(self).inner.total().skip(r->Ok_0 as int), // O:seek.bytes (after a successful seek the reader hands out the source's bytes from there)
//@|        final(self).inner.total() == old(self).inner.total(),
//@|    decreases (if pos is Current { 1int } else { 0int }),
//@   hint before `^Ok(n)`
//@|    proof {
//@|        let t = self.inner.total();
//@|        assert forall|k: int| 0 <= k < self.cap implies #[trigger] self.buf@[k] == t[self.abs_pos + k] by {
//@|            assert(self.buf@.subrange(0, self.cap as int)[k] == t.subrange(self.abs_pos as int, self.abs_pos + self.cap)[k]);
//@|        }
//@|        assert(self.unread() =~= t.skip(n as int));
//@|    }
//@ end
}
// ---- end of units/lowmark/part.rs ----
