// ---- units/dltiter/stream.rs: property-level theorems over the oracle (no code from /repo) ----
// C01 as stated: a stream of well-formed frames of one framing separated by marker-free garbage is read back as exactly
// those frames; skipped bytes = garbage; processed <= input. Proved over spec_next / spec_drain, which the real
// DltMessageIterator::next is proved to implement (part.rs).

pub proof fn lemma_skip_pat(u: Seq<u8>, i: int)
    requires u.len() >= 1, i >= 0,
    ensures sh_pat(u.skip(1), i) == sh_pat(u, i + 1), ser_pat(u.skip(1), i) == ser_pat(u, i + 1),
{}

// what a reader must recover from the bytes of one storage-framed / serial-framed message f (context free)
pub open spec fn decode_sto(f: Seq<u8>, index: int) -> AMsg { spec_msg_at(f, 16, index, storage_rtime(f), f.subrange(12, 16)) }
pub open spec fn decode_ser(f: Seq<u8>, index: int) -> AMsg { spec_msg_at(f, 4, index, serial_rtime(), serial_ecu()) }

pub open spec fn no_marker_in(u: Seq<u8>, lo: int, hi: int, except: int) -> bool {
    forall|i: int| lo <= i < hi && i != except ==> !sh_pat(u, i) && !ser_pat(u, i)
}
// a well-formed storage frame of n bytes starts at offset g of u; no marker of either kind starts in [0, g+n) except at g
pub open spec fn frame_sto_at(u: Seq<u8>, g: int, n: int) -> bool {
    &&& 0 <= g && 20 <= n && g + n <= u.len()
    &&& sh_pat(u, g)
    &&& n == 16 + be16(u[g + 18], u[g + 19])
    &&& be16(u[g + 18], u[g + 19]) >= hdr_size(u[g + 16])
    &&& no_marker_in(u, 0, g + n, g)
}
pub open spec fn frame_ser_at(u: Seq<u8>, g: int, n: int) -> bool {
    &&& 0 <= g && 8 <= n && g + n <= u.len()
    &&& ser_pat(u, g)
    &&& n == 4 + be16(u[g + 6], u[g + 7])
    &&& be16(u[g + 6], u[g + 7]) >= hdr_size(u[g + 4])
    &&& no_marker_in(u, 0, g + n, g)
}

pub proof fn lemma_msg_at_local(u: Seq<u8>, n: int, off: int, index: int, rt: int, e: Seq<u8>)
    requires 0 <= off, off + 4 <= n <= u.len(), off + hdr_size(u[off]) <= off + be16(u[off + 2], u[off + 3]), off + be16(u[off + 2], u[off + 3]) <= n,
    ensures spec_msg_at(u, off, index, rt, e) == spec_msg_at(u.subrange(0, n), off, index, rt, e),
{
    let f = u.subrange(0, n);
    let h = hdr_size(u[off]);
    let l = be16(u[off + 2], u[off + 3]);
    lemma_hdr_size_bounds(u[off]);
    let a = spec_msg_at(u, off, index, rt, e);
    let b = spec_msg_at(f, off, index, rt, e);
    assert(f[off] == u[off] && f[off + 1] == u[off + 1] && f[off + 2] == u[off + 2] && f[off + 3] == u[off + 3]);
    assert(a.payload =~= b.payload);
    if u[off] & 4 != 0 { assert(u.subrange(off + 4, off + 8) =~= f.subrange(off + 4, off + 8)); }
    if u[off] & 1 != 0 {
        assert(u.subrange(off + h - 8, off + h - 4) =~= f.subrange(off + h - 8, off + h - 4));
        assert(u.subrange(off + h - 4, off + h) =~= f.subrange(off + h - 4, off + h));
    }
    assert(a.ecu == b.ecu);
    assert(a.ext == b.ext);
    assert(a.timestamp_dms == b.timestamp_dms);
}

// O:lemma.stream_storage
pub proof fn lemma_next_storage(u: Seq<u8>, g: int, n: int, det_sto: bool, index: int)
    requires frame_sto_at(u, g, n),
    ensures ({
        let s = spec_next(u, det_sto, false, index);
        &&& s.msg == Some(decode_sto(u.subrange(g, g + n), index)) // O:lemma.stream_storage.msg
        &&& s.consumed == g + n && s.skipped == g && s.det_sto && !s.det_ser // O:lemma.stream_storage.counts
    }),
    decreases g,
{
    reveal(spec_parse_storage); reveal(spec_parse_serial);
    if g == 0 {
        assert(!inner_sh(u, n)) by {
            assert forall|i: int| 5 <= i < n implies !sh_pat(u, i) by {}
        }
        lemma_hdr_size_bounds(u[16]);
        assert(spec_parse_storage(u, index) is Msg);
        let f = u.subrange(0, n);
        lemma_msg_at_local(u, n, 16, index, storage_rtime(u), u.subrange(12, 16));
        assert(u.subrange(12, 16) =~= f.subrange(12, 16));
        assert(storage_rtime(u) == storage_rtime(f));
    } else {
        assert(!sh_pat(u, 0) && !ser_pat(u, 0));
        assert(u.len() >= 21);
        let v = u.skip(1);
        assert(frame_sto_at(v, g - 1, n)) by {
            assert forall|i: int| 0 <= i < g - 1 + n && i != g - 1 implies !sh_pat(v, i) && !ser_pat(v, i) by {
                lemma_skip_pat(u, i);
            }
            lemma_skip_pat(u, g - 1);
            assert(v[g - 1 + 18] == u[g + 18] && v[g - 1 + 19] == u[g + 19] && v[g - 1 + 16] == u[g + 16]);
        }
        lemma_next_storage(v, g - 1, n, det_sto, index);
        assert(v.subrange(g - 1, g - 1 + n) =~= u.subrange(g, g + n));
    }
}

// O:lemma.stream_serial -- no side condition on the stream length (finding F1, fixed in /repo: a serial frame within the
// last 19 bytes of the stream used to be missed by a reader that had not latched a framing yet).
pub proof fn lemma_next_serial(u: Seq<u8>, g: int, n: int, det_ser: bool, index: int)
    requires
        frame_ser_at(u, g, n),
    ensures ({
        let s = spec_next(u, false, det_ser, index);
        &&& s.msg == Some(decode_ser(u.subrange(g, g + n), index)) // O:lemma.stream_serial.msg
        &&& s.consumed == g + n && s.skipped == g && !s.det_sto && s.det_ser // O:lemma.stream_serial.counts
    }),
    decreases g,
{
    reveal(spec_parse_storage); reveal(spec_parse_serial);
    if g == 0 {
        assert(!inner_ser(u, n)) by {
            assert forall|i: int| 5 <= i < n implies !ser_pat(u, i) by {}
        }
        lemma_hdr_size_bounds(u[4]);
        assert(!sh_pat(u, 0));
        assert(spec_parse_serial(u, index) is Msg);
        let f = u.subrange(0, n);
        lemma_msg_at_local(u, n, 4, index, serial_rtime(), serial_ecu());
    } else {
        assert(!sh_pat(u, 0) && !ser_pat(u, 0));
        let v = u.skip(1);
        assert(frame_ser_at(v, g - 1, n)) by {
            assert forall|i: int| 0 <= i < g - 1 + n && i != g - 1 implies !sh_pat(v, i) && !ser_pat(v, i) by {
                lemma_skip_pat(u, i);
            }
            lemma_skip_pat(u, g - 1);
            assert(v[g - 1 + 6] == u[g + 6] && v[g - 1 + 7] == u[g + 7] && v[g - 1 + 4] == u[g + 4]);
        }
        lemma_next_serial(v, g - 1, n, det_ser, index);
        assert(v.subrange(g - 1, g - 1 + n) =~= u.subrange(g, g + n));
    }
}

// O:lemma.tail -- marker-free bytes yield no message; everything but a run shorter than a minimal message is consumed
pub proof fn lemma_next_tail(u: Seq<u8>, det_sto: bool, det_ser: bool, index: int)
    requires no_marker_in(u, 0, u.len() as int, -1), !(det_sto && det_ser),
    ensures ({
        let s = spec_next(u, det_sto, det_ser, index);
        &&& s.msg is None // O:lemma.tail.none
        &&& s.consumed == s.skipped && 0 <= s.consumed <= u.len() && u.len() - s.consumed < 20 // O:lemma.tail.counts
        &&& s.det_sto == det_sto && s.det_ser == det_ser
    }),
    decreases u.len(),
{
    reveal(spec_parse_storage); reveal(spec_parse_serial);
    assert(!sh_pat(u, 0) && !ser_pat(u, 0));
    if u.len() > 0 {
        let v = u.skip(1);
        assert forall|i: int| 0 <= i < v.len() && i != -1 implies !sh_pat(v, i) && !ser_pat(v, i) by {
            lemma_skip_pat(u, i);
        }
        lemma_next_tail(v, det_sto, det_ser, index);
    }
}

// ---- whole-stream view: repeated next() until None ----
pub struct SDrain { pub msgs: Seq<AMsg>, pub consumed: int, pub skipped: int }
pub open spec fn spec_drain(u: Seq<u8>, det_sto: bool, det_ser: bool, index: int) -> SDrain
    decreases u.len()
{
    let s = spec_next(u, det_sto, det_ser, index);
    if s.msg is None || s.consumed <= 0 || s.consumed > u.len() {
        SDrain { msgs: Seq::empty(), consumed: s.consumed, skipped: s.skipped }
    } else {
        let r = spec_drain(u.skip(s.consumed), s.det_sto, s.det_ser, index + 1);
        SDrain { msgs: seq![s.msg->Some_0] + r.msgs, consumed: s.consumed + r.consumed, skipped: s.skipped + r.skipped }
    }
}

// segments: (garbage length, frame length) pairs; after the last frame only marker-free bytes
pub open spec fn stream_sto(u: Seq<u8>, segs: Seq<(int, int)>) -> bool
    decreases segs.len()
{
    if segs.len() == 0 { no_marker_in(u, 0, u.len() as int, -1) }
    else { frame_sto_at(u, segs[0].0, segs[0].1) && stream_sto(u.skip(segs[0].0 + segs[0].1), segs.skip(1)) }
}
pub open spec fn stream_ser(u: Seq<u8>, segs: Seq<(int, int)>) -> bool
    decreases segs.len()
{
    if segs.len() == 0 { no_marker_in(u, 0, u.len() as int, -1) }
    else { frame_ser_at(u, segs[0].0, segs[0].1) && stream_ser(u.skip(segs[0].0 + segs[0].1), segs.skip(1)) }
}
pub open spec fn expected_sto(u: Seq<u8>, segs: Seq<(int, int)>, index: int) -> Seq<AMsg>
    decreases segs.len()
{
    if segs.len() == 0 { Seq::empty() }
    else { seq![decode_sto(u.subrange(segs[0].0, segs[0].0 + segs[0].1), index)] + expected_sto(u.skip(segs[0].0 + segs[0].1), segs.skip(1), index + 1) }
}
pub open spec fn expected_ser(u: Seq<u8>, segs: Seq<(int, int)>, index: int) -> Seq<AMsg>
    decreases segs.len()
{
    if segs.len() == 0 { Seq::empty() }
    else { seq![decode_ser(u.subrange(segs[0].0, segs[0].0 + segs[0].1), index)] + expected_ser(u.skip(segs[0].0 + segs[0].1), segs.skip(1), index + 1) }
}
pub open spec fn frames_len(segs: Seq<(int, int)>) -> int
    decreases segs.len()
{
    if segs.len() == 0 { 0 } else { segs[0].1 + frames_len(segs.skip(1)) }
}

// O:drain.storage -- the property statement for the storage framing
pub proof fn theorem_drain_storage(u: Seq<u8>, segs: Seq<(int, int)>, det_sto: bool, index: int)
    requires stream_sto(u, segs),
    ensures ({
        let d = spec_drain(u, det_sto, false, index);
        &&& d.msgs == expected_sto(u, segs, index) // O:drain.storage.msgs
        &&& d.consumed - d.skipped == frames_len(segs) // O:drain.storage.skipped_is_garbage
        &&& 0 <= d.consumed <= u.len() && u.len() - d.consumed < 20 // O:drain.storage.processed
    }),
    decreases segs.len(),
{
    if segs.len() == 0 {
        lemma_next_tail(u, det_sto, false, index);
    } else {
        let g = segs[0].0;
        let n = segs[0].1;
        lemma_next_storage(u, g, n, det_sto, index);
        theorem_drain_storage(u.skip(g + n), segs.skip(1), true, index + 1);
    }
}

// O:drain.serial -- the property statement for the serial framing
pub proof fn theorem_drain_serial(u: Seq<u8>, segs: Seq<(int, int)>, det_ser: bool, index: int)
    requires
        stream_ser(u, segs),
    ensures ({
        let d = spec_drain(u, false, det_ser, index);
        &&& d.msgs == expected_ser(u, segs, index) // O:drain.serial.msgs
        &&& d.consumed - d.skipped == frames_len(segs) // O:drain.serial.skipped_is_garbage
        &&& 0 <= d.consumed <= u.len() && u.len() - d.consumed < 20 // O:drain.serial.processed
    }),
    decreases segs.len(),
{
    if segs.len() == 0 {
        lemma_next_tail(u, false, det_ser, index);
    } else {
        let g = segs[0].0;
        let n = segs[0].1;
        lemma_next_serial(u, g, n, det_ser, index);
        theorem_drain_serial(u.skip(g + n), segs.skip(1), true, index + 1);
    }
}

pub proof fn lemma_spec_next_bounds(u: Seq<u8>, det_sto: bool, det_ser: bool, index: int)
    ensures ({
        let s = spec_next(u, det_sto, det_ser, index);
        &&& 0 <= s.skipped <= s.consumed <= u.len()
        &&& (s.msg is Some ==> s.consumed >= s.skipped + 8)
        &&& (!(det_sto && det_ser) ==> !(s.det_sto && s.det_ser))
    }),
    decreases u.len(),
{
    lemma_parse_bounds(u, index);
    lemma_parse_bounds_ser(u, index);
    if u.len() > 0 {
        lemma_spec_next_bounds(u.skip(1), det_sto, det_ser, index);
    }
}

// verified client: call the real next() until it returns None (what `for msg in iterator` does)
pub fn drain<'a, R: VBufRead>(it: &mut DltMessageIterator<'a, R>) -> (out: Vec<DltMessage>)
    requires
        old(it).wf(),
        old(it).index as int + old(it).reader.unread().len() < u32::MAX,
    ensures ({
        let d = spec_drain(old(it).reader.unread(), old(it).detected_storage_header, old(it).detected_serial_header, old(it).index as int);
        &&& out@.len() == d.msgs.len() // O:drain.client.count
        &&& (forall|i: int| 0 <= i < out@.len() ==> (#[trigger] out@[i])@ == d.msgs[i] && out@[i].fresh()) // O:drain.client.msgs
        &&& final(it).bytes_processed == old(it).bytes_processed + d.consumed // O:drain.client.processed
        &&& final(it).bytes_skipped == old(it).bytes_skipped + d.skipped // O:drain.client.skipped
        &&& final(it).index == old(it).index + d.msgs.len() // O:drain.client.index
        &&& final(it).reader.unread() == old(it).reader.unread().skip(d.consumed)
        &&& final(it).wf()
    }),
{
    let mut out: Vec<DltMessage> = Vec::new();
    let ghost u0 = it.reader.unread();
    let ghost d0 = spec_drain(u0, it.detected_storage_header, it.detected_serial_header, it.index as int);
    let ghost c: int = 0;
    let ghost sk: int = 0;
    loop
        invariant_except_break
            0 <= c <= u0.len(),
            it.reader.unread() == u0.skip(c),
            it.index as int + it.reader.unread().len() < u32::MAX,
            it.index == old(it).index + out@.len(),
            it.bytes_processed == old(it).bytes_processed + c,
            it.bytes_skipped == old(it).bytes_skipped + sk,
            ({
                let dc = spec_drain(it.reader.unread(), it.detected_storage_header, it.detected_serial_header, it.index as int);
                &&& d0.msgs.len() == out@.len() + dc.msgs.len()
                &&& d0.consumed == c + dc.consumed
                &&& d0.skipped == sk + dc.skipped
                &&& (forall|i: int| 0 <= i < out@.len() ==> (#[trigger] out@[i])@ == d0.msgs[i] && out@[i].fresh())
                &&& (forall|j: int| 0 <= j < dc.msgs.len() ==> #[trigger] dc.msgs[j] == d0.msgs[out@.len() + j])
            }),
        invariant
            it.wf(),
            u0 == old(it).reader.unread(),
            d0 == spec_drain(u0, old(it).detected_storage_header, old(it).detected_serial_header, old(it).index as int),
        ensures
            it.wf(),
            out@.len() == d0.msgs.len(),
            forall|i: int| 0 <= i < out@.len() ==> (#[trigger] out@[i])@ == d0.msgs[i] && out@[i].fresh(),
            it.bytes_processed == old(it).bytes_processed + d0.consumed,
            it.bytes_skipped == old(it).bytes_skipped + d0.skipped,
            it.index == old(it).index + d0.msgs.len(),
            it.reader.unread() == u0.skip(d0.consumed),
        decreases it.reader.unread().len(),
    {
        let ghost ucur = it.reader.unread();
        let ghost ds = it.detected_storage_header;
        let ghost dr = it.detected_serial_header;
        let ghost idx = it.index as int;
        proof { lemma_spec_next_bounds(ucur, ds, dr, idx); }
        let ghost s = spec_next(ucur, ds, dr, idx);
        let ghost dc = spec_drain(ucur, ds, dr, idx);
        match it.next() {
            Some(m) => {
                proof {
                    let dn = spec_drain(ucur.skip(s.consumed), s.det_sto, s.det_ser, idx + 1);
                    assert(dc.msgs == seq![s.msg->Some_0] + dn.msgs);
                    assert(dc.msgs[0] == s.msg->Some_0);
                    assert forall|j: int| 0 <= j < dn.msgs.len() implies #[trigger] dn.msgs[j] == d0.msgs[out@.len() + 1 + j] by {
                        assert(dn.msgs[j] == dc.msgs[j + 1]);
                    }
                    assert(u0.skip(c).skip(s.consumed) =~= u0.skip(c + s.consumed));
                    c = c + s.consumed;
                    sk = sk + s.skipped;
                }
                out.push(m);
            }
            None => {
                proof {
                    assert(dc.msgs.len() == 0);
                    assert(u0.skip(c).skip(s.consumed) =~= u0.skip(c + s.consumed));
                    c = c + s.consumed;
                    sk = sk + s.skipped;
                }
                break;
            }
        }
    }
    out
}
// ---- end of units/dltiter/stream.rs ----
