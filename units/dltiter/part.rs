// ---- units/dltiter/part.rs: DltMessageIterator::next against spec_next (a function of the unread bytes only) ----

pub broadcast proof fn lemma_parse_bounds(d: Seq<u8>, index: int)
    ensures
        (#[trigger] spec_parse_storage(d, index) matches SParse::Msg(n, _) ==> 20 <= n <= d.len()),
        (spec_parse_storage(d, index) is Invalid ==> d.len() >= 20),
{
    reveal(spec_parse_storage);
    lemma_hdr_size_bounds(d[16]);
}
pub broadcast proof fn lemma_parse_bounds_ser(d: Seq<u8>, index: int)
    ensures
        (#[trigger] spec_parse_serial(d, index) matches SParse::Msg(n, _) ==> 8 <= n <= d.len()),
        (spec_parse_serial(d, index) is Invalid ==> d.len() >= 8),
{
    reveal(spec_parse_serial);
    lemma_hdr_size_bounds(d[4]);
}
// s.skip(a).skip(b) == s.skip(a + b), stated once here so that callers need no sequence extensionality of their own
pub proof fn lemma_skip_skip(s: Seq<u8>, a: int, b: int)
    requires 0 <= a, 0 <= b, a + b <= s.len(),
    ensures s.skip(a).skip(b) == s.skip(a + b), s.skip(a).len() == s.len() - a,
{
    assert(s.skip(a).skip(b) =~= s.skip(a + b));
}
pub proof fn lemma_hdr_size_bounds(h: u8)
    ensures 4 <= hdr_size(h) <= 26,
{}

// ---- ASSUMED contract of the buffered reader handed to the iterator (rule R7, std::io::BufRead) ----
// fill_buf shows a prefix of the unread stream that *decides the parse* (established for LowMarkBufReader in unit lowmark
// under low_mark >= DLT_MAX_STORAGE_MSG_SIZE + 4, see lemma_prefix_decides). fill_buf returning Err is outside the
// contract: the real next() calls fill_buf().unwrap().
pub trait VBufRead: Sized {
    spec fn unread(&self) -> Seq<u8>;
    spec fn avail(&self) -> int;  // number of bytes currently buffered (std: consume(amt) needs amt <= what fill_buf returned)
    spec fn inv(&self) -> bool;   // the reader's own invariant (for LowMarkBufReader: wf(), low mark large enough, source never fails)
    fn fill_buf(&mut self) -> (r: std::io::Result<&[u8]>)
        requires old(self).inv(),
        ensures
            final(self).inv(),
            final(self).unread() == old(self).unread(),
            r is Ok,
            r->Ok_0@.len() == final(self).avail(),
            final(self).avail() <= old(self).unread().len(),
            forall|index: int| #[trigger] spec_parse_storage(r->Ok_0@, index) == spec_parse_storage(old(self).unread(), index),
            forall|index: int| #[trigger] spec_parse_serial(r->Ok_0@, index) == spec_parse_serial(old(self).unread(), index),
            sh_pat(r->Ok_0@, 0) == sh_pat(old(self).unread(), 0);
    fn consume(&mut self, amt: usize)
        requires old(self).inv(), amt <= old(self).avail(),
        ensures final(self).inv(), final(self).unread() == old(self).unread().skip(amt as int), final(self).avail() == old(self).avail() - amt;
}

#[verifier::external_body]
pub struct VxLogger { _p: u8 }

//@ extract src/utils/dltmessageiterator.rs struct DltMessageIterator
//@   sub R11 `slog::Logger` => `VxLogger`
//@ end

// ---- the spec of one call of next(): a function of the unread stream, the two latched mode flags and the index ----
pub struct SNext { pub msg: Option<AMsg>, pub consumed: int, pub skipped: int, pub det_sto: bool, pub det_ser: bool }

pub open spec fn spec_next(u: Seq<u8>, det_sto: bool, det_ser: bool, index: int) -> SNext
    decreases u.len()
{
    let sto = spec_parse_storage(u, index);
    let ser = spec_parse_serial(u, index);
    if !det_ser && sto is Msg {
        SNext { msg: Some(sto->Msg_1), consumed: sto->Msg_0, skipped: 0, det_sto: true, det_ser }
    } else if !det_ser && sto is NotEnough && (det_sto || sh_pat(u, 0)) {
        // too short for a storage-framed message: stop, unless nothing is latched yet and the data does not start with
        // a storage marker (then a shorter serial-framed message is still possible and is tried below)
        SNext { msg: None, consumed: 0, skipped: 0, det_sto, det_ser }
    } else if !det_ser && det_sto {
        // invalid, storage framing latched: skip one byte
        if u.len() == 0 { SNext { msg: None, consumed: 0, skipped: 0, det_sto, det_ser } } else {
        let r = spec_next(u.skip(1), det_sto, det_ser, index);
        SNext { msg: r.msg, consumed: r.consumed + 1, skipped: r.skipped + 1, det_sto: r.det_sto, det_ser: r.det_ser } }
    } else {
        // serial attempt (serial latched, or nothing latched and the storage parser found no message)
        if ser is Msg {
            SNext { msg: Some(ser->Msg_1), consumed: ser->Msg_0, skipped: 0, det_sto, det_ser: true }
        } else if ser is NotEnough {
            SNext { msg: None, consumed: 0, skipped: 0, det_sto, det_ser }
        } else if u.len() == 0 { SNext { msg: None, consumed: 0, skipped: 0, det_sto, det_ser } } else {
            let r = spec_next(u.skip(1), det_sto, det_ser, index);
            SNext { msg: r.msg, consumed: r.consumed + 1, skipped: r.skipped + 1, det_sto: r.det_sto, det_ser: r.det_ser }
        }
    }
}

impl<'a, R: VBufRead> DltMessageIterator<'a, R> {
    pub open spec fn wf(&self) -> bool {
        &&& self.reader.inv()
        &&& !(self.detected_storage_header && self.detected_serial_header)
        &&& self.bytes_skipped <= self.bytes_processed
        &&& self.bytes_processed + self.reader.unread().len() <= usize::MAX
    }

//@ extract src/utils/dltmessageiterator.rs DltMessageIterator::new
//@   spec
//@|    requires reader.unread().len() <= usize::MAX, reader.inv(),
//@|    ensures
//@|        r.wf(), // O:iter.new.wf
//@|        r.index == start_index && r.bytes_processed == 0 && r.bytes_skipped == 0,
//@|        !r.detected_storage_header && !r.detected_serial_header,
//@|        r.reader.unread() == reader.unread(),
//@ end

//@ extract src/utils/dltmessageiterator.rs <Iterator for DltMessageIterator>::next
//@   sub R8 `Self::Item` => `DltMessage`
//@   sub R8 `crate::dlt::ErrorKind::InvalidData` => `ErrorKind::InvalidData` x2
//@   sub R6 `reason.to_owned()` => `vx_opaque_string()`
//@   ret ret
//@   spec
//@|    requires old(self).wf(), old(self).index < u32::MAX,
//@|    ensures
//@|        final(self).wf(), // O:next.wf
//@|        ({
//@|            let s = spec_next(old(self).reader.unread(), old(self).detected_storage_header, old(self).detected_serial_header, old(self).index as int);
//@|            &&& (ret is Some <==> s.msg is Some) // O:next.yield
//@|            &&& (ret is Some ==> ret->Some_0@ == s.msg->Some_0 && ret->Some_0.fresh() && final(self).index == old(self).index + 1) // O:next.msg
//@|            &&& (ret is None ==> final(self).index == old(self).index)
//@|            &&& final(self).reader.unread() == old(self).reader.unread().skip(s.consumed) // O:next.consumed
//@|            &&& final(self).bytes_processed == old(self).bytes_processed + s.consumed // O:next.bytes_processed
//@|            &&& final(self).bytes_skipped == old(self).bytes_skipped + s.skipped // O:next.bytes_skipped
//@|            &&& final(self).detected_storage_header == s.det_sto
//@|            &&& final(self).detected_serial_header == s.det_ser
//@|        }),
//@   hint before `loop`
//@|    let ghost u0 = self.reader.unread();
//@|    let ghost k: int = 0;   // bytes skipped so far in this call
//@|    broadcast use lemma_parse_bounds, lemma_parse_bounds_ser;
//@   hint loopstart 1
//@|    broadcast use lemma_parse_bounds, lemma_parse_bounds_ser;
//@   loop 1
//@|    invariant
//@|        self.wf(),
//@|        self.index == old(self).index,
//@|        self.detected_storage_header == old(self).detected_storage_header,
//@|        self.detected_serial_header == old(self).detected_serial_header,
//@|        0 <= k <= u0.len(),
//@|        self.reader.unread() == u0.skip(k), // O:next.inv.unread
//@|        self.bytes_processed == old(self).bytes_processed + k, // O:next.inv.processed
//@|        self.bytes_skipped == old(self).bytes_skipped + k, // O:next.inv.skipped
//@|        u0 == old(self).reader.unread(),
//@|        self.index < u32::MAX,
//@|        ({
//@|            let s0 = spec_next(u0, self.detected_storage_header, self.detected_serial_header, self.index as int);
//@|            let s = spec_next(u0.skip(k), self.detected_storage_header, self.detected_serial_header, self.index as int);
//@|            s0.msg == s.msg && s0.consumed == s.consumed + k && s0.skipped == s.skipped + k && s0.det_sto == s.det_sto && s0.det_ser == s.det_ser
//@|        }), // O:next.inv.spec
//@|    ensures
//@|        self.wf(),
//@|        self.index == old(self).index,
//@|        self.detected_storage_header == old(self).detected_storage_header,
//@|        self.detected_serial_header == old(self).detected_serial_header,
//@|        0 <= k <= u0.len(),
//@|        self.reader.unread() == u0.skip(k),
//@|        self.bytes_processed == old(self).bytes_processed + k,
//@|        self.bytes_skipped == old(self).bytes_skipped + k,
//@|        ({
//@|            let s0 = spec_next(u0, self.detected_storage_header, self.detected_serial_header, self.index as int);
//@|            s0.msg is None && s0.consumed == k && s0.skipped == k && s0.det_sto == self.detected_storage_header && s0.det_ser == self.detected_serial_header
//@|        }), // O:next.stop
//@|    decreases u0.len() - k,
//@   hint before 1 `self.detected_storage_header = true;`
//@|    proof { lemma_skip_skip(u0, k, res as int); }
//@   hint before 1 `self.reader.consume(1);`
//@|    proof { lemma_skip_skip(u0, k, 1); }
//@   hint after 1 `self.reader.consume(1);`
//@|    proof { k = k + 1; }
//@   hint before 1 `self.detected_serial_header = true;`
//@|    proof { lemma_skip_skip(u0, k, res as int); }
//@   hint before 2 `self.reader.consume(1);`
//@|    proof { lemma_skip_skip(u0, k, 1); }
//@   hint after 2 `self.reader.consume(1);`
//@|    proof { k = k + 1; }
//@ end
}
// ---- end of units/dltiter/part.rs ----
