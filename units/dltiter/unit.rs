//@ unit dltiter
// C01/C04: DltMessageIterator::next equals spec_next, a function of the unread bytes, the latched framing and the index only.
#![allow(unused_imports, dead_code, unused_variables, unused_mut, non_upper_case_globals)]
use vstd::prelude::*;
verus! {
global size_of usize == 8;

//@ include prelude/std_specs.rs
//@ include units/dltcore/part.rs
//@ include units/dltiter/part.rs
//@ include units/dltiter/stream.rs

fn main() {}
} // verus!
