// ---- units/dltwrite/part.rs: serialisation (to_write) against spec_ser; round trip and normal form (C02) ----

#[verifier::external_body]
pub fn vx_u32_to_le_bytes(x: u32) -> (r: [u8; 4])
    ensures le32(r[0], r[1], r[2], r[3]) == x as int, r@ == le32_bytes(x as int),
{ u32::to_le_bytes(x) }
#[verifier::external_body]
pub fn vx_u32_to_be_bytes(x: u32) -> (r: [u8; 4])
    ensures be32(r[0], r[1], r[2], r[3]) == x as int, r@ == be32_bytes(x as int),
{ u32::to_be_bytes(x) }
#[verifier::external_body]
pub fn vx_u16_to_be_bytes(x: u16) -> (r: [u8; 2])
    ensures be16(r[0], r[1]) == x as int, r@ == be16_bytes(x as int),
{ u16::to_be_bytes(x) }
// <Vec<u8> as std::io::Write>::write_all : appends, never fails (rule R9)
#[verifier::external_body]
pub fn vx_write_all(w: &mut Vec<u8>, buf: &[u8]) -> (r: Result<(), std::io::Error>)
    ensures r is Ok, final(w)@ == old(w)@ + buf@,
{ std::io::Write::write_all(w, buf) }

pub open spec fn le32_bytes(x: int) -> Seq<u8> {
    seq![(x % 256) as u8, ((x / 256) % 256) as u8, ((x / 65536) % 256) as u8, ((x / 16777216) % 256) as u8]
}
pub open spec fn be32_bytes(x: int) -> Seq<u8> {
    seq![((x / 16777216) % 256) as u8, ((x / 65536) % 256) as u8, ((x / 256) % 256) as u8, (x % 256) as u8]
}
pub open spec fn be16_bytes(x: int) -> Seq<u8> { seq![((x / 256) % 256) as u8, (x % 256) as u8] }
pub proof fn lemma_u32_split(x: u32)
    ensures x == (x % 256) + 256 * ((x / 256) % 256) + 65536 * ((x / 65536) % 256) + 16777216 * ((x / 16777216) % 256), x / 16777216 < 256,
{
    assert(x == (x % 256) + 256 * ((x / 256) % 256) + 65536 * ((x / 65536) % 256) + 16777216 * ((x / 16777216) % 256) && x / 16777216 < 256) by(bit_vector);
}
pub proof fn lemma_u16_split(x: u16)
    ensures x == (x % 256) + 256 * ((x / 256) % 256), x / 256 < 256,
{
    assert(x == (x % 256) + 256 * ((x / 256) % 256) && x / 256 < 256) by(bit_vector);
}
pub proof fn lemma_le32_bytes(x: int)
    requires 0 <= x < 0x1_0000_0000,
    ensures le32(le32_bytes(x)[0], le32_bytes(x)[1], le32_bytes(x)[2], le32_bytes(x)[3]) == x,
        be32(be32_bytes(x)[0], be32_bytes(x)[1], be32_bytes(x)[2], be32_bytes(x)[3]) == x,
{
    lemma_u32_split(x as u32);
}
pub proof fn lemma_be16_bytes(x: int)
    requires 0 <= x < 0x1_0000,
    ensures be16(be16_bytes(x)[0], be16_bytes(x)[1]) == x,
{
    lemma_u16_split(x as u16);
}

// ---------- oracle: serialised form of a message ----------
pub open spec fn norm_htyp(h: u8, has_ext: bool) -> u8 {
    (0x20u8 | (h & 2) | (h & 16) | (if has_ext { 1u8 } else { 0u8 })) as u8
}
pub open spec fn ser_ext(e: AExt) -> Seq<u8> { seq![e.verb_mstp_mtin, e.noar] + e.apid + e.ctid }
pub open spec fn ser_len(a: AMsg) -> int {
    4 + (if a.htyp & 16 != 0 { 4int } else { 0 }) + (if a.ext is Some { 10int } else { 0 }) + a.payload.len()
}
pub open spec fn ser_msg(a: AMsg) -> Seq<u8> {
    seq![0x44u8, 0x4cu8, 0x54u8, 0x01u8]
        + le32_bytes(a.reception_time_us / 1_000_000) + le32_bytes(a.reception_time_us % 1_000_000) + a.ecu
        + seq![norm_htyp(a.htyp, a.ext is Some), a.mcnt] + be16_bytes(ser_len(a))
        + (if a.htyp & 16 != 0 { be32_bytes(a.timestamp_dms) } else { Seq::<u8>::empty() })
        + (if a.ext is Some { ser_ext(a.ext->Some_0) } else { Seq::<u8>::empty() })
        + a.payload
}
// what every message produced by the parsers satisfies (and what to_write needs)
pub open spec fn amsg_wf(a: AMsg) -> bool {
    &&& a.ecu.len() == 4
    &&& 0 <= a.reception_time_us && a.reception_time_us / 1_000_000 <= u32::MAX
    &&& 0 <= a.timestamp_dms <= u32::MAX
    &&& (a.ext is Some ==> a.ext->Some_0.apid.len() == 4 && a.ext->Some_0.ctid.len() == 4)
    &&& ser_len(a) <= 65535
}

impl DltStorageHeader {
//@ extract src/dlt/mod.rs DltStorageHeader::from_msg
//@   sub R2 `crate::utils::US_PER_SEC` => `US_PER_SEC` x2
//@   spec
//@|    requires msg.reception_time_us / 1_000_000 <= u32::MAX,
//@|    ensures
//@|        r.secs as int == msg.reception_time_us as int / 1_000_000 && r.micros as int == msg.reception_time_us as int % 1_000_000, // O:sh.from_msg
//@|        r.ecu == msg.ecu,
//@ end
//@ extract src/dlt/mod.rs DltStorageHeader::to_write
//@   sub R9 `&mut impl std::io::Write` => `&mut Vec<u8>`
//@   sub R9 `writer.write_all(` => `vx_write_all(writer,` x4
//@   sub R3 `u32::to_le_bytes(` => `vx_u32_to_le_bytes(` x3
//@   spec
//@|    ensures
//@|        r is Ok,
//@|        final(writer)@ == old(writer)@ + seq![0x44u8, 0x4cu8, 0x54u8, 0x01u8] + le32_bytes(self.secs as int) + le32_bytes(self.micros as int) + self.ecu.char4@, // O:sh.to_write
//@   hint before `Ok(DLT_STORAGE_HEADER_SIZE)`
//@|    proof { lemma_le32_sh(b1[0], b1[1], b1[2], b1[3]); }
//@|    assert(b1@ =~= seq![0x44u8, 0x4cu8, 0x54u8, 0x01u8]);
//@ end
}

impl DltExtendedHeader {
//@ extract src/dlt/mod.rs DltExtendedHeader::to_write
//@   sub R9 `&mut impl std::io::Write` => `&mut Vec<u8>`
//@   sub R9 `writer.write_all(` => `vx_write_all(writer,` x3
//@   spec
//@|    ensures
//@|        r is Ok,
//@|        final(writer)@ == old(writer)@ + ser_ext(self@), // O:exth.to_write
//@   hint before `Ok(DLT_EXT_HEADER_SIZE)`
//@|    assert(b1@ =~= seq![self.verb_mstp_mtin, self.noar]);
//@|    assert(writer@ =~= old(writer)@ + ser_ext(self@));
//@ end
}

pub open spec fn build_htyp(be: bool, ecu: bool, sess: bool, ts: bool, ext: bool) -> u8 {
    (0x20u8 | (if be { 2u8 } else { 0u8 }) | (if ecu { 4u8 } else { 0u8 }) | (if sess { 8u8 } else { 0u8 })
        | (if ts { 16u8 } else { 0u8 }) | (if ext { 1u8 } else { 0u8 })) as u8
}
pub open spec fn std_len(ecu: bool, sess: bool, ts: bool, ext: bool, pl: int) -> int {
    4 + (if ecu { 4int } else { 0 }) + (if sess { 4int } else { 0 }) + (if ts { 4int } else { 0 }) + (if ext { 10int } else { 0 }) + pl
}
pub open spec fn ser_std(be: bool, mcnt: u8, ext: Option<AExt>, ecu: Option<Seq<u8>>, sess: Option<int>, ts: Option<int>, payload: Seq<u8>) -> Seq<u8> {
    seq![build_htyp(be, ecu is Some, sess is Some, ts is Some, ext is Some), mcnt]
        + be16_bytes(std_len(ecu is Some, sess is Some, ts is Some, ext is Some, payload.len() as int))
        + (if ecu is Some { ecu->Some_0 } else { Seq::<u8>::empty() })
        + (if sess is Some { be32_bytes(sess->Some_0) } else { Seq::<u8>::empty() })
        + (if ts is Some { be32_bytes(ts->Some_0) } else { Seq::<u8>::empty() })
        + (if ext is Some { ser_ext(ext->Some_0) } else { Seq::<u8>::empty() })
        + payload
}
pub proof fn lemma_build_htyp_steps(be: bool, ecu: bool, sess: bool, ts: bool, ext: bool)
    ensures ({
        let h0: u8 = if be { (0x1u8 << 5) | (1u8 << 1) } else { 0x1u8 << 5 };
        let h1: u8 = if ecu { h0 | (1u8 << 2) } else { h0 };
        let h2: u8 = if sess { h1 | (1u8 << 3) } else { h1 };
        let h3: u8 = if ts { h2 | (1u8 << 4) } else { h2 };
        let h4: u8 = if ext { h3 | 1u8 } else { h3 };
        h4 == build_htyp(be, ecu, sess, ts, ext)
    }),
{
    assert(((0x1u8 << 5) | (1u8 << 1)) == 0x22u8 && (0x1u8 << 5) == 0x20u8 && (1u8 << 2) == 4u8 && (1u8 << 3) == 8u8 && (1u8 << 4) == 16u8) by(bit_vector);
    let a: u8 = if be { 2u8 } else { 0u8 };
    let b: u8 = if ecu { 4u8 } else { 0u8 };
    let c: u8 = if sess { 8u8 } else { 0u8 };
    let d: u8 = if ts { 16u8 } else { 0u8 };
    let e: u8 = if ext { 1u8 } else { 0u8 };
    assert((0x20u8 | a | b | c | d | e) == (((((0x20u8 | a) | b) | c) | d) | e)) by(bit_vector);
    assert((0x20u8 | 0u8) == 0x20u8 && (0x20u8 | 2u8) == 0x22u8) by(bit_vector);
    assert(forall|x: u8| (x | 0u8) == x) by(bit_vector);
}

impl DltStandardHeader {
//@ extract src/dlt/mod.rs DltStandardHeader::to_write
//@   sub R9 `&mut impl std::io::Write` => `&mut Vec<u8>`
//@   sub R9 `writer.write_all(` => `vx_write_all(writer,` x5
//@   sub R3 `u32::to_be_bytes(` => `vx_u32_to_be_bytes(` x2
//@   sub R3 `u16::to_be_bytes(` => `vx_u16_to_be_bytes(`
//@   spec
//@|    requires std_len(ecu is Some, session_id is Some, timestamp is Some, ext_hdr is Some, payload@.len() as int) <= 65535, // O:std.to_write.len_fits (caller obligation: `len += payload.len() as u16` must not overflow)
//@|    ensures
//@|        r is Ok,
//@|        final(writer)@ == old(writer)@ + ser_std(std_hdr.htyp & 2 != 0, std_hdr.mcnt,
//@|            (match *ext_hdr { Some(e) => Some(e@), None => None }),
//@|            (match ecu { Some(e) => Some(e.char4@), None => None }),
//@|            (match session_id { Some(x) => Some(x as int), None => None }),
//@|            (match timestamp { Some(x) => Some(x as int), None => None }), payload@), // O:std.to_write.bytes
//@   hint before `len += payload.len() as u16;`
//@|    proof { lemma_build_htyp_steps(std_hdr.htyp & 2 != 0, ecu is Some, session_id is Some, timestamp is Some, ext_hdr is Some); lemma_flag_consts(); }
//@|    assert(htyp == build_htyp(std_hdr.htyp & 2 != 0, ecu is Some, session_id is Some, timestamp is Some, ext_hdr is Some));
//@   hint before `b1)?;`
//@|    let ghost w0 = writer@;
//@|    let ghost p1 = seq![htyp, std_hdr.mcnt] + be16_bytes(len as int);
//@|    let ghost p2 = if ecu is Some { ecu->Some_0.char4@ } else { Seq::<u8>::empty() };
//@|    let ghost p3 = if session_id is Some { be32_bytes(session_id->Some_0 as int) } else { Seq::<u8>::empty() };
//@|    let ghost p4 = if timestamp is Some { be32_bytes(timestamp->Some_0 as int) } else { Seq::<u8>::empty() };
//@|    let ghost p5 = if *ext_hdr is Some { ser_ext((*ext_hdr)->Some_0@) } else { Seq::<u8>::empty() };
//@|    assert(b1@ =~= p1);
//@   hint before `if let Some(s) = session_id {`
//@|    assert(writer@ =~= w0 + p1 + p2);
//@   hint before `if let Some(t) = timestamp {`
//@|    assert(writer@ =~= w0 + p1 + p2 + p3);
//@   hint before `if let Some(e) = ext_hdr {`
//@|    assert(writer@ =~= w0 + p1 + p2 + p3 + p4);
//@   hint before `if !payload.is_empty() {`
//@|    assert(writer@ =~= w0 + p1 + p2 + p3 + p4 + p5);
//@   hint before `Ok(())`
//@|    assert(writer@ =~= w0 + p1 + p2 + p3 + p4 + p5 + payload@);
//@ end
}

impl DltMessage {
    // to_write's own precondition: the only arithmetic it performs is the u16 length computation and the u64 -> u32 seconds
    pub open spec fn writable(&self) -> bool {
        &&& self.reception_time_us / 1_000_000 <= u32::MAX
        &&& ser_len(self@) <= 65535
    }
//@ extract src/dlt/mod.rs DltMessage::to_write
//@   sub R9 `&mut impl std::io::Write` => `&mut Vec<u8>`
//@   spec
//@|    requires self.writable(),
//@|    ensures
//@|        r is Ok,
//@|        final(writer)@ =~= old(writer)@ + ser_msg(self@), // O:to_write.bytes
//@   hint start
//@|    proof { lemma_flag_keep(self.standard_header.htyp, self.extended_header is Some); }
//@ end
}

pub proof fn lemma_flag_keep(h: u8, e: bool)
    ensures
        norm_htyp(h, e) == build_htyp(h & 2 != 0, false, false, h & 16 != 0, e),
        norm_htyp(h, e) & 2 == h & 2, norm_htyp(h, e) & 16 == h & 16, norm_htyp(h, e) & 4 == 0, norm_htyp(h, e) & 8 == 0,
        (norm_htyp(h, e) & 1 != 0) == e,
        norm_htyp(norm_htyp(h, e), e) == norm_htyp(h, e),
{
    let x: u8 = if e { 1u8 } else { 0u8 };
    let a: u8 = if h & 2 != 0 { 2u8 } else { 0u8 };
    let d: u8 = if h & 16 != 0 { 16u8 } else { 0u8 };
    assert(a == h & 2 && d == h & 16) by(bit_vector) requires a == (if h & 2 != 0 { 2u8 } else { 0u8 }), d == (if h & 16 != 0 { 16u8 } else { 0u8 });
    let n: u8 = 0x20u8 | (h & 2) | (h & 16) | x;
    assert(n == (0x20u8 | a | 0u8 | 0u8 | d | x)) by(bit_vector) requires a == h & 2, d == h & 16, n == 0x20u8 | (h & 2) | (h & 16) | x;
    assert(n & 2 == h & 2 && n & 16 == h & 16 && n & 4 == 0 && n & 8 == 0 && ((n & 1 != 0) == (x == 1u8))
        && (0x20u8 | (n & 2) | (n & 16) | x) == n) by(bit_vector) requires n == 0x20u8 | (h & 2) | (h & 16) | x, x == 0u8 || x == 1u8;
}
// ---- end of units/dltwrite/part.rs (first half) ----
