//@ unit dltwrite
// C02: DltMessage::to_write writes exactly spec_ser(message); parse(spec_ser(m) ++ rest) returns m; normal form.
#![allow(unused_imports, dead_code, unused_variables, unused_mut, non_upper_case_globals)]
use vstd::prelude::*;
verus! {
global size_of usize == 8;

//@ include prelude/std_specs.rs
//@ include units/dltcore/part.rs
//@ include units/dltiter/part.rs
//@ include units/dltiter/stream.rs
//@ include units/dltwrite/part.rs
//@ include units/dltwrite/roundtrip.rs

fn main() {}
} // verus!
