// ---- units/dltwrite/roundtrip.rs: C02 at oracle level: parse(ser(m) ++ rest) = m, normal form, export/re-import ----

// the message a reader recovers from ser_msg(a): listed fields kept, htyp normalised, length recomputed
pub open spec fn reread(a: AMsg, index: int) -> AMsg {
    AMsg {
        index: index,
        reception_time_us: a.reception_time_us,
        ecu: a.ecu,
        timestamp_dms: if a.htyp & 16 != 0 { a.timestamp_dms } else { 0 },
        htyp: norm_htyp(a.htyp, a.ext is Some),
        mcnt: a.mcnt,
        len: ser_len(a),
        ext: a.ext,
        payload: a.payload,
    }
}

pub proof fn lemma_ser_layout(a: AMsg)
    requires amsg_wf(a),
    ensures ({
        let d = ser_msg(a);
        let ts = a.htyp & 16 != 0;
        let o = 20 + (if ts { 4int } else { 0 });
        &&& d.len() == 16 + ser_len(a)
        &&& sh_pat(d, 0)
        &&& d.subrange(4, 8) == le32_bytes(a.reception_time_us / 1_000_000)
        &&& d.subrange(8, 12) == le32_bytes(a.reception_time_us % 1_000_000)
        &&& d.subrange(12, 16) == a.ecu
        &&& d[16] == norm_htyp(a.htyp, a.ext is Some) && d[17] == a.mcnt
        &&& d.subrange(18, 20) == be16_bytes(ser_len(a))
        &&& (ts ==> d.subrange(20, 24) == be32_bytes(a.timestamp_dms))
        &&& (a.ext is Some ==> d.subrange(o, o + 10) == ser_ext(a.ext->Some_0))
        &&& d.subrange(o + (if a.ext is Some { 10int } else { 0 }), d.len() as int) == a.payload
    }),
{
    let d = ser_msg(a);
    let ts = a.htyp & 16 != 0;
    let o = 20 + (if ts { 4int } else { 0 });
    let p0 = seq![0x44u8, 0x4cu8, 0x54u8, 0x01u8];
    let p1 = le32_bytes(a.reception_time_us / 1_000_000);
    let p2 = le32_bytes(a.reception_time_us % 1_000_000);
    let p3 = a.ecu;
    let p4 = seq![norm_htyp(a.htyp, a.ext is Some), a.mcnt];
    let p5 = be16_bytes(ser_len(a));
    let p6 = if ts { be32_bytes(a.timestamp_dms) } else { Seq::<u8>::empty() };
    let p7 = if a.ext is Some { ser_ext(a.ext->Some_0) } else { Seq::<u8>::empty() };
    assert(d == p0 + p1 + p2 + p3 + p4 + p5 + p6 + p7 + a.payload);
    assert(p0.len() == 4 && p1.len() == 4 && p2.len() == 4 && p3.len() == 4 && p4.len() == 2 && p5.len() == 2);
    assert(p6.len() == (if ts { 4int } else { 0 }));
    if a.ext is Some {
        let e = a.ext->Some_0;
        assert(ser_ext(e).len() == 10);
    }
    assert(d.subrange(4, 8) =~= p1);
    assert(d.subrange(8, 12) =~= p2);
    assert(d.subrange(12, 16) =~= p3);
    assert(d.subrange(18, 20) =~= p5);
    if ts { assert(d.subrange(20, 24) =~= p6); }
    if a.ext is Some { assert(d.subrange(o, o + 10) =~= p7); }
    assert(d.subrange(o + (if a.ext is Some { 10int } else { 0 }), d.len() as int) =~= a.payload);
    assert(d[0] == p0[0] && d[1] == p0[1] && d[2] == p0[2] && d[3] == p0[3]);
    assert(d[16] == p4[0] && d[17] == p4[1]);
}

// O:roundtrip -- reading back what to_write wrote (followed by the end of the data or by another message)
pub proof fn lemma_roundtrip(a: AMsg, rest: Seq<u8>, index: int)
    requires amsg_wf(a), rest.len() < 4 || sh_pat(rest, 0),
    ensures
        spec_parse_storage(ser_msg(a) + rest, index) == SParse::Msg(ser_msg(a).len() as int, reread(a, index)), // O:roundtrip.parse
{
    reveal(spec_parse_storage); reveal(spec_parse_serial);
    let f = ser_msg(a);
    let d = f + rest;
    let n = f.len() as int;
    let ts = a.htyp & 16 != 0;
    let o = 20 + (if ts { 4int } else { 0 });
    let h = norm_htyp(a.htyp, a.ext is Some);
    lemma_ser_layout(a);
    lemma_flag_keep(a.htyp, a.ext is Some);
    lemma_be16_bytes(ser_len(a));
    lemma_le32_bytes(a.reception_time_us / 1_000_000);
    lemma_le32_bytes(a.reception_time_us % 1_000_000);
    assert forall|i: int| 0 <= i < n implies d[i] == f[i] by {}
    assert(sh_pat(d, 0));
    assert(f.subrange(18, 20)[0] == f[18] && f.subrange(18, 20)[1] == f[19]);
    assert(be16(d[18], d[19]) == ser_len(a));
    assert(hdr_size(h) == 4 + (if ts { 4int } else { 0 }) + (if a.ext is Some { 10int } else { 0 }));
    assert(sh_pat(d, n) == sh_pat(rest, 0)) by {
        if rest.len() >= 4 { assert(d[n] == rest[0] && d[n + 1] == rest[1] && d[n + 2] == rest[2] && d[n + 3] == rest[3]); }
    }
    let m = spec_msg_at(d, 16, index, storage_rtime(d), d.subrange(12, 16));
    let r = reread(a, index);
    // reception time
    assert(f.subrange(4, 8)[0] == f[4] && f.subrange(4, 8)[1] == f[5] && f.subrange(4, 8)[2] == f[6] && f.subrange(4, 8)[3] == f[7]);
    assert(f.subrange(8, 12)[0] == f[8] && f.subrange(8, 12)[1] == f[9] && f.subrange(8, 12)[2] == f[10] && f.subrange(8, 12)[3] == f[11]);
    assert(storage_rtime(d) == a.reception_time_us);
    assert(d.subrange(12, 16) =~= f.subrange(12, 16));
    assert(m.ecu == a.ecu);
    if ts {
        lemma_le32_bytes(a.timestamp_dms);
        assert(f.subrange(20, 24)[0] == f[20] && f.subrange(20, 24)[1] == f[21] && f.subrange(20, 24)[2] == f[22] && f.subrange(20, 24)[3] == f[23]);
        assert(m.timestamp_dms == a.timestamp_dms);
    }
    assert(m.payload =~= a.payload) by {
        assert(d.subrange(16 + hdr_size(h), 16 + ser_len(a)) =~= f.subrange(o + (if a.ext is Some { 10int } else { 0 }), n));
    }
    if a.ext is Some {
        let e = a.ext->Some_0;
        let x = f.subrange(o, o + 10);
        assert(x == ser_ext(e));
        let hh = hdr_size(h);
        assert(16 + hh - 10 == o);
        assert(d[o] == x[0] && d[o + 1] == x[1]);
        assert(d.subrange(o + 2, o + 6) =~= x.subrange(2, 6));
        assert(d.subrange(o + 6, o + 10) =~= x.subrange(6, 10));
        assert(x.subrange(2, 6) =~= e.apid);
        assert(x.subrange(6, 10) =~= e.ctid);
        assert(m.ext == a.ext);
    }
    assert(m == r);
}

// O:normal_form -- writing the re-read message again reproduces the same bytes
pub proof fn lemma_normal_form(a: AMsg, index: int)
    requires amsg_wf(a),
    ensures
        amsg_wf(reread(a, index)),
        ser_msg(reread(a, index)) == ser_msg(a), // O:normal_form.bytes
{
    lemma_flag_keep(a.htyp, a.ext is Some);
}

// every message the storage parser yields can be written (storage micros < 10^6 as in the property's quantifier)
pub proof fn lemma_parsed_writable(d: Seq<u8>, index: int)
    requires spec_parse_storage(d, index) is Msg, le32(d[8], d[9], d[10], d[11]) < 1_000_000,
    ensures amsg_wf(spec_parse_storage(d, index)->Msg_1), // O:parsed_writable
{
    reveal(spec_parse_storage); reveal(spec_parse_serial);
    lemma_hdr_size_bounds(d[16]);
    let m = spec_parse_storage(d, index)->Msg_1;
    assert(le32(d[4], d[5], d[6], d[7]) <= u32::MAX);
}

// ---- whole files: export of a message list and re-import ----
pub open spec fn ser_all(ms: Seq<AMsg>) -> Seq<u8>
    decreases ms.len()
{
    if ms.len() == 0 { Seq::empty() } else { ser_msg(ms[0]) + ser_all(ms.skip(1)) }
}
pub open spec fn reread_all(ms: Seq<AMsg>, index: int) -> Seq<AMsg>
    decreases ms.len()
{
    if ms.len() == 0 { Seq::empty() } else { seq![reread(ms[0], index)] + reread_all(ms.skip(1), index + 1) }
}
pub open spec fn all_wf(ms: Seq<AMsg>) -> bool { forall|i: int| 0 <= i < ms.len() ==> amsg_wf(#[trigger] ms[i]) }

pub proof fn lemma_ser_all_starts_with_marker(ms: Seq<AMsg>)
    requires all_wf(ms), ms.len() > 0,
    ensures sh_pat(ser_all(ms), 0), ser_all(ms).len() >= 20,
{
    lemma_ser_layout(ms[0]);
    let f = ser_msg(ms[0]);
    let d = ser_all(ms);
    assert(d[0] == f[0] && d[1] == f[1] && d[2] == f[2] && d[3] == f[3]);
}

// O:file -- reading an exported file yields exactly the exported messages (in order, numbered from index), skips nothing
pub proof fn theorem_export_reimport(ms: Seq<AMsg>, det_sto: bool, index: int)
    requires all_wf(ms),
    ensures ({
        let d = spec_drain(ser_all(ms), det_sto, false, index);
        &&& d.msgs == reread_all(ms, index) // O:file.msgs
        &&& d.consumed == ser_all(ms).len() && d.skipped == 0 // O:file.counts
    }),
    decreases ms.len(),
{
    reveal(spec_parse_storage); reveal(spec_parse_serial);
    let u = ser_all(ms);
    if ms.len() == 0 {
        assert(spec_parse_storage(u, index) is NotEnough);
        assert(spec_parse_serial(u, index) is NotEnough);
    } else {
        let a = ms[0];
        let rest = ser_all(ms.skip(1));
        assert(all_wf(ms.skip(1))) by {
            assert forall|i: int| 0 <= i < ms.skip(1).len() implies amsg_wf(#[trigger] ms.skip(1)[i]) by { assert(ms.skip(1)[i] == ms[i + 1]); }
        }
        if ms.len() > 1 { lemma_ser_all_starts_with_marker(ms.skip(1)); }
        lemma_roundtrip(a, rest, index);
        lemma_ser_layout(a);
        let n = ser_msg(a).len() as int;
        assert(u.skip(n) =~= rest);
        theorem_export_reimport(ms.skip(1), true, index + 1);
    }
}
// O:file.identical -- exporting the re-imported messages reproduces the file byte for byte
pub proof fn theorem_export_twice(ms: Seq<AMsg>, index: int)
    requires all_wf(ms),
    ensures ser_all(reread_all(ms, index)) == ser_all(ms), all_wf(reread_all(ms, index)), // O:file.identical
    decreases ms.len(),
{
    if ms.len() > 0 {
        assert(all_wf(ms.skip(1))) by {
            assert forall|i: int| 0 <= i < ms.skip(1).len() implies amsg_wf(#[trigger] ms.skip(1)[i]) by { assert(ms.skip(1)[i] == ms[i + 1]); }
        }
        lemma_normal_form(ms[0], index);
        theorem_export_twice(ms.skip(1), index + 1);
        let r = reread_all(ms, index);
        assert(r.skip(1) =~= reread_all(ms.skip(1), index + 1));
        assert(r[0] == reread(ms[0], index));
        assert forall|i: int| 0 <= i < r.len() implies amsg_wf(#[trigger] r[i]) by {
            if i > 0 { assert(r[i] == reread_all(ms.skip(1), index + 1)[i - 1]); }
        }
    }
}
// ---- end of units/dltwrite/roundtrip.rs ----
