//@ unit anonctrl
// C03 (anonymise plugin): the probe for the service id of a control response in AnonymizePlugin::ctrl_msgs_anon cannot panic.
#![allow(unused_imports, dead_code, unused_variables, unused_mut, non_upper_case_globals)]
use vstd::prelude::*;
verus! {
global size_of usize == 8;

//@ include prelude/std_specs.rs
//@ include units/dltcore/part.rs
//@ include units/verbarg/part.rs
//@ include units/lifecycle/helpers.rs

impl DltMessage {
//@ extract src/dlt/mod.rs DltMessage::is_ctrl_response
//@   spec
//@|    ensures r == (match self.extended_header { Some(e) => (e.verb_mstp_mtin >> 1) & 0x07 == 3 && e.verb_mstp_mtin >> 4 == 2, None => false }),
//@ end
}
// the body of ctrl_msgs_anon without the `match message_id { .. }` that rewrites the payload (dropped through the `__`
// wildcard: vec!/to_endian_vec! macros): the guard of the probe and the probe itself - the same pattern as in Lifecycle::update
// (findings F4 / F4b): `get(0..4).unwrap()` on the first argument is safe only for non-verbose messages, whose first argument is
// the 4-byte message id
//@ extract src/plugins/anonymize.rs region `if msg.is_ctrl_response()` .. `$end` in AnonymizePlugin::ctrl_msgs_anon
//@   sig pub fn anon_ctrl_probe(msg: &mut DltMessage)
//@   sub R3 `vx_u32_from_be_bytes(a.payload_raw.get(0..4).unwrap().try_into().unwrap())` => `vx_u32_from_be_slice(vx_slice_get_0_4(a.payload_raw).unwrap())`
//@   sub R3 `vx_u32_from_le_bytes(a.payload_raw.get(0..4).unwrap().try_into().unwrap())` => `vx_u32_from_le_slice(vx_slice_get_0_4(a.payload_raw).unwrap())`
//@   sub R11 `match message_id { __ }` => `()`
//@   spec
//@|    requires old(msg).payload@.len() + 0x20000 <= usize::MAX,
//@|    ensures true, // O:anon.ctrl.no_panic
//@ end

fn main() {}
} // verus!
