// ---- units/convertout/part.rs ----
// R12 models: the input channel, the two writers (screen, output file), the set of selected lifecycle ids
#[derive(Debug)]
pub struct VxRecvError;
pub trait VRecv: Sized {
    spec fn rem(&self) -> Seq<DltMessage>;
    fn recv(&mut self) -> (r: Result<DltMessage, VxRecvError>)
        ensures
            old(self).rem().len() == 0 ==> r is Err && final(self).rem() == old(self).rem(),
            old(self).rem().len() > 0 ==> r == Ok::<DltMessage, VxRecvError>(old(self).rem()[0]) && final(self).rem() == old(self).rem().skip(1);
}
#[verifier::external_body]
pub struct VxErr { _p: u8 }   // Box<dyn std::error::Error + Send + Sync> / std::io::Error
// a writer: bytes written so far; a write either appends or fails (then nothing more is promised about this writer)
pub trait VWrite: Sized {
    spec fn bytes(&self) -> Seq<u8>;
    fn write_all(&mut self, b: &[u8]) -> (r: Result<(), VxErr>) ensures r is Ok ==> final(self).bytes() == old(self).bytes() + b@;
    fn flush(&mut self) -> (r: Result<(), VxErr>) ensures r is Ok ==> final(self).bytes() == old(self).bytes();
}
// BTreeSet<u32>
#[verifier::external_body]
pub struct VxLcSet { s: std::collections::BTreeSet<u32> }
impl VxLcSet {
    pub uninterp spec fn ids(&self) -> Set<u32>;
    #[verifier::external_body]
    pub fn is_empty(&self) -> (r: bool) ensures r == (forall|x: u32| !self.ids().contains(x)) { unimplemented!() }
    #[verifier::external_body]
    pub fn contains(&self, x: &u32) -> (r: bool) ensures r == self.ids().contains(*x) { unimplemented!() }
}
//@ extract src/bin/adlt/convert.rs enum OutputStyle
//@ end
// DltMessage::to_write is under contract in unit dltwrite (`w == old(w) ++ ser_msg(m)`); here: it appends a function of the message.
// The text renderers only ever append to the screen writer.
pub uninterp spec fn ser_of(m: DltMessage) -> Seq<u8>;
impl DltMessage {
    #[verifier::external_body]
    pub fn to_write<F: VWrite>(&self, w: &mut F) -> (r: Result<(), VxErr>)
        ensures r is Ok ==> final(w).bytes() == old(w).bytes() + ser_of(*self),
    { unimplemented!() }
    #[verifier::external_body]
    pub fn header_as_text_to_write<W: VWrite>(&self, w: &mut W) -> (r: Result<(), VxErr>) { unimplemented!() }
}
#[verifier::external_body]
pub fn vx_write_payload_text<W: VWrite>(w: &mut W, m: &DltMessage) -> (r: Result<(), VxErr>) { unimplemented!() }
#[verifier::external_body]
pub fn buf_as_hex_to_io_write<W: VWrite>(w: &mut W, b: &Vec<u8>) -> (r: Result<(), VxErr>) { unimplemented!() }

// ---------- oracle: what the options select ----------
pub open spec fn selected(m: DltMessage, lcs: Set<u32>, first: u32, last: u32) -> bool {
    ((forall|x: u32| !lcs.contains(x)) || lcs.contains(m.lifecycle)) && first <= m.index <= last
}
pub open spec fn ser_selected(ms: Seq<DltMessage>, lcs: Set<u32>, first: u32, last: u32) -> Seq<u8>
    decreases ms.len(),
{
    if ms.len() == 0 { Seq::<u8>::empty() }
    else { ser_selected(ms.drop_last(), lcs, first, last) + (if selected(ms.last(), lcs, first, last) { ser_of(ms.last()) } else { Seq::<u8>::empty() }) }
}
pub open spec fn count_selected(ms: Seq<DltMessage>, lcs: Set<u32>, first: u32, last: u32) -> nat
    decreases ms.len(),
{
    if ms.len() == 0 { 0 } else { count_selected(ms.drop_last(), lcs, first, last) + (if selected(ms.last(), lcs, first, last) { 1nat } else { 0nat }) }
}

pub proof fn lemma_sel_step(ms: Seq<DltMessage>, k: int, lcs: Set<u32>, first: u32, last: u32)
    requires 0 <= k < ms.len(),
    ensures
        ser_selected(ms.take(k + 1), lcs, first, last) == ser_selected(ms.take(k), lcs, first, last) + (if selected(ms[k], lcs, first, last) { ser_of(ms[k]) } else { Seq::<u8>::empty() }),
        count_selected(ms.take(k + 1), lcs, first, last) == count_selected(ms.take(k), lcs, first, last) + (if selected(ms[k], lcs, first, last) { 1nat } else { 0nat }),
        count_selected(ms.take(k + 1), lcs, first, last) <= k + 1,
    decreases k,
{
    assert(ms.take(k + 1).drop_last() =~= ms.take(k));
    assert(ms.take(k + 1).last() == ms[k]);
    if k > 0 { lemma_sel_step(ms, k - 1, lcs, first, last); } else { assert(ms.take(0).len() == 0); }
}
//@ extract src/bin/adlt/convert.rs region `let mut output :` .. `for msg in t4_input { ||| while let Ok(msg) = t4_input.recv() {` in fn convert
//@   sig #[verifier::loop_isolation(false)] #[verifier::allow_complex_invariants] pub fn convert_output<I: VRecv, W: VWrite, F: VWrite>(mut t4_input: I, filter_lc_ids: &VxLcSet, index_first: u32, index_last: u32, output_style: OutputStyle, debug_verify_sort: bool, sort_by_time: bool, debug_verify_lcs: bool, mut writer_screen: W, mut output_file: Result<F, VxErr>, mut vx_unused: bool) -> (r: Result<(u32, Result<F, VxErr>), VxErr>)
//@   tail `Ok((output, output_file))`
//@   sub R13 `for msg in t4_input {` => `loop { let msg = match t4_input.recv() { Ok(vx_m) => vx_m, Err(_) => break }; let ghost sk = ser_selected(ms0.take(k), lcs, index_first, index_last); proof { assert(msg == ms0[k]); assert(ms0.skip(k).skip(1) =~= ms0.skip(k + 1)); lemma_sel_step(ms0, k, lcs, index_first, index_last); k = k + 1; } let ghost fb = if output_file is Ok { output_file->Ok_0.bytes() } else { Seq::<u8>::empty() }; proof { assert(fb + Seq::<u8>::empty() =~= fb); assert((f0 + sk) + ser_of(msg) =~= f0 + (sk + ser_of(msg))); assert(sk + Seq::<u8>::empty() =~= sk); }` ?
//@   sub R13 `while let Ok(msg) = t4_input.recv() {` => `loop { let msg = match t4_input.recv() { Ok(vx_m) => vx_m, Err(_) => break }; let ghost sk = ser_selected(ms0.take(k), lcs, index_first, index_last); proof { assert(msg == ms0[k]); assert(ms0.skip(k).skip(1) =~= ms0.skip(k + 1)); lemma_sel_step(ms0, k, lcs, index_first, index_last); k = k + 1; } let ghost fb = if output_file is Ok { output_file->Ok_0.bytes() } else { Seq::<u8>::empty() }; proof { assert(fb + Seq::<u8>::empty() =~= fb); assert((f0 + sk) + ser_of(msg) =~= f0 + (sk + ser_of(msg))); assert(sk + Seq::<u8>::empty() =~= sk); }` ?
//@   sub R2 `adlt::dlt::DltMessageIndexType` => `u32` ?
//@   cut R11 `let mut last_timestamp_by_lc_map` ?
//@   cut R11 `let mut last_lc_timestamp_by_ecu_apid_ctid_map` ?
//@   sub R11 `if debug_verify_sort { __ }` => ``
//@   sub R11 `if debug_verify_lcs { __ }` => ``
//@   sub R11 `writeln!(writer_screen, " [{}]", msg.payload_as_text()?)?;` => `vx_write_payload_text(&mut writer_screen, &msg)?;`
//@   spec
//@|    requires
//@|        t4_input.rem().len() < u32::MAX,
//@|    ensures
//@|        r is Ok && output_file is Ok ==> r->Ok_0.1 is Ok
//@|            && r->Ok_0.1->Ok_0.bytes() == output_file->Ok_0.bytes() + ser_selected(t4_input.rem(), filter_lc_ids.ids(), index_first, index_last) // O:convert.file (the output file receives exactly the selected messages, each once, in the order received)
//@|            && r->Ok_0.0 == count_selected(t4_input.rem(), filter_lc_ids.ids(), index_first, index_last), // O:convert.count
//@   hint start
//@|    let ghost ms0 = t4_input.rem();
//@|    let ghost lcs = filter_lc_ids.ids();
//@|    let ghost f0 = if output_file is Ok { output_file->Ok_0.bytes() } else { Seq::<u8>::empty() };
//@|    let ghost file_ok = output_file is Ok;
//@|    let ghost mut k: int = 0;
//@|    proof { assert(ms0.take(0).len() == 0); assert(f0 + Seq::<u8>::empty() =~= f0); }
//@   loop inner `t4_input.recv()`
//@|    invariant
//@|        0 <= k <= ms0.len(), t4_input.rem() == ms0.skip(k), (output_file is Ok) == file_ok,
//@|        file_ok ==> output_file->Ok_0.bytes() == f0 + ser_selected(ms0.take(k), lcs, index_first, index_last), // O:convert.inv.file
//@|        file_ok ==> output == count_selected(ms0.take(k), lcs, index_first, index_last), // O:convert.inv.count
//@|        count_selected(ms0.take(k), lcs, index_first, index_last) <= k, output <= k,
//@|    ensures
//@|        k == ms0.len(),
//@|    decreases ms0.len() - k,
//@   hint before `^Ok((output, output_file))`
//@|    proof { assert(ms0.take(k) =~= ms0); }
//@ end
// ---- end of units/convertout/part.rs ----
