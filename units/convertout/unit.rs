//@ unit convertout
// C14 (output clause) / C02 (the export writes what was selected): the message loop of the output thread of `adlt convert`.
#![allow(unused_imports, dead_code, unused_variables, unused_mut, non_upper_case_globals, unused_assignments)]
use vstd::prelude::*;
verus! {
global size_of usize == 8;

//@ include prelude/std_specs.rs
//@ include units/dltcore/part.rs
//@ include units/convertout/part.rs

fn main() {}
} // verus!
