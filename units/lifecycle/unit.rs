//@ unit lifecycle
// C05 (assignment clause), C07 (merge bookkeeping, listing comparator), C03 (panic freedom of the per-message lifecycle code).
#![allow(unused_imports, dead_code, unused_variables, unused_mut, non_upper_case_globals)]
use vstd::prelude::*;
verus! {
global size_of usize == 8;

//@ include prelude/std_specs.rs
//@ include units/dltcore/part.rs
//@ include units/verbarg/part.rs
//@ include units/lifecycle/helpers.rs
//@ include units/lifecycle/part.rs
//@ include units/lifecycle/listing.rs
//@ include units/lifecycle/clean.rs

fn main() {}
} // verus!
