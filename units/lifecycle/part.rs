// ---- units/lifecycle/part.rs ----
//@ extract src/lifecycle/mod.rs type LifecycleId
//@ end
//@ extract src/lifecycle/mod.rs struct ResumeLcInfo
//@ end
//@ extract src/lifecycle/mod.rs struct Lifecycle
//@ end
//@ extract src/dlt/mod.rs const SERVICE_ID_GET_SOFTWARE_VERSION
//@ end

// R10: the process-wide id counter NEXT_LC_ID.fetch_add(1, Relaxed); assumed: fewer than 2^32 lifecycles per process (no wrap to 0)
#[verifier::external_body]
pub fn vx_next_lc_id() -> (r: u32)
    ensures r != 0,
{ unimplemented!() }
// R11: opaque dependency (WINDOWS_1252 decoding + regex); only "returns" is assumed
#[verifier::external_body]
pub fn parse_ctrl_sw_version_payload(is_big_endian: bool, payload: &[u8]) -> (r: Option<String>)
{ unimplemented!() }
#[verifier::external_body]
pub fn vx_u32_from_bool(b: bool) -> (r: u32)
    ensures r == (if b { 1u32 } else { 0u32 }),
{ u32::from(b) }

pub open spec fn T_MAX() -> int { 0x20_0000_0000_0000 }     // 2^53 us: every reception time is assumed below (285 years)
pub open spec fn TS_MAX() -> int { 429_496_729_500 }        // u32::MAX * 100: largest message timestamp in us

impl DltMessage {
//@ extract src/dlt/mod.rs DltMessage::timestamp_us
//@   spec
//@|    ensures r == self.timestamp_dms as int * 100, r <= TS_MAX(),
//@ end
//@ extract src/dlt/mod.rs DltMessage::is_ctrl_request
//@   spec
//@|    ensures r == (match self.extended_header { Some(e) => (e.verb_mstp_mtin >> 1) & 0x07 == 3 && e.verb_mstp_mtin >> 4 == 1, None => false }),
//@ end
//@ extract src/dlt/mod.rs DltMessage::is_ctrl_response
//@   spec
//@|    ensures r == (match self.extended_header { Some(e) => (e.verb_mstp_mtin >> 1) & 0x07 == 3 && e.verb_mstp_mtin >> 4 == 2, None => false }),
//@ end
    // "unchanged except for the lifecycle assignment"
    pub open spec fn same_but_lifecycle(&self, o: &DltMessage) -> bool {
        self.index == o.index && self.reception_time_us == o.reception_time_us && self.ecu == o.ecu && self.timestamp_dms == o.timestamp_dms
            && self.standard_header == o.standard_header && self.extended_header == o.extended_header && self.payload == o.payload
            && self.payload_text == o.payload_text
    }
}

// ---------- C08: the membership decision of Lifecycle::update, as the property and the comments of the function state it ----------
// the calculated start of a message: reception time minus timestamp (saturating)
pub open spec fn calc_start(m: &DltMessage) -> int { if m.reception_time_us as int >= m.timestamp_dms as int * 100 { m.reception_time_us as int - m.timestamp_dms as int * 100 } else { 0 } }
pub open spec fn spec_ctrl_req(m: &DltMessage) -> bool { match m.extended_header { Some(e) => (e.verb_mstp_mtin >> 1) & 0x07 == 3 && e.verb_mstp_mtin >> 4 == 1, None => false } }
pub open spec fn spec_end(lc: &Lifecycle) -> int { if lc.max_timestamp_us == 0 { lc.last_reception_time as int } else { lc.start_time + lc.max_timestamp_us } }
// "slightly overlapping": within the last 2 s of a lifecycle that is at least 10 s long
pub open spec fn spec_slightly(lc: &Lifecycle, o: int) -> bool { o <= spec_end(lc) && o + 2_000_000 > spec_end(lc) && spec_end(lc) > lc.start_time + 10_000_000 }
pub open spec fn spec_part_of(lc: &Lifecycle, m: &DltMessage) -> bool {
    (!spec_slightly(lc, calc_start(m)) && calc_start(m) <= spec_end(lc)) || m.standard_header.htyp & 16 == 0
}
pub open spec fn spec_is_resume(lc: &Lifecycle, m: &DltMessage) -> bool {
    let ts = m.timestamp_dms as int * 100;
    m.reception_time_us >= lc.last_reception_time + 10_000_000 && ts >= lc.max_timestamp_us && calc_start(m) >= lc.start_time + 10_000_000
        && (m.reception_time_us - lc.last_reception_time) + 30_000_000 > calc_start(m) - lc.start_time
}
pub open spec fn spec_would_move(lc: &Lifecycle, m: &DltMessage) -> int { if calc_start(m) < lc.start_time { lc.start_time - calc_start(m) } else { 0 } }
// the message is counted to the lifecycle without touching its times (the "likely wrong timestamp" heuristic)
pub open spec fn spec_ignored_time(lc: &Lifecycle, m: &DltMessage, max_buf: u64) -> bool { spec_part_of(lc, m) && spec_would_move(lc, m) > max_buf && lc.max_timestamp_us > 0 }
// the message belongs to the lifecycle (update returns None)
pub open spec fn spec_belongs(lc: &Lifecycle, m: &DltMessage, max_buf: u64) -> bool {
    spec_ctrl_req(m) || spec_ignored_time(lc, m, max_buf) || (!spec_is_resume(lc, m) && spec_part_of(lc, m))
}
// The two induction steps of the clean-trace theorem, from the property: (1) a further message of the same boot with the same delay -
// its calculated start IS the lifecycle's start - belongs to the lifecycle and leaves start = boot + delay, end = start + largest timestamp;
pub proof fn lemma_clean_same_boot(lc: &Lifecycle, m: &DltMessage, max_buf: u64)
    requires lc.wf(), !spec_ctrl_req(m), m.standard_header.htyp & 16 != 0, calc_start(m) == lc.start_time, lc.start_time <= lc.last_reception_time,
    ensures spec_belongs(lc, m, max_buf), !spec_ignored_time(lc, m, max_buf), // O:clean.same_boot
{}
// (2) a message whose calculated start lies after the lifecycle's end - the first message of a later boot - does not belong to it.
pub proof fn lemma_clean_next_boot(lc: &Lifecycle, m: &DltMessage, max_buf: u64)
    requires lc.wf(), !spec_ctrl_req(m), m.standard_header.htyp & 16 != 0, calc_start(m) > spec_end(lc),
    ensures !spec_belongs(lc, m, max_buf), // O:clean.next_boot
{}
impl Lifecycle {
    pub open spec fn merged(&self) -> bool { self.nr_msgs == 0 }
    pub open spec fn wf(&self) -> bool {
        &&& self.id != 0
        &&& self.nr_msgs >= 1
        &&& self.start_time <= T_MAX() && self.last_reception_time <= T_MAX()
        &&& self.min_timestamp_us <= TS_MAX() && self.max_timestamp_us <= TS_MAX()
        &&& self.min_timestamp_us <= self.max_timestamp_us
        &&& (self.resume_lc is Some ==> self.resume_lc->Some_0.start_time <= T_MAX() && self.resume_lc->Some_0.max_timestamp_us <= TS_MAX())
    }
    pub open spec fn same_as(&self, o: &Lifecycle) -> bool {
        self.id == o.id && self.ecu == o.ecu && self.nr_msgs == o.nr_msgs && self.nr_control_req_msgs == o.nr_control_req_msgs
            && self.start_time == o.start_time && self.initial_start_time == o.initial_start_time && self.min_timestamp_us == o.min_timestamp_us
            && self.max_timestamp_us == o.max_timestamp_us && self.last_reception_time == o.last_reception_time && self.resume_lc == o.resume_lc
            && self.sw_version == o.sw_version && self.lcs_w_refresh_idx == o.lcs_w_refresh_idx
    }

//@ extract src/lifecycle/mod.rs Lifecycle::id
//@   spec
//@|    ensures r == self.id,
//@ end
//@ extract src/lifecycle/mod.rs Lifecycle::end_time
//@   spec
//@|    requires self.wf(),
//@|    ensures r == (if self.max_timestamp_us == 0 { self.last_reception_time as int } else { self.start_time + self.max_timestamp_us }), r <= T_MAX() + TS_MAX(),
//@ end
//@ extract src/lifecycle/mod.rs Lifecycle::resume_time
//@   spec
//@|    requires self.wf(),
//@ end
//@ extract src/lifecycle/mod.rs Lifecycle::resume_start_time
//@   spec
//@|    requires self.wf(),
//@|    ensures r == spec_rst(self), self.resume_lc is None ==> r == self.start_time, self.resume_lc is Some ==> r > self.resume_lc->Some_0.start_time, // O:lc.resume_start_time (a resumed lifecycle never starts before the one it resumes)
//@ end
//@ extract src/lifecycle/mod.rs Lifecycle::suspend_duration
//@   spec
//@|    requires self.wf(),
//@ end
//@ extract src/lifecycle/mod.rs Lifecycle::only_control_requests
//@   spec
//@|    ensures r == (self.nr_control_req_msgs >= self.nr_msgs),
//@ end
//@ extract src/lifecycle/mod.rs Lifecycle::is_resume
//@   spec
//@|    ensures r == (self.resume_lc is Some),
//@ end
//@ extract src/lifecycle/mod.rs Lifecycle::was_merged
//@   spec
//@|    ensures r is Some <==> self.merged(),
//@ end
//@ extract src/lifecycle/mod.rs Lifecycle::is_slightly_overlapping
//@   spec
//@|    requires self.wf(), other_start_us <= T_MAX(),
//@|    ensures r == spec_slightly(self, other_start_us as int), // O:clean.slightly
//@ end

//@ extract src/lifecycle/mod.rs Lifecycle::new
//@   sub R10 `NEXT_LC_ID.fetch_add(1, std::sync::atomic::Ordering::Relaxed)` => `vx_next_lc_id()`
//@   sub R3 `u32::from(is_ctrl_request)` => `vx_u32_from_bool(is_ctrl_request)`
//@   spec
//@|    requires old(msg).reception_time_us <= T_MAX(),
//@|    ensures
//@|        final(msg).lifecycle == r.id && r.id != 0, // O:new.assign
//@|        r.ecu == old(msg).ecu, // O:new.ecu
//@|        r.nr_msgs == 1 && r.resume_lc is None && r.nr_control_req_msgs <= 1,
//@|        r.wf(), // O:new.wf
//@|        final(msg).same_but_lifecycle(old(msg)), // O:new.frame
//@|        !spec_ctrl_req(old(msg)) && old(msg).timestamp_dms as int * 100 <= old(msg).reception_time_us ==>
//@|            r.start_time == calc_start(old(msg)) && r.max_timestamp_us == old(msg).timestamp_dms as int * 100 && r.last_reception_time == old(msg).reception_time_us, // O:clean.new (a lifecycle opened by a message starts at reception time minus timestamp and ends at start plus that timestamp)
//@ end

//@ extract src/lifecycle/mod.rs Lifecycle::merge
//@   spec
//@|    requires
//@|        old(self).wf(), old(lc_to_merge).wf(), // incl. lc_to_merge.nr_msgs != 0 (the assert_ne! in merge)
//@|        old(self).nr_msgs + old(lc_to_merge).nr_msgs <= u32::MAX, // fewer than 2^32 messages in total
//@|        old(self).nr_control_req_msgs <= old(self).nr_msgs && old(lc_to_merge).nr_control_req_msgs <= old(lc_to_merge).nr_msgs,
//@|    ensures
//@|        final(self).nr_msgs == old(self).nr_msgs + old(lc_to_merge).nr_msgs, // O:merge.counts
//@|        final(self).nr_control_req_msgs == old(self).nr_control_req_msgs + old(lc_to_merge).nr_control_req_msgs, // O:merge.ctrl_counts
//@|        final(lc_to_merge).merged() && final(lc_to_merge).max_timestamp_us == old(self).id, // O:merge.marker
//@|        final(self).id == old(self).id && final(self).ecu == old(self).ecu,
//@|        final(lc_to_merge).id == old(lc_to_merge).id && final(lc_to_merge).ecu == old(lc_to_merge).ecu, // O:merge.keeps_ids
//@|        final(self).start_time == (if old(lc_to_merge).start_time < old(self).start_time { old(lc_to_merge).start_time } else { old(self).start_time }), // O:merge.start
//@|        final(self).max_timestamp_us == (if old(lc_to_merge).max_timestamp_us > old(self).max_timestamp_us { old(lc_to_merge).max_timestamp_us } else { old(self).max_timestamp_us }), // O:merge.end
//@|        final(self).wf(), // O:merge.wf
//@ end

//@ extract src/lifecycle/mod.rs Lifecycle::update
//@   sub R3 `vx_u32_from_be_bytes(a.payload_raw.get(0..4).unwrap().try_into().unwrap())` => `vx_u32_from_be_slice(vx_slice_get_0_4(a.payload_raw).unwrap())`
//@   sub R3 `vx_u32_from_le_bytes(a.payload_raw.get(0..4).unwrap().try_into().unwrap())` => `vx_u32_from_le_slice(vx_slice_get_0_4(a.payload_raw).unwrap())`
//@   sub R16 `(&[] as &[u8], false)` => `(vx_empty_slice(), false)`
//@   spec
//@|    requires
//@|        old(self).wf(), old(self).nr_msgs < u32::MAX, old(self).nr_control_req_msgs <= old(self).nr_msgs,
//@|        old(msg).reception_time_us <= T_MAX(),
//@|        old(msg).payload@.len() + 0x20000 <= usize::MAX,
//@|    ensures
//@|        final(msg).same_but_lifecycle(old(msg)), // O:update.frame
//@|        r is None ==> final(msg).lifecycle == old(self).id && final(self).nr_msgs == old(self).nr_msgs + 1, // O:update.assign_cur
//@|        r is Some ==> final(msg).lifecycle == r->Some_0.id && r->Some_0.id != 0 && r->Some_0.ecu == old(msg).ecu && r->Some_0.nr_msgs == 1, // O:update.assign_new
//@|        r is Some ==> final(self).same_as(old(self)), // O:update.new_leaves_cur
//@|        r is Some ==> r->Some_0.wf() && r->Some_0.nr_control_req_msgs <= 1,
//@|        final(self).id == old(self).id && final(self).ecu == old(self).ecu,
//@|        final(self).wf(), // O:update.wf
//@|        final(self).nr_control_req_msgs <= final(self).nr_msgs,
//@|        (r is None) == spec_belongs(old(self), old(msg), max_buffering_delay_us), // O:clean.decision (the membership test: calculated start no later than the current end, with the slightly-overlapping, resume, control-request and wrong-timestamp exceptions)
//@|        r is None && !spec_ctrl_req(old(msg)) && !spec_ignored_time(old(self), old(msg), max_buffering_delay_us) ==>
//@|            final(self).start_time == (if calc_start(old(msg)) < old(self).start_time { calc_start(old(msg)) } else { old(self).start_time as int })
//@|            && final(self).max_timestamp_us == (if old(self).max_timestamp_us < old(msg).timestamp_dms as int * 100 { old(msg).timestamp_dms as int * 100 } else { old(self).max_timestamp_us as int })
//@|            && final(self).last_reception_time == old(msg).reception_time_us, // O:clean.times (start = smallest calculated start, end = start + largest timestamp)
//@|        r is Some && !spec_ctrl_req(old(msg)) && old(msg).timestamp_dms as int * 100 <= old(msg).reception_time_us ==>
//@|            r->Some_0.start_time == calc_start(old(msg)) && r->Some_0.max_timestamp_us == old(msg).timestamp_dms as int * 100
//@|            && r->Some_0.last_reception_time == old(msg).reception_time_us, // O:clean.opened
//@ end
}

#[verifier::external_body]
pub fn vx_empty_slice<'a>() -> (r: &'a [u8])
    ensures r@.len() == 0,
{ &[] }

// ---- C07: the comparator used for the lifecycle listing (closure #2 of get_sorted_lifecycles_as_vec: sort_by) ----
pub open spec fn spec_rst(a: &Lifecycle) -> int {
    if a.resume_lc is Some && a.start_time <= a.resume_lc->Some_0.start_time { a.resume_lc->Some_0.start_time + 1 } else { a.start_time as int }
}
pub open spec fn spec_lc_cmp(a: &Lifecycle, b: &Lifecycle) -> std::cmp::Ordering {
    if spec_rst(a) < spec_rst(b) { std::cmp::Ordering::Less }
    else if spec_rst(a) == spec_rst(b) { std::cmp::Ordering::Equal }
    else { std::cmp::Ordering::Greater }
}
// ---- end of units/lifecycle/part.rs ----
