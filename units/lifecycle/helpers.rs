// ---- units/lifecycle/helpers.rs (shared by units lifecycle and anonctrl) ----
// <[u8]>::get(0..4): Some(first four bytes) iff the slice has at least four
#[verifier::external_body]
pub fn vx_slice_get_0_4<'a>(s: &'a [u8]) -> (r: Option<&'a [u8]>)
    ensures r is Some <==> s@.len() >= 4, r is Some ==> r->Some_0@ == s@.subrange(0, 4),
{ s.get(0..4) }
// ---- end of units/lifecycle/helpers.rs ----
