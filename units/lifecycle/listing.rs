// ---- units/lifecycle/listing.rs ----
//@ extract src/lifecycle/mod.rs closure fn get_sorted_lifecycles_as_vec#2
//@   unless `sort_by_key`
//@   sig pub fn lc_listing_cmp(a: &Lifecycle, b: &Lifecycle) -> (r: std::cmp::Ordering)
//@   spec
//@|    requires a.wf(), b.wf(),
//@|    ensures
//@|        r == spec_lc_cmp(a, b), // O:cmp.eq
//@|        (a.resume_lc is None && b.resume_lc is None) ==> (r is Less <==> a.start_time < b.start_time), // O:cmp.by_start_without_resume
//@|        // b resumes a (b.resume_lc holds a's start time as it was when b was created): a is listed first, provided a's own
//@|        // listing key is not later than that snapshot
//@|        (b.resume_lc is Some && spec_rst(a) <= b.resume_lc->Some_0.start_time) ==> r is Less, // O:cmp.resumed_after_origin
//@ end

// the other shape of the same statement: `sorted_lcs.sort_by_key(|lc| KEY)`. Sorting by a key is sorting with the comparator
// `key(a).cmp(key(b))`; the comparator of the property is spec_lc_cmp, i.e. the key has to be the (clamped) resume start time
//@ extract src/lifecycle/mod.rs closure fn get_sorted_lifecycles_as_vec#2
//@   when `sort_by_key`
//@   sig pub fn lc_listing_key(lc: &&Lifecycle) -> (r: u64)
//@   spec
//@|    requires lc.wf(),
//@|    ensures r == spec_rst(*lc), // O:cmp.key (the listing key orders like the comparator of the property: a resumed lifecycle never before the one it resumes)
//@ end

pub open spec fn rev(o: std::cmp::Ordering) -> std::cmp::Ordering {
    match o { std::cmp::Ordering::Less => std::cmp::Ordering::Greater, std::cmp::Ordering::Equal => std::cmp::Ordering::Equal, std::cmp::Ordering::Greater => std::cmp::Ordering::Less }
}
// the comparator is a total preorder (what slice::sort_by requires): finding F7, fixed in /repo
pub proof fn lemma_cmp_antisym(a: &Lifecycle, b: &Lifecycle)
    ensures spec_lc_cmp(b, a) == rev(spec_lc_cmp(a, b)), // O:cmp.antisym
{}
pub proof fn lemma_cmp_trans(a: &Lifecycle, b: &Lifecycle, c: &Lifecycle)
    requires spec_lc_cmp(a, b) is Less || spec_lc_cmp(a, b) is Equal, spec_lc_cmp(b, c) is Less || spec_lc_cmp(b, c) is Equal,
    ensures spec_lc_cmp(a, c) is Less || spec_lc_cmp(a, c) is Equal, // O:cmp.trans
        (spec_lc_cmp(a, b) is Less || spec_lc_cmp(b, c) is Less) ==> spec_lc_cmp(a, c) is Less,
{}
// O:cmp.resumed_strict -- STRICT (property: "never places a resumed lifecycle before the one it resumes"), without the side
// condition on the origin's own key. Fails for a chain of two resumes whose start estimates both cross (known finding F7b).
pub proof fn lemma_resumed_after_origin_unconditional(a: &Lifecycle, b: &Lifecycle) //@only:strict
    requires b.resume_lc is Some, b.resume_lc->Some_0.id == a.id, b.resume_lc->Some_0.start_time >= a.start_time, //@only:strict
    ensures spec_lc_cmp(a, b) is Less, // O:cmp.resumed_strict //@only:strict
{} //@only:strict
// ---- end of units/lifecycle/listing.rs ----
