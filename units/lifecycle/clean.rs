// ---- units/lifecycle/clean.rs: C08, the clean-trace theorem for one ECU as a verified client of Lifecycle::new / Lifecycle::update ----
// A clean trace of one ECU, described by ghost data: `cs[b]` = calculated start of boot b (boot time plus the boot's transport delay),
// `bidx[i]` = the boot message i belongs to. The hypotheses, from the property: boots follow each other in the stream; every message of a
// boot is received `cs[b] + timestamp` (one delay per boot, any order of timestamps within the boot); messages carry a timestamp and are not
// control requests (those come from the logger, not from a boot); and the separation of consecutive boots.
pub open spec fn ts_us(m: DltMessage) -> int { m.timestamp_dms as int * 100 }
// separation, literal reading of the property: every message of the previous boot is received before every message of the next one
pub open spec fn sep_literal(msgs: Seq<DltMessage>, bidx: Seq<int>) -> bool {
    forall|i: int, j: int| 0 <= j < i < msgs.len() && bidx[i] == bidx[j] + 1 ==> msgs[j].reception_time_us < msgs[i].reception_time_us
}
// separation as the detector needs it: the next boot's calculated start (boot time + its delay) lies after every reception time of the previous boot
pub open spec fn sep_calc(msgs: Seq<DltMessage>, cs: Seq<int>, bidx: Seq<int>) -> bool {
    forall|i: int, j: int| 0 <= j < i < msgs.len() && bidx[i] == bidx[j] + 1 ==> (msgs[j].reception_time_us as int) < cs[bidx[i]]
}
#[verifier::opaque]
pub open spec fn clean_trace(msgs: Seq<DltMessage>, cs: Seq<int>, bidx: Seq<int>) -> bool {
    &&& msgs.len() == bidx.len() && msgs.len() >= 1 && msgs.len() < u32::MAX
    &&& bidx[0] == 0
    &&& forall|i: int| 0 <= i < msgs.len() ==> 0 <= #[trigger] bidx[i] < cs.len()
    &&& forall|i: int| 0 < i < msgs.len() ==> (#[trigger] bidx[i] == bidx[i - 1] || bidx[i] == bidx[i - 1] + 1)
    &&& forall|i: int| 0 <= i < msgs.len() ==> {
            let m = #[trigger] msgs[i];
            !spec_ctrl_req(&m) && m.standard_header.htyp & 16 != 0 && m.reception_time_us <= T_MAX() && m.payload@.len() + 0x20000 <= usize::MAX
            && 0 <= cs[bidx[i]] && m.reception_time_us as int == cs[bidx[i]] + ts_us(m)
        }
    &&& sep_literal(msgs, bidx)
    &&& sep_calc(msgs, cs, bidx) //@only:excl
    // (strict variant: only the literal separation; clean.trace.next_boot_opens then fails: known finding - a boot whose delay is smaller //@only:strict
    //  than the previous boot's by more than the off-time is taken for late messages of the previous boot) //@only:strict
}
// the hypotheses, one message / one pair at a time (clean_trace is opaque in the loop: its quantifiers are instantiated here)
pub proof fn lemma_ct_shape(msgs: Seq<DltMessage>, cs: Seq<int>, bidx: Seq<int>)
    requires clean_trace(msgs, cs, bidx),
    ensures msgs.len() == bidx.len(), msgs.len() >= 1, msgs.len() < u32::MAX, bidx[0] == 0,
{ reveal(clean_trace); }
pub proof fn lemma_ct_msg(msgs: Seq<DltMessage>, cs: Seq<int>, bidx: Seq<int>, i: int)
    requires clean_trace(msgs, cs, bidx), 0 <= i < msgs.len(),
    ensures 0 <= bidx[i] < cs.len(), i > 0 ==> (bidx[i] == bidx[i - 1] || bidx[i] == bidx[i - 1] + 1),
        !spec_ctrl_req(&msgs[i]), msgs[i].standard_header.htyp & 16 != 0, msgs[i].reception_time_us <= T_MAX(), msgs[i].payload@.len() + 0x20000 <= usize::MAX,
        0 <= cs[bidx[i]], msgs[i].reception_time_us as int == cs[bidx[i]] + ts_us(msgs[i]),
{ reveal(clean_trace); }
pub proof fn lemma_ct_sep(msgs: Seq<DltMessage>, cs: Seq<int>, bidx: Seq<int>, i: int, j: int)
    requires clean_trace(msgs, cs, bidx), 0 <= j < i < msgs.len(), bidx[i] == bidx[j] + 1,
    ensures (msgs[j].reception_time_us as int) < cs[bidx[i]], // O:clean.trace.separated (the next boot's calculated start lies after every reception time of the previous boot: sep_calc; from the literal separation alone this does not follow)
{ reveal(clean_trace); }
// what the detector reports for a clean trace after i messages: the current lifecycle is the one of boot bidx[i-1], it starts at that boot's
// calculated start and ends at start + largest timestamp seen of that boot; `n_lcs` lifecycles were opened so far: one per boot
pub open spec fn clean_state(msgs: Seq<DltMessage>, cs: Seq<int>, bidx: Seq<int>, i: int, cur: &Lifecycle, n_lcs: int, ids: Seq<u32>) -> bool {
    let b = bidx[i - 1];
    &&& cur.wf() && cur.nr_msgs <= i && cur.nr_control_req_msgs <= cur.nr_msgs
    &&& n_lcs == b + 1 && ids.len() == n_lcs && cur.id == ids[b]
    &&& cur.start_time as int == cs[b]
    &&& cur.last_reception_time == msgs[i - 1].reception_time_us
    &&& forall|j: int| 0 <= j < i && bidx[j] == b ==> ts_us(#[trigger] msgs[j]) <= cur.max_timestamp_us
    &&& exists|j: int| 0 <= j < i && bidx[j] == b && ts_us(#[trigger] msgs[j]) == cur.max_timestamp_us
}
pub open spec fn msgs_same_but_lifecycle(a: Seq<DltMessage>, b: Seq<DltMessage>) -> bool {
    a.len() == b.len() && forall|k: int| 0 <= k < a.len() ==> (#[trigger] a[k]).same_but_lifecycle(&b[k])
}

// one step of the detector on a message of a clean trace: `c` is the calculated start of the message's boot
pub fn clean_step(cur: &mut Lifecycle, msg: &mut DltMessage, Ghost(same_boot): Ghost<bool>, Ghost(c): Ghost<int>) -> (r: Option<Lifecycle>)
    requires
        old(cur).wf(), old(cur).nr_msgs < u32::MAX, old(cur).nr_control_req_msgs <= old(cur).nr_msgs, old(cur).start_time <= old(cur).last_reception_time,
        !spec_ctrl_req(old(msg)), old(msg).standard_header.htyp & 16 != 0, old(msg).reception_time_us <= T_MAX(), old(msg).payload@.len() + 0x20000 <= usize::MAX,
        0 <= c, old(msg).reception_time_us as int == c + ts_us(*old(msg)),
        same_boot ==> c == old(cur).start_time,
        !same_boot ==> c > spec_end(old(cur)),
    ensures
        final(msg).same_but_lifecycle(old(msg)),
        same_boot ==> r is None && final(msg).lifecycle == old(cur).id && final(cur).id == old(cur).id && final(cur).wf()
            && final(cur).nr_msgs == old(cur).nr_msgs + 1 && final(cur).nr_control_req_msgs <= final(cur).nr_msgs
            && final(cur).start_time == old(cur).start_time && final(cur).last_reception_time == old(msg).reception_time_us
            && final(cur).max_timestamp_us == (if old(cur).max_timestamp_us < ts_us(*old(msg)) { ts_us(*old(msg)) } else { old(cur).max_timestamp_us as int }), // O:clean.trace.same_boot_stays
        !same_boot ==> r is Some && final(msg).lifecycle == r->Some_0.id && r->Some_0.wf() && r->Some_0.nr_msgs == 1 && r->Some_0.nr_control_req_msgs <= 1
            && r->Some_0.start_time as int == c && r->Some_0.max_timestamp_us == ts_us(*old(msg)) && r->Some_0.last_reception_time == old(msg).reception_time_us, // O:clean.trace.next_boot_opens
{
    proof {
        assert(calc_start(old(msg)) == c);
        if same_boot { lemma_clean_same_boot(cur, msg, 60_000_000); } else { lemma_clean_next_boot(cur, msg, 60_000_000); }
    }
    cur.update(msg, 60_000_000)
}

// The theorem: feeding the messages of a clean trace to Lifecycle::new / Lifecycle::update the way the stream detector does for one ECU
// (update on the ECU's current lifecycle; a returned lifecycle becomes the current one) opens exactly one lifecycle per boot, assigns every
// message to the lifecycle of its boot, and the last lifecycle starts at its boot's calculated start and ends at that plus the largest timestamp.
pub fn clean_trace_client(msgs: &mut Vec<DltMessage>, Ghost(cs): Ghost<Seq<int>>, Ghost(bidx): Ghost<Seq<int>>) -> (r: (Lifecycle, usize, Ghost<Seq<u32>>))
    requires clean_trace(old(msgs)@, cs, bidx),
    ensures
        msgs_same_but_lifecycle(final(msgs)@, old(msgs)@),
        r.1 == bidx[bidx.len() - 1] + 1, // O:clean.trace.one_lifecycle_per_boot
        r.2@.len() == r.1 && forall|k: int| 0 <= k < final(msgs)@.len() ==> (#[trigger] final(msgs)@[k]).lifecycle == r.2@[bidx[k]], // O:clean.trace.assignment (every message carries the id of the lifecycle opened for its boot)
        r.0.start_time as int == cs[bidx[bidx.len() - 1]], // O:clean.trace.start (boot time plus delay)
        forall|k: int| 0 <= k < old(msgs)@.len() && bidx[k] == bidx[bidx.len() - 1] ==> ts_us(#[trigger] old(msgs)@[k]) <= r.0.max_timestamp_us, // O:clean.trace.end (end = start + largest timestamp of the boot)
{
    let ghost msgs0 = msgs@;
    proof { lemma_ct_shape(msgs0, cs, bidx); lemma_ct_msg(msgs0, cs, bidx, 0); }
    let n = msgs.len();
    let mut cur = Lifecycle::new(&mut msgs[0]);
    let ghost mut ids: Seq<u32> = seq![cur.id];
    let mut n_lcs: usize = 1;
    let mut i: usize = 1;
    proof {
        lemma_ct_shape(msgs0, cs, bidx); lemma_ct_msg(msgs0, cs, bidx, 0);
        assert(calc_start(&msgs0[0]) == cs[0]);
        assert(ts_us(msgs0[0]) == cur.max_timestamp_us);
        assert(msgs@[0].same_but_lifecycle(&msgs0[0]));
    }
    while i < n
        invariant
            1 <= i <= n, n == msgs@.len(), n == msgs0.len(), n == bidx.len(), n_lcs <= i, clean_trace(msgs0, cs, bidx),
            forall|k: int| 0 <= k < n ==> (#[trigger] msgs@[k]).same_but_lifecycle(&msgs0[k]),
            forall|k: int| i <= k < n ==> #[trigger] msgs@[k] == msgs0[k],
            clean_state(msgs0, cs, bidx, i as int, &cur, n_lcs as int, ids),
            forall|k: int| 0 <= k < i ==> 0 <= #[trigger] bidx[k] <= bidx[i - 1],
            forall|k: int| 0 <= k < i ==> (#[trigger] msgs@[k]).lifecycle == ids[bidx[k]],
        decreases n - i,
    {
        let ghost b = bidx[i - 1];
        let ghost m0 = msgs0[i as int];
        let ghost cur0 = cur;
        let ghost ids0 = ids;
        let ghost msgs_before = msgs@;
        let ghost same = bidx[i as int] == b;
        let ghost jmax = choose|j: int| 0 <= j < i && bidx[j] == b && ts_us(#[trigger] msgs0[j]) == cur.max_timestamp_us;
        proof {
            lemma_ct_shape(msgs0, cs, bidx); lemma_ct_msg(msgs0, cs, bidx, i as int); lemma_ct_msg(msgs0, cs, bidx, i - 1); lemma_ct_msg(msgs0, cs, bidx, jmax);
            assert(msgs@[i as int] == m0);
            assert(msgs0[i - 1].reception_time_us as int == cs[b] + ts_us(msgs0[i - 1]));
            if !same {
                assert(bidx[i as int] == bidx[jmax] + 1);
                lemma_ct_sep(msgs0, cs, bidx, i as int, jmax);
                assert(msgs0[jmax].reception_time_us as int == cs[b] + cur.max_timestamp_us);
                assert(cs[bidx[i as int]] > spec_end(&cur));
            }
        }
        let res = clean_step(&mut cur, &mut msgs[i], Ghost(same), Ghost(cs[bidx[i as int]]));
        proof {
            assert forall|k: int| 0 <= k < n && k != i implies #[trigger] msgs@[k] == msgs_before[k] by {}
        }
        match res {
            None => {
                proof {
                    if cur0.max_timestamp_us < ts_us(m0) { assert(ts_us(msgs0[i as int]) == cur.max_timestamp_us); } else { assert(ts_us(msgs0[jmax]) == cur.max_timestamp_us); }
                }
            }
            Some(lc2) => {
                proof {
                    ids = ids.push(lc2.id);
                    assert(ts_us(msgs0[i as int]) == lc2.max_timestamp_us);
                    assert forall|k: int| 0 <= k < i implies ids[bidx[k]] == ids0[bidx[k]] by {}
                }
                cur = lc2;
                n_lcs = n_lcs + 1;
            }
        }
        i = i + 1;
    }
    (cur, n_lcs, Ghost(ids))
}
// ---- end of units/lifecycle/clean.rs ----
