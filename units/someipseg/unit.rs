//@ unit someipseg
// C03 ('running the built-in plugins'): the reassembly of segmented SOME/IP messages in SomeipPlugin::process_msg (NWST / NWCH / NWEN):
// the three statement ranges that touch the per-segment state. The state's invariant - what the start message is checked for before
// the state is stored - is what makes the division and the subtraction of the later arms safe.
#![allow(unused_imports, dead_code, unused_variables, unused_mut, non_upper_case_globals)]
use vstd::prelude::*;
verus! {
global size_of usize == 8;

//@ include prelude/std_specs.rs

//@ extract src/plugins/someip.rs struct SegmentedMsgInfo
//@ end
// the invariant of a stored segment state (the "sanity check" of the NWST arm)
pub open spec fn seg_wf(s: &SegmentedMsgInfo) -> bool {
    s.chunk_size > 0 && 0 < s.expected_nr_chunks && s.expected_nr_chunks < 0xffff && (s.chunk_size as int) * (s.expected_nr_chunks as int) < 1_000_000
}
// R12: `HashMap<u32, SegmentedMsgInfo>` as an opaque map. Its contract is the invariant: only well-formed states are stored
// (precondition of insert = the obligation of the NWST arm), so every state handed out is well-formed (ASSUMED from that; the NWCH arm,
// which gets a `&mut` to a stored state, is shown to leave it well-formed).
#[verifier::external_body]
pub struct VxSegMap { _p: u8 }
impl VxSegMap {
    #[verifier::external_body]
    pub fn insert(&mut self, k: u32, v: SegmentedMsgInfo) -> (r: Option<SegmentedMsgInfo>)
        requires seg_wf(&v), // O:someip.seg.insert_wf
    { unimplemented!() }
    #[verifier::external_body]
    pub fn remove(&mut self, k: &u32) -> (r: Option<SegmentedMsgInfo>)
        ensures r is Some ==> seg_wf(&r->Some_0),
    { unimplemented!() }
    #[verifier::external_body]
    pub fn get_mut(&mut self, k: &u32) -> (r: Option<&mut SegmentedMsgInfo>)
        ensures r is Some ==> seg_wf(r->Some_0),
    { unimplemented!() }
}
#[verifier::external_body]
pub struct VxFibex { _p: u8 }
#[verifier::external_body]
pub struct FibexError { _p: u8 }
pub struct VxSomeip { pub fibex_data: VxFibex, pub segmented_msgs_map: VxSegMap }
#[verifier::external_body]
pub fn decode_someip_header_and_payload(fd: &VxFibex, inst_id: u32, header: &[u8], payload: &[u8]) -> (r: Result<String, FibexError>) { unimplemented!() }
#[verifier::external_body]
pub fn vx_fibex_error() -> (r: FibexError) { unimplemented!() }
#[verifier::external_body]
pub fn vx_empty_slice<'a>() -> (r: &'a [u8])
    ensures r@.len() == 0,
{ &[] }
// R3: u16::from_le_bytes (any value)
#[verifier::external_body]
pub fn vx_u16_from_le_bytes(b: [u8; 2]) -> (r: u16) { u16::from_le_bytes(b) }
// allocation clause: the reassembly buffer is reserved up front
#[verifier::external_body]
pub fn vx_vec_with_capacity_u8(n: usize) -> (r: Vec<u8>)
    requires n <= 1_000_000, // O:someip.seg.prealloc_bounded
    ensures r@.len() == 0,
{ Vec::with_capacity(n) }

// NWST, 6th argument: the state is stored if the announced sizes pass the sanity check
//@ extract src/plugins/someip.rs region `let chunk_size = u16::from_le_bytes([buf[0], buf[1]]);` .. `if chunk_size > 0 ||| if start_expected_nr_chunk > 0` in <Plugin for SomeipPlugin>::process_msg
//@   sig pub fn seg_start(vx_self: &mut VxSomeip, buf: &[u8], segment_id: u32, start_expected_nr_chunk: u16, inst_id: u32) -> (r: Option<Result<String, FibexError>>)
//@   sub R12 `self` => `vx_self` *
//@   sub R11 `Vec::with_capacity(` => `vx_vec_with_capacity_u8(`
//@   hint start
//@|    let mut decoded_header: Option<Result<String, FibexError>> = None;
//@   hint before `if chunk_size > 0` ||| `if start_expected_nr_chunk > 0`
//@|    proof { assert((chunk_size as int) * (start_expected_nr_chunk as int) <= 0xffff * 0xffff) by (nonlinear_arith) requires 0 <= chunk_size <= 0xffff, 0 <= start_expected_nr_chunk <= 0xffff; }
//@   tail `decoded_header`
//@   spec
//@|    requires buf@.len() == 2,
//@|    ensures true, // O:someip.seg.start_no_panic
//@ end

// NWCH, 4th argument: the chunk is appended if it is the next one
//@ extract src/plugins/someip.rs region `if let Some(smi) = self.segmented_msgs_map.get_mut(&segment_id) {` .. `if let Some(smi) = self.segmented_msgs_map.get_mut(&segment_id) {` in <Plugin for SomeipPlugin>::process_msg
//@   sig pub fn seg_chunk(vx_self: &mut VxSomeip, vx_payload_raw: &[u8], segment_id: u32, chunk_nr: u16) -> (r: Option<Result<String, FibexError>>)
//@   sub R12 `self` => `vx_self` *
//@   sub R12 `arg.payload_raw` => `vx_payload_raw`
//@   sub R11 `smi.raw_buf.extend(buf);` => `smi.raw_buf.extend_from_slice(buf); proof { assert(seg_wf(smi)); } // O:someip.seg.chunk_keeps_wf`
//@   hint start
//@|    let mut decoded_header: Option<Result<String, FibexError>> = None;
//@   tail `decoded_header`
//@   spec
//@|    ensures true, // O:someip.seg.chunk_no_panic (the division by the chunk size, chunk_nr + 1)
//@ end

// NWEN, 2nd argument: the state is taken out and decoded if enough data arrived
//@ extract src/plugins/someip.rs region `if let Some(smi) = self.segmented_msgs_map.remove(&segment_id) {` .. `if let Some(smi) = self.segmented_msgs_map.remove(&segment_id) {` in <Plugin for SomeipPlugin>::process_msg
//@   sig pub fn seg_end(vx_self: &mut VxSomeip, segment_id: u32) -> (r: Option<Result<String, FibexError>>)
//@   sub R12 `self` => `vx_self` *
//@   sub R16 `&[]` => `vx_empty_slice()`
//@   sub R6 `FibexError { __ }` => `vx_fibex_error()`
//@   hint start
//@|    let mut decoded_header: Option<Result<String, FibexError>> = None;
//@   hint before `if smi.raw_buf.len()`
//@|    proof { assert((smi.expected_nr_chunks as int - 1) * (smi.chunk_size as int) <= 0xffff * 0xffff) by (nonlinear_arith) requires 1 <= smi.expected_nr_chunks <= 0xffff, 0 <= smi.chunk_size <= 0xffff; }
//@   tail `decoded_header`
//@   spec
//@|    ensures true, // O:someip.seg.end_no_panic (expected_nr_chunks - 1, the product, the slice [16..])
//@ end

fn main() {}
} // verus!
