// ---- units/filterset/part.rs ----
//@ extract src/filter/filter_impl.rs struct FilterKindContainer
//@   sub R2 `<T: Default>` => `<T>`
//@ end
impl<T> FilterKindContainer<T> {
    pub open spec fn spec_index(&self, kind: FilterKind) -> T {
        match kind { FilterKind::Positive => self.e@[0], FilterKind::Negative => self.e@[1], FilterKind::Marker => self.e@[2], FilterKind::Event => self.e@[3] }
    }
//@ extract src/filter/filter_impl.rs <Index for FilterKindContainer>::index
//@   sub R8 `Self::Output` => `T`
//@   spec
//@|    ensures *r == self.spec_index(kind), // O:container.index
//@ end
}
// `slice.iter().any(|filter| filter.matches(msg))` (R11: Iterator::any over a slice = exists; Verus cannot use its spec)
pub open spec fn spec_any_matches(fs: Seq<Filter>, msg: &DltMessage) -> bool {
    exists|i: int| 0 <= i < fs.len() && #[trigger] spec_matches(&fs[i], msg)
}
pub fn vx_any_matches(fs: &Vec<Filter>, msg: &DltMessage) -> (r: bool)
    ensures r == spec_any_matches(fs@, msg),
{
    // verified model of Iterator::any: a linear scan calling the real Filter::matches
    let mut i: usize = 0;
    while i < fs.len()
        invariant i <= fs@.len(), forall|j: int| 0 <= j < i ==> !spec_matches(&fs@[j], msg),
        decreases fs@.len() - i,
    {
        if fs[i].matches(msg) { return true; }
        i += 1;
    }
    false
}
// verified model of Iterator::all (only used if the code under check uses it)
pub fn vx_all_matches(fs: &Vec<Filter>, msg: &DltMessage) -> (r: bool)
    ensures r == (forall|i: int| 0 <= i < fs@.len() ==> #[trigger] spec_matches(&fs@[i], msg)),
{
    let mut i: usize = 0;
    while i < fs.len()
        invariant i <= fs@.len(), forall|j: int| 0 <= j < i ==> spec_matches(&fs@[j], msg),
        decreases fs@.len() - i,
    {
        if !fs[i].matches(msg) { return false; }
        i += 1;
    }
    true
}
// the property's formula
pub open spec fn spec_match_filters(msg: &DltMessage, filters: &FilterKindContainer<Vec<Filter>>) -> bool {
    let pos = filters.spec_index(FilterKind::Positive)@;
    let neg = filters.spec_index(FilterKind::Negative)@;
    let ev = filters.spec_index(FilterKind::Event)@;
    (pos.len() == 0 || spec_any_matches(pos, msg)) && !spec_any_matches(neg, msg) && (ev.len() == 0 || spec_any_matches(ev, msg))
}
//@ extract src/utils/remote_utils.rs fn match_filters
//@   sub R8 `&filters[FilterKind::Positive]` => `filters.index(FilterKind::Positive)`
//@   sub R8 `&filters[FilterKind::Negative]` => `filters.index(FilterKind::Negative)`
//@   sub R8 `&filters[FilterKind::Event]` => `filters.index(FilterKind::Event)`
//@   sub R11 `pos_filters.iter().any(|filter| filter.matches(msg))` => `vx_any_matches(pos_filters, msg)` ?
//@   sub R11 `neg_filters.iter().any(|filter| filter.matches(msg))` => `vx_any_matches(neg_filters, msg)` ?
//@   sub R11 `ev_filters.iter().any(|filter| filter.matches(msg))` => `vx_any_matches(ev_filters, msg)` ?
//@   sub R11 `pos_filters.iter().all(|filter| filter.matches(msg))` => `vx_all_matches(pos_filters, msg)` ?
//@   sub R11 `neg_filters.iter().all(|filter| filter.matches(msg))` => `vx_all_matches(neg_filters, msg)` ?
//@   sub R11 `ev_filters.iter().all(|filter| filter.matches(msg))` => `vx_all_matches(ev_filters, msg)` ?
//@   spec
//@|    ensures r == spec_match_filters(msg, filters), // O:match_filters.eq
//@ end

// consequences stated by the property: disabled filters and marker filters have no effect on selection
pub proof fn lemma_disabled_filter_never_matches(f: &Filter, m: &DltMessage)
    requires !f.enabled,
    ensures !spec_matches(f, m), // O:match_filters.disabled_no_effect
{}
pub proof fn lemma_marker_filters_ignored(msg: &DltMessage, a: &FilterKindContainer<Vec<Filter>>, b: &FilterKindContainer<Vec<Filter>>)
    requires a.spec_index(FilterKind::Positive) == b.spec_index(FilterKind::Positive), a.spec_index(FilterKind::Negative) == b.spec_index(FilterKind::Negative),
        a.spec_index(FilterKind::Event) == b.spec_index(FilterKind::Event),
    ensures spec_match_filters(msg, a) == spec_match_filters(msg, b), // O:match_filters.marker_no_effect
{}
// ---- end of units/filterset/part.rs ----
