//@ unit filterset
// C12 (set-matcher clause): match_filters == (no positive filter or some positive matches) and no negative matches and
// (no event filter or some event filter matches).
#![allow(unused_imports, dead_code, unused_variables, unused_mut, non_upper_case_globals)]
use vstd::prelude::*;
verus! {
global size_of usize == 8;

//@ include prelude/std_specs.rs
//@ include units/dltcore/part.rs
//@ include units/filter/char4eq.rs
//@ include units/filter/part.rs
//@ include units/filterset/part.rs

fn main() {}
} // verus!
