// ---- units/filterjson/part.rs ----
// serde_json::Value (R11/R12): an abstract JSON document. `v[key]` of an object yields the member (Null if absent), `.as_u64()` /
// `.as_bool()` / `.as_str()` / `.as_array()` its typed view: ASSUMED to be functions of the document and the key.
#[verifier::external_body]
pub struct VxJson { _p: u8 }
#[verifier::external_body]
pub struct VxJsonVal { _p: u8 }
#[verifier::external_body]
#[derive(Debug)]
pub struct VxJsonErr { _p: u8 }
impl VxJson {
    pub uninterp spec fn u(&self, key: Seq<char>) -> Option<u64>;
    pub uninterp spec fn b(&self, key: Seq<char>) -> Option<bool>;
    pub uninterp spec fn s(&self, key: Seq<char>) -> Option<Seq<char>>;
    pub uninterp spec fn u32s(&self, key: Seq<char>) -> Option<Seq<u32>>;   // as_array().map(the members that are u64, as u32)
    #[verifier::external_body]
    pub fn vx_idx<'a>(&'a self, key: &str) -> (r: VxJsonVal)
        ensures r.u() == self.u(key@), r.b() == self.b(key@), r.s() == self.s(key@), r.u32s() == self.u32s(key@),
    { unimplemented!() }
}
impl VxJsonVal {
    pub uninterp spec fn u(&self) -> Option<u64>;
    pub uninterp spec fn b(&self) -> Option<bool>;
    pub uninterp spec fn s(&self) -> Option<Seq<char>>;
    pub uninterp spec fn u32s(&self) -> Option<Seq<u32>>;
    #[verifier::external_body]
    pub fn as_u64(&self) -> (r: Option<u64>) ensures r == self.u() { unimplemented!() }
    #[verifier::external_body]
    pub fn as_bool(&self) -> (r: Option<bool>) ensures r == self.b() { unimplemented!() }
    #[verifier::external_body]
    pub fn as_str(&self) -> (r: Option<&str>)
        ensures r is Some <==> self.s() is Some, r is Some ==> r->Some_0@ == self.s()->Some_0,
    { unimplemented!() }
    #[verifier::external_body]
    pub fn vx_u32_array(&self) -> (r: Option<Vec<u32>>)
        ensures r is Some <==> self.u32s() is Some, r is Some ==> r->Some_0@ == self.u32s()->Some_0,
    { unimplemented!() }
}
pub uninterp spec fn json_of(s: Seq<char>) -> VxJson;   // the document a text parses to
#[verifier::external_body]
pub fn vx_json_parse(s: &str) -> (r: Result<VxJson, VxJsonErr>) ensures r is Ok ==> r->Ok_0 == json_of(s@) { unimplemented!() }

// regex compilation and the string helpers (R11): the compiled object is a function of its pattern text
pub uninterp spec fn has_rx_chars(s: Seq<char>) -> bool;            // contains_regex_chars
pub uninterp spec fn bre_pat(r: &VxBytesRegex) -> Seq<char>;        // the pattern a regex::bytes::Regex was compiled from
pub uninterp spec fn fancy_pat(r: &VxFancyRegex) -> Seq<char>;
pub uninterp spec fn sre_ci_literal(r: &VxStrRegex) -> Seq<char>;   // RegexBuilder::new(&escape(s)).case_insensitive(true): matches the literal s, ignoring case
pub uninterp spec fn ci_prefixed(s: Seq<char>) -> Seq<char>;        // "(?i)" + s
pub uninterp spec fn char4_of_str(s: Seq<char>) -> DltChar4;        // DltChar4::from_str (at most 4 bytes, zero padded)
#[verifier::external_body]
pub fn contains_regex_chars(s: &str) -> (r: bool) ensures r == has_rx_chars(s@) { unimplemented!() }
#[verifier::external_body]
pub fn vx_char4orregex_from_str(s: &str, is_regex: bool) -> (r: Result<Char4OrRegex, Error>)
    ensures r is Ok ==> c4r_is(r->Ok_0, s@, is_regex),
{ unimplemented!() }
#[verifier::external_body]
pub fn vx_fancy_new(s: &str) -> (r: Result<VxFancyRegex, Error>) ensures r is Ok ==> fancy_pat(&r->Ok_0) == s@ { unimplemented!() }
#[verifier::external_body]
pub fn vx_ci_prefix(s: &str) -> (r: String) ensures r@ == ci_prefixed(s@) { unimplemented!() }
#[verifier::external_body]
pub fn vx_ci_literal_regex(s: &str) -> (r: Result<VxStrRegex, Error>) ensures r is Ok ==> sre_ci_literal(&r->Ok_0) == s@ { unimplemented!() }
#[verifier::external_body]
pub fn vx_to_string(s: &str) -> (r: String) ensures r@ == s@ { unimplemented!() }

// ---------- oracle: what a JSON document says about a filter (from the property and the documented JSON format) ----------
pub open spec fn c4r_is(c: Char4OrRegex, s: Seq<char>, is_regex: bool) -> bool {
    if is_regex { c matches Char4OrRegex::Regex(r) && bre_pat(&r) == s } else { c matches Char4OrRegex::DltChar4(d) && d == char4_of_str(s) }
}
// an id criterion: absent without the key; a regular expression if `<key>IsRegex` says so, else (flag absent) if the text contains
// regex characters; a literal id otherwise
pub open spec fn id_crit_is(c: Option<Char4OrRegex>, j: &VxJson, key: Seq<char>, flag: Seq<char>) -> bool {
    match j.s(key) {
        None => c is None,
        Some(s) => c is Some && c4r_is(c->Some_0, s, match j.b(flag) { Some(b) => b, None => has_rx_chars(s) }),
    }
}
pub open spec fn opt_or(b: Option<bool>, d: bool) -> bool { match b { Some(x) => x, None => d } }
pub open spec fn json_kind(j: &VxJson) -> Option<FilterKind> {
    match j.u("type"@) { Some(0) => Some(FilterKind::Positive), Some(1) => Some(FilterKind::Negative), Some(2) => Some(FilterKind::Marker), Some(3) => Some(FilterKind::Event), _ => None }
}
pub open spec fn json_type_crit(j: &VxJson) -> Option<(u8, u8)> {
    match j.u("verb_mstp_mtin"@) {
        Some(x) => Some(((x & 0xff) as u8, if (((x & 0xff) as u8) >> 4) & 0xfu8 == 0 { 0x0fu8 } else { 0xffu8 })),   // a type byte; the MTIN nibble is ignored when 0
        None => match j.u("mstp"@) { Some(x) => Some((((x & 0x07) << 1) as u8, 0x07u8 << 1)), None => None },                 // only the message type
    }
}
pub open spec fn json_level(j: &VxJson, key: Seq<char>) -> Option<u8> { match j.u(key) { Some(l) => Some(l as u8), None => None } }
pub open spec fn json_level_bad(j: &VxJson, key: Seq<char>) -> bool { j.u(key) is Some && j.u(key)->Some_0 > 6 }
pub open spec fn filter_is_json(f: &Filter, j: &VxJson) -> bool {
    let ic = opt_or(j.b("ignoreCasePayload"@), false);
    &&& Some(f.kind) == json_kind(j)
    &&& f.enabled == opt_or(j.b("enabled"@), true)
    &&& f.negate_match == opt_or(j.b("not"@), false)
    &&& f.at_load_time == opt_or(j.b("atLoadTime"@), false)
    &&& id_crit_is(f.ecu, j, "ecu"@, "ecuIsRegex"@)
    &&& id_crit_is(f.apid, j, "apid"@, "apidIsRegex"@)
    &&& id_crit_is(f.ctid, j, "ctid"@, "ctidIsRegex"@)
    &&& f.ignore_case_payload == ic
    // payload: a regular expression (case-insensitive by the (?i) prefix) takes precedence over a literal text; a literal text that is to
    // be matched ignoring case is compiled to a case-insensitive literal regex, and only then
    &&& (match j.s("payloadRegex"@) {
            Some(s) => f.payload_regex is Some && fancy_pat(&f.payload_regex->Some_0) == (if ic { ci_prefixed(s) } else { s }) && f.payload is None && f.payload_as_regex is None,
            None => f.payload_regex is None && match j.s("payload"@) {
                Some(s) => f.payload is Some && f.payload->Some_0@ == s && (f.payload_as_regex is Some <==> ic) && (ic ==> sre_ci_literal(&f.payload_as_regex->Some_0) == s),
                None => f.payload is None && f.payload_as_regex is None,
            },
        })
    &&& f.loglevel_min == json_level(j, "logLevelMin"@)
    &&& f.loglevel_max == json_level(j, "logLevelMax"@)
    &&& f.verb_mstp_mtin == json_type_crit(j)
    &&& (match j.u32s("lifecycles"@) { Some(l) => f.lifecycles is Some && f.lifecycles->Some_0@ == l, None => f.lifecycles is None })
}
// what Filter::matches needs of a filter (the well-formedness the matching clause relies on)
pub open spec fn filter_wf(f: &Filter) -> bool {
    f.payload_as_regex is Some <==> (f.ignore_case_payload && f.payload is Some && f.payload_regex is None)
}
// what else every front-end guarantees about the compiled payload matchers
pub open spec fn built_ok(f: &Filter) -> bool {
    &&& filter_wf(f)
    &&& (f.payload_as_regex is Some ==> sre_ci_literal(&f.payload_as_regex->Some_0) == f.payload->Some_0@)                       // the case-insensitive literal is the payload text
    &&& (f.ignore_case_payload && f.payload_regex is Some ==> exists|p: Seq<char>| fancy_pat(&f.payload_regex->Some_0) == #[trigger] ci_prefixed(p)) // (?i) + pattern
}

impl Filter {
//@ extract src/filter/filter_impl.rs Filter::from_json
//@   sub R11 `serde_json::from_str(json_str)` => `vx_json_parse(json_str)`
//@   sub R11 `if v.is_err() { __ }` => `if v.is_err() { return Err(Error::new(ErrorKind::InvalidData(vx_opaque_string()))); }` ?
//@   sub R11 `: Value` => `: VxJson` *
//@   sub R11 `v[` => `v.vx_idx(` *
//@   sub R11 `].as_u64()` => `).as_u64()` *
//@   sub R11 `].as_bool()` => `).as_bool()` *
//@   sub R11 `].as_str()` => `).as_str()` *
//@   sub R21 `.unwrap_or_else(|| contains_regex_chars(s))` => `.unwrap_or(contains_regex_chars(s))` *
//@   sub R11 `Char4OrRegex::from_str(` => `vx_char4orregex_from_str(` *
//@   sub R11 `.map_err(__)` => `` *
//@   sub R11 `let s = vx_opaque_string() + s;` => `let s = vx_ci_prefix(s);`
//@   sub R11 `Regex::new(&s)` => `vx_fancy_new(s.as_str())`
//@   sub R11 `Regex::new(s)` => `vx_fancy_new(s)`
//@   sub R11 `s.to_string()` => `vx_to_string(s)`
//@   sub R11 `regex::RegexBuilder::new(&regex::escape(s)) .case_insensitive(true) .build()` => `vx_ci_literal_regex(s)`
//@   sub R11 `].as_array().map(__)` => `).vx_u32_array()`
//@   spec
//@|    ensures
//@|        r is Ok ==> filter_is_json(&r->Ok_0, &json_of(json_str@)), // O:from_json.fields (every field is what the document says, with the documented defaults)
//@|        r is Ok ==> built_ok(&r->Ok_0), // O:from_json.wf (the filter is well-formed for Filter::matches)
//@|        r is Ok ==> !json_level_bad(&json_of(json_str@), "logLevelMin"@) && !json_level_bad(&json_of(json_str@), "logLevelMax"@), // O:from_json.levels (a log level above 6 is rejected)
//@ end
}

// ---- front-end: the ECU:APID:CTID expression of `adlt convert` (EacFilter::from_str, src/bin/adlt/convert.rs) ----
// `s.split(':')` and three times `.next().unwrap_or_default()` (R11): the first three ':'-separated parts of the text, "" if absent
pub uninterp spec fn colon_part(s: Seq<char>, k: int) -> Seq<char>;
#[verifier::external_body]
pub fn vx_colon_parts(s: &str) -> (r: (&str, &str, &str))
    ensures r.0@ == colon_part(s@, 0), r.1@ == colon_part(s@, 1), r.2@ == colon_part(s@, 2),
{ unimplemented!() }
#[verifier::external_body]
pub fn vx_str_is_empty(s: &str) -> (r: bool) ensures r == (s@.len() == 0) { unimplemented!() }
pub struct EacFilter { pub filter: Filter }
// an enabled, not negated filter of the given kind without any criterion other than ids
pub open spec fn ids_only(f: &Filter, kind: FilterKind) -> bool {
    f.kind == kind && f.enabled && !f.at_load_time && !f.negate_match && f.verb_mstp_mtin is None && f.payload is None && f.payload_regex is None
        && !f.ignore_case_payload && f.payload_as_regex is None && f.loglevel_min is None && f.loglevel_max is None && f.lifecycles is None
}
// an id criterion of the expression: absent for an empty part, else a regular expression iff the text contains regex characters
pub open spec fn eac_crit_is(c: Option<Char4OrRegex>, part: Seq<char>) -> bool {
    if part.len() == 0 { c is None } else { c is Some && c4r_is(c->Some_0, part, has_rx_chars(part)) }
}
impl EacFilter {
//@ extract src/bin/adlt/convert.rs EacFilter::from_str
//@   sub R11 `let mut parts = s.split(':');` => `let vx_parts = vx_colon_parts(s);`
//@   sub R11 `let ecu = parts.next().unwrap_or_default();` => `let ecu = vx_parts.0;`
//@   sub R11 `let apid = parts.next().unwrap_or_default();` => `let apid = vx_parts.1;`
//@   sub R11 `let ctid = parts.next().unwrap_or_default();` => `let ctid = vx_parts.2;`
//@   sub R11 `s.is_empty()` => `vx_str_is_empty(s)`
//@   sub R11 `ecu.is_empty()` => `vx_str_is_empty(ecu)`
//@   sub R11 `apid.is_empty()` => `vx_str_is_empty(apid)`
//@   sub R11 `ctid.is_empty()` => `vx_str_is_empty(ctid)`
//@   sub R11 `Char4OrRegex::from_str(` => `vx_char4orregex_from_str(` *
//@   sub R2 `adlt::filter::FilterKind::Positive` => `FilterKind::Positive`
//@   spec
//@|    ensures
//@|        r is Ok ==> ({
//@|            let f = r->Ok_0.filter;
//@|            eac_crit_is(f.ecu, colon_part(s@, 0)) && eac_crit_is(f.apid, colon_part(s@, 1)) && eac_crit_is(f.ctid, colon_part(s@, 2)) && ids_only(&f, FilterKind::Positive)
//@|        }), // O:eac.fields (ECU:APID:CTID: a positive filter with exactly the non-empty parts as id criteria)
//@ end
}

// ---- front-end equivalence (the property's second sentence, for JSON and the ECU:APID:CTID expression) ----
// ASSUMED about the regex crate: whether a compiled regex matches is a function of the pattern it was compiled from
pub uninterp spec fn rx_matches(pat: Seq<char>, b: Seq<u8>) -> bool;
#[verifier::external_body]
pub proof fn axiom_bre_match_by_pattern(r: &VxBytesRegex, b: Seq<u8>)
    ensures bre_match(r, b) == rx_matches(bre_pat(r), b),
{}
// two id criteria built from the same text with the same literal/regex decision accept the same ids
pub proof fn lemma_same_id_crit(c1: Char4OrRegex, c2: Char4OrRegex, s: Seq<char>, rx: bool, id: Seq<u8>)
    requires c4r_is(c1, s, rx), c4r_is(c2, s, rx),
    ensures id_ok(Some(c1), id) == id_ok(Some(c2), id),
{
    if rx {
        axiom_bre_match_by_pattern(&c1->Regex_0, id);
        axiom_bre_match_by_pattern(&c2->Regex_0, id);
    }
}
// A JSON document that says the same as an ECU:APID:CTID expression - a positive filter, the non-empty parts as "ecu"/"apid"/"ctid",
// no explicit IsRegex flags, nothing else - yields a filter that decides every message like the one built from the expression.
pub open spec fn json_says_eac(j: &VxJson, e: Seq<char>) -> bool {
    &&& j.u("type"@) == Some(0u64)
    &&& j.b("enabled"@) is None && j.b("not"@) is None
    &&& j.s("ecu"@) == (if colon_part(e, 0).len() == 0 { None::<Seq<char>> } else { Some(colon_part(e, 0)) }) && j.b("ecuIsRegex"@) is None
    &&& j.s("apid"@) == (if colon_part(e, 1).len() == 0 { None::<Seq<char>> } else { Some(colon_part(e, 1)) }) && j.b("apidIsRegex"@) is None
    &&& j.s("ctid"@) == (if colon_part(e, 2).len() == 0 { None::<Seq<char>> } else { Some(colon_part(e, 2)) }) && j.b("ctidIsRegex"@) is None
    &&& j.s("payloadRegex"@) is None && j.s("payload"@) is None && j.u("logLevelMin"@) is None && j.u("logLevelMax"@) is None
    &&& j.u("verb_mstp_mtin"@) is None && j.u("mstp"@) is None && j.u32s("lifecycles"@) is None
}
pub proof fn theorem_json_eac_same_decision(fj: &Filter, j: &VxJson, fe: &Filter, e: Seq<char>, m: &DltMessage)
    requires
        filter_is_json(fj, j), json_says_eac(j, e),
        eac_crit_is(fe.ecu, colon_part(e, 0)) && eac_crit_is(fe.apid, colon_part(e, 1)) && eac_crit_is(fe.ctid, colon_part(e, 2)) && ids_only(fe, FilterKind::Positive),
    ensures spec_matches(fj, m) == spec_matches(fe, m), // O:frontends.json_eac (the same abstract filter decides identically whether loaded from JSON or from an ECU:APID:CTID expression)
{
    let p0 = colon_part(e, 0); let p1 = colon_part(e, 1); let p2 = colon_part(e, 2);
    if p0.len() > 0 { lemma_same_id_crit(fj.ecu->Some_0, fe.ecu->Some_0, p0, has_rx_chars(p0), m.ecu.char4@); }
    if m.extended_header is Some {
        if p1.len() > 0 { lemma_same_id_crit(fj.apid->Some_0, fe.apid->Some_0, p1, has_rx_chars(p1), m.extended_header->Some_0.apid.char4@); }
        if p2.len() > 0 { lemma_same_id_crit(fj.ctid->Some_0, fe.ctid->Some_0, p2, has_rx_chars(p2), m.extended_header->Some_0.ctid.char4@); }
    }
}

// ---- front-end: dlt-viewer filter files (DLF). Filter::from_quick_xml_reader first collects the child elements of <filter> into a
// map element name -> text (quick_xml event loop: not modelled), then builds the filter from that map: this second part, from
// `if let Some(s) = attrs.get("type")` to the end, is the statement range under contract. ----
#[verifier::external_body]
pub struct VxAttrs { m: std::collections::HashMap<String, String> }
impl VxAttrs {
    pub uninterp spec fn a(&self, key: Seq<char>) -> Option<Seq<char>>;
    #[verifier::external_body]
    pub fn get(&self, key: &str) -> (r: Option<&String>)
        ensures r is Some <==> self.a(key@) is Some, r is Some ==> r->Some_0@ == self.a(key@)->Some_0,
    { unimplemented!() }
    // `attrs.get(key) == Some(&"1".to_string())`
    #[verifier::external_body]
    pub fn vx_flag(&self, key: &str) -> (r: bool) ensures r == (self.a(key@) == Some("1"@)) { unimplemented!() }
    // HashMap::with_capacity / insert (first half of the reader)
    #[verifier::external_body]
    pub fn vx_new() -> (r: VxAttrs) ensures forall|k: Seq<char>| r.a(k) is None { unimplemented!() }
    #[verifier::external_body]
    pub fn insert(&mut self, k: String, v: String) -> (r: Option<String>)
        ensures forall|q: Seq<char>| #[trigger] final(self).a(q) == (if q == k@ { Some(v@) } else { old(self).a(q) }),
    { unimplemented!() }
}
#[verifier::external_body]
pub fn vx_str_is_one(s: &String) -> (r: bool) ensures r == (s@ == "1"@) { unimplemented!() }
pub uninterp spec fn parse_u8(s: Seq<char>) -> Option<u8>;   // str::parse::<u8>().ok()
#[verifier::external_body]
pub fn vx_parse_u8(s: &String) -> (r: Option<u8>) ensures r == parse_u8(s@) { unimplemented!() }
#[verifier::external_body]
pub fn vx_string_clone(s: &String) -> (r: String) ensures r@ == s@ { unimplemented!() }

pub open spec fn flag(a: &VxAttrs, key: Seq<char>) -> bool { a.a(key) == Some("1"@) }
// an id criterion of a DLF filter: present iff enabled and given and compilable; a regular expression iff the regexp flag element is
// "1" or - element absent - the text contains regex characters (the ECU id is always literal)
pub open spec fn dlf_id_crit_is(c: Option<Char4OrRegex>, a: &VxAttrs, enable: Seq<char>, key: Seq<char>, rx: Option<Seq<char>>) -> bool {
    if flag(a, enable) && a.a(key) is Some {
        let s = a.a(key)->Some_0;
        let is_rx = match rx { None => false, Some(k) => match a.a(k) { Some(v) => v == "1"@, None => has_rx_chars(s) } };
        c is Some ==> c4r_is(c->Some_0, s, is_rx)
    } else { c is None }
}
pub open spec fn dlf_level(a: &VxAttrs, enable: Seq<char>, key: Seq<char>) -> Option<u8> {
    if flag(a, enable) && a.a(key) is Some && parse_u8(a.a(key)->Some_0) is Some && parse_u8(a.a(key)->Some_0)->Some_0 <= 6 { parse_u8(a.a(key)->Some_0) } else { None }
}
pub open spec fn filter_is_dlf(f: &Filter, a: &VxAttrs) -> bool {
    let ic = flag(a, "enablepayloadtext"@) && flag(a, "ignoreCase_Payload"@);
    &&& f.kind == (match a.a("type"@) { Some(s) => match parse_u8(s) { Some(1u8) => FilterKind::Negative, Some(2u8) => FilterKind::Marker, Some(3u8) => FilterKind::Event, _ => FilterKind::Positive }, None => FilterKind::Positive })
    &&& f.enabled == flag(a, "enablefilter"@)
    &&& !f.negate_match && !f.at_load_time && f.lifecycles is None
    &&& dlf_id_crit_is(f.ecu, a, "enableecuid"@, "ecuid"@, None)
    &&& dlf_id_crit_is(f.apid, a, "enableapplicationid"@, "applicationid"@, Some("enableregexp_Appid"@))
    &&& dlf_id_crit_is(f.ctid, a, "enablecontextid"@, "contextid"@, Some("enableregexp_Context"@))
    &&& f.verb_mstp_mtin == (if flag(a, "enablecontrolmsgs"@) { Some((0x03u8 << 1, 7u8 << 1)) } else { None::<(u8, u8)> })
    &&& f.ignore_case_payload == ic
    &&& (if flag(a, "enablepayloadtext"@) && a.a("payloadtext"@) is Some {
            let s = a.a("payloadtext"@)->Some_0;
            if flag(a, "enableregexp_Payload"@) {
                f.payload is None && f.payload_as_regex is None && (f.payload_regex is Some ==> fancy_pat(&f.payload_regex->Some_0) == (if ic { ci_prefixed(s) } else { s }))
            } else {
                f.payload_regex is None && f.payload is Some && f.payload->Some_0@ == s && (f.payload_as_regex is Some ==> sre_ci_literal(&f.payload_as_regex->Some_0) == s)
            }
        } else { f.payload is None && f.payload_regex is None && f.payload_as_regex is None })
    &&& f.loglevel_max == dlf_level(a, "enableLogLevelMax"@, "logLevelMax"@)
    &&& f.loglevel_min == dlf_level(a, "enableLogLevelMin"@, "logLevelMin"@)
}
impl Filter {
//@ extract src/filter/filter_impl.rs region `if let Some(s) = attrs.get("type") {` .. `$end` in Filter::from_quick_xml_reader
//@   sig pub fn dlf_from_attrs(mut filter: Filter, attrs: &VxAttrs) -> (r: Result<Filter, Error>)
//@   sub R11 `attrs.get(__) == Some(&vx_opaque_string())` => `attrs.vx_flag($1)` *
//@   sub R11 `ir == &vx_opaque_string()` => `vx_str_is_one(ir)` ?
//@   sub R11 `s.parse::<u8>().unwrap_or_default()` => `vx_parse_u8(s).unwrap_or(0)`
//@   sub R11 `s.parse::<u8>().unwrap_or(0xff)` => `vx_parse_u8(s).unwrap_or(0xff)` x2
//@   sub R11 `Char4OrRegex::from_str(` => `vx_char4orregex_from_str(` *
//@   sub R11 `let s = vx_opaque_string() + s;` => `let s = vx_ci_prefix(s);`
//@   sub R11 `Regex::new(&s)` => `vx_fancy_new(s.as_str())`
//@   sub R11 `Regex::new(s)` => `vx_fancy_new(s)`
//@   sub R11 `s.clone()` => `vx_string_clone(s)`
//@   sub R11 `regex::RegexBuilder::new(&regex::escape(s)) .case_insensitive(true) .build()` => `vx_ci_literal_regex(s)`
//@   sub R11 `.map_err(__)` => `` *
//@   spec
//@|    requires filter.plain(FilterKind::Positive) && filter.apid is None && filter.ctid is None, // Filter::new(FilterKind::Positive)
//@|    ensures
//@|        r is Ok ==> filter_is_dlf(&r->Ok_0, attrs), // O:dlf.fields (every field is what the filter file says)
//@|        r is Ok ==> filter_wf(&r->Ok_0) && (r->Ok_0.payload_as_regex is Some ==> sre_ci_literal(&r->Ok_0.payload_as_regex->Some_0) == r->Ok_0.payload->Some_0@), // O:dlf.wf (the filter is well-formed for Filter::matches: a literal payload text is matched ignoring case only if the file says so)
//@ end
}

// ---- first half of the DLF reader: the quick_xml event loop that collects the child elements of <filter> into the map ----
// R12: the reader as a script of events. Start / End carry the element's local name, Text its unescaped text (None: unescaping fails).
pub enum XEv { Start(Seq<char>), Text(Option<Seq<char>>), End(Seq<char>), Eof, Other, Fail }
#[verifier::external_body]
pub struct VxXmlErr { _p: u8 }
#[verifier::external_body]
pub struct VxXmlName { _p: u8 }
impl VxXmlName {
    pub uninterp spec fn name(&self) -> Seq<char>;
    // `e.local_name().as_ref() == b"filter"` (as a pattern)
    #[verifier::external_body]
    pub fn vx_is_filter(&self) -> (r: bool) ensures r == (self.name() == "filter"@) { unimplemented!() }
    // `String::from_utf8_lossy(e.local_name().as_ref()).into_owned()`
    #[verifier::external_body]
    pub fn vx_name_string(&self) -> (r: String) ensures r@ == self.name() { unimplemented!() }
}
#[verifier::external_body]
pub struct VxXmlText { _p: u8 }
#[verifier::external_body]
pub struct VxXmlCow { _p: u8 }
impl VxXmlCow {
    pub uninterp spec fn text(&self) -> Seq<char>;
    #[verifier::external_body]
    pub fn to_string(&self) -> (r: String) ensures r@ == self.text() { unimplemented!() }
}
impl VxXmlText {
    pub uninterp spec fn unesc(&self) -> Option<Seq<char>>;
    #[verifier::external_body]
    pub fn unescape(&self) -> (r: Result<VxXmlCow, VxXmlErr>) ensures r is Ok <==> self.unesc() is Some, r is Ok ==> r->Ok_0.text() == self.unesc()->Some_0 { unimplemented!() }
}
pub enum VxXmlEv { Start(VxXmlName), Text(VxXmlText), End(VxXmlName), Eof, Other(u8) }
#[verifier::external_body]
pub struct VxXmlReader { _p: u8 }
impl VxXmlReader {
    pub uninterp spec fn script(&self) -> Seq<XEv>;
    #[verifier::external_body]
    pub fn vx_next_event(&mut self) -> (r: Result<VxXmlEv, VxXmlErr>)
        ensures
            old(self).script().len() == 0 ==> r is Err && final(self).script() == old(self).script(),
            old(self).script().len() > 0 ==> final(self).script() == old(self).script().skip(1) && (match old(self).script()[0] {
                XEv::Start(n) => r is Ok && r->Ok_0 is Start && r->Ok_0->Start_0.name() == n,
                XEv::Text(t) => r is Ok && r->Ok_0 is Text && r->Ok_0->Text_0.unesc() == t,
                XEv::End(n) => r is Ok && r->Ok_0 is End && r->Ok_0->End_0.name() == n,
                XEv::Eof => r is Ok && r->Ok_0 is Eof,
                XEv::Other => r is Ok && r->Ok_0 is Other,
                XEv::Fail => r is Err,
            }),
    { unimplemented!() }
}
#[verifier::external_body]
pub fn vx_xml_missing_end() -> (r: VxXmlErr) { unimplemented!() }
// oracle: what the first n events say - element name -> text of the Text event that follows its Start (a later one wins); `pending` is
// the element whose text is still awaited
pub struct Collected { pub m: Map<Seq<char>, Seq<char>>, pub pending: Option<Seq<char>> }
pub open spec fn collect(evs: Seq<XEv>, n: int) -> Collected
    decreases n
{
    if n <= 0 { Collected { m: Map::empty(), pending: None } }
    else {
        let c = collect(evs, n - 1);
        match evs[n - 1] {
            XEv::Start(name) => if name == "filter"@ { c } else { Collected { pending: Some(name), ..c } },
            XEv::Text(Some(t)) => if c.pending is Some { Collected { m: c.m.insert(c.pending->Some_0, t), pending: None } } else { c },
            _ => c,
        }
    }
}
pub open spec fn attrs_are(a: &VxAttrs, m: Map<Seq<char>, Seq<char>>) -> bool { forall|k: Seq<char>| #[trigger] a.a(k) == (if m.dom().contains(k) { Some(m[k]) } else { None::<Seq<char>> }) }
//@ extract src/filter/filter_impl.rs region `let mut buf = Vec::new();` .. `loop { match reader.read_event_into(&mut buf) {` in Filter::from_quick_xml_reader
//@   sig #[verifier::loop_isolation(false)] #[verifier::allow_complex_invariants] pub fn dlf_collect(reader: &mut VxXmlReader) -> (r: Result<(VxAttrs, Ghost<int>), VxXmlErr>)
//@   tail `Ok((attrs, Ghost(n_ev)))`
//@   sub R12 `let mut buf = Vec::new();` => `let mut buf: Vec<u8> = Vec::new();`
//@   sub R12 `std::collections::HashMap::<String, String>::with_capacity(32)` => `VxAttrs::vx_new()`
//@   sub R12 `reader.read_event_into(&mut buf)` => `reader.vx_next_event()`
//@   sub R12 `quick_xml::events::Event::` => `VxXmlEv::` *
//@   sub R12 `match e.local_name().as_ref() { b"filter" => {}` => `match e.vx_is_filter() { true => {}` ?
//@   sub R12 `if let b"filter" = e.local_name().as_ref() {` => `if e.vx_is_filter() {` ?
//@   sub R12 `String::from_utf8_lossy(e.local_name().as_ref()).into_owned()` => `e.vx_name_string()`
//@   sub R12 `.unwrap().to_string()` => `.unwrap()` ?
//@   sub R12 `let mut last_entry = None;` => `let mut last_entry: Option<String> = None;`
//@   sub R12 `quick_xml::Error::IllFormed( quick_xml::errors::IllFormedError::MissingEndTag(vx_opaque_string()), )` => `vx_xml_missing_end()`
//@   spec
//@|    ensures
//@|        r is Ok ==> 0 < r->Ok_0.1@ <= old(reader).script().len() && final(reader).script() == old(reader).script().skip(r->Ok_0.1@)
//@|            && old(reader).script()[r->Ok_0.1@ - 1] == XEv::End("filter"@)
//@|            && attrs_are(&r->Ok_0.0, collect(old(reader).script(), r->Ok_0.1@).m), // O:dlf.collect (the map handed to the second half has, for every child element of <filter> up to its end tag, the element's text - and nothing else)
//@   hint after `let mut last_entry`
//@|    let ghost ev0 = reader.script();
//@|    let ghost mut n_ev: int = 0;
//@   hint before `break;`
//@|    proof { if n_ev < ev0.len() { assert(ev0.skip(n_ev).skip(1) =~= ev0.skip(n_ev + 1)); n_ev = n_ev + 1; } }
//@   hint before `buf.clear();`
//@|    proof { if n_ev < ev0.len() { assert(ev0.skip(n_ev).skip(1) =~= ev0.skip(n_ev + 1)); n_ev = n_ev + 1; } }
//@   loop inner `reader.vx_next_event()`
//@|    invariant
//@|        0 <= n_ev <= ev0.len(), reader.script() == ev0.skip(n_ev), ev0 == old(reader).script(),
//@|        attrs_are(&attrs, collect(ev0, n_ev).m), // O:dlf.collect.inv
//@|        (match last_entry { Some(s) => collect(ev0, n_ev).pending == Some(s@), None => collect(ev0, n_ev).pending is None }), // O:dlf.collect.inv.pending (an element waits for at most one text: the one right after its start tag)
//@|    ensures
//@|        0 < n_ev <= ev0.len(), reader.script() == ev0.skip(n_ev), ev0[n_ev - 1] == XEv::End("filter"@), attrs_are(&attrs, collect(ev0, n_ev).m),
//@|    decreases ev0.len() - n_ev,
//@ end

// ---- front-end equivalence, DLF and JSON (the property's second sentence for these two) ----
// A JSON document that says what a dlt-viewer filter element says: the kind, the enabled flag, each enabled id criterion with its
// literal/regex decision spelled out, an enabled payload text as "payload" or - regexp flag set - "payloadRegex" with the ignore-case
// flag, enabled log-level bounds (0..=6), "mstp":3 for "control messages only"; nothing else.
pub open spec fn dlf_id_json(j: &VxJson, a: &VxAttrs, enable: Seq<char>, key: Seq<char>, rx: Option<Seq<char>>, jkey: Seq<char>, jflag: Seq<char>) -> bool {
    if flag(a, enable) && a.a(key) is Some {
        let s = a.a(key)->Some_0;
        let is_rx = match rx { None => false, Some(k) => match a.a(k) { Some(v) => v == "1"@, None => has_rx_chars(s) } };
        j.s(jkey) == Some(s) && j.b(jflag) == Some(is_rx)
    } else { j.s(jkey) is None }
}
pub open spec fn json_says_dlf(j: &VxJson, a: &VxAttrs) -> bool {
    let ic = flag(a, "enablepayloadtext"@) && flag(a, "ignoreCase_Payload"@);
    let has_text = flag(a, "enablepayloadtext"@) && a.a("payloadtext"@) is Some;
    &&& j.u("type"@) == Some(match a.a("type"@) { Some(s) => match parse_u8(s) { Some(1u8) => 1u64, Some(2u8) => 2u64, Some(3u8) => 3u64, _ => 0u64 }, None => 0u64 })
    &&& j.b("enabled"@) == Some(flag(a, "enablefilter"@)) && j.b("not"@) is None && j.b("atLoadTime"@) is None && j.u32s("lifecycles"@) is None
    &&& dlf_id_json(j, a, "enableecuid"@, "ecuid"@, None, "ecu"@, "ecuIsRegex"@)
    &&& dlf_id_json(j, a, "enableapplicationid"@, "applicationid"@, Some("enableregexp_Appid"@), "apid"@, "apidIsRegex"@)
    &&& dlf_id_json(j, a, "enablecontextid"@, "contextid"@, Some("enableregexp_Context"@), "ctid"@, "ctidIsRegex"@)
    &&& j.b("ignoreCasePayload"@) == Some(ic)
    &&& j.s("payloadRegex"@) == (if has_text && flag(a, "enableregexp_Payload"@) { a.a("payloadtext"@) } else { None::<Seq<char>> })
    &&& j.s("payload"@) == (if has_text && !flag(a, "enableregexp_Payload"@) { a.a("payloadtext"@) } else { None::<Seq<char>> })
    &&& j.u("logLevelMin"@) == (match dlf_level(a, "enableLogLevelMin"@, "logLevelMin"@) { Some(l) => Some(l as u64), None => None::<u64> })
    &&& j.u("logLevelMax"@) == (match dlf_level(a, "enableLogLevelMax"@, "logLevelMax"@) { Some(l) => Some(l as u64), None => None::<u64> })
    &&& j.u("verb_mstp_mtin"@) is None && j.u("mstp"@) == (if flag(a, "enablecontrolmsgs"@) { Some(3u64) } else { None::<u64> })
}
pub proof fn lemma_same_opt_id(c1: Option<Char4OrRegex>, c2: Option<Char4OrRegex>, s: Seq<char>, rx: bool, id: Seq<u8>)
    requires c1 is Some, c2 is Some, c4r_is(c1->Some_0, s, rx), c4r_is(c2->Some_0, s, rx),
    ensures id_ok(c1, id) == id_ok(c2, id),
{
    lemma_same_id_crit(c1->Some_0, c2->Some_0, s, rx, id);
}
// Both front-ends accepted their input (every id criterion and payload matcher compiled): the two filters decide every message alike.
pub proof fn theorem_dlf_json_same_decision(fd: &Filter, a: &VxAttrs, fj: &Filter, j: &VxJson, m: &DltMessage)
    requires
        filter_is_dlf(fd, a), filter_is_json(fj, j), json_says_dlf(j, a), built_ok(fd), built_ok(fj),
        // the DLF reader drops an id criterion or payload expression that does not compile; the JSON reader refuses the document: the
        // theorem is about inputs both accept
        (flag(a, "enableecuid"@) && a.a("ecuid"@) is Some ==> fd.ecu is Some),
        (flag(a, "enableapplicationid"@) && a.a("applicationid"@) is Some ==> fd.apid is Some),
        (flag(a, "enablecontextid"@) && a.a("contextid"@) is Some ==> fd.ctid is Some),
        (flag(a, "enablepayloadtext"@) && a.a("payloadtext"@) is Some && flag(a, "enableregexp_Payload"@) ==> fd.payload_regex is Some),
    ensures spec_matches(fd, m) == spec_matches(fj, m), // O:frontends.dlf_json (the same abstract filter decides identically whether loaded from a dlt-viewer DLF file or from JSON)
{
    let ext_a: Seq<u8> = if m.extended_header is Some { m.extended_header->Some_0.apid.char4@ } else { Seq::empty() };
    let ext_c: Seq<u8> = if m.extended_header is Some { m.extended_header->Some_0.ctid.char4@ } else { Seq::empty() };
    if flag(a, "enableecuid"@) && a.a("ecuid"@) is Some { lemma_same_opt_id(fd.ecu, fj.ecu, a.a("ecuid"@)->Some_0, false, m.ecu.char4@); }
    if flag(a, "enableapplicationid"@) && a.a("applicationid"@) is Some {
        let s = a.a("applicationid"@)->Some_0;
        let rx = match a.a("enableregexp_Appid"@) { Some(v) => v == "1"@, None => has_rx_chars(s) };
        lemma_same_opt_id(fd.apid, fj.apid, s, rx, ext_a);
    }
    if flag(a, "enablecontextid"@) && a.a("contextid"@) is Some {
        let s = a.a("contextid"@)->Some_0;
        let rx = match a.a("enableregexp_Context"@) { Some(v) => v == "1"@, None => has_rx_chars(s) };
        lemma_same_opt_id(fd.ctid, fj.ctid, s, rx, ext_c);
    }
    if spec_payload_text(m) is Ok {
        let t = &spec_payload_text(m)->Ok_0;
        if fd.payload_regex is Some && fj.payload_regex is Some { axiom_fancy_by_pattern(&fd.payload_regex->Some_0, &fj.payload_regex->Some_0, t); }
        if fd.payload_as_regex is Some && fj.payload_as_regex is Some { axiom_sre_by_literal(&fd.payload_as_regex->Some_0, &fj.payload_as_regex->Some_0, t); }
        if fd.payload is Some && fj.payload is Some { axiom_contains_by_text(&fd.payload->Some_0, &fj.payload->Some_0, t); }
    }
    assert((((3u64 & 0x07) << 1) as u8) == (0x03u8 << 1)) by(bit_vector);
    assert(fd.verb_mstp_mtin == fj.verb_mstp_mtin);
    assert(fd.loglevel_min == fj.loglevel_min && fd.loglevel_max == fj.loglevel_max);
}

// ---- JSON serialisation (Serialize for Filter, used by Filter::to_json) and the round trip ----
// serde's Serializer / SerializeStruct (R12): serialize_struct opens an object, serialize_field(key, value) adds the member `key` with
// the JSON image of the value, end() closes it. ASSUMED: that is what serde_json does for these value types (u8, bool, &str / String as
// a JSON string, DltChar4 through its Display text, Vec<u32> as an array of numbers).
// the member names, numbered (R12: `serialize_field("type", ..)` -> `serialize_field(K_TYPE, ..)`, one substitution per name), so that
// 'two different members' is integer disequality; json_has() below ties each number to its name on the from_json side
pub const K_TYPE: u8 = 0;
pub const K_ENABLED: u8 = 1;
pub const K_AT_LOAD_TIME: u8 = 2;
pub const K_NOT: u8 = 3;
pub const K_ECU: u8 = 4;
pub const K_ECU_IS_REGEX: u8 = 5;
pub const K_APID: u8 = 6;
pub const K_APID_IS_REGEX: u8 = 7;
pub const K_CTID: u8 = 8;
pub const K_CTID_IS_REGEX: u8 = 9;
pub const K_PAYLOAD_REGEX: u8 = 10;
pub const K_PAYLOAD: u8 = 11;
pub const K_IGNORE_CASE_PAYLOAD: u8 = 12;
pub const K_LOG_LEVEL_MIN: u8 = 13;
pub const K_LOG_LEVEL_MAX: u8 = 14;
pub const K_LIFECYCLES: u8 = 15;
pub const K_VERB_MSTP_MTIN: u8 = 16;
pub const K_MSTP: u8 = 17;
pub enum JV { U(u64), B(bool), S(Seq<char>), A(Seq<u32>) }
pub uninterp spec fn char4_text(c: DltChar4) -> Seq<char>;   // Display of a DltChar4
pub trait VJsonVal {
    spec fn jv(&self) -> JV;
}
impl VJsonVal for u8 { open spec fn jv(&self) -> JV { JV::U(*self as u64) } }
impl VJsonVal for bool { open spec fn jv(&self) -> JV { JV::B(*self) } }
impl VJsonVal for DltChar4 { open spec fn jv(&self) -> JV { JV::S(char4_text(*self)) } }
impl VJsonVal for str { open spec fn jv(&self) -> JV { JV::S(self@) } }
impl VJsonVal for String { open spec fn jv(&self) -> JV { JV::S(self@) } }
impl VJsonVal for Vec<u32> { open spec fn jv(&self) -> JV { JV::A(self@) } }
impl<T: VJsonVal + ?Sized> VJsonVal for &T { open spec fn jv(&self) -> JV { (**self).jv() } }
#[verifier::external_body]
pub struct VxSerErr { _p: u8 }
#[verifier::external_body]
pub struct VxSerOk { _p: u8 }
impl VxSerOk { pub uninterp spec fn doc(&self) -> Doc; }
// a document under construction as a function member number -> value (cheaper for the solver than a chain of Map inserts)
pub type Doc = spec_fn(u8) -> Option<JV>;
#[verifier::external_body]
pub struct VxSerState { _p: u8 }
impl VxSerState {
    pub uninterp spec fn fget(&self, k: u8) -> Option<JV>;
    #[verifier::external_body]
    pub fn serialize_field<T: VJsonVal + ?Sized>(&mut self, key: u8, value: &T) -> (r: Result<(), VxSerErr>)
        ensures r is Ok ==> forall|k: u8| #[trigger] final(self).fget(k) == (if k == key { Some(value.jv()) } else { old(self).fget(k) }),
    { unimplemented!() }
    #[verifier::external_body]
    pub fn end(self) -> (r: Result<VxSerOk, VxSerErr>)
        ensures r is Ok ==> forall|k: u8| #[trigger] (r->Ok_0.doc())(k) == self.fget(k),
    { unimplemented!() }
}
#[verifier::external_body]
pub struct VxSerializer { _p: u8 }
impl VxSerializer {
    #[verifier::external_body]
    pub fn serialize_struct(self, name: &str, n: usize) -> (r: Result<VxSerState, VxSerErr>)
        ensures r is Ok ==> forall|k: u8| #[trigger] r->Ok_0.fget(k) is None,
    { unimplemented!() }
}
impl VxBytesRegex {
    #[verifier::external_body]
    pub fn as_str(&self) -> (r: &str) ensures r@ == bre_pat(self) { unimplemented!() }
}
impl VxFancyRegex {
    #[verifier::external_body]
    pub fn as_str(&self) -> (r: &str) ensures r@ == fancy_pat(self) { unimplemented!() }
    // `.as_str().replacen("(?i)", "", 1)`: the pattern text with its first "(?i)" removed
    #[verifier::external_body]
    pub fn vx_strip_ci(&self) -> (r: String) ensures forall|p: Seq<char>| fancy_pat(self) == #[trigger] ci_prefixed(p) ==> r@ == p { unimplemented!() }
}
// `s.as_str().replacen("(?i)", "", 1)`: the first "(?i)" removed; for a pattern that was built as "(?i)" + p this gives p back
#[verifier::external_body]
pub fn vx_strip_ci(s: &str) -> (r: String) ensures forall|p: Seq<char>| s@ == #[trigger] ci_prefixed(p) ==> r@ == p { unimplemented!() }
#[verifier::external_body]
pub fn vx_kind_u8(k: FilterKind) -> (r: u8)
    ensures r == (match k { FilterKind::Positive => 0u8, FilterKind::Negative => 1u8, FilterKind::Marker => 2u8, FilterKind::Event => 3u8 }),
{ unimplemented!() }
// a JSON document (as from_json sees it) that consists of exactly these members
pub open spec fn member_is(j: &VxJson, name: Seq<char>, d: Doc, k: u8) -> bool {
    &&& j.u(name) == (if d(k) is Some && d(k)->Some_0 is U { Some(d(k)->Some_0->U_0) } else { None::<u64> })
    &&& j.b(name) == (if d(k) is Some && d(k)->Some_0 is B { Some(d(k)->Some_0->B_0) } else { None::<bool> })
    &&& j.s(name) == (if d(k) is Some && d(k)->Some_0 is S { Some(d(k)->Some_0->S_0) } else { None::<Seq<char>> })
    &&& j.u32s(name) == (if d(k) is Some && d(k)->Some_0 is A { Some(d(k)->Some_0->A_0) } else { None::<Seq<u32>> })
}
pub open spec fn json_has(j: &VxJson, d: Doc) -> bool {
    &&& member_is(j, "type"@, d, K_TYPE)
    &&& member_is(j, "enabled"@, d, K_ENABLED)
    &&& member_is(j, "atLoadTime"@, d, K_AT_LOAD_TIME)
    &&& member_is(j, "not"@, d, K_NOT)
    &&& member_is(j, "ecu"@, d, K_ECU)
    &&& member_is(j, "ecuIsRegex"@, d, K_ECU_IS_REGEX)
    &&& member_is(j, "apid"@, d, K_APID)
    &&& member_is(j, "apidIsRegex"@, d, K_APID_IS_REGEX)
    &&& member_is(j, "ctid"@, d, K_CTID)
    &&& member_is(j, "ctidIsRegex"@, d, K_CTID_IS_REGEX)
    &&& member_is(j, "payloadRegex"@, d, K_PAYLOAD_REGEX)
    &&& member_is(j, "payload"@, d, K_PAYLOAD)
    &&& member_is(j, "ignoreCasePayload"@, d, K_IGNORE_CASE_PAYLOAD)
    &&& member_is(j, "logLevelMin"@, d, K_LOG_LEVEL_MIN)
    &&& member_is(j, "logLevelMax"@, d, K_LOG_LEVEL_MAX)
    &&& member_is(j, "lifecycles"@, d, K_LIFECYCLES)
    &&& member_is(j, "verb_mstp_mtin"@, d, K_VERB_MSTP_MTIN)
    &&& member_is(j, "mstp"@, d, K_MSTP)
}
// Serialize for Filter in four statement ranges (the whole function at once made the solver run out of resources: ~20 conditional
// writes); each range writes its own members and leaves the others alone, theorem_to_json composes them.
pub open spec fn others_same(st0: &VxSerState, st1: &VxSerState, mine: Set<u8>) -> bool { forall|k: u8| !mine.contains(k) ==> #[trigger] st1.fget(k) == st0.fget(k) }
pub open spec fn st_has(st: &VxSerState, k: u8, v: JV) -> bool { st.fget(k) == Some(v) }
pub open spec fn keys_head() -> Set<u8> { set![K_TYPE, K_ENABLED, K_AT_LOAD_TIME, K_NOT] }
pub open spec fn keys_ids() -> Set<u8> { set![K_ECU, K_ECU_IS_REGEX, K_APID, K_APID_IS_REGEX, K_CTID, K_CTID_IS_REGEX] }
pub open spec fn keys_payload() -> Set<u8> { set![K_PAYLOAD_REGEX, K_PAYLOAD, K_IGNORE_CASE_PAYLOAD] }
pub open spec fn st_id(st: &VxSerState, c: Option<Char4OrRegex>, key: u8, flag: u8, st0: &VxSerState) -> bool {
    match c {
        None => st.fget(key) == st0.fget(key) && st.fget(flag) == st0.fget(flag),
        Some(Char4OrRegex::DltChar4(x)) => st_has(st, key, JV::S(char4_text(x))) && st_has(st, flag, JV::B(false)),
        Some(Char4OrRegex::Regex(r)) => st_has(st, key, JV::S(bre_pat(&r))) && st_has(st, flag, JV::B(true)),
    }
}
pub open spec fn head_post(f: &Filter, s0: &VxSerState, s1: &VxSerState) -> bool {
    &&& others_same(s0, s1, keys_head())
    &&& st_has(s1, K_TYPE, JV::U(match f.kind { FilterKind::Positive => 0u64, FilterKind::Negative => 1u64, FilterKind::Marker => 2u64, FilterKind::Event => 3u64 }))
    &&& (if f.enabled { s1.fget(K_ENABLED) == s0.fget(K_ENABLED) } else { st_has(s1, K_ENABLED, JV::B(false)) })
    &&& (if f.negate_match { st_has(s1, K_NOT, JV::B(true)) } else { s1.fget(K_NOT) == s0.fget(K_NOT) })
    &&& (if f.at_load_time { st_has(s1, K_AT_LOAD_TIME, JV::B(true)) } else { s1.fget(K_AT_LOAD_TIME) == s0.fget(K_AT_LOAD_TIME) })
}
pub open spec fn ids_post(f: &Filter, s0: &VxSerState, s1: &VxSerState) -> bool {
    others_same(s0, s1, keys_ids()) && st_id(s1, f.ecu, K_ECU, K_ECU_IS_REGEX, s0) && st_id(s1, f.apid, K_APID, K_APID_IS_REGEX, s0) && st_id(s1, f.ctid, K_CTID, K_CTID_IS_REGEX, s0)
}
pub open spec fn payload_post(f: &Filter, s0: &VxSerState, s1: &VxSerState) -> bool {
    &&& others_same(s0, s1, keys_payload())
    &&& (if f.ignore_case_payload { st_has(s1, K_IGNORE_CASE_PAYLOAD, JV::B(true)) } else { s1.fget(K_IGNORE_CASE_PAYLOAD) == s0.fget(K_IGNORE_CASE_PAYLOAD) })
    &&& (if f.payload_regex is Some {
            s1.fget(K_PAYLOAD) == s0.fget(K_PAYLOAD) && s1.fget(K_PAYLOAD_REGEX) is Some && s1.fget(K_PAYLOAD_REGEX)->Some_0 is S
            && (if f.ignore_case_payload { forall|p: Seq<char>| fancy_pat(&f.payload_regex->Some_0) == #[trigger] ci_prefixed(p) ==> s1.fget(K_PAYLOAD_REGEX)->Some_0->S_0 == p }
                else { s1.fget(K_PAYLOAD_REGEX)->Some_0->S_0 == fancy_pat(&f.payload_regex->Some_0) })
        } else {
            s1.fget(K_PAYLOAD_REGEX) == s0.fget(K_PAYLOAD_REGEX)
            && (if f.payload is Some { st_has(s1, K_PAYLOAD, JV::S(f.payload->Some_0@)) } else { s1.fget(K_PAYLOAD) == s0.fget(K_PAYLOAD) })
        })
}
pub open spec fn rest_post(f: &Filter, s0: &VxSerState, d: Doc) -> bool {
    &&& forall|k: u8| k != K_LOG_LEVEL_MIN && k != K_LOG_LEVEL_MAX && k != K_LIFECYCLES && k != K_VERB_MSTP_MTIN && k != K_MSTP ==> #[trigger] d(k) == s0.fget(k)
    &&& (match f.loglevel_min { Some(l) => has(d, K_LOG_LEVEL_MIN, JV::U(l as u64)), None => d(K_LOG_LEVEL_MIN) == s0.fget(K_LOG_LEVEL_MIN) })
    &&& (match f.loglevel_max { Some(l) => has(d, K_LOG_LEVEL_MAX, JV::U(l as u64)), None => d(K_LOG_LEVEL_MAX) == s0.fget(K_LOG_LEVEL_MAX) })
    &&& (match f.lifecycles { Some(l) => has(d, K_LIFECYCLES, JV::A(l@)), None => d(K_LIFECYCLES) == s0.fget(K_LIFECYCLES) })
}
pub open spec fn type_post(f: &Filter, s0: &VxSerState, d: Doc) -> bool {
    match f.verb_mstp_mtin {
        None => d(K_VERB_MSTP_MTIN) == s0.fget(K_VERB_MSTP_MTIN) && d(K_MSTP) == s0.fget(K_MSTP),
        Some(vm) => if vm.1 == (0x07u8 << 1) { d(K_VERB_MSTP_MTIN) == s0.fget(K_VERB_MSTP_MTIN) && has(d, K_MSTP, JV::U(((vm.0 >> 1) & 0x07u8) as u64)) }
                    else { has(d, K_VERB_MSTP_MTIN, JV::U(vm.0 as u64)) },
    }
}
// Serialize for Filter as a whole, member by member: the serializer model watches ONE member number w (any: it is a parameter of
// the proof) and records what is written under it; every other write leaves the record alone. One proof for an arbitrary w is a
// proof for every member - without any reasoning about maps or the order of the writes.
pub open spec fn id_text(c: Option<Char4OrRegex>) -> Option<JV> {
    match c { None => None, Some(Char4OrRegex::DltChar4(x)) => Some(JV::S(char4_text(x))), Some(Char4OrRegex::Regex(r)) => Some(JV::S(bre_pat(&r))) }
}
pub open spec fn id_flag(c: Option<Char4OrRegex>) -> Option<JV> {
    match c { None => None, Some(Char4OrRegex::DltChar4(x)) => Some(JV::B(false)), Some(Char4OrRegex::Regex(r)) => Some(JV::B(true)) }
}
// what the document has under member w for the filter f (from the property: exactly the members that describe the criteria)
pub open spec fn member_ok(f: &Filter, w: u8, v: Option<JV>) -> bool {
    if w == K_TYPE { v == Some(JV::U(match f.kind { FilterKind::Positive => 0u64, FilterKind::Negative => 1u64, FilterKind::Marker => 2u64, FilterKind::Event => 3u64 })) }
    else if w == K_ENABLED { v == (if f.enabled { None::<JV> } else { Some(JV::B(false)) }) }
    else if w == K_NOT { v == (if f.negate_match { Some(JV::B(true)) } else { None::<JV> }) }
    else if w == K_AT_LOAD_TIME { v == (if f.at_load_time { Some(JV::B(true)) } else { None::<JV> }) }
    else if w == K_ECU { v == id_text(f.ecu) } else if w == K_ECU_IS_REGEX { v == id_flag(f.ecu) }
    else if w == K_APID { v == id_text(f.apid) } else if w == K_APID_IS_REGEX { v == id_flag(f.apid) }
    else if w == K_CTID { v == id_text(f.ctid) } else if w == K_CTID_IS_REGEX { v == id_flag(f.ctid) }
    else if w == K_IGNORE_CASE_PAYLOAD { v == (if f.ignore_case_payload { Some(JV::B(true)) } else { None::<JV> }) }
    else if w == K_PAYLOAD_REGEX {
        if f.payload_regex is Some {
            v is Some && v->Some_0 is S
            && (if f.ignore_case_payload { forall|p: Seq<char>| fancy_pat(&f.payload_regex->Some_0) == #[trigger] ci_prefixed(p) ==> v->Some_0->S_0 == p }
                else { v->Some_0->S_0 == fancy_pat(&f.payload_regex->Some_0) })
        } else { v is None }
    }
    else if w == K_PAYLOAD { v == (if f.payload_regex is None && f.payload is Some { Some(JV::S(f.payload->Some_0@)) } else { None::<JV> }) }
    else if w == K_LOG_LEVEL_MIN { v == (match f.loglevel_min { Some(l) => Some(JV::U(l as u64)), None => None::<JV> }) }
    else if w == K_LOG_LEVEL_MAX { v == (match f.loglevel_max { Some(l) => Some(JV::U(l as u64)), None => None::<JV> }) }
    else if w == K_LIFECYCLES { v == (match f.lifecycles { Some(l) => Some(JV::A(l@)), None => None::<JV> }) }
    else if w == K_VERB_MSTP_MTIN { v == (match f.verb_mstp_mtin { Some(vm) => if vm.1 == (0x07u8 << 1) { None::<JV> } else { Some(JV::U(vm.0 as u64)) }, None => None::<JV> }) }
    else if w == K_MSTP { v == (match f.verb_mstp_mtin { Some(vm) => if vm.1 == (0x07u8 << 1) { Some(JV::U(((vm.0 >> 1) & 0x07u8) as u64)) } else { None::<JV> }, None => None::<JV> }) }
    else { v is None }
}
#[verifier::external_body]
pub struct VxSerOkW { _p: u8 }
impl VxSerOkW { pub uninterp spec fn watch(&self) -> u8; pub uninterp spec fn val(&self) -> Option<JV>; }
#[verifier::external_body]
pub struct VxSerStateW { _p: u8 }
impl VxSerStateW {
    pub uninterp spec fn watch(&self) -> u8;
    pub uninterp spec fn val(&self) -> Option<JV>;
    #[verifier::external_body]
    pub fn serialize_field<T: VJsonVal + ?Sized>(&mut self, key: u8, value: &T) -> (r: Result<(), VxSerErr>)
        ensures final(self).watch() == old(self).watch(), r is Ok ==> final(self).val() == (if key == old(self).watch() { Some(value.jv()) } else { old(self).val() }),
    { unimplemented!() }
    #[verifier::external_body]
    pub fn end(self) -> (r: Result<VxSerOkW, VxSerErr>)
        ensures r is Ok ==> r->Ok_0.watch() == self.watch() && r->Ok_0.val() == self.val(),
    { unimplemented!() }
}
#[verifier::external_body]
pub struct VxSerializerW { _p: u8 }
impl VxSerializerW {
    pub uninterp spec fn watch(&self) -> u8;
    #[verifier::external_body]
    pub fn serialize_struct(self, name: &str, n: usize) -> (r: Result<VxSerStateW, VxSerErr>)
        ensures r is Ok ==> r->Ok_0.watch() == self.watch() && r->Ok_0.val() is None,
    { unimplemented!() }
}
//@ extract src/filter/filter_impl.rs <Serialize for Filter>::serialize
//@   rename ser_filter
//@   sub R12 `fn serialize<S>(&self, serializer: S) -> Result<S::Ok, S::Error> where S: Serializer,` => `fn serialize(vx_self: &Filter, serializer: VxSerializerW) -> Result<VxSerOkW, VxSerErr>`
//@   sub R12 `self` => `vx_self` *
//@   sub R12 `serialize_field("type",` => `serialize_field(K_TYPE,` ?
//@   sub R12 `serialize_field("enabled",` => `serialize_field(K_ENABLED,` ?
//@   sub R12 `serialize_field("atLoadTime",` => `serialize_field(K_AT_LOAD_TIME,` ?
//@   sub R12 `serialize_field("not",` => `serialize_field(K_NOT,` ?
//@   sub R12 `serialize_field("ecu",` => `serialize_field(K_ECU,` *
//@   sub R12 `serialize_field("ecuIsRegex",` => `serialize_field(K_ECU_IS_REGEX,` *
//@   sub R12 `serialize_field("apid",` => `serialize_field(K_APID,` *
//@   sub R12 `serialize_field("apidIsRegex",` => `serialize_field(K_APID_IS_REGEX,` *
//@   sub R12 `serialize_field("ctid",` => `serialize_field(K_CTID,` *
//@   sub R12 `serialize_field("ctidIsRegex",` => `serialize_field(K_CTID_IS_REGEX,` *
//@   sub R12 `serialize_field("payloadRegex",` => `serialize_field(K_PAYLOAD_REGEX,` *
//@   sub R12 `serialize_field("payload",` => `serialize_field(K_PAYLOAD,` ?
//@   sub R12 `serialize_field("ignoreCasePayload",` => `serialize_field(K_IGNORE_CASE_PAYLOAD,` ?
//@   sub R12 `serialize_field("logLevelMin",` => `serialize_field(K_LOG_LEVEL_MIN,` ?
//@   sub R12 `serialize_field("logLevelMax",` => `serialize_field(K_LOG_LEVEL_MAX,` ?
//@   sub R12 `serialize_field("lifecycles",` => `serialize_field(K_LIFECYCLES,` ?
//@   sub R12 `serialize_field("verb_mstp_mtin",` => `serialize_field(K_VERB_MSTP_MTIN,` ?
//@   sub R12 `serialize_field("mstp",` => `serialize_field(K_MSTP,` ?
//@   sub R11 `vx_self.kind as u8` => `vx_kind_u8(vx_self.kind)` ?
//@   sub R11 `.as_str().replacen("(?i)", "", 1)` => `.vx_strip_ci()` ?
//@   spec
//@|    ensures
//@|        r is Ok ==> member_ok(vx_self, serializer.watch(), r->Ok_0.val()), // O:to_json.members (for every member name: the document has under it exactly what describes the filter's criterion, and nothing under any other name)
//@ end
// ---------- oracle: a JSON document from which from_json rebuilds the criteria of f ----------
pub open spec fn has(d: Doc, k: u8, v: JV) -> bool { d(k) == Some(v) }
pub open spec fn doc_id(d: Doc, c: Option<Char4OrRegex>, key: u8, flag: u8) -> bool {
    match c {
        None => d(key) is None,
        Some(Char4OrRegex::DltChar4(x)) => has(d, key, JV::S(char4_text(x))) && has(d, flag, JV::B(false)),
        Some(Char4OrRegex::Regex(r)) => has(d, key, JV::S(bre_pat(&r))) && has(d, flag, JV::B(true)),
    }
}
pub open spec fn doc_describes(f: &Filter, d: Doc) -> bool {
    &&& has(d, K_TYPE, JV::U(match f.kind { FilterKind::Positive => 0u64, FilterKind::Negative => 1u64, FilterKind::Marker => 2u64, FilterKind::Event => 3u64 }))
    &&& (if f.enabled { d(K_ENABLED) is None } else { has(d, K_ENABLED, JV::B(false)) })
    &&& (if f.negate_match { has(d, K_NOT, JV::B(true)) } else { d(K_NOT) is None })
    &&& (if f.at_load_time { has(d, K_AT_LOAD_TIME, JV::B(true)) } else { d(K_AT_LOAD_TIME) is None })
    &&& doc_id(d, f.ecu, K_ECU, K_ECU_IS_REGEX) && doc_id(d, f.apid, K_APID, K_APID_IS_REGEX) && doc_id(d, f.ctid, K_CTID, K_CTID_IS_REGEX)
    &&& (if f.ignore_case_payload { has(d, K_IGNORE_CASE_PAYLOAD, JV::B(true)) } else { d(K_IGNORE_CASE_PAYLOAD) is None })
    &&& (if f.payload_regex is Some {
            d(K_PAYLOAD_REGEX) is Some && d(K_PAYLOAD_REGEX)->Some_0 is S
            && (if f.ignore_case_payload { forall|p: Seq<char>| fancy_pat(&f.payload_regex->Some_0) == #[trigger] ci_prefixed(p) ==> d(K_PAYLOAD_REGEX)->Some_0->S_0 == p }
                else { d(K_PAYLOAD_REGEX)->Some_0->S_0 == fancy_pat(&f.payload_regex->Some_0) })
        } else {
            d(K_PAYLOAD_REGEX) is None && (if f.payload is Some { has(d, K_PAYLOAD, JV::S(f.payload->Some_0@)) } else { d(K_PAYLOAD) is None })
        })
    &&& (match f.loglevel_min { Some(l) => has(d, K_LOG_LEVEL_MIN, JV::U(l as u64)), None => d(K_LOG_LEVEL_MIN) is None })
    &&& (match f.loglevel_max { Some(l) => has(d, K_LOG_LEVEL_MAX, JV::U(l as u64)), None => d(K_LOG_LEVEL_MAX) is None })
    &&& (match f.lifecycles { Some(l) => has(d, K_LIFECYCLES, JV::A(l@)), None => d(K_LIFECYCLES) is None })
}
// the type criterion: written as "mstp" (mask = message type only) or as "verb_mstp_mtin", absent without one
pub open spec fn doc_type_crit(f: &Filter, d: Doc) -> bool {
    match f.verb_mstp_mtin {
        None => d(K_VERB_MSTP_MTIN) is None && d(K_MSTP) is None,
        Some(vm) => if vm.1 == (0x07u8 << 1) { d(K_VERB_MSTP_MTIN) is None && has(d, K_MSTP, JV::U(((vm.0 >> 1) & 0x07u8) as u64)) }
                    else { has(d, K_VERB_MSTP_MTIN, JV::U(vm.0 as u64)) },
    }
}

// a document whose every member is as member_ok says describes the filter (the form the round-trip theorem uses)
pub proof fn theorem_to_json(f: &Filter, d: Doc)
    requires forall|w: u8| member_ok(f, w, #[trigger] d(w)),
    ensures doc_describes(f, d), doc_type_crit(f, d), // O:to_json.describes (the written document has exactly the members that describe the filter)
{
    assert(member_ok(f, K_TYPE, d(K_TYPE))); assert(member_ok(f, K_ENABLED, d(K_ENABLED))); assert(member_ok(f, K_NOT, d(K_NOT)));
    assert(member_ok(f, K_AT_LOAD_TIME, d(K_AT_LOAD_TIME)));
    assert(member_ok(f, K_ECU, d(K_ECU))); assert(member_ok(f, K_ECU_IS_REGEX, d(K_ECU_IS_REGEX)));
    assert(member_ok(f, K_APID, d(K_APID))); assert(member_ok(f, K_APID_IS_REGEX, d(K_APID_IS_REGEX)));
    assert(member_ok(f, K_CTID, d(K_CTID))); assert(member_ok(f, K_CTID_IS_REGEX, d(K_CTID_IS_REGEX)));
    assert(member_ok(f, K_IGNORE_CASE_PAYLOAD, d(K_IGNORE_CASE_PAYLOAD))); assert(member_ok(f, K_PAYLOAD_REGEX, d(K_PAYLOAD_REGEX)));
    assert(member_ok(f, K_PAYLOAD, d(K_PAYLOAD))); assert(member_ok(f, K_LOG_LEVEL_MIN, d(K_LOG_LEVEL_MIN)));
    assert(member_ok(f, K_LOG_LEVEL_MAX, d(K_LOG_LEVEL_MAX))); assert(member_ok(f, K_LIFECYCLES, d(K_LIFECYCLES)));
    assert(member_ok(f, K_VERB_MSTP_MTIN, d(K_VERB_MSTP_MTIN))); assert(member_ok(f, K_MSTP, d(K_MSTP)));
}
// ASSUMED about the regex crates and String: whether a compiled matcher accepts a text is a function of the pattern it was compiled
// from; substring search is a function of the searched text's characters; a printable id survives Display + from_str
#[verifier::external_body]
pub proof fn axiom_fancy_by_pattern(r1: &VxFancyRegex, r2: &VxFancyRegex, t: &VxText)
    ensures fancy_pat(r1) == fancy_pat(r2) ==> fancy_match(r1, t) == fancy_match(r2, t),
{}
#[verifier::external_body]
pub proof fn axiom_sre_by_literal(s1: &VxStrRegex, s2: &VxStrRegex, t: &VxText)
    ensures sre_ci_literal(s1) == sre_ci_literal(s2) ==> sre_match(s1, t) == sre_match(s2, t),
{}
#[verifier::external_body]
pub proof fn axiom_contains_by_text(p1: &String, p2: &String, t: &VxText)
    ensures p1@ == p2@ ==> text_contains(t, p1) == text_contains(t, p2),
{}
#[verifier::external_body]
pub proof fn axiom_char4_text_roundtrip(c: DltChar4)
    ensures char4_of_str(char4_text(c)) == c,
{}
// a type criterion as the front-ends build it: only the message type (mask 0x0e, no other bit in the value), or a type byte with
// the mask derived from its MTIN nibble
pub open spec fn type_crit_canonical(vm: (u8, u8)) -> bool {
    (vm.1 == 0x0eu8 && vm.0 & 0xf1u8 == 0) || (vm.1 != 0x0eu8 && vm.1 == (if (vm.0 >> 4) & 0xfu8 == 0 { 0x0fu8 } else { 0xffu8 }))
}
pub proof fn lemma_type_roundtrip(v: u8, mask: u8)
    requires type_crit_canonical((v, mask)),
    ensures
        mask == (0x07u8 << 1) ==> (((((v >> 1) & 0x07u8) as u64) & 0x07) << 1) as u8 == v,
        mask != (0x07u8 << 1) ==> (((v as u64) & 0xff) as u8 == v && mask == (if ((((v as u64) & 0xff) as u8) >> 4) & 0xfu8 == 0 { 0x0fu8 } else { 0xffu8 })),
        (0x07u8 << 1) == 0x0eu8,
{
    assert((0x07u8 << 1) == 0x0eu8) by(bit_vector);
    if mask == 0x0eu8 {
        assert((((((v >> 1) & 0x07u8) as u64) & 0x07) << 1) as u8 == v) by(bit_vector) requires v & 0xf1u8 == 0;
    } else {
        assert(((v as u64) & 0xff) as u8 == v) by(bit_vector);
    }
}
pub proof fn lemma_rt_id(c: Char4OrRegex, c2: Option<Char4OrRegex>, d: Doc, j: &VxJson, kname: Seq<char>, fname: Seq<char>, key: u8, flag: u8, id: Seq<u8>)
    requires doc_id(d, Some(c), key, flag), member_is(j, kname, d, key), member_is(j, fname, d, flag), id_crit_is(c2, j, kname, fname),
    ensures c2 is Some, id_ok(c2, id) == id_ok(Some(c), id),
{
    match c {
        Char4OrRegex::DltChar4(x) => { axiom_char4_text_roundtrip(x); }
        Char4OrRegex::Regex(r) => { axiom_bre_match_by_pattern(&r, id); axiom_bre_match_by_pattern(&c2->Some_0->Regex_0, id); }
    }
}
// The round-trip clause: serialise a filter built by a front-end, load the document again: the reloaded filter decides every message
// like the original.
pub proof fn theorem_json_roundtrip(f: &Filter, d: Doc, j: &VxJson, f2: &Filter, m: &DltMessage)
    requires
        built_ok(f), doc_describes(f, d), doc_type_crit(f, d), json_has(j, d), filter_is_json(f2, j), built_ok(f2),
        f.verb_mstp_mtin is Some ==> type_crit_canonical(f.verb_mstp_mtin->Some_0),
    ensures spec_matches(f2, m) == spec_matches(f, m), // O:frontends.json_roundtrip (a filter serialised to JSON and loaded again decides identically)
{
    if f.ecu is Some { lemma_rt_id(f.ecu->Some_0, f2.ecu, d, j, "ecu"@, "ecuIsRegex"@, K_ECU, K_ECU_IS_REGEX, m.ecu.char4@); }
    if f.apid is Some { lemma_rt_id(f.apid->Some_0, f2.apid, d, j, "apid"@, "apidIsRegex"@, K_APID, K_APID_IS_REGEX, if m.extended_header is Some { m.extended_header->Some_0.apid.char4@ } else { Seq::empty() }); }
    if f.ctid is Some { lemma_rt_id(f.ctid->Some_0, f2.ctid, d, j, "ctid"@, "ctidIsRegex"@, K_CTID, K_CTID_IS_REGEX, if m.extended_header is Some { m.extended_header->Some_0.ctid.char4@ } else { Seq::empty() }); }
    if spec_payload_text(m) is Ok {
        let t = &spec_payload_text(m)->Ok_0;
        if f.payload_regex is Some && f2.payload_regex is Some { axiom_fancy_by_pattern(&f.payload_regex->Some_0, &f2.payload_regex->Some_0, t); }
        if f.payload_as_regex is Some && f2.payload_as_regex is Some { axiom_sre_by_literal(&f.payload_as_regex->Some_0, &f2.payload_as_regex->Some_0, t); }
        if f.payload is Some && f2.payload is Some { axiom_contains_by_text(&f.payload->Some_0, &f2.payload->Some_0, t); }
    }
    if f.verb_mstp_mtin is Some { lemma_type_roundtrip(f.verb_mstp_mtin->Some_0.0, f.verb_mstp_mtin->Some_0.1); }
    assert(f2.verb_mstp_mtin == f.verb_mstp_mtin);
    assert(f2.loglevel_min == f.loglevel_min && f2.loglevel_max == f.loglevel_max);
    assert(f2.lifecycles is Some <==> f.lifecycles is Some);
}
// ---- end of units/filterjson/part.rs ----
