// ---- units/filterjson/part.rs ----
// serde_json::Value (R11/R12): an abstract JSON document. `v[key]` of an object yields the member (Null if absent), `.as_u64()` /
// `.as_bool()` / `.as_str()` / `.as_array()` its typed view: ASSUMED to be functions of the document and the key.
#[verifier::external_body]
pub struct VxJson { _p: u8 }
#[verifier::external_body]
pub struct VxJsonVal { _p: u8 }
#[verifier::external_body]
#[derive(Debug)]
pub struct VxJsonErr { _p: u8 }
impl VxJson {
    pub uninterp spec fn u(&self, key: Seq<char>) -> Option<u64>;
    pub uninterp spec fn b(&self, key: Seq<char>) -> Option<bool>;
    pub uninterp spec fn s(&self, key: Seq<char>) -> Option<Seq<char>>;
    pub uninterp spec fn u32s(&self, key: Seq<char>) -> Option<Seq<u32>>;   // as_array().map(the members that are u64, as u32)
    #[verifier::external_body]
    pub fn vx_idx<'a>(&'a self, key: &str) -> (r: VxJsonVal)
        ensures r.u() == self.u(key@), r.b() == self.b(key@), r.s() == self.s(key@), r.u32s() == self.u32s(key@),
    { unimplemented!() }
}
impl VxJsonVal {
    pub uninterp spec fn u(&self) -> Option<u64>;
    pub uninterp spec fn b(&self) -> Option<bool>;
    pub uninterp spec fn s(&self) -> Option<Seq<char>>;
    pub uninterp spec fn u32s(&self) -> Option<Seq<u32>>;
    #[verifier::external_body]
    pub fn as_u64(&self) -> (r: Option<u64>) ensures r == self.u() { unimplemented!() }
    #[verifier::external_body]
    pub fn as_bool(&self) -> (r: Option<bool>) ensures r == self.b() { unimplemented!() }
    #[verifier::external_body]
    pub fn as_str(&self) -> (r: Option<&str>)
        ensures r is Some <==> self.s() is Some, r is Some ==> r->Some_0@ == self.s()->Some_0,
    { unimplemented!() }
    #[verifier::external_body]
    pub fn vx_u32_array(&self) -> (r: Option<Vec<u32>>)
        ensures r is Some <==> self.u32s() is Some, r is Some ==> r->Some_0@ == self.u32s()->Some_0,
    { unimplemented!() }
}
pub uninterp spec fn json_of(s: Seq<char>) -> VxJson;   // the document a text parses to
#[verifier::external_body]
pub fn vx_json_parse(s: &str) -> (r: Result<VxJson, VxJsonErr>) ensures r is Ok ==> r->Ok_0 == json_of(s@) { unimplemented!() }

// regex compilation and the string helpers (R11): the compiled object is a function of its pattern text
pub uninterp spec fn has_rx_chars(s: Seq<char>) -> bool;            // contains_regex_chars
pub uninterp spec fn bre_pat(r: &VxBytesRegex) -> Seq<char>;        // the pattern a regex::bytes::Regex was compiled from
pub uninterp spec fn fancy_pat(r: &VxFancyRegex) -> Seq<char>;
pub uninterp spec fn sre_ci_literal(r: &VxStrRegex) -> Seq<char>;   // RegexBuilder::new(&escape(s)).case_insensitive(true): matches the literal s, ignoring case
pub uninterp spec fn ci_prefixed(s: Seq<char>) -> Seq<char>;        // "(?i)" + s
pub uninterp spec fn char4_of_str(s: Seq<char>) -> DltChar4;        // DltChar4::from_str (at most 4 bytes, zero padded)
#[verifier::external_body]
pub fn contains_regex_chars(s: &str) -> (r: bool) ensures r == has_rx_chars(s@) { unimplemented!() }
#[verifier::external_body]
pub fn vx_char4orregex_from_str(s: &str, is_regex: bool) -> (r: Result<Char4OrRegex, Error>)
    ensures r is Ok ==> c4r_is(r->Ok_0, s@, is_regex),
{ unimplemented!() }
#[verifier::external_body]
pub fn vx_fancy_new(s: &str) -> (r: Result<VxFancyRegex, Error>) ensures r is Ok ==> fancy_pat(&r->Ok_0) == s@ { unimplemented!() }
#[verifier::external_body]
pub fn vx_ci_prefix(s: &str) -> (r: String) ensures r@ == ci_prefixed(s@) { unimplemented!() }
#[verifier::external_body]
pub fn vx_ci_literal_regex(s: &str) -> (r: Result<VxStrRegex, Error>) ensures r is Ok ==> sre_ci_literal(&r->Ok_0) == s@ { unimplemented!() }
#[verifier::external_body]
pub fn vx_to_string(s: &str) -> (r: String) ensures r@ == s@ { unimplemented!() }

// ---------- oracle: what a JSON document says about a filter (from the property and the documented JSON format) ----------
pub open spec fn c4r_is(c: Char4OrRegex, s: Seq<char>, is_regex: bool) -> bool {
    if is_regex { c matches Char4OrRegex::Regex(r) && bre_pat(&r) == s } else { c matches Char4OrRegex::DltChar4(d) && d == char4_of_str(s) }
}
// an id criterion: absent without the key; a regular expression if `<key>IsRegex` says so, else (flag absent) if the text contains
// regex characters; a literal id otherwise
pub open spec fn id_crit_is(c: Option<Char4OrRegex>, j: &VxJson, key: Seq<char>, flag: Seq<char>) -> bool {
    match j.s(key) {
        None => c is None,
        Some(s) => c is Some && c4r_is(c->Some_0, s, match j.b(flag) { Some(b) => b, None => has_rx_chars(s) }),
    }
}
pub open spec fn opt_or(b: Option<bool>, d: bool) -> bool { match b { Some(x) => x, None => d } }
pub open spec fn json_kind(j: &VxJson) -> Option<FilterKind> {
    match j.u("type"@) { Some(0) => Some(FilterKind::Positive), Some(1) => Some(FilterKind::Negative), Some(2) => Some(FilterKind::Marker), Some(3) => Some(FilterKind::Event), _ => None }
}
pub open spec fn json_type_crit(j: &VxJson) -> Option<(u8, u8)> {
    match j.u("verb_mstp_mtin"@) {
        Some(x) => Some(((x & 0xff) as u8, if (((x & 0xff) as u8) >> 4) & 0xfu8 == 0 { 0x0fu8 } else { 0xffu8 })),   // a type byte; the MTIN nibble is ignored when 0
        None => match j.u("mstp"@) { Some(x) => Some((((x & 0x07) << 1) as u8, 0x07u8 << 1)), None => None },                 // only the message type
    }
}
pub open spec fn json_level(j: &VxJson, key: Seq<char>) -> Option<u8> { match j.u(key) { Some(l) => Some(l as u8), None => None } }
pub open spec fn json_level_bad(j: &VxJson, key: Seq<char>) -> bool { j.u(key) is Some && j.u(key)->Some_0 > 6 }
pub open spec fn filter_is_json(f: &Filter, j: &VxJson) -> bool {
    let ic = opt_or(j.b("ignoreCasePayload"@), false);
    &&& Some(f.kind) == json_kind(j)
    &&& f.enabled == opt_or(j.b("enabled"@), true)
    &&& f.negate_match == opt_or(j.b("not"@), false)
    &&& f.at_load_time == opt_or(j.b("atLoadTime"@), false)
    &&& id_crit_is(f.ecu, j, "ecu"@, "ecuIsRegex"@)
    &&& id_crit_is(f.apid, j, "apid"@, "apidIsRegex"@)
    &&& id_crit_is(f.ctid, j, "ctid"@, "ctidIsRegex"@)
    &&& f.ignore_case_payload == ic
    // payload: a regular expression (case-insensitive by the (?i) prefix) takes precedence over a literal text; a literal text that is to
    // be matched ignoring case is compiled to a case-insensitive literal regex, and only then
    &&& (match j.s("payloadRegex"@) {
            Some(s) => f.payload_regex is Some && fancy_pat(&f.payload_regex->Some_0) == (if ic { ci_prefixed(s) } else { s }) && f.payload is None && f.payload_as_regex is None,
            None => f.payload_regex is None && match j.s("payload"@) {
                Some(s) => f.payload is Some && f.payload->Some_0@ == s && (f.payload_as_regex is Some <==> ic) && (ic ==> sre_ci_literal(&f.payload_as_regex->Some_0) == s),
                None => f.payload is None && f.payload_as_regex is None,
            },
        })
    &&& f.loglevel_min == json_level(j, "logLevelMin"@)
    &&& f.loglevel_max == json_level(j, "logLevelMax"@)
    &&& f.verb_mstp_mtin == json_type_crit(j)
    &&& (match j.u32s("lifecycles"@) { Some(l) => f.lifecycles is Some && f.lifecycles->Some_0@ == l, None => f.lifecycles is None })
}
// what Filter::matches needs of a filter (the well-formedness the matching clause relies on)
pub open spec fn filter_wf(f: &Filter) -> bool {
    f.payload_as_regex is Some <==> (f.ignore_case_payload && f.payload is Some && f.payload_regex is None)
}

impl Filter {
//@ extract src/filter/filter_impl.rs Filter::from_json
//@   sub R11 `serde_json::from_str(json_str)` => `vx_json_parse(json_str)`
//@   sub R11 `if v.is_err() { __ }` => `if v.is_err() { return Err(Error::new(ErrorKind::InvalidData(vx_opaque_string()))); }`
//@   sub R11 `let v: Value = v.unwrap();` => `let v: VxJson = v.unwrap();`
//@   sub R11 `v[` => `v.vx_idx(` *
//@   sub R11 `].as_u64()` => `).as_u64()` *
//@   sub R11 `].as_bool()` => `).as_bool()` *
//@   sub R11 `].as_str()` => `).as_str()` *
//@   sub R21 `.unwrap_or_else(|| contains_regex_chars(s))` => `.unwrap_or(contains_regex_chars(s))` *
//@   sub R11 `Char4OrRegex::from_str(` => `vx_char4orregex_from_str(` *
//@   sub R11 `.map_err(__)` => `` *
//@   sub R11 `let s = vx_opaque_string() + s;` => `let s = vx_ci_prefix(s);`
//@   sub R11 `Regex::new(&s)` => `vx_fancy_new(s.as_str())`
//@   sub R11 `Regex::new(s)` => `vx_fancy_new(s)`
//@   sub R11 `s.to_string()` => `vx_to_string(s)`
//@   sub R11 `regex::RegexBuilder::new(&regex::escape(s)) .case_insensitive(true) .build()` => `vx_ci_literal_regex(s)`
//@   sub R11 `].as_array().map(__)` => `).vx_u32_array()`
//@   spec
//@|    ensures
//@|        r is Ok ==> filter_is_json(&r->Ok_0, &json_of(json_str@)), // O:from_json.fields (every field is what the document says, with the documented defaults)
//@|        r is Ok ==> filter_wf(&r->Ok_0), // O:from_json.wf (the filter is well-formed for Filter::matches)
//@|        r is Ok ==> !json_level_bad(&json_of(json_str@), "logLevelMin"@) && !json_level_bad(&json_of(json_str@), "logLevelMax"@), // O:from_json.levels (a log level above 6 is rejected)
//@ end
}
// ---- end of units/filterjson/part.rs ----
