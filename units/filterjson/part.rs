// ---- units/filterjson/part.rs ----
// serde_json::Value (R11/R12): an abstract JSON document. `v[key]` of an object yields the member (Null if absent), `.as_u64()` /
// `.as_bool()` / `.as_str()` / `.as_array()` its typed view: ASSUMED to be functions of the document and the key.
#[verifier::external_body]
pub struct VxJson { _p: u8 }
#[verifier::external_body]
pub struct VxJsonVal { _p: u8 }
#[verifier::external_body]
#[derive(Debug)]
pub struct VxJsonErr { _p: u8 }
impl VxJson {
    pub uninterp spec fn u(&self, key: Seq<char>) -> Option<u64>;
    pub uninterp spec fn b(&self, key: Seq<char>) -> Option<bool>;
    pub uninterp spec fn s(&self, key: Seq<char>) -> Option<Seq<char>>;
    pub uninterp spec fn u32s(&self, key: Seq<char>) -> Option<Seq<u32>>;   // as_array().map(the members that are u64, as u32)
    #[verifier::external_body]
    pub fn vx_idx<'a>(&'a self, key: &str) -> (r: VxJsonVal)
        ensures r.u() == self.u(key@), r.b() == self.b(key@), r.s() == self.s(key@), r.u32s() == self.u32s(key@),
    { unimplemented!() }
}
impl VxJsonVal {
    pub uninterp spec fn u(&self) -> Option<u64>;
    pub uninterp spec fn b(&self) -> Option<bool>;
    pub uninterp spec fn s(&self) -> Option<Seq<char>>;
    pub uninterp spec fn u32s(&self) -> Option<Seq<u32>>;
    #[verifier::external_body]
    pub fn as_u64(&self) -> (r: Option<u64>) ensures r == self.u() { unimplemented!() }
    #[verifier::external_body]
    pub fn as_bool(&self) -> (r: Option<bool>) ensures r == self.b() { unimplemented!() }
    #[verifier::external_body]
    pub fn as_str(&self) -> (r: Option<&str>)
        ensures r is Some <==> self.s() is Some, r is Some ==> r->Some_0@ == self.s()->Some_0,
    { unimplemented!() }
    #[verifier::external_body]
    pub fn vx_u32_array(&self) -> (r: Option<Vec<u32>>)
        ensures r is Some <==> self.u32s() is Some, r is Some ==> r->Some_0@ == self.u32s()->Some_0,
    { unimplemented!() }
}
pub uninterp spec fn json_of(s: Seq<char>) -> VxJson;   // the document a text parses to
#[verifier::external_body]
pub fn vx_json_parse(s: &str) -> (r: Result<VxJson, VxJsonErr>) ensures r is Ok ==> r->Ok_0 == json_of(s@) { unimplemented!() }

// regex compilation and the string helpers (R11): the compiled object is a function of its pattern text
pub uninterp spec fn has_rx_chars(s: Seq<char>) -> bool;            // contains_regex_chars
pub uninterp spec fn bre_pat(r: &VxBytesRegex) -> Seq<char>;        // the pattern a regex::bytes::Regex was compiled from
pub uninterp spec fn fancy_pat(r: &VxFancyRegex) -> Seq<char>;
pub uninterp spec fn sre_ci_literal(r: &VxStrRegex) -> Seq<char>;   // RegexBuilder::new(&escape(s)).case_insensitive(true): matches the literal s, ignoring case
pub uninterp spec fn ci_prefixed(s: Seq<char>) -> Seq<char>;        // "(?i)" + s
pub uninterp spec fn char4_of_str(s: Seq<char>) -> DltChar4;        // DltChar4::from_str (at most 4 bytes, zero padded)
#[verifier::external_body]
pub fn contains_regex_chars(s: &str) -> (r: bool) ensures r == has_rx_chars(s@) { unimplemented!() }
#[verifier::external_body]
pub fn vx_char4orregex_from_str(s: &str, is_regex: bool) -> (r: Result<Char4OrRegex, Error>)
    ensures r is Ok ==> c4r_is(r->Ok_0, s@, is_regex),
{ unimplemented!() }
#[verifier::external_body]
pub fn vx_fancy_new(s: &str) -> (r: Result<VxFancyRegex, Error>) ensures r is Ok ==> fancy_pat(&r->Ok_0) == s@ { unimplemented!() }
#[verifier::external_body]
pub fn vx_ci_prefix(s: &str) -> (r: String) ensures r@ == ci_prefixed(s@) { unimplemented!() }
#[verifier::external_body]
pub fn vx_ci_literal_regex(s: &str) -> (r: Result<VxStrRegex, Error>) ensures r is Ok ==> sre_ci_literal(&r->Ok_0) == s@ { unimplemented!() }
#[verifier::external_body]
pub fn vx_to_string(s: &str) -> (r: String) ensures r@ == s@ { unimplemented!() }

// ---------- oracle: what a JSON document says about a filter (from the property and the documented JSON format) ----------
pub open spec fn c4r_is(c: Char4OrRegex, s: Seq<char>, is_regex: bool) -> bool {
    if is_regex { c matches Char4OrRegex::Regex(r) && bre_pat(&r) == s } else { c matches Char4OrRegex::DltChar4(d) && d == char4_of_str(s) }
}
// an id criterion: absent without the key; a regular expression if `<key>IsRegex` says so, else (flag absent) if the text contains
// regex characters; a literal id otherwise
pub open spec fn id_crit_is(c: Option<Char4OrRegex>, j: &VxJson, key: Seq<char>, flag: Seq<char>) -> bool {
    match j.s(key) {
        None => c is None,
        Some(s) => c is Some && c4r_is(c->Some_0, s, match j.b(flag) { Some(b) => b, None => has_rx_chars(s) }),
    }
}
pub open spec fn opt_or(b: Option<bool>, d: bool) -> bool { match b { Some(x) => x, None => d } }
pub open spec fn json_kind(j: &VxJson) -> Option<FilterKind> {
    match j.u("type"@) { Some(0) => Some(FilterKind::Positive), Some(1) => Some(FilterKind::Negative), Some(2) => Some(FilterKind::Marker), Some(3) => Some(FilterKind::Event), _ => None }
}
pub open spec fn json_type_crit(j: &VxJson) -> Option<(u8, u8)> {
    match j.u("verb_mstp_mtin"@) {
        Some(x) => Some(((x & 0xff) as u8, if (((x & 0xff) as u8) >> 4) & 0xfu8 == 0 { 0x0fu8 } else { 0xffu8 })),   // a type byte; the MTIN nibble is ignored when 0
        None => match j.u("mstp"@) { Some(x) => Some((((x & 0x07) << 1) as u8, 0x07u8 << 1)), None => None },                 // only the message type
    }
}
pub open spec fn json_level(j: &VxJson, key: Seq<char>) -> Option<u8> { match j.u(key) { Some(l) => Some(l as u8), None => None } }
pub open spec fn json_level_bad(j: &VxJson, key: Seq<char>) -> bool { j.u(key) is Some && j.u(key)->Some_0 > 6 }
pub open spec fn filter_is_json(f: &Filter, j: &VxJson) -> bool {
    let ic = opt_or(j.b("ignoreCasePayload"@), false);
    &&& Some(f.kind) == json_kind(j)
    &&& f.enabled == opt_or(j.b("enabled"@), true)
    &&& f.negate_match == opt_or(j.b("not"@), false)
    &&& f.at_load_time == opt_or(j.b("atLoadTime"@), false)
    &&& id_crit_is(f.ecu, j, "ecu"@, "ecuIsRegex"@)
    &&& id_crit_is(f.apid, j, "apid"@, "apidIsRegex"@)
    &&& id_crit_is(f.ctid, j, "ctid"@, "ctidIsRegex"@)
    &&& f.ignore_case_payload == ic
    // payload: a regular expression (case-insensitive by the (?i) prefix) takes precedence over a literal text; a literal text that is to
    // be matched ignoring case is compiled to a case-insensitive literal regex, and only then
    &&& (match j.s("payloadRegex"@) {
            Some(s) => f.payload_regex is Some && fancy_pat(&f.payload_regex->Some_0) == (if ic { ci_prefixed(s) } else { s }) && f.payload is None && f.payload_as_regex is None,
            None => f.payload_regex is None && match j.s("payload"@) {
                Some(s) => f.payload is Some && f.payload->Some_0@ == s && (f.payload_as_regex is Some <==> ic) && (ic ==> sre_ci_literal(&f.payload_as_regex->Some_0) == s),
                None => f.payload is None && f.payload_as_regex is None,
            },
        })
    &&& f.loglevel_min == json_level(j, "logLevelMin"@)
    &&& f.loglevel_max == json_level(j, "logLevelMax"@)
    &&& f.verb_mstp_mtin == json_type_crit(j)
    &&& (match j.u32s("lifecycles"@) { Some(l) => f.lifecycles is Some && f.lifecycles->Some_0@ == l, None => f.lifecycles is None })
}
// what Filter::matches needs of a filter (the well-formedness the matching clause relies on)
pub open spec fn filter_wf(f: &Filter) -> bool {
    f.payload_as_regex is Some <==> (f.ignore_case_payload && f.payload is Some && f.payload_regex is None)
}

impl Filter {
//@ extract src/filter/filter_impl.rs Filter::from_json
//@   sub R11 `serde_json::from_str(json_str)` => `vx_json_parse(json_str)`
//@   sub R11 `if v.is_err() { __ }` => `if v.is_err() { return Err(Error::new(ErrorKind::InvalidData(vx_opaque_string()))); }` ?
//@   sub R11 `: Value` => `: VxJson` *
//@   sub R11 `v[` => `v.vx_idx(` *
//@   sub R11 `].as_u64()` => `).as_u64()` *
//@   sub R11 `].as_bool()` => `).as_bool()` *
//@   sub R11 `].as_str()` => `).as_str()` *
//@   sub R21 `.unwrap_or_else(|| contains_regex_chars(s))` => `.unwrap_or(contains_regex_chars(s))` *
//@   sub R11 `Char4OrRegex::from_str(` => `vx_char4orregex_from_str(` *
//@   sub R11 `.map_err(__)` => `` *
//@   sub R11 `let s = vx_opaque_string() + s;` => `let s = vx_ci_prefix(s);`
//@   sub R11 `Regex::new(&s)` => `vx_fancy_new(s.as_str())`
//@   sub R11 `Regex::new(s)` => `vx_fancy_new(s)`
//@   sub R11 `s.to_string()` => `vx_to_string(s)`
//@   sub R11 `regex::RegexBuilder::new(&regex::escape(s)) .case_insensitive(true) .build()` => `vx_ci_literal_regex(s)`
//@   sub R11 `].as_array().map(__)` => `).vx_u32_array()`
//@   spec
//@|    ensures
//@|        r is Ok ==> filter_is_json(&r->Ok_0, &json_of(json_str@)), // O:from_json.fields (every field is what the document says, with the documented defaults)
//@|        r is Ok ==> filter_wf(&r->Ok_0), // O:from_json.wf (the filter is well-formed for Filter::matches)
//@|        r is Ok ==> !json_level_bad(&json_of(json_str@), "logLevelMin"@) && !json_level_bad(&json_of(json_str@), "logLevelMax"@), // O:from_json.levels (a log level above 6 is rejected)
//@ end
}

// ---- front-end: the ECU:APID:CTID expression of `adlt convert` (EacFilter::from_str, src/bin/adlt/convert.rs) ----
// `s.split(':')` and three times `.next().unwrap_or_default()` (R11): the first three ':'-separated parts of the text, "" if absent
pub uninterp spec fn colon_part(s: Seq<char>, k: int) -> Seq<char>;
#[verifier::external_body]
pub fn vx_colon_parts(s: &str) -> (r: (&str, &str, &str))
    ensures r.0@ == colon_part(s@, 0), r.1@ == colon_part(s@, 1), r.2@ == colon_part(s@, 2),
{ unimplemented!() }
#[verifier::external_body]
pub fn vx_str_is_empty(s: &str) -> (r: bool) ensures r == (s@.len() == 0) { unimplemented!() }
pub struct EacFilter { pub filter: Filter }
// an enabled, not negated filter of the given kind without any criterion other than ids
pub open spec fn ids_only(f: &Filter, kind: FilterKind) -> bool {
    f.kind == kind && f.enabled && !f.at_load_time && !f.negate_match && f.verb_mstp_mtin is None && f.payload is None && f.payload_regex is None
        && !f.ignore_case_payload && f.payload_as_regex is None && f.loglevel_min is None && f.loglevel_max is None && f.lifecycles is None
}
// an id criterion of the expression: absent for an empty part, else a regular expression iff the text contains regex characters
pub open spec fn eac_crit_is(c: Option<Char4OrRegex>, part: Seq<char>) -> bool {
    if part.len() == 0 { c is None } else { c is Some && c4r_is(c->Some_0, part, has_rx_chars(part)) }
}
impl EacFilter {
//@ extract src/bin/adlt/convert.rs EacFilter::from_str
//@   sub R11 `let mut parts = s.split(':');` => `let vx_parts = vx_colon_parts(s);`
//@   sub R11 `let ecu = parts.next().unwrap_or_default();` => `let ecu = vx_parts.0;`
//@   sub R11 `let apid = parts.next().unwrap_or_default();` => `let apid = vx_parts.1;`
//@   sub R11 `let ctid = parts.next().unwrap_or_default();` => `let ctid = vx_parts.2;`
//@   sub R11 `s.is_empty()` => `vx_str_is_empty(s)`
//@   sub R11 `ecu.is_empty()` => `vx_str_is_empty(ecu)`
//@   sub R11 `apid.is_empty()` => `vx_str_is_empty(apid)`
//@   sub R11 `ctid.is_empty()` => `vx_str_is_empty(ctid)`
//@   sub R11 `Char4OrRegex::from_str(` => `vx_char4orregex_from_str(` *
//@   sub R2 `adlt::filter::FilterKind::Positive` => `FilterKind::Positive`
//@   spec
//@|    ensures
//@|        r is Ok ==> ({
//@|            let f = r->Ok_0.filter;
//@|            eac_crit_is(f.ecu, colon_part(s@, 0)) && eac_crit_is(f.apid, colon_part(s@, 1)) && eac_crit_is(f.ctid, colon_part(s@, 2)) && ids_only(&f, FilterKind::Positive)
//@|        }), // O:eac.fields (ECU:APID:CTID: a positive filter with exactly the non-empty parts as id criteria)
//@ end
}

// ---- front-end equivalence (the property's second sentence, for JSON and the ECU:APID:CTID expression) ----
// ASSUMED about the regex crate: whether a compiled regex matches is a function of the pattern it was compiled from
pub uninterp spec fn rx_matches(pat: Seq<char>, b: Seq<u8>) -> bool;
#[verifier::external_body]
pub proof fn axiom_bre_match_by_pattern(r: &VxBytesRegex, b: Seq<u8>)
    ensures bre_match(r, b) == rx_matches(bre_pat(r), b),
{}
// two id criteria built from the same text with the same literal/regex decision accept the same ids
pub proof fn lemma_same_id_crit(c1: Char4OrRegex, c2: Char4OrRegex, s: Seq<char>, rx: bool, id: Seq<u8>)
    requires c4r_is(c1, s, rx), c4r_is(c2, s, rx),
    ensures id_ok(Some(c1), id) == id_ok(Some(c2), id),
{
    if rx {
        axiom_bre_match_by_pattern(&c1->Regex_0, id);
        axiom_bre_match_by_pattern(&c2->Regex_0, id);
    }
}
// A JSON document that says the same as an ECU:APID:CTID expression - a positive filter, the non-empty parts as "ecu"/"apid"/"ctid",
// no explicit IsRegex flags, nothing else - yields a filter that decides every message like the one built from the expression.
pub open spec fn json_says_eac(j: &VxJson, e: Seq<char>) -> bool {
    &&& j.u("type"@) == Some(0u64)
    &&& j.b("enabled"@) is None && j.b("not"@) is None
    &&& j.s("ecu"@) == (if colon_part(e, 0).len() == 0 { None::<Seq<char>> } else { Some(colon_part(e, 0)) }) && j.b("ecuIsRegex"@) is None
    &&& j.s("apid"@) == (if colon_part(e, 1).len() == 0 { None::<Seq<char>> } else { Some(colon_part(e, 1)) }) && j.b("apidIsRegex"@) is None
    &&& j.s("ctid"@) == (if colon_part(e, 2).len() == 0 { None::<Seq<char>> } else { Some(colon_part(e, 2)) }) && j.b("ctidIsRegex"@) is None
    &&& j.s("payloadRegex"@) is None && j.s("payload"@) is None && j.u("logLevelMin"@) is None && j.u("logLevelMax"@) is None
    &&& j.u("verb_mstp_mtin"@) is None && j.u("mstp"@) is None && j.u32s("lifecycles"@) is None
}
pub proof fn theorem_json_eac_same_decision(fj: &Filter, j: &VxJson, fe: &Filter, e: Seq<char>, m: &DltMessage)
    requires
        filter_is_json(fj, j), json_says_eac(j, e),
        eac_crit_is(fe.ecu, colon_part(e, 0)) && eac_crit_is(fe.apid, colon_part(e, 1)) && eac_crit_is(fe.ctid, colon_part(e, 2)) && ids_only(fe, FilterKind::Positive),
    ensures spec_matches(fj, m) == spec_matches(fe, m), // O:frontends.json_eac (the same abstract filter decides identically whether loaded from JSON or from an ECU:APID:CTID expression)
{
    let p0 = colon_part(e, 0); let p1 = colon_part(e, 1); let p2 = colon_part(e, 2);
    if p0.len() > 0 { lemma_same_id_crit(fj.ecu->Some_0, fe.ecu->Some_0, p0, has_rx_chars(p0), m.ecu.char4@); }
    if m.extended_header is Some {
        if p1.len() > 0 { lemma_same_id_crit(fj.apid->Some_0, fe.apid->Some_0, p1, has_rx_chars(p1), m.extended_header->Some_0.apid.char4@); }
        if p2.len() > 0 { lemma_same_id_crit(fj.ctid->Some_0, fe.ctid->Some_0, p2, has_rx_chars(p2), m.extended_header->Some_0.ctid.char4@); }
    }
}

// ---- front-end: dlt-viewer filter files (DLF). Filter::from_quick_xml_reader first collects the child elements of <filter> into a
// map element name -> text (quick_xml event loop: not modelled), then builds the filter from that map: this second part, from
// `if let Some(s) = attrs.get("type")` to the end, is the statement range under contract. ----
#[verifier::external_body]
pub struct VxAttrs { m: std::collections::HashMap<String, String> }
impl VxAttrs {
    pub uninterp spec fn a(&self, key: Seq<char>) -> Option<Seq<char>>;
    #[verifier::external_body]
    pub fn get(&self, key: &str) -> (r: Option<&String>)
        ensures r is Some <==> self.a(key@) is Some, r is Some ==> r->Some_0@ == self.a(key@)->Some_0,
    { unimplemented!() }
    // `attrs.get(key) == Some(&"1".to_string())`
    #[verifier::external_body]
    pub fn vx_flag(&self, key: &str) -> (r: bool) ensures r == (self.a(key@) == Some("1"@)) { unimplemented!() }
}
#[verifier::external_body]
pub fn vx_str_is_one(s: &String) -> (r: bool) ensures r == (s@ == "1"@) { unimplemented!() }
pub uninterp spec fn parse_u8(s: Seq<char>) -> Option<u8>;   // str::parse::<u8>().ok()
#[verifier::external_body]
pub fn vx_parse_u8(s: &String) -> (r: Option<u8>) ensures r == parse_u8(s@) { unimplemented!() }
#[verifier::external_body]
pub fn vx_string_clone(s: &String) -> (r: String) ensures r@ == s@ { unimplemented!() }

pub open spec fn flag(a: &VxAttrs, key: Seq<char>) -> bool { a.a(key) == Some("1"@) }
// an id criterion of a DLF filter: present iff enabled and given and compilable; a regular expression iff the regexp flag element is
// "1" or - element absent - the text contains regex characters (the ECU id is always literal)
pub open spec fn dlf_id_crit_is(c: Option<Char4OrRegex>, a: &VxAttrs, enable: Seq<char>, key: Seq<char>, rx: Option<Seq<char>>) -> bool {
    if flag(a, enable) && a.a(key) is Some {
        let s = a.a(key)->Some_0;
        let is_rx = match rx { None => false, Some(k) => match a.a(k) { Some(v) => v == "1"@, None => has_rx_chars(s) } };
        c is Some ==> c4r_is(c->Some_0, s, is_rx)
    } else { c is None }
}
pub open spec fn dlf_level(a: &VxAttrs, enable: Seq<char>, key: Seq<char>) -> Option<u8> {
    if flag(a, enable) && a.a(key) is Some && parse_u8(a.a(key)->Some_0) is Some && parse_u8(a.a(key)->Some_0)->Some_0 <= 6 { parse_u8(a.a(key)->Some_0) } else { None }
}
pub open spec fn filter_is_dlf(f: &Filter, a: &VxAttrs) -> bool {
    let ic = flag(a, "enablepayloadtext"@) && flag(a, "ignoreCase_Payload"@);
    &&& f.kind == (match a.a("type"@) { Some(s) => match parse_u8(s) { Some(1u8) => FilterKind::Negative, Some(2u8) => FilterKind::Marker, Some(3u8) => FilterKind::Event, _ => FilterKind::Positive }, None => FilterKind::Positive })
    &&& f.enabled == flag(a, "enablefilter"@)
    &&& !f.negate_match && !f.at_load_time && f.lifecycles is None
    &&& dlf_id_crit_is(f.ecu, a, "enableecuid"@, "ecuid"@, None)
    &&& dlf_id_crit_is(f.apid, a, "enableapplicationid"@, "applicationid"@, Some("enableregexp_Appid"@))
    &&& dlf_id_crit_is(f.ctid, a, "enablecontextid"@, "contextid"@, Some("enableregexp_Context"@))
    &&& f.verb_mstp_mtin == (if flag(a, "enablecontrolmsgs"@) { Some((0x03u8 << 1, 7u8 << 1)) } else { None::<(u8, u8)> })
    &&& f.ignore_case_payload == ic
    &&& (if flag(a, "enablepayloadtext"@) && a.a("payloadtext"@) is Some {
            let s = a.a("payloadtext"@)->Some_0;
            if flag(a, "enableregexp_Payload"@) {
                f.payload is None && f.payload_as_regex is None && (f.payload_regex is Some ==> fancy_pat(&f.payload_regex->Some_0) == (if ic { ci_prefixed(s) } else { s }))
            } else {
                f.payload_regex is None && f.payload is Some && f.payload->Some_0@ == s && (f.payload_as_regex is Some ==> sre_ci_literal(&f.payload_as_regex->Some_0) == s)
            }
        } else { f.payload is None && f.payload_regex is None && f.payload_as_regex is None })
    &&& f.loglevel_max == dlf_level(a, "enableLogLevelMax"@, "logLevelMax"@)
    &&& f.loglevel_min == dlf_level(a, "enableLogLevelMin"@, "logLevelMin"@)
}
impl Filter {
//@ extract src/filter/filter_impl.rs region `if let Some(s) = attrs.get("type") {` .. `$end` in Filter::from_quick_xml_reader
//@   sig pub fn dlf_from_attrs(mut filter: Filter, attrs: &VxAttrs) -> (r: Result<Filter, Error>)
//@   sub R11 `attrs.get("enablefilter") == Some(&vx_opaque_string())` => `attrs.vx_flag("enablefilter")`
//@   sub R11 `attrs.get("enableecuid") == Some(&vx_opaque_string())` => `attrs.vx_flag("enableecuid")`
//@   sub R11 `attrs.get("enableapplicationid") == Some(&vx_opaque_string())` => `attrs.vx_flag("enableapplicationid")`
//@   sub R11 `attrs.get("enablecontextid") == Some(&vx_opaque_string())` => `attrs.vx_flag("enablecontextid")`
//@   sub R11 `attrs.get("enablecontrolmsgs") == Some(&vx_opaque_string())` => `attrs.vx_flag("enablecontrolmsgs")`
//@   sub R11 `attrs.get("enablepayloadtext") == Some(&vx_opaque_string())` => `attrs.vx_flag("enablepayloadtext")`
//@   sub R11 `attrs.get("ignoreCase_Payload") == Some(&vx_opaque_string())` => `attrs.vx_flag("ignoreCase_Payload")`
//@   sub R11 `attrs.get("enableregexp_Payload") == Some(&vx_opaque_string())` => `attrs.vx_flag("enableregexp_Payload")`
//@   sub R11 `attrs.get("enableLogLevelMax") == Some(&vx_opaque_string())` => `attrs.vx_flag("enableLogLevelMax")`
//@   sub R11 `attrs.get("enableLogLevelMin") == Some(&vx_opaque_string())` => `attrs.vx_flag("enableLogLevelMin")`
//@   sub R11 `ir == &vx_opaque_string()` => `vx_str_is_one(ir)` x2
//@   sub R11 `s.parse::<u8>().unwrap_or_default()` => `vx_parse_u8(s).unwrap_or(0)`
//@   sub R11 `s.parse::<u8>().unwrap_or(0xff)` => `vx_parse_u8(s).unwrap_or(0xff)` x2
//@   sub R11 `Char4OrRegex::from_str(` => `vx_char4orregex_from_str(` *
//@   sub R11 `let s = vx_opaque_string() + s;` => `let s = vx_ci_prefix(s);`
//@   sub R11 `Regex::new(&s)` => `vx_fancy_new(s.as_str())`
//@   sub R11 `Regex::new(s)` => `vx_fancy_new(s)`
//@   sub R11 `s.clone()` => `vx_string_clone(s)`
//@   sub R11 `regex::RegexBuilder::new(&regex::escape(s)) .case_insensitive(true) .build()` => `vx_ci_literal_regex(s)`
//@   sub R11 `.map_err(__)` => `` *
//@   spec
//@|    requires filter.plain(FilterKind::Positive) && filter.apid is None && filter.ctid is None, // Filter::new(FilterKind::Positive)
//@|    ensures
//@|        r is Ok ==> filter_is_dlf(&r->Ok_0, attrs), // O:dlf.fields (every field is what the filter file says)
//@|        r is Ok ==> filter_wf(&r->Ok_0), // O:dlf.wf (the filter is well-formed for Filter::matches: a literal payload text is matched ignoring case only if the file says so)
//@ end
}
// ---- end of units/filterjson/part.rs ----
