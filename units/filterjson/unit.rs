//@ unit filterjson
// C11 (front-end clause, JSON): Filter::from_json builds exactly the filter the JSON document describes.
#![allow(unused_imports, dead_code, unused_variables, unused_mut, non_upper_case_globals)]
use vstd::prelude::*;
verus! {
global size_of usize == 8;

//@ smtopt smt.case_split=0
//@ include prelude/std_specs.rs
//@ include units/dltcore/part.rs
//@ include units/filter/char4eq.rs
//@ include units/filter/part.rs
//@ include units/filterjson/part.rs

fn main() {}
} // verus!
