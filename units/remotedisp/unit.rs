//@ unit remotedisp
// C15 (one reply per command, state consistent with the reply): `process_incoming_text_message` (src/bin/adlt/remote.rs), the
// command dispatcher of the remote server, as a whole.
#![allow(unused_imports, dead_code, unused_variables, unused_mut, non_upper_case_globals)]
use vstd::prelude::*;
verus! {
global size_of usize == 8;

//@ include prelude/std_specs.rs
//@ include units/remotedisp/part.rs

fn main() {}
} // verus!
