// ---- units/remotedisp/part.rs ----
// ---------- R12 models ----------
// Reply texts (rule R6r): a text built inside `Message::Text(..)` keeps its class: 1 = starts with "ok:", 2 = starts with "err:",
// 3 = the unknown-command notice, 0 = anything else.
pub struct VxReplyText { pub kind: u8 }
pub fn vx_reply_text(k: u8) -> (r: VxReplyText) ensures r.kind == k { VxReplyText { kind: k } }
pub enum Message { Text(VxReplyText), Binary(Vec<u8>) }
#[derive(Debug)]
pub struct VxWsErr { pub _p: u8 }
// tungstenite::WebSocket<T>: the frames written so far. ASSUMED: a write on the connection succeeds (the repository unwraps the
// result: a failed write ends the connection thread, not the server; that case is not decided here).
#[verifier::external_body]
pub struct VxWs { _p: u8 }
impl VxWs {
    pub uninterp spec fn sent(&self) -> Seq<u8>;      // reply classes of the text frames written, in order
    #[verifier::external_body]
    pub fn write_message(&mut self, m: Message) -> (r: Result<(), VxWsErr>)
        ensures r is Ok, m is Text ==> final(self).sent() == old(self).sent().push(m->Text_0.kind), m is Binary ==> final(self).sent() == old(self).sent(),
            final(self).script() == old(self).script(),   // writing does not consume what the client sends
    { unimplemented!() }
}
#[verifier::external_body]
pub struct VxLogger { _p: u8 }
#[derive(Debug)]
pub struct VxErr { pub _p: u8 }

// str routines (R11: std, documented contracts)
#[verifier::external_body]
pub fn vx_splitn2_space<'a>(s: &'a String) -> (r: Vec<&'a str>) ensures 1 <= r@.len() <= 2, r@[0] == spec_cmd_word(*s) { s.splitn(2, ' ').collect() }
// the command word of a request text: everything before the first blank
pub uninterp spec fn spec_cmd_word(s: String) -> &'static str;
#[verifier::external_body]
pub fn vx_split_space<'a>(s: &'a str) -> (r: Vec<&'a str>) ensures 1 <= r@.len() { s.split(' ').collect() }
#[verifier::external_body]
pub fn vx_parse_u32(s: &str) -> (r: Result<u32, VxErr>) { unimplemented!() }
#[verifier::external_body]
pub fn vx_parse_u64_or_default(s: &str) -> (r: u64) { unimplemented!() }
#[verifier::external_body]
pub fn vx_parse_usize_or_0(s: &str) -> (r: usize) { unimplemented!() }
#[verifier::external_body]
pub fn vx_str_eq(a: &str, b: &str) -> (r: bool) ensures r == (a == b) { a == b }
#[verifier::external_body]
pub fn vx_parse_window(s: &str) -> (r: Option<(usize, usize)>) { unimplemented!() }
#[verifier::external_body]
pub fn vx_split_once<'a>(s: &'a str, c: char) -> (r: Option<(&'a str, &'a str)>) { s.split_once(c) }

// the pieces of FileContext the dispatcher touches
#[verifier::external_body]
pub struct VxPendingExtract { _p: u8 }
impl VxPendingExtract {
    #[verifier::external_body]
    pub fn cancel(&self) { unimplemented!() }
}
//@ extract src/bin/adlt/remote.rs enum CollectMode
//@   derive PartialEq => PartialEq, Eq, Structural
//@ end
pub struct StreamContext {
    pub id: u32,
    pub one_pass: bool,
    pub filters_active: bool,
    pub filtered_msgs: Vec<usize>,
    pub msgs_to_send: std::ops::Range<usize>,
    pub msgs_sent: std::ops::Range<usize>,
}
pub uninterp spec fn spec_fresh_id(old_id: u32) -> u32;
impl StreamContext {
    #[verifier::external_body]
    pub fn from(log: &VxLogger, command: &str, params: &str) -> (r: Result<StreamContext, VxErr>)
        ensures r is Ok ==> r->Ok_0.filtered_msgs@.len() == 0,   // a new stream has not selected anything yet
    { unimplemented!() }
    #[verifier::external_body]
    pub fn new_id(&mut self)
        ensures final(self).id == spec_fresh_id(old(self).id), final(self).one_pass == old(self).one_pass,
            final(self).filters_active == old(self).filters_active, final(self).filtered_msgs == old(self).filtered_msgs,
            final(self).msgs_to_send == old(self).msgs_to_send, final(self).msgs_sent == old(self).msgs_sent,
    { unimplemented!() }
}
// the parser threads of an open file: close drains the last channel until every sender is gone, then joins
#[verifier::external_body]
pub struct VxAtomicBool { _p: u8 }
impl VxAtomicBool {
    #[verifier::external_body]
    pub fn store(&self, v: bool, o: VxOrdering) { unimplemented!() }
}
pub enum VxOrdering { Relaxed }
pub enum VxTryRecvError { Empty, Disconnected }
#[verifier::external_body]
pub struct VxRx { _p: u8 }
impl VxRx {
    #[verifier::external_body]
    pub fn try_recv(&self) -> (r: Result<u8, VxTryRecvError>) { unimplemented!() }
}
#[verifier::external_body]
pub struct VxJoinHandle { _p: u8 }
impl VxJoinHandle {
    #[verifier::external_body]
    pub fn join(self) -> (r: Result<u8, VxErr>) { unimplemented!() }
}
#[verifier::external_body]
pub fn vx_sleep_ms(ms: u64) { unimplemented!() }
pub struct VxParserThread {
    pub shall_stop: VxAtomicBool,
    pub parse_thread: VxJoinHandle,
    pub lc_thread: VxJoinHandle,
    pub sort_thread: Option<VxJoinHandle>,
    pub rx: VxRx,
}
#[verifier::external_body]
pub struct VxMsg { _p: u8 }
pub struct FileContext {
    pub all_msgs: Vec<VxMsg>,
    pub plugin_states: Vec<(u32, VxPluginStateLock)>,
    pub pending_extract: Option<VxPendingExtract>,
    pub parsing_thread: Option<VxParserThread>,
    pub collect_mode: CollectMode,
    pub streams: Vec<StreamContext>,
    pub paused: bool,
}
impl FileContext {
    #[verifier::external_body]
    pub fn from(log: &VxLogger, command: &str, params: &str) -> (r: Result<FileContext, VxErr>)
        ensures r is Ok ==> r->Ok_0.streams@.len() == 0,   // a freshly opened file has no streams
    { unimplemented!() }
    #[verifier::external_body]
    pub fn create_parser_thread(&mut self, log: &VxLogger)
        ensures final(self).streams == old(self).streams, final(self).paused == old(self).paused, final(self).collect_mode == old(self).collect_mode,
            final(self).all_msgs == old(self).all_msgs,
    { unimplemented!() }
}
pub open spec fn ids_of(s: Seq<StreamContext>) -> Seq<u32> { Seq::new(s.len(), |i: int| s[i].id) }
#[verifier::external_body]
pub fn vx_position_by_id(streams: &Vec<StreamContext>, id: u32) -> (r: Option<usize>)
    ensures
        r is Some ==> r->Some_0 < streams@.len() && streams@[r->Some_0 as int].id == id,
        r is None ==> forall|i: int| 0 <= i < streams@.len() ==> streams@[i].id != id,
{ unimplemented!() }

// ---------- process_stream_search_params: errs before it answers, answers exactly once when it succeeds ----------
pub enum VxJson { Null, Number(VxJsonNumber), Array(Vec<VxJson>), Other }
#[verifier::external_body]
pub struct VxJsonNumber { _p: u8 }
impl VxJsonNumber {
    #[verifier::external_body]
    pub fn as_u64(&self) -> (r: Option<u64>) { unimplemented!() }
}
impl VxJson {
    #[verifier::external_body]
    pub fn to_string(&self) -> (r: String) { unimplemented!() }
}
#[verifier::external_body]
pub fn vx_json_parse(s: &str) -> (r: Result<VxJson, std::io::Error>) { unimplemented!() }
#[verifier::external_body]
pub fn vx_json_index<'a>(v: &'a VxJson, key: &str) -> (r: &'a VxJson) { unimplemented!() }
#[verifier::external_body]
pub struct Filter { _p: u8 }
impl Filter {
    #[verifier::external_body]
    pub fn from_json(s: &String) -> (r: Result<Filter, std::io::Error>) { unimplemented!() }
    #[verifier::external_body]
    pub fn vx_enabled(&self) -> (r: bool) { unimplemented!() }
}
#[verifier::external_body]
pub struct VxFilterSets { _p: u8 }
impl VxFilterSets {
    #[verifier::external_body]
    pub fn vx_default() -> (r: VxFilterSets) { unimplemented!() }
    #[verifier::external_body]
    pub fn vx_push_by_kind(&mut self, f: Filter) { unimplemented!() }
}
// Vec::with_capacity(n): panics on capacity overflow and asks the allocator for n elements up front: an obligation "bounded, not the
// client's number" (the same bound as for the FLST pre-allocation, C03: at most 2^20 elements)
#[verifier::external_body]
pub fn vx_vec_with_capacity_u32(n: usize) -> (r: Vec<u32>)
    requires n <= 0x10_0000, // O:cmd.search.prealloc_bounded
    ensures r@.len() == 0,
{ Vec::with_capacity(n) }
#[verifier::external_body]
pub fn match_filters(msg: &VxMsg, filters: &VxFilterSets) -> (r: bool) { unimplemented!() }
pub type DltMessageIndexType = u32;
pub open spec fn stream_wf(stream: &StreamContext, n_all: int) -> bool {
    forall|i: int| 0 <= i < stream.filtered_msgs@.len() ==> #[trigger] stream.filtered_msgs@[i] < n_all
}
//@ extract src/bin/adlt/remote.rs fn process_stream_search_params
//@   rules R1 R2 R4 R5 R6
//@   sub R12 `<T: Read + Write>` => ``
//@   sub R12 `log: &slog::Logger` => `log: &VxLogger`
//@   sub R12 `websocket: &mut WebSocket<T>` => `websocket: &mut VxWs`
//@   sub R12 `all_msgs: &[adlt::dlt::DltMessage]` => `all_msgs: &Vec<VxMsg>`
//@   sub R12 `Result<(), Box<dyn std::error::Error>>` => `Result<(), std::io::Error>`
//@   sub R12 `serde_json::from_str::<serde_json::Value>(params_json)` => `vx_json_parse(params_json)`
//@   sub R12 `&v["start_idx"]` => `vx_json_index(&v, "start_idx")`
//@   sub R12 `&v["max_results"]` => `vx_json_index(&v, "max_results")`
//@   sub R12 `&v["filters"]` => `vx_json_index(&v, "filters")`
//@   sub R12 `serde_json::Value::` => `VxJson::` *
//@   sub R3 `.into()` => `` x3
//@   sub R12 `let mut filters: FilterKindContainer<Vec<Filter>> = Default::default();` => `let mut filters: VxFilterSets = VxFilterSets::vx_default();`
//@   sub R12 `if filter_struct.enabled {` => `if filter_struct.vx_enabled() {`
//@   sub R12 `filters[filter_struct.kind].push(filter_struct);` => `filters.vx_push_by_kind(filter_struct);`
//@   sub R12 `let msg: &adlt::dlt::DltMessage = &all_msgs[msg_idx];` => `let msg: &VxMsg = &all_msgs[msg_idx];`
//@   sub R11 `Vec::with_capacity(` => `vx_vec_with_capacity_u32(` ?
//@   sub R3 `std::cmp::min(` => `vx_min_usize(` ?
//@   spec
//@|    requires
//@|        stream_wf(stream, all_msgs@.len() as int),
//@|    ensures
//@|        r is Ok ==> final(websocket).sent() == old(websocket).sent().push(1u8), // O:cmd.search.ok_answers_once
//@|        r is Err ==> final(websocket).sent() == old(websocket).sent(), // O:cmd.search.err_answers_not
//@|        final(websocket).script() == old(websocket).script(),
//@   loop inner `filter_struct`
//@|    invariant websocket.sent() == old(websocket).sent(), websocket.script() == old(websocket).script(),
//@   loop inner `match_filters(`
//@|    invariant websocket.sent() == old(websocket).sent(), websocket.script() == old(websocket).script(), stream_wf(stream, all_msgs@.len() as int),
//@|        stream_msgs_len == (if stream.filters_active { stream.filtered_msgs@.len() } else { all_msgs@.len() }),
//@|    decreases stream_msgs_len - i,
//@ end
#[verifier::external_body]
pub fn binary_search_by_msg_index(idx: u32, fc: &FileContext, stream: &StreamContext) -> (r: Result<usize, VxErr>) { unimplemented!() }
#[verifier::external_body]
pub fn binary_search_by_time_us(t: u64, fc: &FileContext, stream: &StreamContext) -> (r: usize) { unimplemented!() }
#[verifier::external_body]
pub fn vx_parse_u32_or_default(s: &str) -> (r: u32) { unimplemented!() }
// serde_json (R12): only the shape questions the dispatcher asks
#[verifier::external_body]
pub struct VxJsonValue { _p: u8 }
#[verifier::external_body]
pub struct VxJsonMap { _p: u8 }
#[verifier::external_body]
pub fn vx_json_from_str(s: &str) -> (r: Result<VxJsonValue, VxErr>) { unimplemented!() }
impl VxJsonValue {
    #[verifier::external_body]
    pub fn as_object(&self) -> (r: Option<&VxJsonMap>) { unimplemented!() }
}
impl VxJsonMap {
    pub uninterp spec fn has(&self, key: &str) -> bool;
    // `map[key]` (serde_json::Map: Index panics when the key is missing)
    #[verifier::external_body]
    pub fn vx_index(&self, key: &str) -> (r: &VxJsonValue) requires self.has(key) { unimplemented!() }
}
impl VxJsonValue {
    #[verifier::external_body]
    pub fn as_str(&self) -> (r: Option<&str>) { unimplemented!() }
}
#[verifier::external_body]
pub fn vx_json_get_str<'a>(m: &'a VxJsonMap, key: &str) -> (r: Option<&'a str>) { unimplemented!() }
#[verifier::external_body]
pub fn vx_json_get_object<'a>(m: &'a VxJsonMap, key: &str) -> (r: Option<&'a VxJsonMap>) { unimplemented!() }
#[verifier::external_body]
pub fn process_fs_cmd(log: &VxLogger, params: &VxJsonMap) -> (r: Result<VxJsonValue, VxErr>) { unimplemented!() }
// Arc<RwLock<PluginState>>: read() hands out the state; the name stored in its json value; the command callback
#[verifier::external_body]
pub struct VxPluginStateLock { _p: u8 }
#[derive(Clone, Copy)]
pub struct VxApplyFn { pub _p: u8 }
#[verifier::external_body]
pub struct VxInternalData { _p: u8 }
pub struct VxPluginStateGuard { pub apply_command: Option<VxApplyFn>, pub internal_data: VxInternalData, pub value: VxJsonValue }
impl VxPluginStateLock {
    #[verifier::external_body]
    pub fn read(&self) -> (r: Result<VxPluginStateGuard, VxErr>) ensures r is Ok { unimplemented!() }
}
#[verifier::external_body]
pub fn vx_plugin_state_name<'a>(ps: &'a VxPluginStateGuard) -> (r: Option<&'a str>) { unimplemented!() }
#[verifier::external_body]
pub fn vx_call_apply_command(f: VxApplyFn, d: &VxInternalData, cmd: &str, params: Option<&VxJsonMap>, ctx: Option<&VxJsonMap>) -> (r: VxJsonValue) { unimplemented!() }

// ---------- the `fs` handler's archive branch (fs_cmd_archive): crash freedom ----------
// str routines (R11). `full_path.splitn(2, "!/")`: one piece (the whole text) or two; `ends_with('!')`: the last byte is `!`;
// `&s[..s.len() - 1]`: needs a non-empty text that ends on a character boundary there
pub uninterp spec fn spec_ends_with_bang(s: &str) -> bool;
#[verifier::external_body]
pub fn vx_splitn2_bang_slash<'a>(s: &'a str) -> (r: Vec<&'a str>) ensures 1 <= r@.len() <= 2, r@.len() == 1 ==> r@[0] == s { unimplemented!() }
#[verifier::external_body]
pub fn vx_ends_with_bang(s: &str) -> (r: bool) ensures r == spec_ends_with_bang(s) { unimplemented!() }
#[verifier::external_body]
pub fn vx_str_len(s: &str) -> (r: usize) ensures spec_ends_with_bang(s) ==> r >= 1 { unimplemented!() }
#[verifier::external_body]
pub fn vx_str_prefix<'a>(s: &'a str, n: usize) -> (r: &'a str) requires spec_ends_with_bang(s), n + 1 == vx_spec_len(s) { unimplemented!() }
pub uninterp spec fn vx_spec_len(s: &str) -> nat;
#[verifier::external_body]
pub fn vx_str_len2(s: &str) -> (r: usize) ensures r == vx_spec_len(s), spec_ends_with_bang(s) ==> r >= 1 { unimplemented!() }
//@ extract src/bin/adlt/remote.rs region `let uri = full_path` .. `let (archive_path, path_within) = match uri.len() {` in fn fs_cmd_archive
//@   sig pub fn fs_archive_split<'a>(full_path: &'a str) -> (r: Result<(&'a str, &'a str), std::io::Error>)
//@   tail `Ok((archive_path, path_within))`
//@   sub R11 `full_path.splitn(2, "!/").collect::<Vec<&str>>()` => `vx_splitn2_bang_slash(full_path)`
//@   sub R11 `full_path.ends_with('!')` => `vx_ends_with_bang(full_path)` ?
//@   sub R11 `&uri[0][..uri[0].len() - 1]` => `vx_str_prefix(uri[0], vx_str_len2(uri[0]) - 1)` ?
//@   sub R3 `.into()` => `` *
//@   spec
//@|    ensures true, // O:fs.archive.split_no_panic (indexing the pieces and cutting the trailing `!` cannot panic)
//@ end
#[verifier::external_body]
pub struct VxSource { _p: u8 }
#[verifier::external_body]
pub struct VxPathBuf { _p: u8 }
// listing an archive can fail (not an archive, truncated, unreadable): Result
#[verifier::external_body]
pub fn vx_list_archive(source: &mut VxSource, p: &VxPathBuf) -> (r: Result<Vec<String>, std::io::Error>) { unimplemented!() }
#[verifier::external_body]
pub fn vx_is_single_data(files: &Vec<String>) -> (r: bool) { unimplemented!() }
#[verifier::external_body]
pub fn archive_contents_metadata(files: &Vec<String>, path: &str) -> (r: Result<(u8, usize), std::io::Error>) { unimplemented!() }
#[verifier::external_body]
pub fn vx_opaque_json() -> (r: VxJsonValue) { unimplemented!() }
//@ extract src/bin/adlt/remote.rs region `return match cmd {` .. `return match cmd {` in fn fs_cmd_archive
//@   sig pub fn fs_archive_cmd(cmd: &str, mut source: VxSource, archive_path: VxPathBuf, path_within: &str) -> (r: Result<VxJsonValue, std::io::Error>)
//@   tail `#[allow(unreachable_code)] { Ok(vx_opaque_json()) }`
//@   sub R11 `list_archive_contents_cached(&mut source, &archive_path.to_string_lossy())` => `vx_list_archive(&mut source, &archive_path)` *
//@   sub R11 `files.len() == 1 && files[0] == "data"` => `vx_is_single_data(&files)` *
//@   cut R11 `let archive_name = archive_path` ?
//@   cut R11 `let entries: Vec<_> = archive_contents_read_dir` ?
//@   sub R6 `serde_json::json!(__)` => `vx_opaque_json()` *
//@   sub R3 `.into()` => `` *
//@   spec
//@|    ensures true, // O:fs.archive.no_panic (whatever the file with the archive name contains, the command is answered, not crashed)
//@ end

// ---------- the property, per command ----------
// k = class of the one reply (1 ok, 2 err, 3 unknown command); f0/f1 = the file context before/after
pub open spec fn one_reply(s0: Seq<u8>, s1: Seq<u8>) -> bool {
    s1.len() == s0.len() + 1 && s1.drop_last() =~= s0 && (s1.last() == 1 || s1.last() == 2 || s1.last() == 3)
}
pub open spec fn known_cmd(c: &str) -> bool {
    c == "open" || c == "pause" || c == "resume" || c == "close" || c == "stream" || c == "query" || c == "stop" || c == "stream_binary_search"
        || c == "stream_change_window" || c == "stream_search" || c == "plugin_cmd" || c == "fs"
}
pub open spec fn same_but_streams(a: FileContext, b: FileContext) -> bool {
    a.all_msgs == b.all_msgs && a.plugin_states == b.plugin_states && a.pending_extract == b.pending_extract && a.parsing_thread == b.parsing_thread
        && a.collect_mode == b.collect_mode && a.paused == b.paused
}
pub open spec fn same_but_paused(a: FileContext, b: FileContext) -> bool {
    a.all_msgs == b.all_msgs && a.plugin_states == b.plugin_states && a.pending_extract == b.pending_extract && a.parsing_thread == b.parsing_thread
        && a.collect_mode == b.collect_mode && a.streams == b.streams
}
pub open spec fn stream_added(s0: Seq<StreamContext>, s1: Seq<StreamContext>) -> bool { s1.len() == s0.len() + 1 && s1.drop_last() =~= s0 }
pub open spec fn stream_removed(s0: Seq<StreamContext>, s1: Seq<StreamContext>) -> bool { exists|pos: int| 0 <= pos < s0.len() && s1 == #[trigger] s0.remove(pos) }
pub open spec fn stream_renumbered(s0: Seq<StreamContext>, s1: Seq<StreamContext>) -> bool {
    s1.len() == s0.len() && exists|pos: int| 0 <= pos < s0.len() && #[trigger] s1[pos].id == spec_fresh_id(s0[pos].id) && s1[pos].one_pass == s0[pos].one_pass
        && forall|i: int| 0 <= i < s0.len() && i != pos ==> s1[i] == s0[i]
}
// "unchanged": as far as the state is modelled (a Vec is compared by its content)
pub open spec fn fc_same(f0: Option<FileContext>, f1: Option<FileContext>) -> bool {
    (f0 is Some <==> f1 is Some) && (f0 is Some ==> same_but_streams(f0->Some_0, f1->Some_0) && f0->Some_0.streams@ =~= f1->Some_0.streams@)
}
// the index invariant of a stream (every selected position lies inside all_msgs; established by process_stream_new_msgs, unit
// streamidx, C16): the dispatcher relies on it when it searches, and keeps it
pub open spec fn fc_wf(f: Option<FileContext>) -> bool {
    f is Some ==> forall|i: int| 0 <= i < f->Some_0.streams@.len() ==> stream_wf(&#[trigger] f->Some_0.streams@[i], f->Some_0.all_msgs@.len() as int)
}
pub open spec fn st_err(c: &str, k: u8, f0: Option<FileContext>, f1: Option<FileContext>) -> bool { k != 1 ==> fc_same(f0, f1) }
pub open spec fn st_unknown(c: &str, k: u8) -> bool { k == 3 <==> !known_cmd(c) }
pub open spec fn st_open(c: &str, k: u8, f0: Option<FileContext>, f1: Option<FileContext>) -> bool {
    c == "open" ==> (k == 1 ==> f0 is None && f1 is Some) && (f0 is Some ==> k == 2)
}
pub open spec fn st_close(c: &str, k: u8, f0: Option<FileContext>, f1: Option<FileContext>) -> bool {
    c == "close" ==> f1 is None && (k == 1 <==> f0 is Some)
}
pub open spec fn st_only_open_close(c: &str, f0: Option<FileContext>, f1: Option<FileContext>) -> bool {
    c != "open" && c != "close" ==> (f1 is Some <==> f0 is Some)
}
pub open spec fn st_streams(c: &str, k: u8, f0: Option<FileContext>, f1: Option<FileContext>) -> bool {
    &&& ((c == "stream" || c == "query") && k == 1 ==> f0 is Some && f1 is Some && same_but_streams(f0->Some_0, f1->Some_0) && stream_added(f0->Some_0.streams@, f1->Some_0.streams@))
    &&& (c == "stop" && k == 1 ==> f0 is Some && f1 is Some && same_but_streams(f0->Some_0, f1->Some_0) && stream_removed(f0->Some_0.streams@, f1->Some_0.streams@))
    &&& (c == "stream_change_window" && k == 1 ==> f0 is Some && f1 is Some && same_but_streams(f0->Some_0, f1->Some_0) && stream_renumbered(f0->Some_0.streams@, f1->Some_0.streams@))
}
pub open spec fn st_pause(c: &str, k: u8, f0: Option<FileContext>, f1: Option<FileContext>) -> bool {
    (c == "pause" || c == "resume") ==> (k == 1 <==> f0 is Some) && (k == 1 ==> f1 is Some && same_but_paused(f0->Some_0, f1->Some_0) && f1->Some_0.paused == (c == "pause"))
}
pub open spec fn st_readonly(c: &str, f0: Option<FileContext>, f1: Option<FileContext>) -> bool {
    c == "stream_search" || c == "stream_binary_search" || c == "plugin_cmd" || c == "fs" ==> fc_same(f0, f1)
}
pub open spec fn st_needs_file(c: &str, k: u8, f0: Option<FileContext>) -> bool {
    (c == "stream" || c == "query" || c == "stop" || c == "stream_search" || c == "stream_binary_search" || c == "stream_change_window" || c == "plugin_cmd") && f0 is None ==> k == 2
}

pub assume_specification<T> [std::option::Option::<T>::replace] (o: &mut std::option::Option<T>, v: T) -> (r: std::option::Option<T>)
    ensures *final(o) == Some(v), r == *old(o);

//@ extract src/bin/adlt/remote.rs fn process_incoming_text_message
//@   attr #[verifier::exec_allows_no_decreases_clause]
//@   rules R1 R2 R4 R5 R6
//@   sub R12 `<T: Read + Write>` => ``
//@   sub R12 `log: &slog::Logger` => `log: &VxLogger`
//@   sub R12 `websocket: &mut WebSocket<T>` => `websocket: &mut VxWs`
//@   sub R11 `t.splitn(2, ' ').collect()` => `vx_splitn2_space(&t)`
//@   sub R11 `params.split(' ').collect::<Vec<_>>()` => `vx_split_space(params)`
//@   sub R11 `param0.parse::<u32>()` => `vx_parse_u32(param0)`
//@   sub R6 `serde_json::json!(fc .plugins_active .iter() .map(|p| p.name()) .collect::<Vec<&str>>())` => `vx_opaque_string()`
//@   sub R11 `fc.streams.iter().position(|x| x.id == id)` => `vx_position_by_id(&fc.streams, id)`
//@   sub R11 `what.parse::<DltMessageIndexType>() .unwrap_or_default()` => `vx_parse_u32_or_default(what)`
//@   sub R11 `what .parse::<u64>() .unwrap_or_default()` => `vx_parse_u64_or_default(what)`
//@   sub R12 `serde_json::from_str::<serde_json::Value>(params)` => `vx_json_from_str(params)` x2
//@   sub R12 `params.get("cmd").and_then(serde_json::Value::as_str)` => `vx_json_get_str(params, "cmd")` ?
//@   sub R12 `params.get("name").and_then(serde_json::Value::as_str)` => `vx_json_get_str(params, "name")` ?
//@   sub R12 `params .get("params") .and_then(serde_json::Value::as_object)` => `vx_json_get_object(params, "params")` ?
//@   sub R12 `params .get("cmdCtx") .and_then(serde_json::Value::as_object)` => `vx_json_get_object(params, "cmdCtx")` ?
//@   sub R12 `plugin_state .value .as_object() .and_then(|s| s.get("name")) .and_then(serde_json::Value::as_str)` => `vx_plugin_state_name(&plugin_state)` ?
//@   sub R12 `std::sync::atomic::Ordering::Relaxed` => `VxOrdering::Relaxed`
//@   sub R12 `std::sync::mpsc::TryRecvError::` => `VxTryRecvError::` x2
//@   sub R12 `std::thread::sleep(std::time::Duration::from_millis(10));` => `vx_sleep_ms(10);`
//@   sub R12 `let r = apply_command(` => `let r = vx_call_apply_command(apply_command,`
//@   sub R12 `params[__]` => `params.vx_index($1)` ?
//@   sub R11 `window_text.split_once(',').map(|(s, e)| { ( s.parse::<usize>().unwrap_or(0), e.parse::<usize>().unwrap_or(0), ) })` => `vx_parse_window(window_text)`
//@   sub R11 `search_text.split_once('=')` => `vx_split_once(search_text, '=')`
//@   sub R11 `params.split_once(' ')` => `vx_split_once(params, ' ')`
//@   sub R11 `fc.paused = command == "pause";` => `fc.paused = vx_str_eq(command, "pause");`
//@   spec
//@|    requires
//@|        fc_wf(*old(file_context)),
//@|    ensures
//@|        fc_wf(*final(file_context)), // O:cmd.state.wf
//@|        one_reply(old(websocket).sent(), final(websocket).sent()), // O:cmd.one_reply
//@|        final(websocket).script() == old(websocket).script(),
//@|        st_err(spec_cmd_word(t), final(websocket).sent().last(), *old(file_context), *final(file_context)), // O:cmd.state.not_ok_changes_nothing
//@|        st_unknown(spec_cmd_word(t), final(websocket).sent().last()), // O:cmd.state.unknown
//@|        st_open(spec_cmd_word(t), final(websocket).sent().last(), *old(file_context), *final(file_context)), // O:cmd.state.open
//@|        st_close(spec_cmd_word(t), final(websocket).sent().last(), *old(file_context), *final(file_context)), // O:cmd.state.close
//@|        st_only_open_close(spec_cmd_word(t), *old(file_context), *final(file_context)), // O:cmd.state.only_open_close
//@|        st_streams(spec_cmd_word(t), final(websocket).sent().last(), *old(file_context), *final(file_context)), // O:cmd.state.streams
//@|        st_pause(spec_cmd_word(t), final(websocket).sent().last(), *old(file_context), *final(file_context)), // O:cmd.state.pause
//@|        st_readonly(spec_cmd_word(t), *old(file_context), *final(file_context)), // O:cmd.state.readonly
//@|        st_needs_file(spec_cmd_word(t), final(websocket).sent().last(), *old(file_context)), // O:cmd.state.needs_file
//@   loop inner `parsing_thread.rx.try_recv()`
//@|    invariant websocket.sent() == old(websocket).sent(), websocket.script() == old(websocket).script(),
//@   loop inner `vx_plugin_state_name(`
//@|    invariant_except_break
//@|        !found_plugin,
//@|    invariant
//@|        websocket.script() == old(websocket).script(),
//@|        !found_plugin ==> websocket.sent() == old(websocket).sent(),
//@|        found_plugin ==> one_reply(old(websocket).sent(), websocket.sent()) && websocket.sent().last() != 3,
//@ end

// ---------- the event loop of a connection: every command text that is read is answered exactly once ----------
// R12: the reading side of the websocket is a finite script of events (what the client and the read timeout produce); after the script
// the connection is gone (a read error that is not a timeout). `process_file_context` (its sending step is under contract in unit
// streamsearch, C16) writes status / stream-data frames only - binary frames, or text frames that are no replies (class 0) - and keeps
// the stream index invariant (ASSUMED here).
pub enum VxEv { Timeout, Text(String), Binary, Frame, Close, Ping, Pong, Gone }
pub enum VxInMsg { Text(String), Binary(Vec<u8>), Frame(Vec<u8>), Close(u8), Ping(u8), Pong(u8) }
#[derive(Debug)]
pub enum VxRdErr { Timeout, Other }
impl VxWs {
    pub uninterp spec fn script(&self) -> Seq<VxEv>;
    #[verifier::external_body]
    pub fn read_message(&mut self) -> (r: Result<VxInMsg, VxRdErr>)
        ensures
            final(self).sent() == old(self).sent(),
            old(self).script().len() == 0 ==> r == Err::<VxInMsg, VxRdErr>(VxRdErr::Other) && final(self).script() == old(self).script(),
            old(self).script().len() > 0 ==> final(self).script() == old(self).script().skip(1) && (match old(self).script()[0] {
                VxEv::Timeout => r == Err::<VxInMsg, VxRdErr>(VxRdErr::Timeout),
                VxEv::Text(t) => r == Ok::<VxInMsg, VxRdErr>(VxInMsg::Text(t)),
                VxEv::Binary => r is Ok && r->Ok_0 is Binary,
                VxEv::Frame => r is Ok && r->Ok_0 is Frame,
                VxEv::Close => r is Ok && r->Ok_0 is Close,
                VxEv::Ping => r is Ok && r->Ok_0 is Ping,
                VxEv::Pong => r is Ok && r->Ok_0 is Pong,
                VxEv::Gone => r == Err::<VxInMsg, VxRdErr>(VxRdErr::Other),
            }),
    { unimplemented!() }
}
pub open spec fn n_replies(s: Seq<u8>) -> nat decreases s.len() {
    if s.len() == 0 { 0 } else { n_replies(s.drop_last()) + (if s.last() != 0 { 1nat } else { 0nat }) }
}
pub open spec fn texts_in(ev: Seq<VxEv>) -> nat decreases ev.len() {
    if ev.len() == 0 { 0 } else { texts_in(ev.drop_last()) + (if ev.last() is Text { 1nat } else { 0nat }) }
}
#[verifier::external_body]
pub fn process_file_context(log: &VxLogger, fc: &mut FileContext, websocket: &mut VxWs) -> (r: Result<(), VxWsErr>)
    requires fc_wf(Some(*old(fc))),
    ensures fc_wf(Some(*final(fc))), n_replies(final(websocket).sent()) == n_replies(old(websocket).sent()), final(websocket).script() == old(websocket).script(),
{ unimplemented!() }
pub proof fn lemma_one_reply_counts(s0: Seq<u8>, s1: Seq<u8>)
    requires one_reply(s0, s1),
    ensures n_replies(s1) == n_replies(s0) + 1,
{
    assert(s1.drop_last() =~= s0);
}
pub proof fn lemma_texts_step(ev: Seq<VxEv>, n: int)
    requires 0 <= n < ev.len(),
    ensures texts_in(ev.take(n + 1)) == texts_in(ev.take(n)) + (if ev[n] is Text { 1nat } else { 0nat }),
{
    assert(ev.take(n + 1).drop_last() =~= ev.take(n));
}
//@ extract src/bin/adlt/remote.rs region `loop { if let Some(ref mut fc) = file_context {` .. `loop { if let Some(ref mut fc) = file_context {` in fn remote
//@   sig #[verifier::loop_isolation(false)] #[verifier::allow_complex_invariants] pub fn connection_loop(log: VxLogger, mut websocket: VxWs, mut file_context: Option<FileContext>, mut last_all_msgs_len: usize) -> (r: (VxWs, Ghost<int>))
//@   tail `(websocket, Ghost(n_ev))`
//@   sub R12 `tungstenite::Error::Io(ref e) if e.kind() == std::io::ErrorKind::WouldBlock || e.kind() == std::io::ErrorKind::TimedOut` => `VxRdErr::Timeout`
//@   sub R12 `Message::` => `VxInMsg::` *
//@   sub R12 `ctx.all_msgs.len()` => `ctx.all_msgs.len()` ?
//@   spec
//@|    requires fc_wf(file_context),
//@|    ensures
//@|        0 <= r.1@ <= websocket.script().len() && r.0.script() == websocket.script().skip(r.1@),
//@|        n_replies(r.0.sent()) == n_replies(websocket.sent()) + texts_in(websocket.script().take(r.1@)), // O:cmd.loop.one_reply_each (over the whole connection: as many replies as command texts read - every command is answered exactly once, nothing else is a reply)
//@   hint start
//@|    let ghost ev0 = websocket.script();
//@|    let ghost sent0 = websocket.sent();
//@|    let ghost mut n_ev: int = 0;
//@|    proof { assert(ev0.take(0) =~= Seq::<VxEv>::empty()); }
//@   hint after `let msg = websocket.read_message();`
//@|    proof {
//@|        if n_ev < ev0.len() { lemma_texts_step(ev0, n_ev); assert(ev0.skip(n_ev).skip(1) =~= ev0.skip(n_ev + 1)); n_ev = n_ev + 1; }
//@|    }
//@|    let ghost sent_b = websocket.sent();
//@   hint after `process_incoming_text_message(&log, t, &mut file_context, &mut websocket)`
//@|    ; proof { if one_reply(sent_b, websocket.sent()) { lemma_one_reply_counts(sent_b, websocket.sent()); } }
//@   loop inner `websocket.read_message()`
//@|    invariant
//@|        0 <= n_ev <= ev0.len(), websocket.script() == ev0.skip(n_ev), fc_wf(file_context),
//@|        n_replies(websocket.sent()) == n_replies(sent0) + texts_in(ev0.take(n_ev)), // O:cmd.loop.inv
//@|    decreases ev0.len() - n_ev,
//@ end
