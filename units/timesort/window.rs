// ---- units/timesort/window.rs ----
// The sliding-window closure `update_max_buffering_delays` of buffer_sort_messages (closure #2), presented as a function (R18): the
// captured `max_buffering_delays`, `windows_size_secs`, `min_buffer_delay_us` become parameters. C10: the release threshold it
// returns is never below the configured minimum delay; C03: none of its unwraps can fail, no arithmetic overflows.
// the local struct of buffer_sort_messages (two plain fields; written out here because a local item cannot be extracted on its own)
pub struct MaxBufferDelayEntry { pub start_time: u64, pub max_buffering_delay: u64 }
// VecDeque<MaxBufferDelayEntry> (R11/R12): assumed contract of the operations used
#[verifier::external_body]
pub struct VxWin { d: std::collections::VecDeque<MaxBufferDelayEntry> }
impl VxWin {
    pub uninterp spec fn w(&self) -> Seq<MaxBufferDelayEntry>;
    #[verifier::external_body] pub fn clear(&mut self) ensures final(self).w().len() == 0 { unimplemented!() }
    #[verifier::external_body] pub fn is_empty(&self) -> (r: bool) ensures r == (self.w().len() == 0) { unimplemented!() }
    #[verifier::external_body] pub fn len(&self) -> (r: usize) ensures r == self.w().len() { unimplemented!() }
    #[verifier::external_body] pub fn back(&self) -> (r: Option<&MaxBufferDelayEntry>)
        ensures r is Some <==> self.w().len() > 0, r is Some ==> *r->Some_0 == self.w().last() { unimplemented!() }
    #[verifier::external_body] pub fn front(&self) -> (r: Option<&MaxBufferDelayEntry>)
        ensures r is Some <==> self.w().len() > 0, r is Some ==> *r->Some_0 == self.w()[0] { unimplemented!() }
    #[verifier::external_body] pub fn back_mut(&mut self) -> (r: Option<&mut MaxBufferDelayEntry>)
        ensures
            old(self).w().len() == 0 ==> r is None && final(self).w() == old(self).w(),
            old(self).w().len() > 0 ==> r is Some && *r->Some_0 == old(self).w().last() && final(self).w() == old(self).w().drop_last().push(*final(r->Some_0)),
    { unimplemented!() }
    #[verifier::external_body] pub fn pop_front(&mut self) -> (r: Option<MaxBufferDelayEntry>)
        ensures old(self).w().len() == 0 ==> r is None && final(self).w() == old(self).w(),
            old(self).w().len() > 0 ==> r == Some(old(self).w()[0]) && final(self).w() == old(self).w().skip(1),
    { unimplemented!() }
    #[verifier::external_body] pub fn push_back(&mut self, e: MaxBufferDelayEntry) ensures final(self).w() == old(self).w().push(e) { unimplemented!() }
    // `.iter().max_by_key(|x| x.max_buffering_delay).unwrap().max_buffering_delay`: the largest delay in the window
    #[verifier::external_body] pub fn vx_max_delay(&self) -> (r: u64)
        requires self.w().len() > 0, // max_by_key(..).unwrap() on an empty window would panic
        ensures forall|i: int| 0 <= i < self.w().len() ==> (#[trigger] self.w()[i]).max_buffering_delay <= r, exists|i: int| 0 <= i < self.w().len() && (#[trigger] self.w()[i]).max_buffering_delay == r,
    { unimplemented!() }
}
// HashMap<DltChar4, (LifecycleId, VecDeque<..>, u64)>: `entry(ecu).or_insert_with(|| (lifecycle_id, VecDeque::with_capacity(..), 0))`
pub open spec fn win_ok(e: (u32, VxWin, u64), window: int) -> bool {
    e.1.w().len() <= window && forall|i: int| 0 <= i < e.1.w().len() ==> (#[trigger] e.1.w()[i]).start_time <= T_B()
}
#[verifier::external_body]
pub struct VxDelayMap { m: std::collections::HashMap<u32, (u32, std::collections::VecDeque<MaxBufferDelayEntry>, u64)> }
impl VxDelayMap {
    pub uninterp spec fn all_ok(&self, window: int) -> bool;   // every entry satisfies win_ok
    #[verifier::external_body]
    pub fn vx_entry(&mut self, ecu: DltChar4, lifecycle_id: u32, cap: usize) -> (r: &mut (u32, VxWin, u64))
        ensures
            old(self).all_ok(cap as int) ==> win_ok(*r, cap as int),
            win_ok(*final(r), cap as int) && old(self).all_ok(cap as int) ==> final(self).all_ok(cap as int),
    { unimplemented!() }
}
//@ extract src/utils/mod.rs closure fn buffer_sort_messages#2
//@   sig pub fn window_update(max_buffering_delays: &mut VxDelayMap, windows_size_secs: u8, min_buffer_delay_us: u64, max_buffer_time_us: u64, ecu: &DltChar4, lifecycle_id: &u32, msg_reception_time_us: u64, buffering_delay: u64) -> (r: u64)
//@   sub R11 `max_buffering_delays.entry(*ecu).or_insert_with(__)` => `max_buffering_delays.vx_entry(*ecu, *lifecycle_id, windows_size_secs as usize)`
//@   sub R2 `crate::utils::US_PER_SEC` => `US_PER_SEC` *
//@   sub R11 `entry .1 .iter() .max_by_key(|x| x.max_buffering_delay) .unwrap() .max_buffering_delay` => `entry.1.vx_max_delay()`
//@   sub R11 `{ let x = max_buffering_delays __ }` => `vx_window_max()`
//@   spec
//@|    requires
//@|        windows_size_secs >= 1, // O:window.size (checked against the call sites: `3`)
//@|        old(max_buffering_delays).all_ok(windows_size_secs as int),
//@|        msg_reception_time_us <= T_B(), min_buffer_delay_us <= 0x2000_0000_0000_0000, min_buffer_delay_us <= max_buffer_time_us <= 0x4000_0000_0000_0000,
//@|    ensures
//@|        r >= min_buffer_delay_us, // O:sort.threshold.closure_min (the release threshold is never below the configured minimum delay)
//@|        r <= 0x4000_0000_0000_0000,
//@|        final(max_buffering_delays).all_ok(windows_size_secs as int), // O:window.bounded (a window holds at most windows_size_secs entries)
//@ end
// the window size handed to buffer_sort_messages at its call sites (precondition O:window.size of the closure: with 0 the first
// message would pop from an empty window: `front().unwrap()`)
//@ callsite src/bin/adlt/convert.rs adlt::utils::buffer_sort_messages arg 4 name VX_WINDOW_CONVERT type u8 ensure `$v >= 1`
//@ callsite src/bin/adlt/remote.rs adlt::utils::buffer_sort_messages arg 4 name VX_WINDOW_REMOTE type u8 ensure `$v >= 1`
// The lifecycle start-time cache `get_lc_start_time` (closure #1): BTreeMap<LifecycleId, u64> in front of the evmap read handle.
// C10 needs the start time used for a lifecycle id to be a function of the id for the duration of the call: a cached value is
// never replaced.
#[verifier::external_body]
pub struct VxLcCache { m: std::collections::BTreeMap<u32, u64> }
impl VxLcCache {
    pub uninterp spec fn m(&self) -> Map<u32, u64>;
    #[verifier::external_body]
    pub fn get(&self, k: &u32) -> (r: Option<&u64>) ensures r is Some <==> self.m().dom().contains(*k), r is Some ==> *r->Some_0 == self.m()[*k] { unimplemented!() }
    #[verifier::external_body]
    pub fn insert(&mut self, k: u32, v: u64) -> (r: Option<u64>) ensures final(self).m() == old(self).m().insert(k, v) { unimplemented!() }
}
// `match lcs_r.read() { Some(map) => match map.get_one(x) { Some(l) => l.start_time, None => 0 }, None => 0 }`: whatever the table says now
#[verifier::external_body]
pub fn vx_table_start_time(x: &u32) -> (r: u64) { unimplemented!() }
//@ extract src/utils/mod.rs closure fn buffer_sort_messages#1
//@   sig pub fn lc_start_cached(lc_map: &mut VxLcCache, x: &u32) -> (r: u64)
//@   sub R11 `match lcs_r.read() { __ }` => `vx_table_start_time(x)`
//@   spec
//@|    ensures
//@|        old(lc_map).m().dom().contains(*x) ==> r == old(lc_map).m()[*x] && final(lc_map).m() == old(lc_map).m(), // O:sort.cache.hit (a cached start time is used and never replaced)
//@|        !old(lc_map).m().dom().contains(*x) ==> final(lc_map).m() == old(lc_map).m().insert(*x, r), // O:sort.cache.miss (the value read is cached)
//@|        forall|k: u32| #[trigger] old(lc_map).m().dom().contains(k) ==> final(lc_map).m().dom().contains(k) && final(lc_map).m()[k] == old(lc_map).m()[k], // O:sort.cache.stable (during a call the start time used for a lifecycle id does not change)
//@ end
// ---- end of units/timesort/window.rs ----
